"""Engine Z, real arrays: the truncation rule of bond_ops.retained_bond_indices for all spectra.

The function body is executed symbolically from its AST with a 1-D real-array domain: every NumPy call
is replaced by its assumed contract (DESIGN 3.2) stated as quantified facts over z3 arrays
(norm, elementwise division and square, argsort = sorting permutation, gather, cumsum, scatter,
comparison with a scalar, where).  The postconditions (clauses (a)-(f) of DESIGN section 5, C12) are then
proved as a lemma chain; inductions are generated explicitly (base + step), z3 only sees first-order VCs.
"""
import ast, itertools, time
import z3
from . import loader
from .contract import Verdict
from .symexec import Exec, Unsupported, Refuted, State, Obligation
from .smt import check_unsat

_n = itertools.count(1)
R = z3.RealSort(); I = z3.IntSort()


class RArr:
    """1-D array of reals (or ints) of length n with element function a: Int -> Real"""
    is_rarr = True
    def __init__(self, a, n, kind='real'):
        self.a = a; self.n = n; self.kind = kind

class Perm(RArr):
    """sorting permutation with inverse"""
    def __init__(self, a, n, inv, of):
        super().__init__(a, n, 'perm'); self.inv = inv; self.of = of

class Mask:
    def __init__(self, pred, n):
        self.pred = pred; self.n = n

class IndexSet:
    """result of np.where(mask)[0]: the increasing vector of indices satisfying pred"""
    def __init__(self, pred, n):
        self.pred = pred; self.n = n; self.empty = False

class EmptyIndexSet(IndexSet):
    def __init__(self):
        self.pred = lambda i: z3.BoolVal(False); self.n = z3.IntVal(0); self.empty = True


def fa(name, sort=R):
    return z3.Function(f'{name}{next(_n)}', I, sort)

def rng(i, n):
    return z3.And(i >= 0, i < n)


def np_norm(ex, st, node, args, kw):
    s = args[0]
    w = z3.Real(f'w{next(_n)}')
    i = z3.Int('i')
    # contract: w >= 0; w == 0 iff all entries are zero
    st.pc.append(w >= 0)
    st.pc.append(z3.Implies(w == 0, z3.ForAll([i], z3.Implies(rng(i, s.n), s.a(i) == 0))))
    st.pc.append(z3.Implies(z3.ForAll([i], z3.Implies(rng(i, s.n), s.a(i) == 0)), w == 0))
    st.env['#norm'] = (w, s)
    return w

def np_abs(ex, st, node, args, kw):
    x = args[0]
    out = fa('abs'); i = z3.Int('i')
    st.pc.append(z3.ForAll([i], z3.Implies(rng(i, x.n), out(i) == z3.If(x.a(i) >= 0, x.a(i), -x.a(i)))))
    return RArr(out, x.n)

def np_max(ex, st, node, args, kw):
    """np.max of a non-empty real array: an upper bound that is attained"""
    x = args[0]
    M = z3.Real(f'max{next(_n)}'); arg = z3.Int(f'argmax{next(_n)}'); i = z3.Int('i')
    st.pc.append(z3.Implies(x.n > 0, z3.And(rng(arg, x.n), M == x.a(arg), z3.ForAll([i], z3.Implies(rng(i, x.n), x.a(i) <= M)))))
    return M

def np_frexp(ex, st, node, args, kw):
    """np.frexp(x) = (mantissa, exponent) with x = mantissa * 2**exponent, 0.5 <= |mantissa| < 1 (x != 0); only the exponent is used"""
    x = args[0]
    if not z3.is_expr(x):
        raise Unsupported('frexp of a non-scalar')
    return (z3.Real(f'mant{next(_n)}'), z3.Int(f'expo{next(_n)}'))

def np_ldexp(ex, st, node, args, kw):
    """np.ldexp(s, e) = s * 2**e: multiplication of every entry by one positive constant"""
    x, e = args
    if not getattr(x, 'is_rarr', False):
        raise Unsupported('ldexp of a non-array')
    c = z3.Real(f'pow2_{next(_n)}'); i = z3.Int('i')
    out = fa('scaled')
    st.pc.append(c > 0)
    st.pc.append(z3.ForAll([i], z3.Implies(rng(i, x.n), out(i) == x.a(i) * c)))
    return RArr(out, x.n)

def r_neg(ex, st, node, v):
    if z3.is_expr(v):
        return -v
    raise Unsupported('negation (real-array domain)')

def r_len(ex, st, node, args, kw):
    v = args[0]
    if getattr(v, 'is_rarr', False):
        return v.n
    raise Unsupported('len (real-array domain)')

def r_ifexp(ex, st, e):
    c = ex.ev(e.test, st)
    a = ex.ev(e.body, st); b = ex.ev(e.orelse, st)
    if z3.is_expr(c) and all(z3.is_expr(v) or isinstance(v, (int, float)) for v in (a, b)):
        return z3.If(c, a, b)
    raise Unsupported('conditional expression (real-array domain)')

def r_binop(ex, st, node, op, l, r):
    i = z3.Int('i')
    if getattr(l, 'is_rarr', False) and z3.is_expr(r) and isinstance(op, ast.Div):
        out = fa('div')
        st.pc.append(z3.ForAll([i], z3.Implies(rng(i, l.n), out(i) * r == l.a(i))))
        res = RArr(out, l.n); res.div_of = (l, r)
        return res
    if getattr(l, 'is_rarr', False) and isinstance(op, ast.Pow) and r == 2:
        out = fa('sq')
        st.pc.append(z3.ForAll([i], z3.Implies(rng(i, l.n), z3.And(out(i) == l.a(i) * l.a(i), out(i) >= 0))))
        res = RArr(out, l.n); res.sq_of = l
        # normalisation contract: if l = s / norm(s) then the squares sum to one (used by cumsum below)
        if hasattr(l, 'div_of') and '#norm' in st.env and l.div_of[1] is st.env['#norm'][0] and l.div_of[0] is st.env['#norm'][1]:
            res.sums_to_one = True
        return res
    return NotImplemented

def np_argsort(ex, st, node, args, kw):
    s = args[0]
    p = fa('p', I); inv = fa('r', I)
    k, l, i = z3.Ints('k l i')
    st.pc.append(z3.ForAll([k], z3.Implies(rng(k, s.n), z3.And(rng(p(k), s.n), inv(p(k)) == k))))
    st.pc.append(z3.ForAll([i], z3.Implies(rng(i, s.n), z3.And(rng(inv(i), s.n), p(inv(i)) == i))))
    st.pc.append(z3.ForAll([k, l], z3.Implies(z3.And(0 <= k, k <= l, l < s.n), s.a(p(k)) <= s.a(p(l)))))
    return Perm(p, s.n, inv, s)

def r_getitem(ex, st, node, base, key):
    if getattr(base, 'is_rarr', False) and isinstance(key, Perm):
        out = fa('g'); k = z3.Int('k')
        st.pc.append(z3.ForAll([k], z3.Implies(rng(k, base.n), out(k) == base.a(key.a(k)))))
        res = RArr(out, base.n); res.gather = (base, key)
        if getattr(base, 'sums_to_one', False):
            res.sums_to_one = True       # a permutation does not change the sum (reindexing of a finite sum: assumed)
        return res
    if isinstance(base, tuple) and isinstance(key, int):
        return base[key]
    raise Unsupported('subscript (real-array domain)')

def np_cumsum(ex, st, node, args, kw):
    g = args[0]
    c = fa('c'); k = z3.Int('k')
    st.pc.append(z3.Implies(g.n > 0, c(0) == g.a(0)))
    st.pc.append(z3.ForAll([k], z3.Implies(z3.And(k >= 1, k < g.n), c(k) == c(k - 1) + g.a(k))))
    res = RArr(c, g.n); res.cumsum_of = g
    if getattr(g, 'sums_to_one', False):
        st.pc.append(z3.Implies(g.n > 0, c(g.n - 1) == 1))
    return res

def r_setitem(ex, st, node, base, key, v):
    if getattr(base, 'is_rarr', False) and isinstance(key, Perm) and getattr(v, 'is_rarr', False):
        out = fa('sc'); k = z3.Int('k'); i = z3.Int('i')
        # scatter through a permutation defines every entry
        st.pc.append(z3.ForAll([k], z3.Implies(rng(k, base.n), out(key.a(k)) == v.a(k))))
        st.pc.append(z3.ForAll([i], z3.Implies(rng(i, base.n), out(i) == v.a(key.inv(i)))))
        res = RArr(out, base.n); res.scatter = (key, v)
        return res
    raise Unsupported('store (real-array domain)')

def r_compare(ex, st, node, op, l, r):
    if getattr(l, 'is_rarr', False) and (z3.is_expr(r) or isinstance(r, (int, float))):
        f = {ast.Gt: lambda a: a > r, ast.GtE: lambda a: a >= r, ast.Lt: lambda a: a < r, ast.LtE: lambda a: a <= r}.get(type(op))
        if f is None:
            raise Unsupported('array comparison')
        return Mask(lambda i: f(l.a(i)), l.n)
    return NotImplemented

def np_where(ex, st, node, args, kw):
    m = args[0]
    if isinstance(m, Mask):
        return (IndexSet(m.pred, m.n),)
    raise Unsupported('np.where of non-mask')

def np_array(ex, st, node, args, kw):
    if args[0] == () or args[0] == []:
        return EmptyIndexSet()
    raise Unsupported('np.array literal')


LIB_R = {'np.frexp': np_frexp, 'np.ldexp': np_ldexp, 'neg': r_neg, 'np.abs': np_abs, 'np.max': np_max, 'len': r_len, 'ifexp': r_ifexp, 'np.linalg.norm': np_norm, 'binop': r_binop, 'np.argsort': np_argsort, 'getitem': r_getitem, 'np.cumsum': np_cumsum,
         'setitem': r_setitem, 'compare': r_compare, 'np.where': np_where, 'np.array': np_array}


def _prove(hyps, goal, timeout=20000):
    t0 = time.time()
    r, m = check_unsat(list(hyps) + [z3.Not(goal)], timeout=timeout, try_cvc5=timeout >= 20000)
    return r, time.time() - t0


def verify():
    from . import smt
    smt.EXTERNAL[0] = True          # quantified facts: run every query in a killable z3 child process
    fn = 'bond_ops.retained_bond_indices'
    out = []
    t0 = time.time()
    fnode = loader.function(fn)
    n = z3.Int('n'); tol = z3.Real('tol')
    s0 = fa('s')
    i, j, k, l = z3.Ints('i j k l')
    requires = [n >= 1, tol >= 0, tol < 1, z3.ForAll([i], z3.Implies(rng(i, n), s0(i) >= 0))]
    S = RArr(s0, n)
    class Solv:
        def implied(self, pc, f, final=False):
            r, _ = check_unsat([p for p in pc if z3.is_expr(p)] + [z3.Not(f)], timeout=3000 if not final else 20000, try_cvc5=final)
            return True if r == 'unsat' else None
        def feasible(self, pc):
            return True
    ex = Exec(lib=LIB_R, mode='Z', solver=Solv(), fname=fn)
    st = State({'s': S, 'tol': tol}, requires)
    try:
        states = ex.block(fnode.body, [st])
    except (Unsupported, Refuted) as e:
        return [Verdict('truncation_rule', 'Z', 'undecided', f'outside fragment: {e}', time.time() - t0, fn, 'ensures', 'z3')]
    finals = [x for x in states if x.done and x.raised is None]
    if len(finals) != 2:
        return [Verdict('truncation_rule', 'Z', 'undecided', f'expected two return paths (zero vector / general), found {len(finals)}', time.time() - t0, fn, 'ensures', 'z3')]
    zero = [x for x in finals if isinstance(x.ret, EmptyIndexSet)]
    gen = [x for x in finals if not isinstance(x.ret, EmptyIndexSet) and isinstance(x.ret, IndexSet)]
    if len(zero) != 1 or len(gen) != 1:
        return [Verdict('truncation_rule', 'Z', 'undecided', 'unexpected return values', time.time() - t0, fn, 'ensures', 'z3')]
    # ---- zero vector: returns the empty set exactly when s == 0
    zs = zero[0]
    r, dt = _prove([p for p in zs.pc if z3.is_expr(p)], z3.ForAll([i], z3.Implies(rng(i, n), s0(i) == 0)))
    out.append(Verdict('zero_vector_returns_empty', 'Z', 'discharged' if r == 'unsat' else 'undecided', r, dt, fn, 'ensures', 'z3'))
    # ---- general path
    g = gen[0]
    K = g.ret.pred
    hyps = [p for p in g.pc if z3.is_expr(p)]
    # recover the objects the code built (by structure, not by variable name)
    sc = g.env.get('s')
    if not (getattr(sc, 'is_rarr', False) and hasattr(sc, 'scatter')):
        return out + [Verdict('truncation_rule', 'Z', 'undecided', 'final array is not a scatter through the sorting permutation', 0, fn, 'ensures', 'z3')]
    perm, c = sc.scatter
    if not hasattr(c, 'cumsum_of') or not hasattr(c.cumsum_of, 'gather'):
        return out + [Verdict('truncation_rule', 'Z', 'undecided', 'scattered values are not a cumulative sum of a gathered array', 0, fn, 'ensures', 'z3')]
    x, perm2 = c.cumsum_of.gather          # x = normalised squares
    if perm2 is not perm or perm.of is not x:
        return out + [Verdict('truncation_rule', 'Z', 'undecided', 'cumulative sum is not taken in sorted order of the same array', 0, fn, 'ensures', 'z3')]
    if not getattr(x, 'sums_to_one', False) or not hasattr(x, 'sq_of'):
        return out + [Verdict('truncation_rule', 'Z', 'undecided', 'weights are not the squares of s / norm(s)', 0, fn, 'ensures', 'z3')]
    p, rk, cc, xx = perm.a, perm.inv, c.a, x.a
    w = g.env['#norm'][0]
    lem = []
    def lemma(name, goal, extra=(), kind='lemma'):
        r, dt = _prove(hyps + lem + list(extra), goal)
        status = 'discharged' if r == 'unsat' else 'refuted' if (r == 'sat' and kind == 'ensures') else 'undecided'
        v = Verdict(name, 'Z', status, f'z3: {r}' + (' counter-model exists (needs native confirmation: quantified model)' if status == 'refuted' else ''), dt, fn, kind, 'z3')
        v.confirm = ['retained_bond_indices', 'split_matrix_svd', 'truncat']
        out.append(v)
        if r == 'unsat':
            lem.append(goal)
        return r == 'unsat'
    # L0: x >= 0 and x = (s/w)^2
    lemma('weights_nonneg', z3.ForAll([i], z3.Implies(rng(i, n), xx(i) >= 0)))
    # L1 (induction on l, generated): cumulative sums are monotone  c[k] <= c[l] for k <= l
    K0, L0 = z3.Ints('K0 L0')
    base = z3.Implies(rng(K0, n), cc(K0) <= cc(K0))
    step = z3.Implies(z3.And(0 <= K0, K0 <= L0, L0 + 1 < n, cc(K0) <= cc(L0)), cc(K0) <= cc(L0 + 1))
    r1, d1 = _prove(hyps + lem, base); r2, d2 = _prove(hyps + lem, step)
    ok = r1 == 'unsat' and r2 == 'unsat'
    out.append(Verdict('cumsum_monotone[induction: base+step]', 'Z', 'discharged' if ok else 'undecided', f'{r1}/{r2}', d1 + d2, fn, 'lemma', 'z3'))
    if ok:
        lem.append(z3.ForAll([k, l], z3.Implies(z3.And(0 <= k, k <= l, l < n), cc(k) <= cc(l))))
    # L2 (induction): c[k] >= x[p[k]] and c[k] >= 0
    base = z3.Implies(n > 0, z3.And(cc(0) >= xx(p(0)), cc(0) >= 0))
    step = z3.Implies(z3.And(0 <= K0, K0 + 1 < n, cc(K0) >= 0), z3.And(cc(K0 + 1) >= xx(p(K0 + 1)), cc(K0 + 1) >= 0))
    r1, d1 = _prove(hyps + lem, base); r2, d2 = _prove(hyps + lem, step)
    ok = r1 == 'unsat' and r2 == 'unsat'
    out.append(Verdict('cumsum_dominates_term[induction: base+step]', 'Z', 'discharged' if ok else 'undecided', f'{r1}/{r2}', d1 + d2, fn, 'lemma', 'z3'))
    if ok:
        lem.append(z3.ForAll([k], z3.Implies(rng(k, n), z3.And(cc(k) >= xx(p(k)), cc(k) >= 0))))
    # L3 (induction): a zero weight at rank m forces a zero cumulative sum at m
    base = z3.Implies(z3.And(n > 0, xx(p(0)) == 0), cc(0) == 0)
    step = z3.Implies(z3.And(0 <= K0, K0 + 1 < n, z3.Implies(xx(p(K0)) == 0, cc(K0) == 0), xx(p(K0 + 1)) == 0), cc(K0 + 1) == 0)
    r1, d1 = _prove(hyps + lem, base); r2, d2 = _prove(hyps + lem, step)
    ok = r1 == 'unsat' and r2 == 'unsat'
    out.append(Verdict('zero_weight_zero_cumsum[induction: base+step]', 'Z', 'discharged' if ok else 'undecided', f'{r1}/{r2}', d1 + d2, fn, 'lemma', 'z3'))
    if ok:
        lem.append(z3.ForAll([k], z3.Implies(z3.And(rng(k, n), xx(p(k)) == 0), cc(k) == 0)))
    # membership in terms of ranks
    lemma('kept_iff_cumsum_above_tol', z3.ForAll([i], z3.Implies(rng(i, n), K(i) == (cc(rk(i)) > tol))))
    # (upper set) kept ranks form an upper set
    I1, J1 = z3.Ints('I1 J1')
    lemma('kept_is_upper_set_of_ranks', z3.Implies(z3.And(rng(I1, n), rng(J1, n), K(I1), rk(J1) >= rk(I1)), K(J1)))
    if lem:
        lem[-1] = z3.ForAll([I1, J1], lem[-1])
    # ---- clauses of the property
    # (c1) something is kept (the state is non-zero on this path)
    lemma('keeps_at_least_one', z3.And(rng(p(n - 1), n), K(p(n - 1))), kind='ensures')
    # (b) no kept value is smaller than a discarded one (in weights; and in s via monotonicity of squaring on s >= 0)
    lemma('ordering_weights', z3.Implies(z3.And(rng(I1, n), rng(J1, n), K(I1), z3.Not(K(J1))), xx(I1) >= xx(J1)), kind='ensures')
    A, B, W = z3.Reals('A B W')
    rsq, dsq = _prove([A >= 0, B >= 0, W > 0], z3.Implies((A / W) * (A / W) >= (B / W) * (B / W), A >= B))
    out.append(Verdict('ordering_singular_values[squares monotone on s>=0]', 'Z', 'discharged' if rsq == 'unsat' else 'undecided', rsq, dsq, fn, 'ensures', 'z3'))
    rdv, ddv = _prove([W > 0], z3.Implies(A / W >= B / W, A >= B))
    out.append(Verdict('ordering_singular_values[rescaling by a positive number is monotone]', 'Z', 'discharged' if rdv == 'unsat' else 'undecided', rdv, ddv, fn, 'ensures', 'z3'))
    # (a) discarded weight <= tol: the discarded ranks are 0..t-1 and their cumulative weight is c[t-1]
    T0 = z3.Int('T0')      # threshold rank: first kept rank
    thr = z3.And(rng(T0, n), cc(T0) > tol, z3.Implies(T0 > 0, cc(T0 - 1) <= tol))
    # existence of the threshold rank: a witness (the last rank) + the least-number principle on naturals
    # (a proof rule of the generator, like induction): from phi(m) for some m in [0,n) infer a least such rank
    phi = lambda m_: cc(m_) > tol
    if lemma('threshold_witness[last rank is above tol]', z3.And(n - 1 >= 0, phi(n - 1))):
        TL = z3.Int('Tleast')
        least = z3.And(rng(TL, n), phi(TL), z3.ForAll([k], z3.Implies(z3.And(0 <= k, k < TL), z3.Not(phi(k)))))
        r, dt = _prove(hyps + lem + [least], z3.substitute(thr, (T0, TL)))
        out.append(Verdict('threshold_rank_exists[least-number principle]', 'Z', 'discharged' if r == 'unsat' else 'undecided', f'z3: {r}', dt, fn, 'lemma', 'z3'))
    lemma('discarded_weight_le_tol', z3.Implies(thr, z3.And(
        z3.ForAll([i], z3.Implies(rng(i, n), K(i) == (rk(i) >= T0))),            # discarded set = ranks below the threshold
        z3.If(T0 > 0, cc(T0 - 1), 0) <= tol)), kind='ensures')
    # (c2) discarding one more (the smallest kept weight x[p[T0]]) exceeds the tolerance
    lemma('one_more_exceeds_tol', z3.Implies(thr, z3.If(T0 > 0, cc(T0 - 1), 0) + xx(p(T0)) > tol), kind='ensures')
    # (d) tol == 0: only exact zeros are discarded
    lemma('tol0_discards_only_zeros', z3.Implies(z3.And(tol == 0, rng(J1, n), z3.Not(K(J1))), z3.And(xx(J1) == 0, s0(J1) == 0)), kind='ensures')
    # (f) kept singular values are positive
    lemma('kept_values_positive', z3.Implies(z3.And(rng(I1, n), K(I1)), z3.And(xx(I1) > 0, s0(I1) > 0)), kind='ensures')
    # canary: with >= instead of > the "one more exceeds" clause must not be provable in its strict form for >=-kept sets
    Kge = lambda i_: cc(rk(i_)) >= tol
    rc, dc = _prove(hyps + lem, z3.Implies(z3.And(rng(I1, n), rng(J1, n), K(I1), z3.Not(K(J1))), xx(I1) > xx(J1)), timeout=3000)
    out.append(Verdict('ordering_strict', 'Z', 'canary-verified' if rc == 'unsat' else 'canary-ok', 'kept > discarded strictly is false for ties', dc, fn, 'canary', 'z3'))
    for ob in ex.obligations:
        status = 'discharged' if ob.holds is True else 'refuted' if ob.holds is False else 'undecided'
        out.append(Verdict(f'{ob.kind}@{ob.lineno}: {ob.text[:80]}', 'Z', status, ob.detail, 0.0, fn, ob.kind, 'z3'))
    return out
