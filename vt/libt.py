"""Engine T library models: NumPy entry points on SymTensor values (exact algebra), charge vectors
(QV) and support (block-sparsity) verification conditions."""
import ast
from fractions import Fraction
from . import tensor as T
from .symexec import Unsupported, Refuted, Obj, SymSeq, SymIndex, ModRef, Unknown

try:
    import z3
except Exception:      # pragma: no cover
    z3 = None


class QV:
    """symbolic quantum-number vector over a (possibly merged) axis: list of (sign, name, dim), one
    per atomic token of the axis, in row-major order"""
    def __init__(self, parts):
        self.parts = tuple(parts)
    def __neg__(self):
        return QV([(-s, n, d) for s, n, d in self.parts])
    @property
    def dim(self):
        return T.Dim(tuple(d for _, _, d in self.parts))
    def __repr__(self):
        return 'QV(' + ' '.join(('+' if s > 0 else '-') + n for s, n, _ in self.parts) + ')'

def qv(name, dim):
    return QV([(1, name, dim)])


def is_t(x):
    return getattr(x, 'is_symtensor', False)


def as_tensor(x):
    if is_t(x):
        return x
    if isinstance(x, (int, Fraction)):
        return T.const(x)
    if isinstance(x, float):
        return T.const(Fraction(x))
    if isinstance(x, (tuple, list)):
        # nested list literal like [[[1]]]
        depth = 0; y = x
        while isinstance(y, (tuple, list)):
            if len(y) != 1:
                raise Unsupported('array literal with more than one entry')
            y = y[0]; depth += 1
        t = T.ones1(depth)
        if y != 1:
            t = T.scale(t, Fraction(y))
        return t
    raise Unsupported(f'cannot treat {type(x).__name__} as tensor')


def _dims_of(shape):
    out = []
    for d in shape:
        out.append(d if isinstance(d, T.Dim) else T.Dim((), d))
    return out


# ---- library handlers (ex, st, node, args, kw) ------------------------------------------------

def np_tensordot(ex, st, node, args, kw):
    a, b = as_tensor(args[0]), as_tensor(args[1])
    axes = kw.get('axes', args[2] if len(args) > 2 else 2)
    try:
        return T.tensordot(a, b, axes)
    except T.ShapeError as e:
        raise Refuted(f'line {node.lineno}: tensordot shape mismatch for generic dimensions: {e}')

def m_transpose(ex, st, node, args, kw):
    a = args[0]
    perm = args[1] if len(args) == 2 else (tuple(args[1:]) if len(args) > 2 else None)
    try:
        return T.transpose(a, perm)
    except T.ShapeError as e:
        raise Refuted(f'line {node.lineno}: {e}')

def np_transpose(ex, st, node, args, kw):
    return m_transpose(ex, st, node, args, kw)

def m_conj(ex, st, node, args, kw):
    return T.conj(as_tensor(args[0]))

def _target_shape(a, shp):
    if isinstance(shp, (int, T.Dim)):
        shp = (shp,)
    shp = list(shp)
    if any(isinstance(d, int) and d == -1 for d in shp):
        k = [i for i, d in enumerate(shp) if isinstance(d, int) and d == -1]
        if len(k) != 1:
            raise Unsupported('reshape with several -1')
        total = T.Dim(tuple(T.tok_dim(i) for ax in a.axes for i in ax))
        others = T.Dim(())
        for i, d in enumerate(shp):
            if i != k[0]:
                others = others * (d if isinstance(d, T.Dim) else T.Dim((), d))
        # quotient of monomials
        rest = list(total.ordered)
        for x in others.ordered:
            for y in rest:
                if T._dimkey(x) == T._dimkey(y):
                    rest.remove(y); break
            else:
                raise Unsupported('reshape -1: non-divisible')
        shp[k[0]] = T.Dim(tuple(rest))
    return shp

def m_reshape(ex, st, node, args, kw):
    a = as_tensor(args[0])
    shp = args[1] if len(args) == 2 else tuple(args[1:])
    try:
        return T.reshape(a, _target_shape(a, shp))
    except T.ShapeError as e:
        raise Refuted(f'line {node.lineno}: {e}')

def np_reshape(ex, st, node, args, kw):
    return m_reshape(ex, st, node, args, kw)

def np_einsum(ex, st, node, args, kw):
    try:
        if isinstance(args[0], str):
            return T.einsum_str(args[0], *[as_tensor(a) for a in args[1:]])
        ops = [as_tensor(a) if k % 2 == 0 and k < len(args) - 1 else list(a) for k, a in enumerate(args)]
        return T.einsum_lists(*ops)
    except T.ShapeError as e:
        raise Refuted(f'line {node.lineno}: einsum shape mismatch for generic dimensions: {e}')

def np_identity(ex, st, node, args, kw):
    d = args[0]
    if isinstance(d, int):
        if d == 1:
            return T.ones1(2)
        raise Unsupported('identity of concrete size')
    if isinstance(d, T.Dim):
        if len(d.ordered) != 1 or d.const != 1:
            raise Unsupported('identity of product dimension')
        d = d.ordered[0]
    return T.identity(d)

def np_zeros(ex, st, node, args, kw):
    shp = args[0]
    if isinstance(shp, (int, T.Dim)):
        shp = (shp,)
    dims = []
    for d in shp:
        if isinstance(d, T.Dim):
            if len(d.ordered) != 1 or d.const != 1:
                raise Unsupported('zeros of product dimension')
            dims.append(d.ordered[0])
        else:
            dims.append(d)
    return T.zeros(dims)

def np_array(ex, st, node, args, kw):
    v = args[0]
    if is_t(v) or isinstance(v, QV):
        return v
    return as_tensor(v)

def np_sqrt(ex, st, node, args, kw):
    a = args[0]
    if is_t(a) and len(a.terms) == 1 and len(a.terms[0].atoms) == 1 and not a.terms[0].bound and a.terms[0].coeff == 1:
        n, c, targs = a.terms[0].atoms[0]
        if not c:
            nm = f'sqrt<{n}>'
            t = T.SymTensor(a.axes, [T.Term(T.ONE, [], [(nm, False, targs)])], 'real')
            # rule sqrt<n>[k] * sqrt<n>[k] = n[k]
            rules = st.env.setdefault('#rules', [])
            k = [T.Idx(T.tok_dim(i)) for ax in targs for i in ax]
            grp = []; pos = 0
            for ax in targs:
                grp.append(tuple(k[pos:pos + len(ax)])); pos += len(ax)
            lhs = T.SymTensor(grp, [T.Term(T.ONE, [], [(nm, False, tuple(grp)), (nm, False, tuple(grp))])])
            rhs = T.SymTensor(grp, [T.Term(T.ONE, [], [(n, False, tuple(grp))])])
            rules.append((lhs, rhs))
            return t
    raise Unsupported('sqrt of non-atomic tensor')

def np_block(ex, st, node, args, kw):
    rows = args[0]
    try:
        if all(is_t(x) for x in rows):
            return T.block_concat(list(rows), -1)
        cols = [T.block_concat(list(r), -1) for r in rows]
        return T.block_concat(cols, -2)
    except T.ShapeError as e:
        raise Refuted(f'line {node.lineno}: {e}')

def np_concatenate(ex, st, node, args, kw):
    parts = args[0]
    if all(isinstance(p, QV) for p in parts):
        return QVCat(parts)
    axis = kw.get('axis', args[1] if len(args) > 1 else 0)
    return T.block_concat([as_tensor(p) for p in parts], axis)

class QVCat:
    """concatenation of charge vectors (labels a union axis)"""
    def __init__(self, parts):
        self.parts = tuple(parts)
    def __neg__(self):
        return QVCat([-p for p in self.parts])

def g_shape(ex, st, node, base):
    if is_t(base):
        return base.shape
    return NotImplemented

def g_ndim(ex, st, node, base):
    if is_t(base):
        return base.ndim
    return NotImplemented

def g_real(ex, st, node, base):
    if is_t(base):
        # real part of a tensor known to be real (contract-level fact) is the tensor itself
        if base.kind in ('real', 'int') or st.env.get('#real_ok'):
            return base
        raise Unsupported('.real of a complex symbolic tensor')
    return NotImplemented

def g_dtype(ex, st, node, base):
    if is_t(base):
        return ('dtype', base.kind)
    return NotImplemented

def g_T(ex, st, node, base):
    if is_t(base):
        return T.transpose(base)
    return NotImplemented

def t_len(ex, st, node, args, kw):
    v = args[0]
    if isinstance(v, QV):
        return v.dim
    if is_t(v):
        return v.shape[0]
    raise Unsupported(f'len of {type(v).__name__}')

def t_neg(ex, st, node, v):
    if isinstance(v, (QV, QVCat)):
        return -v
    if is_t(v):
        return T.neg(v)
    raise Unsupported('negation')

def hadamard(a, b):
    """entry-wise product with NumPy broadcasting"""
    a = a.clone(); b = b.clone()
    na, nb = a.ndim, b.ndim
    n = max(na, nb)
    axa = [()] * (n - na) + a.axes
    axb = [()] * (n - nb) + b.axes
    m = {}
    axes = []
    for ga, gb in zip(axa, axb):
        g1 = [i for i in ga if T.tok_dim(i) != 1]; g2 = [i for i in gb if T.tok_dim(i) != 1]
        if not g2:
            axes.append(ga if ga else gb)
        elif not g1:
            axes.append(gb)
        else:
            if [T._dimkey(T.tok_dim(i)) for i in g1] != [T._dimkey(T.tok_dim(i)) for i in g2]:
                raise T.ShapeError(f'broadcast mismatch {ga} vs {gb}')
            for i, j in zip(g1, g2):
                m[T.tok_idx(j)] = T.tok_idx(i)
            axes.append(ga)
    b = b.rename(m)
    terms = []
    for ta in a.terms:
        for tb in b.terms:
            terms += T._resolve(T._mul_terms(ta, tb))
    return T.SymTensor(axes, terms, T._kind_join(a.kind, b.kind))

def t_binop(ex, st, node, op, l, r):
    if isinstance(l, T.Dim) or isinstance(r, T.Dim):
        return NotImplemented
    if is_t(l) or is_t(r):
        try:
            if isinstance(op, ast.Mult):
                if not is_t(l):
                    l, r = r, l
                if isinstance(r, (int, Fraction)):
                    return T.scale(l, r)
                if isinstance(r, float):
                    return T.scale(l, Fraction(r))
                if is_t(r):
                    if r.ndim == 0:
                        return T.mul_scalar(l, r)
                    if l.ndim == 0:
                        return T.mul_scalar(r, l)
                    return hadamard(l, r)
            if isinstance(op, ast.Add):
                return T.add(as_tensor(l), as_tensor(r))
            if isinstance(op, ast.Sub):
                return T.sub(as_tensor(l), as_tensor(r))
            if isinstance(op, ast.MatMult):
                return T.matmul(l, r)
            if isinstance(op, ast.Div):
                if is_t(r) and r.ndim == 0 and len(r.terms) == 1 and not r.terms[0].bound and r.terms[0].coeff == 1 \
                        and len(r.terms[0].atoms) == 1:
                    n, c, targs = r.terms[0].atoms[0]
                    inv = T.SymTensor([], [T.Term(T.ONE, [], [(f'inv<{n}>', c, ())])], r.kind)
                    rules = st.env.setdefault('#rules', [])
                    lhs = T.SymTensor([], [T.Term(T.ONE, [], [(f'inv<{n}>', c, ()), (n, c, ())])])
                    rules.append((lhs, T.const(1)))
                    return t_binop(ex, st, node, ast.Mult(), as_tensor(l), inv)
        except T.ShapeError as e:
            raise Refuted(f'line {node.lineno}: {e}')
    return NotImplemented

def t_getitem(ex, st, node, base, key):
    if is_t(base):
        if not isinstance(key, tuple):
            key = (key,)
        axes = []; src = 0
        fixed = []
        for k in key:
            if k is None:
                axes.append((T.Idx(1),))
            elif isinstance(k, slice) and k == slice(None, None, None):
                axes.append(base.axes[src]); src += 1
            elif isinstance(k, int):
                g = base.axes[src]
                if any(T.tok_dim(i) != 1 for i in g) or k not in (0, -1):
                    raise Unsupported(f'integer index {k} into a non-trivial axis')
                src += 1
            else:
                raise Unsupported(f'tensor index {k!r}')
        axes += base.axes[src:]
        return T.SymTensor(axes, base.terms, base.kind)
    if isinstance(base, QV):
        raise Unsupported('indexing of charge vector')
    raise Unsupported(f'subscript of {type(base).__name__}')

def t_setitem(ex, st, node, base, key, v):
    raise Unsupported('item assignment on tensors (engine T)')

def t_abs(ex, st, node, args, kw):
    raise Unsupported('abs of symbolic scalar')

def qnumber_flatten(ex, st, node, args, kw):
    parts = []
    for q in args[0]:
        if not isinstance(q, QV):
            raise Unsupported('qnumber_flatten of non-charge value')
        parts += list(q.parts)
    return QV(parts)

def is_qsparse(ex, st, node, args, kw):
    """the repository's run-time sparsity assertion becomes a support obligation"""
    A, qs = args
    ok, detail = support_holds(as_tensor(A), list(qs), st.env.get('#support', {}))
    return ok if ok is not None else Unknown('support ' + detail)

def np_array_equal(ex, st, node, args, kw):
    a, b = args
    if isinstance(a, QV) and isinstance(b, QV):
        return a.parts == b.parts or Unknown('charge equality')
    return Unknown('array_equal')


LIB_T = {
    'np.tensordot': np_tensordot, '.transpose': m_transpose, 'np.transpose': np_transpose, '.conj': m_conj,
    'np.conj': m_conj, '.reshape': m_reshape, 'np.reshape': np_reshape, 'np.einsum': np_einsum,
    'np.identity': np_identity, 'np.zeros': np_zeros, 'np.array': np_array, 'np.sqrt': np_sqrt,
    'np.block': np_block, 'np.concatenate': np_concatenate, 'np.array_equal': np_array_equal,
    'getattr.shape': g_shape, 'getattr.ndim': g_ndim, 'getattr.real': g_real, 'getattr.dtype': g_dtype,
    'getattr.T': g_T, 'len': t_len, 'neg': t_neg, 'binop': t_binop, 'getitem': t_getitem, 'setitem': t_setitem,
    'abs': t_abs, 'qnumber_flatten': qnumber_flatten, 'is_qsparse': is_qsparse,
    '.copy': lambda ex, st, node, args, kw: args[0],
}


# ---- support (block sparsity) VCs ---------------------------------------------------------------

def _charge_expr(qvec, group, qfun):
    """z3 integer: charge of a token group under a QV (positional match of tokens and parts)"""
    toks = [i for i in group if T.tok_dim(i) != 1]
    parts = [p for p in qvec.parts if not (isinstance(p[2], int) and p[2] == 1)]
    ones = [p for p in qvec.parts if isinstance(p[2], int) and p[2] == 1]
    if len(toks) != len(parts):
        return None
    e = z3.IntVal(0)
    for tok, (s, n, d) in zip(toks, parts):
        if T._dimkey(T.tok_dim(tok)) != T._dimkey(d) and not isinstance(tok, T.Part):
            return None
        e = e + s * qfun(n, tok)
    for (s, n, d) in ones:
        e = e + s * z3.Int(f'q1_{n}')
    return e

def _tokvar(tok):
    if isinstance(tok, T.Part):
        return z3.Int(f'i{tok.idx.id}p{tok.k}')
    return z3.Int(f'i{tok.id}')

def _qfun(name, tok):
    f = z3.Function('q_' + name, z3.IntSort(), z3.IntSort())
    return f(_tokvar(tok))

def support_formula(atom_name, args, support):
    """hypothesis: atom non-zero at these tokens => its charge equation(s)"""
    sp = support.get(atom_name)
    if sp is None:
        return None
    conj = []
    for eq in sp:           # eq: list of (QV, axis position) summed == 0
        e = z3.IntVal(0)
        for qvec, pos in eq:
            c = _charge_expr(qvec, args[pos], _qfun)
            if c is None:
                return None
            e = e + c
        conj.append(e == 0)
    return z3.And(*conj) if conj else z3.BoolVal(True)

def support_holds(tensor, qs, support, timeout=20000):
    """every term of `tensor` that can be non-zero forces sum_k charge(qs[k], axis k) == 0.
    returns (True/False/None, detail)"""
    tensor = T.normalise(tensor) if all(n != '#in' for t in tensor.terms for n, _, _ in t.atoms) else tensor
    if len(qs) != tensor.ndim:
        return False, 'number of charge vectors differs from rank'
    total = 0.0
    for t in tensor.terms:
        hyps = []
        for n, c, args in t.atoms:
            if n == '#in' or not args:
                continue
            f = support_formula(n, args, support)
            if f is None:
                if n in support:
                    return None, f'support of {n} not expressible'
                continue            # dense atom: no hypothesis
            hyps.append(f)
        for a, b in t.deltas:
            hyps.append(_tokvar(a) == _tokvar(b))
        goal = z3.IntVal(0)
        for q, ax in zip(qs, tensor.axes):
            if isinstance(q, QVCat):
                # union axis: pick the part this term lives in
                toks = [i for i in ax if T.tok_dim(i) != 1 or isinstance(i, T.Part)]
                if len(toks) != 1 or not isinstance(toks[0], T.Part):
                    ks = {tok.k for tok in t.tokens() if isinstance(tok, T.Part) and any(tok.idx is T.tok_idx(x) for x in ax)}
                    if len(ks) != 1:
                        return None, 'union axis without part restriction'
                    k = ks.pop()
                    tk = [tok for tok in t.tokens() if isinstance(tok, T.Part) and tok.k == k and any(tok.idx is T.tok_idx(x) for x in ax)][0]
                else:
                    tk = toks[0]; k = tk.k
                c = _charge_expr(q.parts[k], (tk,), _qfun)
            else:
                # a free union index restricted in this term: use the token occurring in the term
                ax2 = []
                for i in ax:
                    if isinstance(i, T.Idx) and isinstance(i.dim, T.SumDim):
                        occ = [tok for tok in t.tokens() if isinstance(tok, T.Part) and tok.idx is i]
                        ax2.append(occ[0] if occ else i)
                    else:
                        ax2.append(i)
                c = _charge_expr(q, ax2, _qfun)
            if c is None:
                return False, f'charge vector {q!r} does not match axis {ax!r} (order/dimension of merged legs)'
            goal = goal + c
        s = z3.Solver(); s.set('timeout', timeout)
        s.add(*hyps); s.add(goal != 0)
        r = s.check()
        if r == z3.sat:
            return False, f'term {t!r} may be non-zero off the charge sector'
        if r != z3.unsat:
            return None, 'solver unknown'
    return True, f'{len(tensor.terms)} terms'
