"""Conformance test of the assumed library contracts (DESIGN 3.2): every model used by the engines is compared with the
real NumPy/SciPy call on seeded concrete inputs.  A disagreement means the *checker* is broken (exit 3), never a violation.
Runs in well under a second; executed by every check (cached per process) and by `setup`."""
import numpy as np

_done = {}


def _slice_len_model(lo, hi, n):
    """mirror of vt.libz.slice_len for concrete integers"""
    def clip(v, default):
        if v is None:
            return default
        if v < 0:
            v += n
        return 0 if v < 0 else n if v > n else v
    a, b = clip(lo, 0), clip(hi, n)
    return max(0, b - a)


def run(seed=0, trials=150):
    if 'ok' in _done:
        return _done['ok']
    rng = np.random.default_rng(seed)
    errs = []
    def need(cond, what):
        if not cond:
            errs.append(what)
    for t in range(trials):
        m, n = int(rng.integers(1, 7)), int(rng.integers(1, 7))
        cplx = bool(rng.integers(2))
        B = rng.standard_normal((m, n)) + (1j * rng.standard_normal((m, n)) if cplx else 0)
        # np.linalg.qr(reduced)
        Q, R = np.linalg.qr(B, mode='reduced')
        k = min(m, n)
        need(Q.shape == (m, k) and R.shape == (k, n), 'qr shapes')
        need(np.allclose(Q @ R, B) and np.allclose(Q.conj().T @ Q, np.identity(k)), 'qr factorization/isometry')
        need(np.allclose(np.tril(R, -1), 0) and np.allclose(np.diag(R).imag, 0), 'qr: R upper triangular with real diagonal')
        # np.linalg.svd
        U, s, V = np.linalg.svd(B, full_matrices=False)
        need(U.shape == (m, k) and s.shape == (k,) and V.shape == (k, n), 'svd shapes')
        need(np.allclose((U * s) @ V, B) and np.allclose(U.conj().T @ U, np.identity(k)) and np.allclose(V @ V.conj().T, np.identity(k)), 'svd factorization/isometries')
        need(np.all(s >= 0) and np.all(np.diff(s) <= 1e-12) and np.isrealobj(s), 'svd: s real, non-negative, non-increasing')
        # integer-array contracts
        a = rng.integers(-2, 3, m); b = rng.integers(-2, 3, n)
        c = np.intersect1d(a, b)
        need(np.all(np.diff(c) > 0) and all(x in a and x in b for x in c) and all((x in c) for x in a if x in b), 'intersect1d')
        p = np.argsort(a, kind='mergesort')
        need(sorted(p.tolist()) == list(range(m)) and np.all(np.diff(a[p]) >= 0), 'argsort: sorting permutation')
        need(all(p[i] < p[i + 1] for i in range(m - 1) if a[p[i]] == a[p[i + 1]]), 'argsort(mergesort): stable')
        need(np.array_equal(np.argsort(p), np.array([list(p).index(i) for i in range(m)])), 'argsort of a permutation is its inverse')
        q = int(rng.integers(-2, 3))
        w = np.where(a == q)[0]
        need(np.all(np.diff(w) > 0) and all(a[i] == q for i in w) and len(w) == int(np.sum(a == q)), 'where(mask)[0]')
        need(np.array_equal(np.arange(m), np.array(range(m))), 'arange')
        x = rng.standard_normal(m)
        cs = np.cumsum(x)
        need(np.isclose(cs[0], x[0]) and all(np.isclose(cs[i], cs[i - 1] + x[i]) for i in range(1, m)), 'cumsum recurrence')
        need(np.isclose(np.linalg.norm(x) ** 2, np.sum(x ** 2)) and (np.linalg.norm(np.zeros(m)) == 0), 'norm')
        y = rng.standard_normal(m) + 1j * rng.standard_normal(m); z = rng.standard_normal(m) + 1j * rng.standard_normal(m)
        need(np.isclose(np.vdot(y, z), np.sum(y.conj() * z)), 'vdot conjugates its first argument')
        # inner-product level (vt/zkry.py): rows of M as vectors
        M = rng.standard_normal((m, n)) + 1j * rng.standard_normal((m, n)); wv = rng.standard_normal(n) + 1j * rng.standard_normal(n)
        r_ = int(rng.integers(0, m + 1)); cf = M[:r_].conj() @ wv
        need(all(np.isclose(cf[i], np.vdot(M[i], wv)) for i in range(r_)), '(M[:r].conj() @ w)[i] = vdot(M[i], w)')
        need(np.allclose(M[:r_].T @ cf, sum((cf[i] * M[i] for i in range(r_)), np.zeros(n))), 'M[:r].T @ c = sum_i c[i] M[i]')
        sc = complex(rng.standard_normal(), rng.standard_normal()); rs = float(rng.standard_normal()) or 1.0
        need(np.isclose(np.vdot(M[0], sc * wv), sc * np.vdot(M[0], wv)) and np.isclose(np.vdot(sc * wv, M[0]), np.conj(sc) * np.vdot(wv, M[0])), 'vdot is sesquilinear')
        need(np.isclose(np.vdot(M[0], wv / rs) * rs, np.vdot(M[0], wv)) and np.isclose(np.vdot(wv, wv), np.linalg.norm(wv) ** 2), 'division by a real scalar; norm^2 = vdot(x, x)')
        need(np.isclose(np.vdot(M[0], wv), np.conj(np.vdot(wv, M[0]))), 'vdot conjugate symmetry')
        # slicing semantics (libz.slice_len)
        L = int(rng.integers(0, 7)); lst = list(range(L))
        lo = None if rng.integers(4) == 0 else int(rng.integers(-8, 9)); hi = None if rng.integers(4) == 0 else int(rng.integers(-8, 9))
        need(len(lst[lo:hi]) == _slice_len_model(lo, hi, L) and len(np.arange(L)[lo:hi]) == _slice_len_model(lo, hi, L), f'slice length model [{lo}:{hi}] of {L}')
        # tensor-level entry points
        T1 = rng.standard_normal((2, 3, 4)); T2 = rng.standard_normal((4, 3, 5))
        need(np.allclose(np.tensordot(T1, T2, axes=((1, 2), (1, 0))), np.einsum('abc,cbd->ad', T1, T2)), 'tensordot axes')
        need(np.allclose(np.tensordot(T1, T2, 1), np.einsum('abc,cde->abde', T1, T2)), 'tensordot integer axes')
        need(np.allclose(T1.reshape(6, 4), np.array([[T1[i, j, k] for k in range(4)] for i in range(2) for j in range(3)])), 'reshape is row-major')
        need(np.allclose(np.einsum(T1, (0, 2, 3), T2, (3, 2, 4), (0, 4)), np.einsum('abc,cbd->ad', T1, T2)), 'einsum index-list form')
        need(np.allclose(np.kron(B, np.identity(2))[::2, ::2], B), 'kron layout')
        need(np.array_equal(np.block([[np.ones((1, 2)), np.zeros((1, 1))], [np.zeros((2, 2)), np.ones((2, 1))]]).shape, (3, 3)), 'block')
        need(np.array_equal(np.add.outer(a, b).reshape(-1), np.array([u + v for u in a for v in b])), 'add.outer + reshape order (qnumber_flatten)')
    try:
        from scipy.linalg import eigh_tridiagonal, expm
        al = rng.standard_normal(5); be = rng.standard_normal(4)
        w, U = eigh_tridiagonal(al, be)
        Tm = np.diag(al) + np.diag(be, 1) + np.diag(be, -1)
        need(np.allclose(U @ np.diag(w) @ U.T, Tm) and np.all(np.diff(w) >= 0) and np.allclose(U.T @ U, np.identity(5)), 'eigh_tridiagonal')
        need(np.allclose(U @ U.T, np.identity(5)) and np.isrealobj(U) and np.isrealobj(w) and all(np.allclose(Tm @ U[:, a], w[a] * U[:, a]) for a in range(5)), 'eigh_tridiagonal: rows orthonormal, eigen-equation')
        zz = rng.standard_normal(6) + 1j * rng.standard_normal(6)
        need(np.allclose(np.abs(np.exp(zz)) ** 2, np.exp(2 * zz.real)) and np.exp(0.0) == 1.0, '|exp(z)|^2 = exp(2 Re z)')
        xx = rng.standard_normal(5) + 1j * rng.standard_normal(5)
        need(np.allclose(np.exp(1j * w) * xx, np.array([np.exp(1j * w[k]) * xx[k] for k in range(5)])), 'array * array is the entrywise product')
        need(np.allclose(expm(np.zeros((3, 3))), np.identity(3)) and np.allclose(expm(np.diag([1.0, 2.0])), np.diag(np.exp([1.0, 2.0]))), 'expm')
    except Exception as e:      # pragma: no cover
        errs.append(f'scipy: {e}')
    _done['ok'] = (not errs, sorted(set(errs)))
    return _done['ok']
