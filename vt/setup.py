"""setup: check the tools that the checks need (offline), byte-compile the framework."""
import compileall, os, shutil, subprocess, sys

def main():
    ok = True
    for tool in ('python3-vt', '/venv/bin/python'):
        if shutil.which(tool) is None and not os.path.exists(tool):
            print('missing tool', tool); ok = False
    try:
        import z3, numpy, scipy
        print('z3', z3.get_version_string(), 'numpy', numpy.__version__)
    except Exception as e:
        print('python3-vt lacks a needed module:', e); ok = False
    p = subprocess.run(['/venv/bin/python', '-c', 'import numpy, scipy; print(numpy.__version__, scipy.__version__)'], capture_output=True, text=True)
    print('/venv:', p.stdout.strip() or p.stderr.strip())
    ok = ok and p.returncode == 0
    here = os.path.dirname(os.path.abspath(__file__))
    compileall.compile_dir(here, quiet=1)
    from . import conformance
    okc, why = conformance.run(0, trials=400)
    print('library model conformance:', 'ok' if okc else why)
    ok = ok and okc
    # engine L: compile the Lean lemma files once and record a stamp (source hash) under /verif/build
    from . import lemmas_t
    for pid in ('C01', 'C18', 'C11', 'C14'):
        for v in lemmas_t.lean_verdicts(pid, 'thorough'):
            print(v)
            ok = ok and v.status == 'discharged'
    return 0 if ok else 1
