"""Engine Z on the block loops of bond_ops.qr and bond_ops.split_matrix_svd (sizes, index/slice bounds,
intermediate dimension, dummy branch, repository assertions) for all shapes and all charge vectors.

Matrices are abstract arrays with z3 shapes (ZArr, vt/libz.py); the 1-D integer arrays (charges, index arrays)
carry an element function with quantified facts taken from the assumed NumPy contracts (intersect1d, argsort,
where, arange, fancy indexing).  The loop `for qn in qis` is verified with a sidecar invariant keyed by its
signature.  What is NOT proved here: the factorization clauses Q R = A, Q^H Q = I (entry level; bounded stand-in)."""
import ast, itertools, time
import z3
from . import loader
from .contract import Verdict
from .symexec import Exec, Unsupported, Refuted, State, Obligation, Unknown
from .libz import LIB_Z, ZArr, ZScal, make_loop_handler, is_z, zint, oblige, fresh_int, ElemOf, z_getitem, z_setitem, z_binop, z_compare, z_len, slice_len
from .smt import Solver, check_unsat

_n = itertools.count(1)
I = z3.IntSort()


class IArr:
    """1-D integer array with element function"""
    is_iarr = True
    def __init__(self, a, n, tags=None):
        self.a = a; self.n = n; self.tags = dict(tags or {})
    @property
    def shape(self):
        return (self.n,)
    ndim = 1

def fi(name):
    return z3.Function(f'{name}{next(_n)}', I, I)


class MArr(IArr):
    """item-assigned 1-D integer array (the intermediate charges): element function updated functionally by stores"""
    def havoc(self):
        return MArr(fi('hq'), self.n, {})


class SArr(ZArr):
    """matrix with a *support* predicate: nz(i, j) over-approximates `entry (i, j) may be non-zero`.
    Used for the block-sparsity clauses; values of the entries are not modelled here."""
    is_sarr = True
    def __init__(self, shape, kind, nz, name=None, val=None, origin=None):
        ZArr.__init__(self, shape, kind, None, name)
        self.nz = nz
        self.val = val            # entry values (only with TRACK_VALUES): (i, j) -> z3 Real term, an element of a commutative ring
        self.origin = origin      # how the value arose: ('zeros',) ('havoc',) ('input',) ('lapack', info) ('view', base, f0, f1, kinds) ('store', base, region, v)
    def havoc(self):
        return SArr(self.shape, self.kind, z3.Function(f'hnz{next(_n)}', I, I, z3.BoolSort()),
                    val=fresh_val('hv') if TRACK_VALUES[0] else None, origin=('havoc',))

TRACK_VALUES = [False]


class RV1(ZArr):
    """1-D real array with an element function (the singular values), only with TRACK_VALUES"""
    is_rv1 = True
    def __init__(self, n, a, origin=None):
        ZArr.__init__(self, (n,), 'real', None, None)
        self.a = a; self.origin = origin
    def havoc(self):
        return RV1(self.shape[0], z3.Function(f'hs{next(_n)}', I, z3.RealSort()), origin=('havoc',))

def fresh_val(name='val'):
    return z3.Function(f'{name}{next(_n)}', I, I, z3.RealSort())

def fresh_nz(name='nz'):
    return z3.Function(f'{name}{next(_n)}', I, I, z3.BoolSort())

def nz_of(v):
    """support of a value stored into a matrix"""
    if getattr(v, 'is_sarr', False):
        return v.nz
    return lambda i, j: z3.BoolVal(True)

def rng(i, n):
    return z3.And(i >= 0, i < n)


def keep_lemma(ex, st, node, text, formula):
    """prove `formula` from the facts collected so far; if proved it becomes available as a lemma"""
    r, _ = check_unsat([p for p in st.pc if is_z(p)] + [z3.Not(formula)], timeout=10000, try_cvc5=False)
    ex.obligations.append(Obligation('lemma', text, getattr(node, 'lineno', 0), True if r == 'unsat' else None,
                                     '' if r == 'unsat' else 'auxiliary lemma not proved (only costs completeness)'))
    if r == 'unsat':
        st.pc.append(formula)


def np_intersect1d(ex, st, node, args, kw):
    a, b = args
    K = fresh_int('K'); q = fi('qis'); wa = fi('wa'); wb = fi('wb'); wk = z3.Function(f'wk{next(_n)}', I, I)
    k, l, i, j = z3.Ints('k l i j')
    st.pc += [K >= 0, K <= a.n, K <= b.n,
              z3.ForAll([k, l], z3.Implies(z3.And(0 <= k, k < l, l < K), q(k) < q(l))),
              z3.ForAll([k], z3.Implies(rng(k, K), z3.And(rng(wa(k), a.n), rng(wb(k), b.n), a.a(wa(k)) == q(k), b.a(wb(k)) == q(k)))),
              z3.ForAll([i, j], z3.Implies(z3.And(rng(i, a.n), rng(j, b.n), a.a(i) == b.a(j)), z3.And(rng(wk(i), K), q(wk(i)) == a.a(i))))]
    return IArr(q, K, {'intersect': (a, b)})

def np_argsort(ex, st, node, args, kw):
    s = args[0]
    if not getattr(s, 'is_iarr', False):
        raise Unsupported('argsort')
    if isinstance(s.tags.get('perm_of'), IArr):
        # argsort of a permutation is its inverse
        src = s
        p = src.tags['inv']; inv = src.a
        return IArr(p, s.n, {'perm_of': None, 'inv': inv, 'isperm': True})
    p = fi('p'); inv = fi('r')
    k, l, i = z3.Ints('k l i')
    st.pc += [z3.ForAll([k], z3.Implies(rng(k, s.n), z3.And(rng(p(k), s.n), inv(p(k)) == k))),
              z3.ForAll([i], z3.Implies(rng(i, s.n), z3.And(rng(inv(i), s.n), p(inv(i)) == i))),
              z3.ForAll([k, l], z3.Implies(z3.And(0 <= k, k <= l, l < s.n), s.a(p(k)) <= s.a(p(l))))]
    return IArr(p, s.n, {'perm_of': s, 'inv': inv, 'isperm': True})

def np_arange(ex, st, node, args, kw):
    n = zint(args[0])
    f = fi('ar'); i = z3.Int('i')
    st.pc.append(z3.ForAll([i], f(i) == i))
    return IArr(f, n, {'arange': True})

def np_any(ex, st, node, args, kw):
    v = args[0]
    if isinstance(v, IArr) and 'diff' in v.tags:
        x, y = v.tags['diff']
        k, l = z3.Ints('k l')
        ident = z3.ForAll([k], z3.Implies(rng(k, x.n), x.a(k) == y.a(k)))
        src = x.tags.get('perm_of')
        if isinstance(src, IArr) and y.tags.get('arange'):
            # a sorting permutation equal to the identity means the array is already sorted
            keep_lemma(ex, st, node, 'identity sorting permutation => array already sorted',
                       z3.Implies(ident, z3.ForAll([k, l], z3.Implies(z3.And(0 <= k, k <= l, l < src.n), src.a(k) <= src.a(l)))))
        return z3.Not(ident)
    raise Unsupported('np.any')

def np_array(ex, st, node, args, kw):
    v = args[0]
    if isinstance(v, (IArr, ZArr)):
        return v
    raise Unsupported('np.array')

def np_where(ex, st, node, args, kw):
    m = args[0]
    if isinstance(m, EqMask):
        # indices (increasing) where arr == val
        arr, val = m.arr, m.val
        cnt = fresh_int('cnt'); w = fi('iqn'); i, k, l = z3.Ints('i k l')
        pos = z3.Function(f'pos{next(_n)}', I, I)
        st.pc += [cnt >= 0, cnt <= arr.n,
                  z3.ForAll([k], z3.Implies(rng(k, cnt), z3.And(rng(w(k), arr.n), arr.a(w(k)) == val))),
                  z3.ForAll([k, l], z3.Implies(z3.And(0 <= k, k < l, l < cnt), w(k) < w(l))),
                  z3.ForAll([i], z3.Implies(z3.And(rng(i, arr.n), arr.a(i) == val), z3.And(rng(pos(i), cnt), w(pos(i)) == i)))]
        return (IArr(w, cnt, {'where': m}),)
    raise Unsupported('np.where')

class EqMask:
    def __init__(self, arr, val):
        self.arr = arr; self.val = val

def np_qr(ex, st, node, args, kw):
    a = args[0]
    if not getattr(a, 'is_zarr', False) or a.ndim != 2:
        raise Refuted('np.linalg.qr of a non-matrix')
    p, r = zint(a.shape[0]), zint(a.shape[1])
    k = z3.If(p <= r, p, r)
    from .libz import kind_join, kind_of
    kd = kind_join(kind_of(a), 'real')
    if TRACK_VALUES[0]:
        info = dict(B=a, p=p, r=r, k=k)
        Qs = SArr((p, k), kd, fresh_nz('nzQs'), val=fresh_val('Qs'), origin=('lapack', info))
        Rs = SArr((k, r), kd, fresh_nz('nzRs'), val=fresh_val('Rs'), origin=('lapack', info))
        info.update(Q=Qs, R=Rs)
        a_, b_ = z3.Ints('a_ b_')
        st.pc += [z3.ForAll([a_, b_], z3.Implies(Qs.val(a_, b_) != 0, Qs.nz(a_, b_))), z3.ForAll([a_, b_], z3.Implies(Rs.val(a_, b_) != 0, Rs.nz(a_, b_)))]
        return (Qs, Rs)
    return (SArr((p, k), kd, fresh_nz('nzQs')), SArr((k, r), kd, fresh_nz('nzRs')))

def np_svd(ex, st, node, args, kw):
    a = args[0]
    p, r = zint(a.shape[0]), zint(a.shape[1])
    k = z3.If(p <= r, p, r)
    from .libz import kind_join, kind_of
    kd = kind_join(kind_of(a), 'real')
    if TRACK_VALUES[0]:
        info = dict(B=a, p=p, r=r, k=k, svd=True)
        us = SArr((p, k), kd, fresh_nz('nzus'), val=fresh_val('us'), origin=('lapack', info))
        vs = SArr((k, r), kd, fresh_nz('nzvs'), val=fresh_val('vs'), origin=('lapack', info))
        info.update(Q=us, R=vs)
        a_, b_ = z3.Ints('a_ b_')
        st.pc += [z3.ForAll([a_, b_], z3.Implies(us.val(a_, b_) != 0, us.nz(a_, b_))), z3.ForAll([a_, b_], z3.Implies(vs.val(a_, b_) != 0, vs.nz(a_, b_)))]
        ss = RV1(k, z3.Function(f'ssub{next(_n)}', I, z3.RealSort()), origin=('lapack', info))
        info['S'] = ss
        return (us, ss, vs)
    return (SArr((p, k), kd, fresh_nz('nzus')), ZArr((k,), 'real'), SArr((k, r), kd, fresh_nz('nzvs')))

def np_norm(ex, st, node, args, kw):
    a = args[0]
    if getattr(a, 'is_zarr', False) and getattr(a, 'name', None) == 'A0':
        return NormOf(a)
    return ZScal('real')

class NormOf:
    def __init__(self, a): self.a = a

def q_getitem(ex, st, node, base, key):
    if getattr(base, 'is_rv1', False):
        plain = q_getitem(ex, st, node, ZArr(base.shape, 'real'), key)
        if isinstance(key, slice) and getattr(plain, 'is_zarr', False):
            _, lo, _ = slice_len(key, base.shape[0])
            return RV1(plain.shape[0], lambda c, b=base, lo=lo: b.a(c + lo), origin=('view', base, ('shift', lo)))
        if isinstance(key, IArr) and getattr(plain, 'is_zarr', False):
            return RV1(plain.shape[0], lambda c, b=base, k=key: b.a(k.a(c)), origin=('view', base, ('gather', key)))
        return plain
    if isinstance(base, IArr):
        if isinstance(key, IArr):           # gather
            out = fi('g'); k = z3.Int('k')
            st.pc.append(z3.ForAll([k], z3.Implies(rng(k, key.n), out(k) == base.a(key.a(k)))))
            tags = {}
            if key.tags.get('perm_of') is base:
                l = z3.Int('l')
                keep_lemma(ex, st, node, 'gather through the sorting permutation is sorted',
                           z3.ForAll([k, l], z3.Implies(z3.And(0 <= k, k <= l, l < key.n), out(k) <= out(l))))
                tags['sorted'] = True
            if key.tags.get('isperm') and key.tags.get('inv') is not None:
                i = z3.Int('i')
                keep_lemma(ex, st, node, 'gather through a permutation keeps every value (at the inverse position)',
                           z3.ForAll([i], z3.Implies(rng(i, base.n), z3.And(rng(key.tags['inv'](i), key.n), out(key.tags['inv'](i)) == base.a(i)))))
            return IArr(out, key.n, tags)
        if isinstance(key, slice):
            ln, lo, hi = slice_len(key, base.n)
            out = fi('sl'); k = z3.Int('k')
            st.pc.append(z3.ForAll([k], z3.Implies(rng(k, ln), out(k) == base.a(lo + k))))
            return IArr(out, ln)
        if isinstance(key, int) or is_z(key):
            k = zint(key)
            oblige(ex, st, node, 'index', f'{ast.unparse(node)[:40]}: index in range', z3.And(k >= -zint(base.n), k < zint(base.n)))
            return base.a(z3.If(k < 0, k + base.n, k))
        raise Unsupported('index into integer array')
    if getattr(base, 'is_sarr', False) and isinstance(key, tuple) and len(key) == 2:
        plain = q_getitem(ex, st, node, ZArr(base.shape, base.kind), key)        # obligations + result shape
        if getattr(plain, 'is_zarr', False) and plain.ndim == 2:
            maps = []; how = []
            for ax, k in enumerate(key):
                if isinstance(k, IArr):
                    maps.append(lambda t, k=k: k.a(t)); how.append(('gather', k))
                elif isinstance(k, slice):
                    _, lo, _ = slice_len(k, base.shape[ax])
                    maps.append(lambda t, lo=lo: t + lo); how.append(('shift', lo))
                else:
                    maps = None; break
            if maps:
                f0, f1 = maps
                val = (lambda i, j, b=base, f0=f0, f1=f1: b.val(f0(i), f1(j))) if getattr(base, 'val', None) is not None else None
                return SArr(plain.shape, plain.kind, lambda i, j, b=base, f0=f0, f1=f1: b.nz(f0(i), f1(j)), val=val, origin=('view', base, f0, f1, how))
        return plain
    if getattr(base, 'is_zarr', False):
        if not isinstance(key, tuple):
            key = (key,)
        if any(isinstance(k, IArr) for k in key):
            shape = []
            for ax, k in enumerate(key):
                if isinstance(k, IArr):
                    # advanced indexing with an index array: entries must be in range
                    j = z3.Int('j')
                    oblige(ex, st, node, 'index', f'{ast.unparse(node)[:50]}: index array within bounds',
                           z3.ForAll([j], z3.Implies(rng(j, k.n), rng(k.a(j), zint(base.shape[ax])))))
                    shape.append(k.n)
                elif isinstance(k, slice) and k == slice(None, None, None):
                    shape.append(base.shape[ax])
                else:
                    raise Unsupported('mixed advanced indexing')
            shape += list(base.shape[len(key):])
            return ZArr(shape, base.kind)
    return z_getitem(ex, st, node, base, key)

def q_setitem(ex, st, node, base, key, v):
    if getattr(base, 'is_rv1', False) and isinstance(key, slice) and getattr(v, 'is_rv1', False):
        q_setitem(ex, st, node, ZArr(base.shape, 'real'), key, ZArr(v.shape, 'real'))          # index / shape obligations
        lo, hi = zint(key.start), zint(key.stop)
        return RV1(base.shape[0], lambda c, b=base, lo=lo, hi=hi, v=v: z3.If(z3.And(c >= lo, c < hi), v.a(c - lo), b.a(c)), origin=('store', base, (lo, hi), v))
    if isinstance(base, MArr) and isinstance(key, slice) and (is_z(v) or isinstance(v, int)):
        n = zint(base.n); lo, hi = zint(key.start), zint(key.stop)
        oblige(ex, st, node, 'index', f'{ast.unparse(node)[:50]}: slice within bounds', z3.And(lo >= 0, hi <= n, lo <= hi))
        return MArr(lambda c, b=base, lo=lo, hi=hi, v=zint(v): z3.If(z3.And(c >= lo, c < hi), v, b.a(c)), base.n, {})
    if getattr(base, 'is_sarr', False) and isinstance(key, tuple) and len(key) == 2:
        plain = q_setitem(ex, st, node, ZArr(base.shape, base.kind), key, v)      # index / shape / dtype obligations
        conds = []; offs = []
        for ax, k in enumerate(key):
            if isinstance(k, slice):
                _, lo, hi = slice_len(k, base.shape[ax])
                conds.append(lambda t, lo=lo, hi=hi: z3.And(t >= lo, t < hi)); offs.append(lo)
            elif isinstance(k, int) or is_z(k):
                kk = zint(k); nn = zint(base.shape[ax]); kk = z3.If(kk < 0, kk + nn, kk)
                conds.append(lambda t, kk=kk: t == kk); offs.append(kk)
            else:
                return plain
        vz = nz_of(v) if getattr(v, 'is_zarr', False) and v.ndim == 2 else (lambda i, j: z3.BoolVal(True))
        if isinstance(v, int) and v == 0:
            vz = lambda i, j: z3.BoolVal(False)
        c0, c1 = conds; o0, o1 = offs
        val = None
        if getattr(base, 'val', None) is not None:
            if getattr(v, 'is_sarr', False) and v.val is not None:
                vv = v.val
            elif isinstance(v, int):
                vv = lambda i, j, v=v: z3.RealVal(v)
            else:
                vv = fresh_val('unk')
            val = lambda i, j, b=base, vv=vv: z3.If(z3.And(c0(i), c1(j)), vv(i - o0, j - o1), b.val(i, j))
        return SArr(base.shape, base.kind, lambda i, j, b=base: z3.If(z3.And(c0(i), c1(j)), vz(i - o0, j - o1), b.nz(i, j)),
                    val=val, origin=('store', base, (c0, c1, o0, o1, key), v))
    if getattr(base, 'is_zarr', False) and is_z(v) and not isinstance(key, tuple) and isinstance(key, slice):
        n = zint(base.shape[0])
        oblige(ex, st, node, 'index', f'{ast.unparse(node)[:50]}: slice within bounds', z3.And(zint(key.start) >= 0, zint(key.stop) <= n, zint(key.start) <= zint(key.stop)))
        return base
    if getattr(base, 'is_zarr', False) and (isinstance(v, int) or is_z(v)) and isinstance(key, tuple):
        return z_setitem(ex, st, node, base, key, ZScal('int'))
    return z_setitem(ex, st, node, base, key, v)

def q_binop(ex, st, node, op, l, r):
    if isinstance(l, IArr) and isinstance(r, IArr) and isinstance(op, ast.Sub):
        return IArr(None, l.n, {'diff': (l, r)})
    return z_binop(ex, st, node, op, l, r)

def q_compare(ex, st, node, op, l, r):
    if isinstance(l, IArr) and (is_z(r) or isinstance(r, int) or isinstance(r, ElemVal)) and isinstance(op, ast.Eq):
        return EqMask(l, r.v if isinstance(r, ElemVal) else r)
    if isinstance(l, NormOf) and r == 0 and isinstance(op, ast.Eq):
        # ||A|| == 0  <=>  no non-zero entry
        i, j = z3.Ints('i j')
        return z3.ForAll([i, j], z3.Implies(z3.And(rng(i, zint(l.a.shape[0])), rng(j, zint(l.a.shape[1]))), z3.Not(NZ(i, j))))
    return z_compare(ex, st, node, op, l, r)

def q_len(ex, st, node, args, kw):
    v = args[0]
    if isinstance(v, IArr):
        return v.n
    return z_len(ex, st, node, args, kw)

def q_neg(ex, st, node, v):
    if isinstance(v, IArr):
        out = fi('neg'); k = z3.Int('k')
        st.pc.append(z3.ForAll([k], out(k) == -v.a(k)))
        return IArr(out, v.n)
    raise Unsupported('neg')

class ElemVal:
    def __init__(self, v): self.v = v

NZ = z3.Function('nz', I, I, z3.BoolSort())

def is_qsparse(ex, st, node, args, kw):
    return z3.BoolVal(True) if st.env.get('#sparse_assumed') else Unknown('is_qsparse')

def np_zeros_q(ex, st, node, args, kw):
    from .libz import np_zeros
    dt = kw.get('dtype')
    if isinstance(dt, IArrDtype):
        z = np_zeros(ex, st, node, args[:1], {})
        return MArr(lambda c: z3.IntVal(0), z.shape[0], {})  # integer charge array: all entries zero
    z = np_zeros(ex, st, node, args[:1], {'dtype': dt} if dt is not None else {})
    if getattr(z, 'is_zarr', False) and z.ndim == 2:
        return SArr(z.shape, z.kind, lambda i, j: z3.BoolVal(False), val=(lambda i, j: z3.RealVal(0)) if TRACK_VALUES[0] else None, origin=('zeros',))
    if TRACK_VALUES[0] and getattr(z, 'is_zarr', False) and z.ndim == 1 and z.kind == 'real':
        return RV1(z.shape[0], lambda c: z3.RealVal(0), origin=('zeros',))
    return z

class IArrDtype:
    pass

def g_dtype(ex, st, node, base):
    if isinstance(base, IArr):
        return IArrDtype()
    if getattr(base, 'is_zarr', False):
        from .libz import kind_of
        return ('dtype', kind_of(base))
    return 'dtype'

def np_issubdtype(ex, st, node, args, kw):
    dt = args[0]
    what = ast.unparse(node.args[1])
    if isinstance(dt, tuple) and dt and dt[0] == 'dtype' and dt[1] in ('int', 'real', 'complex') and 'inexact' in what:
        return dt[1] in ('real', 'complex')
    return Unknown('dtype kind')


LIB_Q = dict(LIB_Z)
LIB_Q.update({'np.intersect1d': np_intersect1d, 'np.argsort': np_argsort, 'np.arange': np_arange, 'np.any': np_any, 'np.array': np_array,
              'np.where': np_where, 'np.linalg.qr': np_qr, 'np.linalg.svd': np_svd, 'np.linalg.norm': np_norm, 'getitem': q_getitem,
              'setitem': q_setitem, 'binop': q_binop, 'compare': q_compare, 'len': q_len, 'neg': q_neg, 'is_qsparse': is_qsparse,
              'np.zeros': np_zeros_q, 'getattr.dtype': g_dtype, 'np.issubdtype': np_issubdtype})


def _loop_var_value(ex, st):
    pass


def block_invariant(env, ex, st):
    """sidecar invariant of `for qn in qis` (both functions): the running intermediate dimension never exceeds the
    rows and columns already consumed; blocks are visited in increasing charge order"""
    k = env['#iter']
    D = zint(env['D']); q0 = env['q0']; q1 = env['q1']; qis = env['#qis']
    m, n = zint(q0.n), zint(q1.n)
    def val(name):
        v = env.get(name)
        if v is None or getattr(v, 'is_unbound', False):
            return z3.Int(f'ghost_{name}')
        return zint(v)
    i1, j1 = val('i1'), val('j1')
    base = z3.And(D >= k, z3.Implies(k == 0, D == 0),
                  z3.Implies(k > 0, z3.And(D <= i1, D <= j1, 0 < i1, i1 <= m, 0 < j1, j1 <= n,
                                           q0.a(i1 - 1) == qis.a(k - 1), q1.a(j1 - 1) == qis.a(k - 1))))
    # support part: the columns of the left factor / rows of the right factor filled so far are block sparse under the
    # intermediate charges written so far, and nothing beyond the running dimension D has been written
    left = env.get('Q', env.get('u')); right = env.get('R', env.get('v')); qi = env.get('qinterm', env.get('q'))
    if getattr(left, 'is_sarr', False) and getattr(right, 'is_sarr', False) and isinstance(qi, IArr):
        i, j, c = z3.Ints('i j c')
        base = z3.And(base,
                      z3.ForAll([i, c], z3.Implies(z3.And(rng(i, m), c >= 0, left.nz(i, c)), z3.And(c < D, q0.a(i) == qi.a(c)))),
                      z3.ForAll([c, j], z3.Implies(z3.And(rng(j, n), c >= 0, right.nz(c, j)), z3.And(c < D, qi.a(c) == q1.a(j)))))
    return base


def run_contract(fn, with_tol, kind='complex'):
    from . import smt
    smt.EXTERNAL[0] = True
    out = []; t0 = time.time()
    fnode = loader.function(fn)
    m, n = z3.Ints('m n')
    q0f, q1f = fi('q0_'), fi('q1_')
    Q0, Q1 = IArr(q0f, m), IArr(q1f, n)
    A0 = SArr((m, n), kind, NZ, name='A0')
    i, j = z3.Ints('i j')
    requires = [m >= 1, n >= 1, z3.ForAll([i, j], z3.Implies(z3.And(rng(i, m), rng(j, n), NZ(i, j)), q0f(i) == q1f(j)))]
    solver = Solver()
    inv_sig = 'for qn in qis'
    # the loop handler binds the loop variable to ElemOf(qis, idx): translate on read
    def inv(env, ex_, st_):
        e = dict(env)
        it = env.get('#qis')
        return block_invariant(e, ex_, st_)
    handler = make_loop_handler({inv_sig: inv})
    ex = Exec(lib=dict(LIB_Q), calls={'retained_bond_indices': K_retained}, mode='Z', solver=solver, loop_handler=None, fname=fn)
    def loop_handler(ex_, node, st_):
        # remember the iterated array for the invariant, and turn the element variable into its value
        if isinstance(node, ast.For) and isinstance(node.target, ast.Name):
            it = ex_.ev(node.iter, st_)
            if isinstance(it, IArr):
                st_.env['#qis'] = it
        outs = handler(ex_, node, st_)
        return outs
    ex.loop_handler = loop_handler
    ex.check_dtypes = True
    ex.assume_asserts = {'A.ndim == 2', 'len(q0) == A.shape[0]', 'len(q1) == A.shape[1]', 'is_qsparse(A, [q0, -q1])'}
    args = {'A': A0, 'q0': Q0, 'q1': Q1, '#sparse_assumed': True}
    if with_tol:
        args['tol'] = z3.Real('tol')
    st = State(args, requires)
    # ElemOf values: reading the loop variable gives qis[idx]
    orig_name = ex.ev_Name
    def ev_Name(e, st_):
        v = orig_name(e, st_)
        if isinstance(v, ElemOf):
            return v.arr.a(v.idx)
        return v
    ex.ev_Name = ev_Name
    try:
        states = ex.block(fnode.body, [st])
    except Refuted as e:
        return [Verdict('executes', 'Z', 'refuted', str(e) + ' (needs native confirmation)', time.time() - t0, fn, 'safety', 'z3')]
    except Unsupported as e:
        return [Verdict('executes', 'Z', 'undecided', f'outside fragment: {e}', time.time() - t0, fn, 'safety', 'z3')]
    for ob in ex.obligations:
        status = 'discharged' if ob.holds is True else 'refuted' if ob.holds is False else 'undecided'
        v = Verdict(f'{ob.kind}@{ob.lineno}: {ob.text[:80]}', 'Z', status, ob.detail + (' (needs native confirmation: quantified counter-model)' if status == 'refuted' else ''),
                    0.0, fn, ob.kind, 'z3')
        v.confirm = [fn.split('.')[-1]]
        out.append(v)
    finals = [s for s in states if s.done and s.raised is None and solver.feasible(s.pc)]
    if not finals:
        out.append(Verdict('returns', 'Z', 'undecided', 'no returning path', 0, fn, 'ensures', 'z3'))
    agg = {}
    for s in finals:
        ret = s.ret
        Dd = None
        try:
            if with_tol:
                u, sv, v, q = ret
                qn_ = q.n if isinstance(q, IArr) else q.shape[0]
                cl = [('sizes_consistent', z3.And(zint(u.shape[0]) == m, zint(v.shape[1]) == n, zint(u.shape[1]) == zint(sv.shape[0]),
                                                  zint(v.shape[0]) == zint(sv.shape[0]), zint(qn_) == zint(sv.shape[0]))),
                      ('intermediate_dim_bound', z3.And(zint(sv.shape[0]) >= 0, zint(sv.shape[0]) <= z3.If(m <= n, m, n)))]
                cl.append(('factors_block_sparse_under_intermediate_charges', sparse_post(u, v, q, q0f, q1f, m, n)))
            else:
                Qm, Rm, q = ret
                qn_ = q.n if isinstance(q, IArr) else q.shape[0]
                cl = [('sizes_consistent', z3.And(zint(Qm.shape[0]) == m, zint(Rm.shape[1]) == n, zint(Qm.shape[1]) == zint(Rm.shape[0]), zint(qn_) == zint(Qm.shape[1]))),
                      ('intermediate_dim_bound', z3.And(zint(Qm.shape[1]) >= 1, zint(Qm.shape[1]) <= z3.If(m <= n, m, n)))]
                cl.append(('factors_block_sparse_under_intermediate_charges', sparse_post(Qm, Rm, q, q0f, q1f, m, n)))
        except Exception as e:
            agg.setdefault('postcondition', []).append(None)
            continue
        for name, f in cl:
            agg.setdefault(name, []).append(None if f is None else solver.implied([p for p in s.pc if is_z(p)], f, final=True))
    for name, rs in agg.items():
        status = 'discharged' if all(r is True for r in rs) else 'refuted' if any(r is False for r in rs) else 'undecided'
        v = Verdict(name, 'Z', status, f'{len(rs)} return paths' + (' (needs native confirmation: quantified counter-model)' if status == 'refuted' else ''), 0, fn, 'ensures', 'z3')
        v.confirm = [fn.split('.')[-1]]
        out.append(v)
    tot = time.time() - t0
    if any(v.kind == 'invariant' and v.status != 'discharged' for v in out):
        for v in out:
            if v.kind == 'ensures' and v.status == 'discharged':
                v.status = 'undecided'; v.detail = 'follows from the loop invariant, which is not established on this tree'
    for v in out:
        v.seconds = tot / max(1, len(out))
        v.name = f'{v.name} [entries: {kind}]'
    return out


def sparse_post(left, right, q, q0f, q1f, m, n):
    """every possibly non-zero entry of the returned factors connects equal charges: left[i, c] != 0 => q0[i] == q[c],
    right[c, j] != 0 => q[c] == q1[j]   (is_qsparse(left, [q0, -q]) and is_qsparse(right, [q, -q1]))"""
    if not (getattr(left, 'is_sarr', False) and getattr(right, 'is_sarr', False) and isinstance(q, IArr)):
        return None
    i, j, c = z3.Ints('i j c')
    D = zint(q.n)
    return z3.And(z3.ForAll([i, c], z3.Implies(z3.And(rng(i, m), rng(c, D), left.nz(i, c)), q0f(i) == q.a(c))),
                  z3.ForAll([c, j], z3.Implies(z3.And(rng(c, D), rng(j, n), right.nz(c, j)), q.a(c) == q1f(j))))


def K_retained(ex, st, node, args, kw):
    """callee contract of retained_bond_indices (proved in vt/ztrunc.py): an increasing vector of indices in range"""
    s = args[0]
    cnt = fresh_int('kept'); w = fi('idx'); k, l = z3.Ints('k l')
    nn = zint(s.shape[0])
    st.pc += [cnt >= 0, cnt <= nn, z3.ForAll([k], z3.Implies(rng(k, cnt), rng(w(k), nn))),
              z3.ForAll([k, l], z3.Implies(z3.And(0 <= k, k < l, l < cnt), w(k) < w(l)))]
    out = IArr(w, cnt, {'retained': True})
    if getattr(s, 'is_rv1', False):
        # the rest of the contract proved in vt/ztrunc.py: the result enumerates exactly the kept indices, and with tol == 0
        # only exact zeros are discarded (`tol0_discards_only_zeros`; the zero-vector path returns the empty vector)
        kept = z3.Function(f'kept{next(_n)}', I, z3.BoolSort()); pos = fi('kpos'); c = z3.Int('c')
        tol = args[1] if len(args) > 1 else None
        st.pc += [z3.ForAll([k], z3.Implies(rng(k, cnt), kept(w(k)))),
                  z3.ForAll([c], z3.Implies(z3.And(rng(c, nn), kept(c)), z3.And(rng(pos(c), cnt), w(pos(c)) == c)))]
        if tol is not None and is_z(tol):
            st.pc.append(z3.Implies(tol == 0, z3.ForAll([c], z3.Implies(z3.And(rng(c, nn), z3.Not(kept(c))), s.a(c) == 0))))
        out.tags['kept'] = kept; out.tags['pos'] = pos; out.tags['of'] = s; out.tags['tol'] = tol
    return out


def verify(prop, kind='complex'):
    out = []
    if prop in ('C11', 'C01'):
        try:
            out += run_contract('bond_ops.qr', False, kind)
        except Exception as e:
            import traceback
            out.append(Verdict('block_loop', 'Z', 'undecided', f'executor error: {type(e).__name__}: {e} {traceback.format_exc()[-500:]}', 0, 'bond_ops.qr', 'ensures', 'z3'))
    if prop in ('C12', 'C13'):
        try:
            out += run_contract('bond_ops.split_matrix_svd', True, kind)
        except Exception as e:
            import traceback
            out.append(Verdict('block_loop', 'Z', 'undecided', f'executor error: {type(e).__name__}: {e} {traceback.format_exc()[-500:]}', 0, 'bond_ops.split_matrix_svd', 'ensures', 'z3'))
    return out
