"""Mutation self-test (thorough tier / developer tool): apply each seed mutant to a scratch copy of
pytenet under $TMPDIR (default /dev/shm), run the registered checks with VT_REPO pointing at the copy,
record which obligation/clauses fire, delete the copy."""
import json, os, shutil, subprocess, sys, tempfile, time
from .mutants import M
from . import loader

VERIF = os.path.dirname(os.path.dirname(os.path.abspath(__file__)))

def run_mutant(m, props=None, tier='quick'):
    base = tempfile.mkdtemp(prefix='vtmut_', dir=os.environ.get('TMPDIR', '/dev/shm'))
    try:
        shutil.copytree(os.path.join('/repo', 'pytenet'), os.path.join(base, 'pytenet'), ignore=shutil.ignore_patterns('__pycache__'))
        p = os.path.join(base, 'pytenet', m['file'])
        s = open(p).read()
        if s.count(m['old']) != 1:
            return dict(id=m['id'], error=f"pattern occurs {s.count(m['old'])} times")
        open(p, 'w').write(s.replace(m['old'], m['new']))
        out = {}
        for pid in (props or m['props']):
            env = dict(os.environ, VT_REPO=base, VT_NO_EVIDENCE='1')
            r = subprocess.run(['python3-vt', '-m', 'vt.cli', 'check', pid, '--tier', tier], cwd=VERIF, env=env, capture_output=True, text=True)
            viol = [l for l in r.stdout.splitlines() if l.startswith('VIOLATION')]
            out[pid] = dict(rc=r.returncode, violations=[v.split('replay=')[1].split('/')[-1] + ' ' + ' '.join(v.split()[3:]) for v in viol][:6],
                            broken=[l for l in r.stdout.splitlines() if l.startswith('CHECKER-BROKEN')][:2])
        return dict(id=m['id'], expect=m['expect'], note=m['note'], results=out)
    finally:
        shutil.rmtree(base, ignore_errors=True)

def main():
    ids = sys.argv[1:]
    res = []
    for m in M:
        if ids and m['id'] not in ids:
            continue
        t = time.time()
        r = run_mutant(m)
        r['seconds'] = round(time.time() - t, 1)
        print(json.dumps(r))
        res.append(r)
    return res

if __name__ == '__main__':
    main()
