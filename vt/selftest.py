"""Mutation self-test (thorough tier / developer tool): apply each seed mutant to a scratch copy of
pytenet under $TMPDIR (default /dev/shm), run the registered checks with VT_REPO pointing at the copy,
record which obligation/clauses fire, delete the copy."""
import json, os, shutil, subprocess, sys, tempfile, time
from .mutants import M
from . import loader

VERIF = os.path.dirname(os.path.dirname(os.path.abspath(__file__)))

def _copy_repo(base):
    """copy the working tree's pytenet/ under the lock that the seeded-change detection holds while /repo is patched"""
    import fcntl
    with open('/tmp/vt_repo.lock', 'w') as lock:
        fcntl.flock(lock, fcntl.LOCK_EX)
        shutil.copytree(os.path.join('/repo', 'pytenet'), os.path.join(base, 'pytenet'), ignore=shutil.ignore_patterns('__pycache__'))


def run_mutant(m, props=None, tier='quick'):
    base = tempfile.mkdtemp(prefix='vtmut_', dir=os.environ.get('TMPDIR', '/dev/shm'))
    try:
        _copy_repo(base)
        p = os.path.join(base, 'pytenet', m['file'])
        s = open(p).read()
        if s.count(m['old']) != 1:
            return dict(id=m['id'], error=f"pattern occurs {s.count(m['old'])} times")
        open(p, 'w').write(s.replace(m['old'], m['new']))
        out = {}
        for pid in (props or m['props']):
            env = dict(os.environ, VT_REPO=base, VT_NO_EVIDENCE='1')
            r = subprocess.run(['python3-vt', '-m', 'vt.cli', 'check', pid, '--tier', tier], cwd=VERIF, env=env, capture_output=True, text=True)
            viol = [l for l in r.stdout.splitlines() if l.startswith('VIOLATION')]
            out[pid] = dict(rc=r.returncode, violations=[v.split('replay=')[1].split('/')[-1] + ' ' + ' '.join(v.split()[3:]) for v in viol][:6],
                            broken=[l for l in r.stdout.splitlines() if l.startswith('CHECKER-BROKEN')][:2])
        return dict(id=m['id'], expect=m['expect'], note=m['note'], results=out)
    finally:
        shutil.rmtree(base, ignore_errors=True)

def run_seeded(name, props=None, tier='quick'):
    """apply an independently produced change (/verif/seeded/<name>/patch.diff) to a scratch copy and run the checks"""
    d = os.path.join(VERIF, 'seeded', name)
    meta = json.load(open(os.path.join(d, 'meta.json')))
    base = tempfile.mkdtemp(prefix='vtmut_', dir=os.environ.get('TMPDIR', '/dev/shm'))
    try:
        _copy_repo(base)
        r = subprocess.run(['patch', '-p1', '-s', '-d', base, '-i', os.path.join(d, 'patch.diff')], capture_output=True, text=True)
        if r.returncode != 0:
            return dict(id=name, error='patch does not apply: ' + (r.stdout + r.stderr)[-200:])
        out = {}
        for pid in (props or [meta['property']]):
            env = dict(os.environ, VT_REPO=base, VT_NO_EVIDENCE='1')
            rr = subprocess.run(['python3-vt', '-m', 'vt.cli', 'check', pid, '--tier', tier], cwd=VERIF, env=env, capture_output=True, text=True)
            viol = [l for l in rr.stdout.splitlines() if l.startswith('VIOLATION')]
            out[pid] = dict(rc=rr.returncode, violations=[' '.join(v.split()[3:])[:120] for v in viol][:6])
        return dict(id=name, expect='violation', results=out)
    finally:
        shutil.rmtree(base, ignore_errors=True)


def for_property(pid):
    """mutation self-test of one property (thorough tier): own seed mutants + a sample of the independently produced changes
    (VT_SELFTEST_MAX of them, default 6, spread over the sorted names; the complete regression of all kept changes is
    `python3-vt -m vt.seedtest detect <name>` / DESIGN section 10); three scratch copies at a time"""
    import concurrent.futures as cf
    jobs = []
    for m in M:
        if pid in m['props']:
            jobs.append(('m', m))
    sd = os.path.join(VERIF, 'seeded')
    names = []
    for name in sorted(os.listdir(sd)) if os.path.isdir(sd) else []:
        mp = os.path.join(sd, name, 'meta.json')
        if os.path.exists(mp) and json.load(open(mp)).get('property') == pid:
            names.append(name)
    cap = int(os.environ.get('VT_SELFTEST_MAX', '6'))
    if len(names) > cap > 0:
        step = len(names) / cap
        names = [names[int(k * step)] for k in range(cap)]
    jobs += [('s', n) for n in names]
    def one(job):
        kind, x = job
        r = run_mutant(x, props=[pid]) if kind == 'm' else run_seeded(x, [pid])
        r['caught'] = r.get('results', {}).get(pid, {}).get('rc') == 1
        return r
    with cf.ThreadPoolExecutor(3) as ex:
        return list(ex.map(one, jobs))


def main():
    ids = sys.argv[1:]
    res = []
    for m in M:
        if ids and m['id'] not in ids:
            continue
        t = time.time()
        r = run_mutant(m)
        r['seconds'] = round(time.time() - t, 1)
        print(json.dumps(r))
        res.append(r)
    return res

if __name__ == '__main__':
    main()
