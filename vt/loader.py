"""Load the real pytenet sources (AST) from the working tree on every run.

VT_REPO overrides the repository root (used by the mutation self-test on scratch copies)."""
import ast, hashlib, os

def repo_root():
    return os.environ.get('VT_REPO', '/repo')

_cache = {}

class Module:
    def __init__(self, name):
        self.name = name
        self.path = os.path.join(repo_root(), 'pytenet', name + '.py')
        with open(self.path, 'rb') as f:
            raw = f.read()
        self.sha256 = hashlib.sha256(raw).hexdigest()
        self.source = raw.decode()
        self.tree = ast.parse(self.source)
        self.functions = {}
        self.classes = {}
        for n in self.tree.body:
            if isinstance(n, ast.FunctionDef):
                self.functions[n.name] = n
            elif isinstance(n, ast.ClassDef):
                self.classes[n.name] = n
                for m in n.body:
                    if isinstance(m, ast.FunctionDef):
                        self.functions[f'{n.name}.{m.name}'] = m

def module(name):
    key = (repo_root(), name)
    if key not in _cache:
        _cache[key] = Module(name)
    return _cache[key]

def function(qualname):
    """'mps.local_orthonormalize_left_qr' or 'mps.MPS.orthonormalize' -> ast.FunctionDef"""
    mod, _, fn = qualname.partition('.')
    m = module(mod)
    if fn not in m.functions:
        raise KeyError(f'function {qualname} not found in {m.path}')
    return m.functions[fn]

def hashes(modnames):
    return {f'pytenet/{n}.py': module(n).sha256 for n in modnames}

def used_modules():
    return sorted({k[1] for k in _cache if k[0] == repo_root()})

def unparse(node):
    return ast.unparse(node)

def loop_signature(node):
    if isinstance(node, ast.For):
        it = node.iter
        # `range(0, n)` and `range(n)` are the same loop (a frequent harmless edit)
        if isinstance(it, ast.Call) and isinstance(it.func, ast.Name) and it.func.id == 'range' and len(it.args) == 2 and not it.keywords \
                and isinstance(it.args[0], ast.Constant) and it.args[0].value == 0:
            it = ast.Call(func=it.func, args=[it.args[1]], keywords=[])
        return f'for {ast.unparse(node.target)} in {ast.unparse(it)}'
    if isinstance(node, ast.While):
        return f'while {ast.unparse(node.test)}'
    raise TypeError(node)

def loops_of(fn):
    """loops of a function in source order (ordinal = position in this list)"""
    out = []
    for n in ast.walk(fn):
        if isinstance(n, (ast.For, ast.While)):
            out.append(n)
    out.sort(key=lambda n: (n.lineno, n.col_offset))
    return out
