"""Independent re-check of engine T's equality certificates (deliberately written without using the matching code of
vt/tensor.py): a certificate pairs every term of the left normal form with one term of the right normal form and gives,
per pair, a bijection of the right term's bound indices onto the left term's; after applying it the two terms must have
the same coefficient and the same multisets of atoms and deltas."""
from collections import Counter


def _tok(t, m):
    # token -> hashable key after renaming (dimension-1 tokens are all equal)
    idx = getattr(t, 'idx', t)
    k = getattr(t, 'k', -1) if hasattr(t, 'idx') else -1
    if t.dim == 1:
        return ('one',)
    i = m.get(id(idx), id(idx))
    return (i, k)


def _atoms(term, m):
    return Counter((n, c, tuple(tuple(_tok(i, m) for i in ax) for ax in args)) for n, c, args in term.atoms)


def _deltas(term, m):
    return Counter(tuple(sorted((_tok(a, m), _tok(b, m)))) for a, b in term.deltas)


def check(lhs_terms, rhs_terms, cert):
    """cert: list of (lhs term index, rhs term index, {id(rhs bound idx): id(lhs bound idx)})"""
    if len(cert) != len(lhs_terms) or len(cert) != len(rhs_terms):
        return False, 'certificate does not cover all terms'
    if sorted(c[0] for c in cert) != list(range(len(lhs_terms))) or sorted(c[1] for c in cert) != list(range(len(rhs_terms))):
        return False, 'certificate is not a pairing'
    for li, ri, m in cert:
        l, r = lhs_terms[li], rhs_terms[ri]
        if l.coeff != r.coeff:
            return False, 'coefficients differ'
        lb = {id(b) for b in l.bound}; rb = {id(b) for b in r.bound}
        if set(m.keys()) != rb or set(m.values()) != lb or len(set(m.values())) != len(m):
            return False, 'not a bijection of bound indices'
        for b in r.bound:
            tgt = [x for x in l.bound if id(x) == m[id(b)]][0]
            if repr(b.dim) != repr(tgt.dim):
                return False, 'bijection does not respect dimensions'
        if _atoms(l, {}) != _atoms(r, m) or _deltas(l, {}) != _deltas(r, m):
            return False, 'terms differ after renaming'
    return True, f'{len(cert)} term pairs re-checked'
