"""Seed list of property-breaking (and a few harmless) edits for the mutation self-test.
Each: id, file (under pytenet/), old, new, props (checks expected to alarm), expect ('violation' | 'quiet')."""
M = []
def mut(id, file, old, new, props, expect='violation', note=''):
    M.append(dict(id=id, file=file, old=old, new=new, props=list(props), expect=expect, note=note))

mut('C01-a', 'mps.py', "            if nrm < 0:\n                # flip sign such that normalization factor is always non-negative\n                self.A[-1] = -self.A[-1]\n                nrm = -nrm\n            return nrm\n        if mode == 'right':",
    "            return nrm\n        if mode == 'right':", ['C01'], note='drop sign flip (MPS left)')
mut('C01-b', 'bond_ops.py', "        # single column of 'Q' should have norm 1\n        Q[0, 0] = 1\n", "", ['C01', 'C11'], note='dummy bond without unit column')
mut('C01-c', 'mps.py', "Anext = np.tensordot(R, Anext, (1, 1)).transpose((1, 0, 2))\n    return (A, Anext, qbond)\n\n\ndef local_orthonormalize_right_qr",
    "Anext = np.tensordot(R, Anext, (0, 1)).transpose((1, 0, 2))\n    return (A, Anext, qbond)\n\n\ndef local_orthonormalize_right_qr", ['C01'], note='R contracted over the wrong leg (shapes agree for square bonds only)')
mut('C02-a', 'mps.py', "    Aprev = np.tensordot(Aprev, R, (2, 1))\n    return (A, Aprev, -qbond)", "    Aprev = np.tensordot(Aprev, R, (2, 1))\n    return (A, Aprev, qbond)", ['C01', 'C02'], note='forgotten sign of the bond charges in the right sweep')
mut('C04-a', 'operation.py', "Rnext = np.tensordot(T, B.conj(), axes=((0, 2), (0, 2)))", "Rnext = np.tensordot(T, B, axes=((0, 2), (0, 2)))", ['C04'], note='dropped conjugation')
mut('C04-b', 'operation.py', "Lnext = np.tensordot(A, T, axes=((0, 1), (1, 0)))", "Lnext = np.tensordot(A, T, axes=((0, 1), (1, 0))).T", ['C04'], note='transposed left block')
mut('C03-b', 'mps.py', "        A1 = A1 * sigma[:, None, None]\n    elif svd_distr == 'sqrt':", "        A1 = A1 * sigma[None, :, None]\n    elif svd_distr == 'sqrt':", ['C03', 'C12'], note="'right' distribution multiplies the wrong leg")
mut('C08-b', 'krylov.py', "return V @ (u_hess @ (np.linalg.norm(v) * np.exp(dt*w_hess) * u_hess[0]))", "return np.linalg.norm(v) * (V @ (u_hess @ (np.exp(dt*w_hess) * u_hess[0])))", ['C08', 'C15'], expect='quiet', note='harmless re-association')
mut('C11-a', 'bond_ops.py', "idx0 = np.argsort(q0, kind='mergesort')\n    idx1 = np.argsort(q1, kind='mergesort')\n    if np.any(idx0 - np.arange(len(idx0))):\n        # if not sorted yet...\n        q0 = q0[idx0]\n        A = A[idx0, :]\n    if np.any(idx1 - np.arange(len(idx1))):\n        # if not sorted yet...\n        q1 = q1[idx1]\n        A = A[:, idx1]\n\n    # maximum intermediate dimension\n    max_interm_dim = min(A.shape)\n\n    # keep track of intermediate dimension\n    D = 0\n\n    Q =",
    "idx0 = np.argsort(q0, kind='stable')\n    idx1 = np.argsort(q1, kind='stable')\n    if np.any(idx0 - np.arange(len(idx0))):\n        # if not sorted yet...\n        q0 = q0[idx0]\n        A = A[idx0, :]\n    if np.any(idx1 - np.arange(len(idx1))):\n        # if not sorted yet...\n        q1 = q1[idx1]\n        A = A[:, idx1]\n\n    # maximum intermediate dimension\n    max_interm_dim = min(A.shape)\n\n    # keep track of intermediate dimension\n    D = 0\n\n    Q =", ['C11', 'C01'], expect='quiet', note='harmless: another stable sort')

mut('C14-a', 'krylov.py', "return (alpha[:numiter], beta[:numiter-1], V[:numiter, :].T)", "return (alpha[:numiter], beta[:numiter], V[:numiter, :].T)", ['C14'], note='early exit returns one beta too many')
mut('C14-b', 'krylov.py', "            return H[:numiter, :numiter], V[:numiter, :].T", "            return H[:numiter, :numiter], V[:numiter+1, :].T", ['C14'], note='Arnoldi early exit returns an extra (unnormalised) vector')
mut('C19-a', 'mps.py', "        mps.qD[ 0] = mps0.qD[ 0].copy()\n        mps.qD[-1] = mps0.qD[-1].copy()", "        mps.qD[ 0] = mps0.qD[ 0]\n        mps.qD[-1] = mps0.qD[-1].copy()", ['C19'], note='sum shares its leading bond charges with the first operand')
mut('C16-b', 'opgraph.py', "        other = copy.deepcopy(other)\n", "", ['C16', 'C19'], note='OpGraph.add renames ids in the other graph')
mut('C12-b', 'bond_ops.py', "    s = (s / w)**2\n", "    s /= w\n    s = s**2\n", ['C12', 'C19'], note='retained_bond_indices normalises the caller\'s array in place')
mut('C19-b', 'evolution.py', "            psi.A[i] = Q.reshape((s[0], s[1], Q.shape[1]))\n            # update the left blocks", "            psi.A[i] = Q.reshape((s[0], s[1], Q.shape[1]))\n            H.A[i] *= 1.0\n            # update the left blocks", ['C19', 'C08'], expect='violation', note='in-place (value-preserving) write to the Hamiltonian: frame violation only visible statically')

mut('C11-b', 'bond_ops.py', "        D += Qsub.shape[1]\n", "        D += Qsub.shape[0]\n", ['C11'], note='intermediate dimension advanced by the row count of the block (differs for tall blocks)')
mut('C11-c', 'bond_ops.py', "        iqn = np.where(q1 == qn)[0]; j0 = iqn[0]; j1 = iqn[-1] + 1\n\n        # perform QR decomposition of current block", "        iqn = np.where(q1 == qn)[0]; j0 = iqn[0]; j1 = iqn[-1]\n\n        # perform QR decomposition of current block", ['C11'], note='column block misses its last column')
