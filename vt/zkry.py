"""Engine Z, inner-product level (C14): the Krylov relations of `lanczos_iteration` and `arnoldi_iteration` in exact arithmetic.

The real AST of pytenet/krylov.py is executed symbolically with *abstract vectors*: a vector is a linear combination (with
symbolic complex coefficients) of atoms of an uninterpreted sort `Vec`; the only observation on vectors is the inner product
`ip(x, y)` (= np.vdot(x, y), conjugate-linear in x), a complex number modelled soundly as a pair of reals (ip_re, ip_im).
`Afunc` is an uninterpreted map Vec -> Vec (for Lanczos: with the Hermitian symmetry ip(x, A y) = ip(A x, y) from the property
statement; linearity is not needed).  The matrix `V` is a function row: Int -> Vec, `H`, `alpha`, `beta` are functions into the
scalars.  Loops are havoc loops with the sidecar invariants below; every invariant and postcondition is discharged by z3.

Assumed (NumPy contracts, conformance-tested on concrete inputs in vt/conformance.py; algebra proved in vt/lemmas/Krylov.lean):
  * np.vdot is the inner product; +, -, scalar * vector, vector / scalar act linearly on it (sesquilinearity);
  * np.linalg.norm(x)^2 = ip(x, x), norm >= 0;
  * (M.conj() @ w)[i] = vdot(M[i], w) and  M.T @ c = sum_i c[i] M[i]  for a row window M = V[:r];
  * for orthonormal rows v_0..v_{r-1} and p = sum_i c_i v_i:  ip(v_i, p) = c_i (Krylov.lean: coeff_of_orthonormal_sum); for any
    rows: x orthogonal to all rows => ip(x, p) = 0 (Krylov.lean: orthogonal_to_span);  u / ||u|| has norm one
    (Krylov.lean: normalized_has_norm_one).  The generator adds these facts only after z3 has proved their premises.
Not covered: floating point (the proof is in exact arithmetic; rounding is the bounded stand-in's clause)."""
import ast, itertools, os, time
import z3
from . import loader
from .contract import Verdict
from .symexec import Unsupported, Refuted
from .libz import ZArr, ZScal, is_z, zint, oblige, norm_index, slice_len, z_binop, z_compare, z_getitem, z_setitem, np_zeros, z_ifexp, FInfo
from . import smt

_n = itertools.count(1)
VecS = z3.DeclareSort('Vec')
R = z3.RealSort(); I = z3.IntSort()
ipr = z3.Function('ip_re', VecS, VecS, R); ipi = z3.Function('ip_im', VecS, VecS, R)
Aop = z3.Function('Afunc', VecS, VecS); nrm = z3.Function('norm', VecS, R); cjv = z3.Function('conj_vec', VecS, VecS)
ZEROV = z3.Const('zero_vec', VecS)
EPS = z3.Real('machine_eps')


def _r(v):
    if is_z(v):
        return z3.ToReal(v) if v.sort() == I else v
    return z3.RealVal(v)


class CV:
    """complex number as a pair of real terms"""
    def __init__(self, re, im=0):
        self.re = z3.simplify(_r(re)); self.im = z3.simplify(_r(im))
    @property
    def is_real(self):
        return z3.is_rational_value(self.im) and self.im.numerator_as_long() == 0
    def __add__(self, o): o = cv(o); return CV(self.re + o.re, self.im + o.im)
    __radd__ = __add__
    def __sub__(self, o): o = cv(o); return CV(self.re - o.re, self.im - o.im)
    def __rsub__(self, o): return cv(o) - self
    def __neg__(self): return CV(-self.re, -self.im)
    def __mul__(self, o): o = cv(o); return CV(self.re * o.re - self.im * o.im, self.re * o.im + self.im * o.re)
    __rmul__ = __mul__
    def conj(self): return CV(self.re, -self.im)
    def eq(self, o): o = cv(o); return z3.And(self.re == o.re, self.im == o.im)
    def ite(self, c, o): o = cv(o); return CV(z3.If(c, self.re, o.re), z3.If(c, self.im, o.im))


def cv(o):
    if isinstance(o, CV):
        return o
    if isinstance(o, KS):
        return o.c
    if isinstance(o, complex):
        return CV(o.real, o.imag)
    if isinstance(o, (int, float)) or is_z(o):
        return CV(o)
    raise Unsupported(f'scalar {type(o).__name__}')


def ip_atoms(x, y):
    return CV(ipr(x, y), ipi(x, y))


class KS(ZScal):
    """scalar with a value"""
    def __init__(self, c, kind=None):
        c = cv(c)
        ZScal.__init__(self, kind or ('real' if c.is_real else 'complex')); self.c = c


class KVec(ZArr):
    """vector = sum of coefficient * atom; atoms are terms of sort Vec"""
    is_kvec = True
    def __init__(self, n, lin):
        ZArr.__init__(self, (n,), 'complex'); self.lin = dict(lin)      # id -> (atom, CV)
    @staticmethod
    def atom(n, t):
        return KVec(n, {t.get_id(): (t, CV(1))})
    def scale(self, c):
        return KVec(self.shape[0], {k: (t, a * c) for k, (t, a) in self.lin.items()})
    def add(self, o, sign=1):
        lin = dict(self.lin)
        for k, (t, a) in o.lin.items():
            b = a if sign == 1 else -a
            lin[k] = (t, lin[k][1] + b) if k in lin else (t, b)
        return KVec(self.shape[0], lin)
    def single(self):
        if len(self.lin) == 1:
            (t, a), = self.lin.values()
            if a.is_real and z3.is_rational_value(a.re) and a.re.numerator_as_long() == 1 and a.re.denominator_as_long() == 1:
                return t
        return None
    def havoc(self):
        return KVec.atom(self.shape[0], z3.Const(f'vec!{next(_n)}', VecS))


def ip(a, b):
    """inner product of two KVec / atoms, expanded over the atoms"""
    la = [(a, CV(1))] if is_z(a) else list(a.lin.values())
    lb = [(b, CV(1))] if is_z(b) else list(b.lin.values())
    tot = CV(0)
    for (s, ca) in la:
        for (t, cb) in lb:
            tot = tot + ca.conj() * cb * ip_atoms(s, t)
    return tot


def materialize(st, v):
    """an atom equal to the vector v (with the two sesquilinearity facts when a new atom is needed)"""
    t = v.single()
    if t is not None:
        return t
    if getattr(v, '_atom', None) is not None:
        return v._atom                      # the same array object was given a name before (its defining facts are on the path)
    u = v._atom = z3.Const(f'vec!{next(_n)}', VecS)
    x = z3.Const('x', VecS)
    l, r = ip(x, v), ip(v, x)
    st.pc.append(z3.ForAll([x], ip_atoms(x, u).eq(l), patterns=[ipr(x, u), ipi(x, u)]))
    st.pc.append(z3.ForAll([x], ip_atoms(u, x).eq(r), patterns=[ipr(u, x), ipi(u, x)]))
    return u


class K1(ZArr):
    """1-D array of scalars with an element function k -> CV"""
    is_k1 = True
    def __init__(self, n, fn, kind='real'):
        ZArr.__init__(self, (n,), kind); self.fn = fn
    def havoc(self):
        f = z3.Function(f'arr!{next(_n)}', I, R); g = z3.Function(f'arr!{next(_n)}', I, R)
        if self.kind == 'complex':
            return K1(self.shape[0], lambda k: CV(f(k), g(k)), self.kind)
        return K1(self.shape[0], lambda k: CV(f(k)), self.kind)


class K2(ZArr):
    """2-D complex array, seen either as rows of abstract vectors (row: i -> atom) or as scalar entries (ent: (i, j) -> CV);
    flags: T (transposed view), cj (entrywise conjugate)"""
    is_k2 = True
    def __init__(self, shape, row=None, ent=None, T=False, cj=False):
        ZArr.__init__(self, shape, 'complex'); self.row = row; self.ent = ent; self.T = T; self.cj = cj
    def havoc(self):
        row = ent = None
        if self.row is not None:
            f = z3.Function(f'rows!{next(_n)}', I, VecS); row = lambda i: f(i)
        if self.ent is not None:
            g = z3.Function(f'mat!{next(_n)}', I, I, R); h = z3.Function(f'mat!{next(_n)}', I, I, R); ent = lambda i, j: CV(g(i, j), h(i, j))
        return K2(self.shape, row, ent, self.T, self.cj)


class KIso(ZArr):
    """matrix seen as an operator on abstract vectors, x -> op(x), with given facts (isometry ...); shape (rows, cols)"""
    is_kiso = True
    def __init__(self, shape, op, cols=None, rows=None):
        ZArr.__init__(self, shape, 'complex'); self.op = op; self.cols = cols; self.rows = rows


class KCols(ZArr):
    """matrix given by its columns as abstract vectors (col: a -> atom), shape (n, ncols)"""
    is_kcols = True
    def __init__(self, shape, col):
        ZArr.__init__(self, shape, 'complex'); self.col = col


def isometry_fact(op):
    x, y = z3.Consts('x y', VecS)
    return z3.ForAll([x, y], ip_atoms(op(x), op(y)).eq(ip_atoms(x, y)), patterns=[ipr(op(x), op(y)), ipi(op(x), op(y))])


class KTen(ZArr):
    """tensor = an abstract vector together with a shape (reshape does not change the entries: the Frobenius inner product of
    two tensors of the same shape is np.vdot of the flattened arrays)"""
    is_kten = True
    def __init__(self, shape, vec):
        ZArr.__init__(self, shape, 'complex'); self.vec = vec


def _prod(shape):
    t = z3.IntVal(1)
    for d in shape:
        t = t * zint(d)
    return z3.simplify(t)


def k_reshape(ex, st, node, args, kw):
    from .libz import m_reshape, _shape_arg
    a = args[0]
    shp = args[1] if len(args) == 2 else tuple(args[1:])
    if getattr(a, 'is_kten', False) or getattr(a, 'is_kvec', False):
        vec = a.vec if getattr(a, 'is_kten', False) else a
        shp = _shape_arg(shp)
        if len(shp) == 1 and isinstance(shp[0], int) and shp[0] == -1:
            return vec
        if any(isinstance(d, int) and d == -1 for d in shp):
            raise Unsupported('reshape with -1 among several dimensions')
        oblige(ex, st, node, 'shape', f'{ast.unparse(node)[:50]}: reshape keeps the number of entries', _prod(shp) == zint(vec.shape[0]))
        return KTen(shp, vec)
    return m_reshape(ex, st, node, args, kw)


def k_shape(ex, st, node, base):
    if getattr(base, 'is_zarr', False):
        return tuple(base.shape)
    return NotImplemented


def k_neg(ex, st, node, v):
    from .libz import z_neg
    if isinstance(v, KS):
        return KS(-v.c, v.kind)
    if getattr(v, 'is_kvec', False):
        return v.scale(CV(-1))
    return z_neg(ex, st, node, v)


def zero_facts():
    x = z3.Const('x', VecS)
    return [z3.ForAll([x], z3.And(ip_atoms(x, ZEROV).eq(0), ip_atoms(ZEROV, x).eq(0)), patterns=[ipr(x, ZEROV), ipr(ZEROV, x), ipi(x, ZEROV), ipi(ZEROV, x)])]


def symmetry_facts(hermitian):
    x, y = z3.Consts('x y', VecS)
    out = [z3.ForAll([x, y], ip_atoms(x, y).eq(ip_atoms(y, x).conj()), patterns=[ipr(x, y), ipi(x, y)])]
    if hermitian:
        out.append(z3.ForAll([x, y], ip_atoms(x, Aop(y)).eq(ip_atoms(Aop(x), y)), patterns=[ipr(x, Aop(y)), ipi(x, Aop(y))]))
    return out


# ---- library models ------------------------------------------------------------------------------------------------------

def k_afunc(ex, st, node, args, kw):
    x = args[0]
    if not getattr(x, 'is_kvec', False):
        raise Unsupported('Afunc applied to a value that is not an abstract vector')
    return KVec.atom(x.shape[0], Aop(materialize(st, x)))


def k_norm(ex, st, node, args, kw):
    x = args[0]
    if not getattr(x, 'is_kvec', False):
        raise Unsupported('norm of a value that is not an abstract vector')
    u = materialize(st, x)
    st.pc.append(z3.And(nrm(u) >= 0, ip_atoms(u, u).eq(CV(nrm(u) * nrm(u)))))
    return KS(CV(nrm(u)), 'real')


def k_vdot(ex, st, node, args, kw):
    a, b = args
    if getattr(a, 'is_kvec', False) and getattr(b, 'is_kvec', False):
        oblige(ex, st, node, 'shape', f'{ast.unparse(node)[:40]}: equal sizes', zint(a.shape[0]) == zint(b.shape[0]))
        return KS(ip(a, b), 'complex')
    raise Unsupported('vdot of values that are not abstract vectors')


def k_real(ex, st, node, base):
    if isinstance(base, KS):
        return KS(CV(base.c.re), 'real')
    return NotImplemented


def k_eps(ex, st, node, base):
    return KS(CV(EPS), 'real') if isinstance(base, FInfo) else NotImplemented


def k_zeros(ex, st, node, args, kw):
    z = np_zeros(ex, st, node, args, kw)
    if z.ndim == 1:
        return K1(z.shape[0], lambda k: CV(0), z.kind)
    if z.ndim == 2 and z.kind == 'complex':
        return K2(z.shape, row=lambda i: ZEROV, ent=lambda i, j: CV(0))
    return z


def _full_slice(k):
    return isinstance(k, slice) and k.start is None and k.stop is None and k.step is None


def _window(ex, st, node, sl, n):
    """a[:stop] (start None or 0): the new length; other slices are outside the fragment"""
    if sl.step is not None or not (sl.start is None or (isinstance(sl.start, int) and sl.start == 0)):
        raise Unsupported('slice with a start or step (engine Z, Krylov level)')
    ln, lo, hi = slice_len(sl, n)
    return ln


def k_getitem(ex, st, node, base, key):
    if getattr(base, 'is_kcols', False):
        if isinstance(key, tuple) and len(key) == 2 and _full_slice(key[0]) and (isinstance(key[1], int) or is_z(key[1])):
            a = norm_index(ex, st, node, key[1], base.shape[1], ast.unparse(node)[:40])
            return KVec.atom(base.shape[0], base.col(a))
        raise Unsupported(f'index {ast.unparse(node)[:40]} of a matrix of abstract columns')
    if getattr(base, 'is_kiso', False):
        if (isinstance(key, int) or is_z(key)) and base.rows is not None:
            i = norm_index(ex, st, node, key, base.shape[0], ast.unparse(node)[:40])
            return KVec.atom(base.shape[1], base.rows(i))
        if isinstance(key, tuple) and len(key) == 2 and _full_slice(key[0]) and isinstance(key[1], slice) and base.cols is not None:
            return KCols((base.shape[0], _window(ex, st, node, key[1], base.shape[1])), base.cols)
        raise Unsupported(f'index {ast.unparse(node)[:40]} of an operator-level matrix')
    if getattr(base, 'is_k2', False):
        if base.T:
            raise Unsupported('subscript of a transposed view')
        if isinstance(key, tuple) and len(key) == 2 and not any(isinstance(k, slice) for k in key):
            if base.ent is None:
                raise Unsupported('scalar entry of a matrix of abstract rows')
            i = norm_index(ex, st, node, key[0], base.shape[0], ast.unparse(node)[:40])
            j = norm_index(ex, st, node, key[1], base.shape[1], ast.unparse(node)[:40])
            c = base.ent(i, j)
            return KS(c.conj() if base.cj else c, 'complex')
        if isinstance(key, slice) or (isinstance(key, tuple) and all(isinstance(k, slice) for k in key)):
            ks = key if isinstance(key, tuple) else (key,)
            shape = list(base.shape)
            for ax, k in enumerate(ks):
                if ax == 1 and base.row is not None and not _full_slice(k):
                    raise Unsupported('column window of a matrix of abstract rows')
                shape[ax] = _window(ex, st, node, k, base.shape[ax])
            return K2(shape, base.row, base.ent, False, base.cj)
        if isinstance(key, int) or is_z(key):
            if base.row is None:
                raise Unsupported('row of a matrix of scalar entries')
            i = norm_index(ex, st, node, key, base.shape[0], ast.unparse(node)[:40])
            t = base.row(i)
            return KVec.atom(base.shape[1], cjv(t) if base.cj else t)
        raise Unsupported(f'index {key!r} of a matrix')
    if getattr(base, 'is_k1', False):
        if isinstance(key, slice):
            return K1(_window(ex, st, node, key, base.shape[0]), base.fn, base.kind)
        if isinstance(key, int) or is_z(key):
            k = norm_index(ex, st, node, key, base.shape[0], ast.unparse(node)[:40])
            return KS(base.fn(k), base.kind)
        raise Unsupported(f'index {key!r} of a vector of scalars')
    if getattr(base, 'is_kvec', False):
        raise Unsupported('component of an abstract vector')
    return z_getitem(ex, st, node, base, key)


def _scalar_value(v):
    if isinstance(v, KS):
        return v.c
    if isinstance(v, (int, float, complex)) and not isinstance(v, bool):
        return cv(v)
    return None


def k_setitem(ex, st, node, base, key, v):
    if getattr(base, 'is_k2', False):
        if base.T or base.cj:
            raise Unsupported('store into a view')
        if (isinstance(key, int) or is_z(key)) and getattr(v, 'is_kvec', False):
            if base.row is None:
                raise Unsupported('row store into a matrix of scalar entries')
            i = norm_index(ex, st, node, key, base.shape[0], ast.unparse(node)[:40])
            oblige(ex, st, node, 'shape', f'{ast.unparse(node)[:50]}: value shape == target shape', zint(v.shape[0]) == zint(base.shape[1]))
            t = materialize(st, v); old = base.row
            return K2(base.shape, row=lambda q, i=i, t=t, old=old: z3.If(q == i, t, old(q)), ent=None)
        if isinstance(key, tuple) and len(key) == 2 and all(isinstance(k, int) or is_z(k) for k in key):
            c = _scalar_value(v)
            if base.ent is None or c is None:
                raise Unsupported('entry store outside the fragment')
            i = norm_index(ex, st, node, key[0], base.shape[0], ast.unparse(node)[:40])
            j = norm_index(ex, st, node, key[1], base.shape[1], ast.unparse(node)[:40])
            old = base.ent
            return K2(base.shape, row=None, ent=lambda p, q, i=i, j=j, c=c, old=old: c.ite(z3.And(p == i, q == j), old(p, q)))
        raise Unsupported(f'store {ast.unparse(node)[:40]} outside the fragment')
    if getattr(base, 'is_k1', False):
        c = _scalar_value(v)
        if (isinstance(key, int) or is_z(key)) and c is not None:
            if base.kind == 'real' and not c.is_real:
                raise Unsupported('complex value stored into a real array (narrowing is reported by the dtype contract)')
            k = norm_index(ex, st, node, key, base.shape[0], ast.unparse(node)[:40])
            old = base.fn
            return K1(base.shape[0], lambda q, k=k, c=c, old=old: c.ite(q == k, old(q)), base.kind)
        raise Unsupported(f'store {ast.unparse(node)[:40]} outside the fragment')
    return z_setitem(ex, st, node, base, key, v)


def k_T(ex, st, node, base):
    if getattr(base, 'is_k2', False):
        return K2(tuple(reversed(base.shape)), base.row, base.ent, not base.T, base.cj)
    return NotImplemented


def k_conj(ex, st, node, args, kw):
    b = args[0]
    if getattr(b, 'is_k2', False):
        return K2(b.shape, b.row, b.ent, b.T, not b.cj)
    if isinstance(b, KS):
        return KS(b.c.conj(), b.kind)
    raise Unsupported('conj outside the fragment')


def _rows(m):
    return (lambda i: cjv(m.row(i))) if m.cj else m.row


def orthonormal(row, hi):
    a, b = z3.Ints('a b')
    return z3.ForAll([a, b], z3.Implies(z3.And(0 <= a, a < hi, 0 <= b, b < hi), ip_atoms(row(a), row(b)).eq(CV(z3.If(a == b, 1.0, 0.0)))))


def annihilates(row, hi, x, right=True):
    i = z3.Int('i')
    return z3.ForAll([i], z3.Implies(z3.And(0 <= i, i < hi), (ip_atoms(x, row(i)) if right else ip_atoms(row(i), x)).eq(0)))


def k_matmul(ex, st, node, l, r):
    if getattr(l, 'is_kiso', False) and getattr(r, 'is_kvec', False):
        oblige(ex, st, node, 'shape', f'{ast.unparse(node)[:50]}: matmul inner dimensions', zint(l.shape[1]) == zint(r.shape[0]))
        return KVec.atom(l.shape[0], l.op(materialize(st, r)))
    if getattr(l, 'is_kiso', False) and getattr(r, 'is_kcols', False):
        oblige(ex, st, node, 'shape', f'{ast.unparse(node)[:50]}: matmul inner dimensions', zint(l.shape[1]) == zint(r.shape[0]))
        return KCols((l.shape[0], r.shape[1]), lambda a, op=l.op, col=r.col: op(col(a)))
    # (M.conj() @ w)[i] = vdot(M[i], w):  coefficients of w with respect to the rows of M
    if getattr(l, 'is_k2', False) and l.row is not None and not l.T and getattr(r, 'is_kvec', False):
        oblige(ex, st, node, 'shape', f'{ast.unparse(node)[:50]}: matmul inner dimensions', zint(l.shape[1]) == zint(r.shape[0]))
        rows = (lambda i: cjv(l.row(i))) if not l.cj else l.row          # M @ w without conj = vdot(conj(M[i]), w)
        return K1(l.shape[0], lambda i, rows=rows, r=r: ip(rows(i), r), 'complex')
    # M.T @ c = sum_i c[i] M[i]
    if getattr(l, 'is_k2', False) and l.row is not None and l.T and getattr(r, 'is_k1', False):
        nr = zint(l.shape[1])                     # number of rows of M (l is the transposed view)
        oblige(ex, st, node, 'shape', f'{ast.unparse(node)[:50]}: matmul inner dimensions', nr == zint(r.shape[0]))
        rows = _rows(l)
        p = z3.Const(f'vec!{next(_n)}', VecS); x = z3.Const('x', VecS); i = z3.Int('i')
        # span facts hold for every family of rows (Krylov.lean: orthogonal_to_span)
        st.pc.append(z3.ForAll([x], z3.Implies(annihilates(rows, nr, x), ip_atoms(x, p).eq(0)), patterns=[ipr(x, p), ipi(x, p)]))
        st.pc.append(z3.ForAll([x], z3.Implies(annihilates(rows, nr, x, False), ip_atoms(p, x).eq(0)), patterns=[ipr(p, x), ipi(p, x)]))
        # coefficient facts need orthonormal rows (Krylov.lean: coeff_of_orthonormal_sum): premise first
        prem = None if getattr(ex, 'skip_lemmas', False) else ex.solver.implied([q for q in st.pc if is_z(q)], orthonormal(rows, nr), final=True)
        ex.lemma_uses.append(('coeff_of_orthonormal_sum', node.lineno, prem))
        if prem is True:
            st.pc.append(z3.ForAll([i], z3.Implies(z3.And(0 <= i, i < nr), z3.And(ip_atoms(rows(i), p).eq(r.fn(i)), ip_atoms(p, rows(i)).eq(r.fn(i).conj())))))
        return KVec.atom(l.shape[0], p)
    raise Unsupported('matmul outside the fragment')


def _mod2_of(k1):
    """k -> |c(k)|^2 of an array of scalars (kept in factored form where the array was built from exp and scalar multiples)"""
    if getattr(k1, 'mod2', None) is not None:
        return k1.mod2
    return lambda k, f=k1.fn: f(k).re * f(k).re + f(k).im * f(k).im


def k_binop(ex, st, node, op, l, r):
    lv = getattr(l, 'is_kvec', False); rv = getattr(r, 'is_kvec', False)
    if isinstance(op, ast.MatMult) and (getattr(l, 'is_k2', False) or getattr(r, 'is_k2', False) or getattr(l, 'is_kiso', False)):
        return k_matmul(ex, st, node, l, r)
    if lv and rv and isinstance(op, (ast.Add, ast.Sub)):
        oblige(ex, st, node, 'shape', f'{ast.unparse(node)[:50]}: operand shapes agree', zint(l.shape[0]) == zint(r.shape[0]))
        return l.add(r, 1 if isinstance(op, ast.Add) else -1)
    if (lv or rv) and isinstance(op, (ast.Add, ast.Sub)):
        o = r if lv else l
        if isinstance(o, (int, float)) and not isinstance(o, bool) and o == 0:
            return l if lv else (r if isinstance(op, ast.Add) else r.scale(CV(-1)))
        raise Unsupported('vector plus scalar')
    if (lv or rv) and isinstance(op, ast.Mult) and not (lv and rv) and not getattr(r if lv else l, 'is_k1', False):
        c = _scalar_value(r if lv else l)
        if c is None:
            raise Unsupported('vector times a value without scalar value')
        return (l if lv else r).scale(c)
    if lv and isinstance(op, ast.Div):
        c = _scalar_value(r)
        if c is None or not c.is_real:
            raise Unsupported('vector divided by a value that is not a real scalar')
        u = materialize(st, l)
        v = z3.Const(f'vec!{next(_n)}', VecS); x = z3.Const('x', VecS)
        beta = c.re
        st.pc.append(z3.ForAll([x], (ip_atoms(x, v) * CV(beta)).eq(ip_atoms(x, u)), patterns=[ipr(x, v), ipi(x, v)]))
        st.pc.append(z3.ForAll([x], (ip_atoms(v, x) * CV(beta)).eq(ip_atoms(u, x)), patterns=[ipr(v, x), ipi(v, x)]))
        # u / ||u|| (Krylov.lean: normalized_has_norm_one, normalized_keeps_orthogonality): premise first
        prem = None if getattr(ex, 'skip_lemmas', False) else ex.solver.implied([q for q in st.pc if is_z(q)], z3.And(beta == nrm(u), beta > 0), final=True)
        ex.lemma_uses.append(('normalized_has_norm_one', node.lineno, prem))
        if prem is True:
            st.pc.append(ip_atoms(v, v).eq(1))
            st.pc.append(z3.ForAll([x], z3.Implies(ip_atoms(x, u).eq(0), ip_atoms(x, v).eq(0)), patterns=[ipr(x, v), ipi(x, v)]))
            st.pc.append(z3.ForAll([x], z3.Implies(ip_atoms(u, x).eq(0), ip_atoms(v, x).eq(0)), patterns=[ipr(v, x), ipi(v, x)]))
        return KVec.atom(l.shape[0], v)
    # vectors of scalars: scalar * c, and the entrywise product c * x with an abstract vector
    l1 = getattr(l, 'is_k1', False); r1 = getattr(r, 'is_k1', False)
    if isinstance(op, ast.Mult) and (l1 != r1) and not (lv or rv):
        c = _sv2(r if l1 else l); k1 = l if l1 else r
        if c is None:
            raise Unsupported('array of scalars times a value without scalar value')
        res = K1(k1.shape[0], lambda k, f=k1.fn, c=c: f(k) * c, 'complex' if (k1.kind == 'complex' or not c.is_real) else 'real')
        res.mod2 = lambda k, c=c, m=_mod2_of(k1): (c.re * c.re + c.im * c.im) * m(k)        # |c z|^2 = |c|^2 |z|^2
        return res
    if isinstance(op, ast.Mult) and ((l1 and rv) or (r1 and lv)):
        c1, xv = (l, r) if l1 else (r, l)
        oblige(ex, st, node, 'shape', f'{ast.unparse(node)[:50]}: operand shapes agree', zint(c1.shape[0]) == zint(xv.shape[0]))
        u = materialize(st, xv); y = z3.Const(f'vec!{next(_n)}', VecS); kk = z3.Int('k')
        m2 = _mod2_of(c1)
        # entrywise product with coefficients of constant modulus (Krylov.lean: hadamard_constant_modulus): premise first
        prem = ex.solver.implied([q for q in st.pc if is_z(q)], z3.ForAll([kk], z3.Implies(z3.And(0 <= kk, kk < zint(c1.shape[0])), m2(kk) == m2(z3.IntVal(0)))), final=True)
        ex.lemma_uses.append(('hadamard_constant_modulus', node.lineno, prem))
        if prem is True:
            st.pc.append(ip_atoms(y, y).eq(CV(m2(z3.IntVal(0))) * ip_atoms(u, u)))
        return KVec.atom(xv.shape[0], y)
    # scalars
    a, b = _sv2(l), _sv2(r)
    if a is not None and b is not None and (isinstance(l, KS) or isinstance(r, KS)):
        if isinstance(op, ast.Mult): return KS(a * b)
        if isinstance(op, ast.Add): return KS(a + b)
        if isinstance(op, ast.Sub): return KS(a - b)
        raise Unsupported(f'scalar operator {type(op).__name__}')
    return z_binop(ex, st, node, op, l, r)


def _sv2(v):
    if isinstance(v, KS):
        return v.c
    if isinstance(v, bool):
        return None
    if isinstance(v, (int, float, complex)):
        return cv(v)
    if is_z(v) and z3.is_arith(v):
        return CV(v)
    return None


def k_compare(ex, st, node, op, l, r):
    a, b = _sv2(l), _sv2(r)
    if a is not None and b is not None and (isinstance(l, KS) or isinstance(r, KS)):
        if a.is_real and b.is_real:
            f = {ast.Lt: a.re < b.re, ast.LtE: a.re <= b.re, ast.Gt: a.re > b.re, ast.GtE: a.re >= b.re}.get(type(op))
            if f is not None:
                return f
        return z3.Bool(f'cmp!{next(_n)}')
    return z_compare(ex, st, node, op, l, r)


def k_ifexp(ex, st, e):
    """`vec if cond else 0`: the vector scaled by the indicator of cond (the arm is evaluated under cond)"""
    c = ex.ev(e.test, st)
    if is_z(c) and z3.is_bool(c):
        a = st.fork(); a.pc.append(c)
        va = ex.ev(e.body, a)
        vb = ex.ev(e.orelse, st) if isinstance(e.orelse, ast.Constant) else None
        if getattr(va, 'is_kvec', False) and isinstance(vb, (int, float)) and not isinstance(vb, bool) and vb == 0:
            st.pc += [z3.Implies(c, q) for q in a.pc[len(st.pc) + 1:] if is_z(q)]      # what was established in the arm holds under its condition
            return KVec(va.shape[0], {k: (t, CV(z3.If(c, cf.re, 0), z3.If(c, cf.im, 0))) for k, (t, cf) in va.lin.items()})
    return z_ifexp(ex, st, e)


EXPR = z3.Function('real_exp', R, R)
_exp_re = z3.Function('cexp_re', R, R, R); _exp_im = z3.Function('cexp_im', R, R, R)

def exp_facts():
    """np.exp on complex numbers: |exp(z)|^2 = exp(2 Re z), exp(0) = 1 (real exponential)"""
    a, b = z3.Reals('a b')
    return [EXPR(0) == 1,
            z3.ForAll([a, b], _exp_re(a, b) * _exp_re(a, b) + _exp_im(a, b) * _exp_im(a, b) == EXPR(2 * a), patterns=[_exp_re(a, b), _exp_im(a, b)])]

def k_exp(ex, st, node, args, kw):
    x = args[0]
    if getattr(x, 'is_k1', False):
        res = K1(x.shape[0], lambda k, f=x.fn: CV(_exp_re(f(k).re, f(k).im), _exp_im(f(k).re, f(k).im)), 'complex')
        res.mod2 = lambda k, f=x.fn: EXPR(z3.simplify(2 * f(k).re))                       # |exp(z)|^2 = exp(2 Re z)
        return res
    raise Unsupported('exp outside the fragment')


LIB_K = {'np.exp': k_exp, '.reshape': k_reshape, 'getattr.shape': k_shape, 'neg': k_neg, 'np.linalg.norm': k_norm, 'np.vdot': k_vdot, 'getattr.real': k_real, 'getattr.eps': k_eps, 'np.zeros': k_zeros, 'getitem': k_getitem,
         'setitem': k_setitem, 'getattr.T': k_T, '.conj': k_conj, 'binop': k_binop, 'compare': k_compare, 'ifexp': k_ifexp}


# ---- solver: index/shape obligations do not need the quantified facts ------------------------------------------------------

def portfolio_unsat(formulas, timeout_ms):
    """'unsat' | 'unknown': the query is written once as SMT-LIB and given to three back ends side by side (z3 with its default and
    with its second arithmetic solver, cvc5); the first `unsat` wins and the others are killed.  `sat` answers on these quantified
    queries are not used (a counter-model of a quantified formula is not trusted): everything else is `unknown`."""
    import subprocess, tempfile
    sv = z3.Solver()
    for q in formulas:
        sv.add(q)
    txt = sv.to_smt2()
    d = os.environ.get('TMPDIR', '/dev/shm' if os.path.isdir('/dev/shm') else None)
    paths = []; procs = []
    try:
        for k, (cmd, pre) in enumerate(PORTFOLIO):
            if not os.path.exists(cmd[0]) and not smt.shutil.which(cmd[0]):
                continue
            with tempfile.NamedTemporaryFile('w', suffix='.smt2', dir=d, delete=False) as fh:
                fh.write(pre + txt); paths.append(fh.name)
            full = [c.replace('{T}', str(max(1, int(timeout_ms / 1000 + 0.999)))).replace('{TMS}', str(int(timeout_ms))) for c in cmd] + [paths[-1]]
            procs.append((cmd[0] + ' ' + ' '.join(cmd[1:2]), subprocess.Popen(full, stdout=subprocess.PIPE, stderr=subprocess.DEVNULL, text=True)))
        deadline = time.time() + timeout_ms / 1000 + 2
        live = list(procs); winner = None
        while live and time.time() < deadline and winner is None:
            for nm, p in list(live):
                if p.poll() is not None:
                    live.remove((nm, p))
                    o = (p.stdout.read() or '').strip().splitlines()
                    if o and o[0] == 'unsat':
                        winner = nm
                        break
            if winner is None and live:
                time.sleep(0.01)
        for nm, p in procs:
            if p.poll() is None:
                p.kill()
            try:
                p.wait(timeout=5)
            except Exception:
                pass
        if winner:
            BACKENDS[winner] = BACKENDS.get(winner, 0) + 1
        return 'unsat' if winner else 'unknown'
    finally:
        for pth in paths:
            if os.path.exists(pth):
                os.unlink(pth)


PORTFOLIO = [(['z3-new', 'smt.arith.solver=2', '-T:{T}'], ''), (['z3-new', '-T:{T}'], ''), (['/usr/bin/cvc5', '--tlimit={TMS}'], '(set-logic ALL)\n')]
BACKENDS = {}


class KSolver(smt.Solver):
    """index / shape obligations and branch tests are decided from the quantifier-free part of the path condition (dropping
    hypotheses is sound); invariants and postconditions get all facts and the solver portfolio"""
    TIMEOUT = 60000
    def implied(self, pc, f, final=False):
        t0 = time.time()
        ground = [p for p in pc if is_z(p) and not _has_quant(p)]
        r = 'unknown'
        if not _has_quant(f):
            r, _ = smt.check_unsat(ground + [z3.Not(f)], timeout=2000, try_cvc5=False)
            if r == 'sat' and len(ground) < len([p for p in pc if is_z(p)]):
                r = 'unknown'                  # a model of fewer hypotheses says nothing
        if r == 'unknown' and final:
            r = portfolio_unsat(self.axioms + [p for p in pc if is_z(p)] + [z3.Not(f)], self.TIMEOUT)
            if r == 'unknown' and os.environ.get('VT_KRY_DUMP'):
                sv = z3.Solver()
                for q in self.axioms + [p for p in pc if is_z(p)] + [z3.Not(f)]:
                    sv.add(q)
                with open(os.path.join(os.environ['VT_KRY_DUMP'], f'q{self.queries}.smt2'), 'w') as fh:
                    fh.write(sv.to_smt2())
        self.queries += 1; self.seconds += time.time() - t0
        if os.environ.get('VT_KRY_LOG') and time.time() - t0 > 2:
            with open(os.environ['VT_KRY_LOG'], 'a') as fh:
                fh.write(f'{time.time() - t0:.1f}s {r} final={final} {str(f)[:90]!r}\n')
        return True if r == 'unsat' else False if r == 'sat' else None
    def feasible(self, pc):
        t0 = time.time()
        r, _ = smt.check_unsat([p for p in pc if is_z(p) and not _has_quant(p)], timeout=1500, try_cvc5=False)
        self.queries += 1; self.seconds += time.time() - t0
        return r != 'unsat'


def _has_quant(f):
    seen = set(); stack = [f]
    while stack:
        t = stack.pop()
        if t.get_id() in seen:
            continue
        seen.add(t.get_id())
        if z3.is_quantifier(t):
            return True
        stack.extend(t.children())
    return False


# ---- contracts -------------------------------------------------------------------------------------------------------------

a_, b_, i_ = z3.Ints('a b i')
x_ = z3.Const('x', VecS)


def _in(v, hi):
    return z3.And(0 <= v, v < hi)


def span_next(row, jj):
    """for every b < jj: A v_b lies in the span of v_0 .. v_{b+1}  (stated through annihilators)"""
    return z3.ForAll([b_, x_], z3.Implies(z3.And(_in(b_, jj), annihilates(row, b_ + 2, x_)), ip_atoms(x_, Aop(row(b_))).eq(0)))


def _need(env, name, attr):
    v = env.get(name)
    if v is None or getattr(v, attr, None) is None:
        raise Unsupported(f'{name} is not of the expected abstract form')
    return v


VSTART = z3.Const('vstart', VecS)

def first_row(row):
    """row 0 is the normalised start vector: ip(x, v_0) * ||vstart|| = ip(x, vstart)"""
    return z3.ForAll([x_], (ip_atoms(x_, row(0)) * CV(nrm(VSTART))).eq(ip_atoms(x_, VSTART)))


def first_row_inv(env, row):
    """loop-invariant form: row 0 *is* the (re-bound, normalised) variable `vstart`"""
    v0 = env.get('vstart')
    t = v0.single() if getattr(v0, 'is_kvec', False) else None
    if t is None:
        raise Unsupported('vstart is not a named abstract vector')
    return row(0) == t


def lanczos_spec():
    n = z3.Int('n'); m = z3.Int('numiter')
    thr = 100 * z3.ToReal(n) * EPS
    def T1(al, row, jj): return z3.ForAll([b_], z3.Implies(_in(b_, jj), ip_atoms(row(b_), Aop(row(b_))).eq(al(b_))))
    def T2(be, row, jj): return z3.ForAll([b_], z3.Implies(_in(b_, jj), z3.And(ip_atoms(row(b_ + 1), Aop(row(b_))).eq(be(b_)), be(b_).re >= thr)))
    def inv(env, ex, st):
        V = _need(env, 'V', 'row'); al = _need(env, 'alpha', 'fn'); be = _need(env, 'beta', 'fn'); j = env['#iter']
        return z3.And(orthonormal(V.row, j + 1), T1(al.fn, V.row, j), T2(be.fn, V.row, j), span_next(V.row, j))
    def post(ret, env, ex, st):
        al, be, Vt = ret
        if not (getattr(al, 'is_k1', False) and getattr(be, 'is_k1', False) and getattr(Vt, 'is_k2', False) and Vt.T and not Vt.cj and Vt.row is not None):
            raise Unsupported('returned values are not of the expected abstract form')
        mp = zint(al.shape[0]); row = Vt.row
        Tm = lambda p, q: CV(z3.If(p == q, al.fn(p).re, z3.If(p == q + 1, be.fn(q).re, z3.If(q == p + 1, be.fn(p).re, 0))))
        return [('vectors_orthonormal', z3.And(zint(Vt.shape[1]) == mp, orthonormal(row, mp))),
                ('projected_map_equals_tridiagonal_matrix', z3.ForAll([a_, b_], z3.Implies(z3.And(_in(a_, mp), _in(b_, mp)), ip_atoms(row(a_), Aop(row(b_))).eq(Tm(a_, b_))))),
                ('coefficients_real_offdiagonals_positive', z3.And(zint(be.shape[0]) == mp - 1,
                                                                   z3.ForAll([b_], z3.Implies(_in(b_, mp), al.fn(b_).im == 0)),
                                                                   z3.ForAll([b_], z3.Implies(_in(b_, mp - 1), z3.And(be.fn(b_).im == 0, be.fn(b_).re > 0)))))]
    def canary(ret, env, ex, st):
        al, be, Vt = ret
        mp = zint(al.shape[0]); row = Vt.row
        return [('c', z3.ForAll([a_, b_], z3.Implies(z3.And(_in(a_, mp), _in(b_, mp)), ip_atoms(row(a_), Aop(row(b_))).eq(CV(z3.If(a_ == b_, al.fn(a_).re, 0))))))]
    return dict(n=n, m=m, hermitian=True, post=post, canary=canary, inv={'for j in range(numiter - 1)': inv})


def first_vector_spec(which):
    """a second, light contract on the same functions: the first Krylov vector is the normalised start vector.  It is verified in a
    pass of its own (invariant: row 0 is the re-bound variable `vstart`), so that the facts about the normalisation do not take
    part in the queries of the Krylov relations"""
    def make():
        n = z3.Int('n'); m = z3.Int('numiter')
        def inv(env, ex, st):
            V = _need(env, 'V', 'row')
            return first_row_inv(env, V.row)
        def post(ret, env, ex, st):
            Vt = ret[-1]
            if not (getattr(Vt, 'is_k2', False) and Vt.T and not Vt.cj and Vt.row is not None):
                raise Unsupported('returned values are not of the expected abstract form')
            return [('first_vector_is_normalized_start', z3.And(zint(Vt.shape[1]) >= 1, first_row(Vt.row)))]
        def canary(ret, env, ex, st):
            Vt = ret[-1]
            return [('c', z3.ForAll([x_], ip_atoms(x_, Vt.row(0)).eq(ip_atoms(x_, VSTART) + CV(1))))]
        invs = {'for j in range(numiter - 1)': inv}
        return dict(n=n, m=m, hermitian=(which == 'lanczos'), post=post, canary=canary, inv=invs, only_named=True)
    return make


def arnoldi_spec():
    n = z3.Int('n'); m = z3.Int('numiter')
    def upper(H, row, jj):      # columns < jj: entries on and above the sub-diagonal are the projections
        return z3.ForAll([a_, b_], z3.Implies(z3.And(_in(b_, jj), 0 <= a_, a_ <= b_ + 1), H(a_, b_).eq(ip_atoms(row(a_), Aop(row(b_))))))
    def subdiag(H, jj):
        return z3.ForAll([b_], z3.Implies(_in(b_, jj), z3.And(H(b_ + 1, b_).re > 0, H(b_ + 1, b_).im == 0)))
    def zeros(H, jj, kk):       # not yet written entries: columns > jj, below the sub-diagonal, column jj from row kk on
        return z3.ForAll([a_, b_], z3.Implies(z3.Or(b_ > jj, a_ > b_ + 1, z3.And(b_ == jj, a_ >= kk)), H(a_, b_).eq(0)))
    def inv_outer(env, ex, st):
        V = _need(env, 'V', 'row'); H = _need(env, 'H', 'ent'); j = env['#iter']
        return z3.And(orthonormal(V.row, j + 1), upper(H.ent, V.row, j), subdiag(H.ent, j), span_next(V.row, j), zeros(H.ent, j, 0))
    def inv_inner(env, ex, st):
        V = _need(env, 'V', 'row'); H = _need(env, 'H', 'ent'); k = env['#iter']; j = zint(env['j']); w = env.get('w')
        if not getattr(w, 'is_kvec', False):
            raise Unsupported('w is not an abstract vector')
        row = V.row
        return z3.And(z3.ForAll([x_], z3.Implies(annihilates(row, k, x_), ip(x_, w).eq(ip_atoms(x_, Aop(row(j)))))),
                      z3.ForAll([i_], z3.Implies(_in(i_, k), ip(row(i_), w).eq(0))),
                      z3.ForAll([i_], z3.Implies(_in(i_, k), H.ent(i_, j).eq(ip_atoms(row(i_), Aop(row(j)))))),
                      upper(H.ent, row, j), subdiag(H.ent, j), zeros(H.ent, j, k))
    def post(ret, env, ex, st):
        H, Vt = ret
        if not (getattr(H, 'is_k2', False) and H.ent is not None and not H.T and not H.cj and getattr(Vt, 'is_k2', False) and Vt.T and not Vt.cj and Vt.row is not None):
            raise Unsupported('returned values are not of the expected abstract form')
        mp = zint(H.shape[0]); row = Vt.row
        return [('vectors_orthonormal', z3.And(zint(Vt.shape[1]) == mp, orthonormal(row, mp))),
                ('projected_map_equals_hessenberg_matrix', z3.And(zint(H.shape[1]) == mp, z3.ForAll([a_, b_], z3.Implies(z3.And(_in(a_, mp), _in(b_, mp)), H.ent(a_, b_).eq(ip_atoms(row(a_), Aop(row(b_)))))))),
                ('subdiagonal_positive', z3.ForAll([b_], z3.Implies(_in(b_, mp - 1), z3.And(H.ent(b_ + 1, b_).re > 0, H.ent(b_ + 1, b_).im == 0)))),
                ('matrix_is_upper_hessenberg', z3.ForAll([a_, b_], z3.Implies(z3.And(_in(a_, mp), _in(b_, mp), a_ > b_ + 1), H.ent(a_, b_).eq(0))))]
    def canary(ret, env, ex, st):
        H, Vt = ret
        mp = zint(H.shape[0]); row = Vt.row
        return [('c', z3.ForAll([a_, b_], z3.Implies(z3.And(_in(a_, mp), _in(b_, mp)), H.ent(a_, b_).eq(ip_atoms(row(b_), Aop(row(a_)))))))]
    return dict(n=n, m=m, hermitian=False, post=post, canary=canary, inv={'for j in range(numiter - 1)': inv_outer, 'for k in range(j + 1)': inv_inner})


# ---- C15: eigh_krylov / expm_krylov against the contracts of their callees ---------------------------------------------------

_TOPS = {}

def _tri_op(al, be):
    """the operator of the symmetric tridiagonal matrix (alpha, beta) on coefficient vectors: one symbol per pair of arrays"""
    key = (id(al.fn), id(be.fn), str(zint(al.shape[0])), str(zint(be.shape[0])))
    if key not in _TOPS:
        _TOPS[key] = (z3.Function(f'tridiag_op!{next(_n)}', VecS, VecS), al, be)      # keeps the arrays alive (ids stay unique)
    return _TOPS[key][0]


def k_lanczos_call(ex, st, node, args, kw):
    """callee contract of lanczos_iteration as proved in C14 (vt/zkry.py, lanczos_spec): sizes, orthonormal vectors, projected map =
    tridiagonal matrix -- in operator form (Krylov.lean: isometry_of_orthonormal_columns, projected_map_operator_form; the second
    needs a linear map)"""
    if len(args) != 3 or args[0] is not k_afunc or not getattr(args[1], 'is_kvec', False):
        raise Unsupported('call of lanczos_iteration outside its contract')
    nn = args[1].shape[0]; numiter = zint(args[2])
    oblige(ex, st, node, 'precondition', 'lanczos_iteration: numiter >= 1', numiter >= 1)
    mp = z3.Int(f'mp!{next(_n)}'); st.pc.append(z3.And(mp >= 1, mp <= numiter))
    f = z3.Function(f'alpha!{next(_n)}', I, R); g = z3.Function(f'beta!{next(_n)}', I, R)
    al = K1(mp, lambda k: CV(f(k)), 'real'); be = K1(mp - 1, lambda k: CV(g(k)), 'real')
    vop = z3.Function(f'Vop!{next(_n)}', VecS, VecS); top = _tri_op(al, be)
    x, y = z3.Consts('x y', VecS)
    st.pc.append(isometry_fact(vop))
    st.pc.append(z3.ForAll([x, y], ip_atoms(vop(x), Aop(vop(y))).eq(ip_atoms(x, top(y))), patterns=[ipr(vop(x), Aop(vop(y))), ipi(vop(x), Aop(vop(y)))]))
    return (al, be, KIso((nn, mp), vop))


def k_eigh_tridiagonal(ex, st, node, args, kw):
    """assumed contract of scipy.linalg.eigh_tridiagonal(d, e) (conformance-tested): real ascending eigenvalues w, real orthogonal U
    (orthonormal columns and rows, isometry as an operator) with T U[:, a] = w[a] U[:, a]"""
    if len(args) != 2 or kw or not (getattr(args[0], 'is_k1', False) and getattr(args[1], 'is_k1', False)):
        raise Unsupported('call of eigh_tridiagonal outside its contract')
    al, be = args
    mp = zint(al.shape[0])
    oblige(ex, st, node, 'precondition', 'eigh_tridiagonal: len(e) == len(d) - 1', zint(be.shape[0]) == mp - 1)
    f = z3.Function(f'ritz!{next(_n)}', I, R)
    w = K1(mp, lambda k: CV(f(k)), 'real')
    uop = z3.Function(f'Uop!{next(_n)}', VecS, VecS); ucol = z3.Function(f'Ucol!{next(_n)}', I, VecS); urow = z3.Function(f'Urow!{next(_n)}', I, VecS)
    top = _tri_op(al, be)
    x = z3.Const('x', VecS); a = z3.Int('a')
    st.pc.append(isometry_fact(uop))
    st.pc.append(orthonormal(lambda q: ucol(q), mp))
    st.pc.append(z3.ForAll([a], z3.Implies(_in(a, mp), ip_atoms(urow(a), urow(a)).eq(1))))
    st.pc.append(z3.ForAll([a, x], z3.Implies(_in(a, mp), ip_atoms(x, top(ucol(a))).eq(CV(f(a)) * ip_atoms(x, ucol(a)))), patterns=[ipr(x, top(ucol(a))), ipi(x, top(ucol(a)))]))
    st.pc.append(z3.ForAll([a], z3.Implies(z3.And(_in(a, mp), _in(a + 1, mp)), f(a) <= f(a + 1))))
    return (w, KIso((mp, mp), uop, cols=lambda q: ucol(q), rows=lambda q: urow(q)))


def expm_spec():
    n = z3.Int('n'); m = z3.Int('numiter'); dtr, dti = z3.Reals('dt_re dt_im')
    holder = {}
    def args(vs):
        holder['v'] = vs
        return {'Afunc': k_afunc, 'v': KVec.atom(n, vs), 'dt': KS(CV(dtr, dti), 'complex'), 'numiter': m, 'hermitian': True}
    def post(ret, env, ex, st):
        if not getattr(ret, 'is_kvec', False):
            raise Unsupported('returned value is not an abstract vector')
        v = holder['v']
        return [('norm_of_result_equals_norm_of_input [imaginary dt]', z3.And(zint(ret.shape[0]) == n, ip(ret, ret).eq(ip_atoms(v, v))))]
    def canary(ret, env, ex, st):
        return [('c', ip(ret, ret).eq(CV(2) * ip_atoms(holder['v'], holder['v']) + CV(1)))]
    return dict(n=n, m=m, hermitian=True, args=args, requires=[dtr == 0] + exp_facts(), post=post, canary=canary,
                calls={'lanczos_iteration': k_lanczos_call, 'eigh_tridiagonal': k_eigh_tridiagonal})


def eigh_spec():
    n = z3.Int('n'); m = z3.Int('numiter'); ne = z3.Int('numeig')
    def args(vs):
        return {'Afunc': k_afunc, 'vstart': KVec.atom(n, vs), 'numiter': m, 'numeig': ne}
    def post(ret, env, ex, st):
        w, u = ret
        if not (getattr(w, 'is_k1', False) and getattr(u, 'is_kcols', False)):
            raise Unsupported('returned values are not of the expected abstract form')
        nc = zint(u.shape[1])
        return [('ritz_vectors_orthonormal', z3.And(zint(u.shape[0]) == n, zint(w.shape[0]) == nc, nc >= 1, nc <= ne, orthonormal(u.col, nc))),
                ('ritz_values_are_rayleigh_quotients', z3.ForAll([a_], z3.Implies(_in(a_, nc), ip_atoms(u.col(a_), Aop(u.col(a_))).eq(w.fn(a_))))),
                ('ritz_values_ascending', z3.ForAll([a_], z3.Implies(z3.And(_in(a_, nc), _in(a_ + 1, nc)), w.fn(a_).re <= w.fn(a_ + 1).re)))]
    def canary(ret, env, ex, st):
        w, u = ret
        return [('c', z3.ForAll([a_], z3.Implies(_in(a_, zint(u.shape[1])), ip_atoms(u.col(a_), Aop(u.col(a_))).eq(w.fn(a_) + CV(1)))))]
    return dict(n=n, m=m, hermitian=True, args=args, requires=[ne >= 1], post=post, canary=canary,
                calls={'lanczos_iteration': k_lanczos_call, 'eigh_tridiagonal': k_eigh_tridiagonal})


# ---- C08 / C10: the local steps of TDVP and DMRG against the contracts of expm_krylov / eigh_krylov (proved above) ----------

def _the_map(f):
    """the map handed to a Krylov routine: a lambda of the function under verification is *the* map `Afunc` of the callee's contract
    (its body is not executed: the contracts used here hold for every map / for every linear Hermitian map, see the callers' notes)"""
    from .symexec import Closure
    if f is k_afunc or isinstance(f, Closure):
        return True
    raise Unsupported('first argument of the Krylov routine is not a map')


def k_expm_krylov_call(ex, st, node, args, kw):
    """callee contract of expm_krylov as proved in C15 (expm_spec): hermitian=True and Re dt = 0 => a vector of the same length and norm"""
    if len(args) != 4 or not getattr(args[1], 'is_kvec', False) or not isinstance(args[2], KS):
        raise Unsupported('call of expm_krylov outside its contract')
    _the_map(args[0])
    v, dt, numiter = args[1], args[2], args[3]
    oblige(ex, st, node, 'precondition', 'expm_krylov: numiter >= 1', zint(numiter) >= 1)
    res = z3.Const(f'vec!{next(_n)}', VecS)
    herm = kw.get('hermitian', False)
    if herm is True:
        prem = ex.solver.implied([q for q in st.pc if is_z(q)], dt.c.re == 0, final=True)
        ex.lemma_uses.append(('expm_krylov:norm_of_result_equals_norm_of_input', node.lineno, prem))
        if prem is True:
            st.pc.append(ip_atoms(res, res).eq(ip(v, v)))
    return KVec.atom(v.shape[0], res)


def k_eigh_krylov_call(ex, st, node, args, kw):
    """callee contract of eigh_krylov as proved in C15 (eigh_spec): min(numeig, m') orthonormal Ritz vectors whose Rayleigh quotients
    with respect to the map are the returned values (the map linear and Hermitian: hypotheses)"""
    if len(args) != 4 or kw or not getattr(args[1], 'is_kvec', False):
        raise Unsupported('call of eigh_krylov outside its contract')
    _the_map(args[0])
    v, numiter, numeig = args[1], zint(args[2]), zint(args[3])
    oblige(ex, st, node, 'precondition', 'eigh_krylov: numiter >= 1 and numeig >= 1', z3.And(numiter >= 1, numeig >= 1))
    nc = z3.Int(f'nritz!{next(_n)}'); st.pc.append(z3.And(nc >= 1, nc <= numeig))
    f = z3.Function(f'ritz!{next(_n)}', I, R); col = z3.Function(f'ritzvec!{next(_n)}', I, VecS); a = z3.Int('a')
    st.pc.append(orthonormal(lambda q: col(q), nc))
    st.pc.append(z3.ForAll([a], z3.Implies(_in(a, nc), ip_atoms(col(a), Aop(col(a))).eq(CV(f(a))))))
    return (K1(nc, lambda k: CV(f(k)), 'real'), KCols((v.shape[0], nc), lambda q: col(q)))


def _opaque(name, nd):
    return ZArr(tuple(z3.Int(f'{name}_dim{k}') for k in range(nd)), 'complex')


def local_step_spec(which):
    def make():
        n = z3.Int('n'); m = z3.Int('numiter'); dtr, dti = z3.Reals('dt_re dt_im')
        nd = 3 if which == 'hamiltonian' else 2
        dims = tuple(z3.Int(f'a_dim{k}') for k in range(nd))
        holder = {}
        def args(vs):
            holder['v'] = vs
            ten = KTen(dims, KVec.atom(n, vs))
            base = {'L': _opaque('L', 3), 'R': _opaque('R', 3), 'dt': KS(CV(dtr, dti), 'complex'), 'numiter': m}
            if which == 'hamiltonian':
                base.update({'W': _opaque('W', 4), 'A': ten})
            else:
                base.update({'C': ten})
            return base
        def post(ret, env, ex, st):
            if not getattr(ret, 'is_kten', False):
                raise Unsupported('returned value is not an abstract tensor')
            same = z3.And(*[zint(x) == zint(y) for x, y in zip(ret.shape, dims)]) if len(ret.shape) == len(dims) else z3.BoolVal(False)
            return [('result_has_shape_and_frobenius_norm_of_input [imaginary dt]', z3.And(same, ip(ret.vec, ret.vec).eq(ip_atoms(holder['v'], holder['v']))))]
        def canary(ret, env, ex, st):
            return [('c', ip(ret.vec, ret.vec).eq(CV(2) * ip_atoms(holder['v'], holder['v']) + CV(1)))]
        return dict(n=n, m=m, hermitian=True, args=args, requires=[dtr == 0, n == _prod(dims)] + [d >= 1 for d in dims], post=post, canary=canary,
                    calls={'expm_krylov': k_expm_krylov_call})
    return make


def minimize_spec():
    n = z3.Int('n'); m = z3.Int('numiter')
    dims = tuple(z3.Int(f'a_dim{k}') for k in range(3))
    def args(vs):
        return {'L': _opaque('L', 3), 'R': _opaque('R', 3), 'W': _opaque('W', 4), 'Astart': KTen(dims, KVec.atom(n, vs)), 'numiter': m}
    def post(ret, env, ex, st):
        w0, A = ret
        if not (isinstance(w0, KS) and getattr(A, 'is_kten', False)):
            raise Unsupported('returned values are not of the expected abstract form')
        same = z3.And(*[zint(x) == zint(y) for x, y in zip(A.shape, dims)]) if len(A.shape) == len(dims) else z3.BoolVal(False)
        t = materialize(st, A.vec)
        return [('returned_tensor_has_input_shape_and_unit_norm', z3.And(same, ip_atoms(t, t).eq(1))),
                ('returned_energy_is_rayleigh_quotient_of_returned_tensor', z3.And(w0.c.im == 0, ip_atoms(t, Aop(t)).eq(w0.c)))]
    def canary(ret, env, ex, st):
        w0, A = ret
        t = materialize(st, A.vec)
        return [('c', ip_atoms(t, Aop(t)).eq(w0.c + CV(1)))]
    return dict(n=n, m=m, hermitian=True, args=args, requires=[n == _prod(dims)] + [d >= 1 for d in dims], post=post, canary=canary,
                calls={'eigh_krylov': k_eigh_krylov_call})


def verify_fn(fn, spec_fn, confirm):
    from .symexec import Exec, State
    from .libz import LIB_Z, make_loop_handler
    out = []; t0 = time.time()
    spec = spec_fn()
    n, m = spec['n'], spec['m']
    fnode = loader.function(fn)
    lib = dict(LIB_Z); lib.update(LIB_K)
    solver = KSolver()
    ex = Exec(lib=lib, calls=spec.get('calls', {}), mode='Z', solver=solver, loop_handler=make_loop_handler(spec.get('inv', {})), fname=fn)
    ex.assume_asserts = {'nrmv > 0'}; ex.lemma_uses = []; ex.skip_lemmas = bool(spec.get('only_named'))
    vs = z3.Const('vstart', VecS)
    args = spec['args'](vs) if 'args' in spec else {'Afunc': k_afunc, 'vstart': KVec.atom(n, vs), 'numiter': m}
    requires = [n >= 1, m >= 1, EPS > 0] + zero_facts() + symmetry_facts(spec['hermitian']) + list(spec.get('requires', []))
    st = State(args, requires)
    params = [a.arg for a in fnode.args.args]
    def V(name, status, detail, kind='ensures'):
        v = Verdict(name, 'Z', status, detail, 0.0, fn, kind, 'z3-new x2 | cvc5 (portfolio, first unsat)'); v.confirm = confirm
        return v
    try:
        ndef = len(fnode.args.defaults)
        if [p for p in (params[:-ndef] if ndef else params) if p not in args]:
            raise Unsupported(f'stale contract: parameters {params}')
        for p_, d_ in zip(params[len(params) - ndef:], fnode.args.defaults):
            if p_ not in st.env:
                st.env[p_] = ast.literal_eval(d_)
        states = ex.block(fnode.body, [st])
    except Refuted as e:
        return [V('executes_at_inner_product_level', 'undecided', f'{e} (the size/index contracts of this function decide such failures)', 'safety')]
    except Unsupported as e:
        return [V('executes_at_inner_product_level', 'undecided', f'outside fragment: {e}', 'safety')]
    for ob in ex.obligations:
        if ob.kind not in ('invariant',) and ob.holds is True:
            continue                               # sizes and indices are reported by the plain contract of vt/zobl.py
        status = 'discharged' if ob.holds is True else 'undecided'      # a counter-model of a quantified invariant is not trusted
        out.append(V(f'{ob.kind}@{ob.lineno}: {ob.text[:90]} [ip]', status, ob.detail or '', ob.kind))
    for name, line, prem in (ex.lemma_uses if not spec.get('only_named') else ()):
        out.append(V(f'lemma_premise@{line}: {name}', 'discharged' if prem is True else 'undecided', 'premise of the Lean-proved fact established by z3' if prem is True else 'premise not established: the fact is not used', 'lemma'))
    finals = [s for s in states if s.done and s.raised is None]
    if not finals:
        out.append(V('returns', 'undecided', 'no returning path found'))
    agg = {}
    for k, s in enumerate(finals):
        try:
            clauses = spec['post'](s.ret, s.env, ex, s)
        except (Unsupported, TypeError, AttributeError, IndexError, ValueError) as e:
            agg.setdefault('postcondition', []).append((None, f'result has unexpected structure: {e}'))
            continue
        for name, f in clauses:
            r = solver.implied([p for p in s.pc if is_z(p)], f, final=True)
            agg.setdefault(name, []).append((r, f'return path {k + 1}/{len(finals)}'))
    for name, rs in agg.items():
        if all(r is True for r, _ in rs):
            out.append(V(name + ' [ip]', 'discharged', f'{len(rs)} return paths'))
        else:
            out.append(V(name + ' [ip]', 'undecided', '; '.join(d for r, d in rs if r is not True)[:200] + ' (not provable from the invariants: the bounded stand-in decides this clause)'))
    # vacuity: on no return path may a wrong variant of the projected-map clause be provable (a contradictory path condition proves anything)
    bad = False
    for s in finals:
        try:
            proved = [portfolio_unsat([p for p in s.pc if is_z(p)] + [z3.Not(f)], 5000) == 'unsat' for name, f in spec['canary'](s.ret, s.env, ex, s)]
            bad = bad or (bool(proved) and all(proved))
        except Exception:
            pass
    out.append(V('canary', 'canary-verified' if bad else 'canary-ok', 'wrong variant of the projected-map clause', 'canary'))
    tot = time.time() - t0
    for v in out:
        v.seconds = tot / max(1, len(out))
        if v.status == 'discharged' and BACKENDS:
            v.detail = (str(v.detail) + ' ' if v.detail else '') + '[portfolio wins so far in this process: ' + ', '.join(f'{k}: {n}' for k, n in sorted(BACKENDS.items())) + ']'
    return out


TARGETS = {'C14': (('krylov.arnoldi_iteration', arnoldi_spec, ['arnoldi_iteration']), ('krylov.lanczos_iteration', lanczos_spec, ['lanczos_iteration']),
                   ('krylov.arnoldi_iteration', first_vector_spec('arnoldi'), ['arnoldi_iteration']), ('krylov.lanczos_iteration', first_vector_spec('lanczos'), ['lanczos_iteration'])),
           'C15': (('krylov.expm_krylov', expm_spec, ['expm_krylov']), ('krylov.eigh_krylov', eigh_spec, ['eigh_krylov'])),
           'C08': (('evolution._local_hamiltonian_step', local_step_spec('hamiltonian'), ['integrate_local']), ('evolution._local_bond_step', local_step_spec('bond'), ['integrate_local'])),
           'C10': (('minimization._minimize_local_energy', minimize_spec, ['calculate_ground_state']),)}


def verify(prop='C14', tier='quick'):
    out = []
    for fn, spec, confirm in TARGETS.get(prop, ()):
        try:
            out += verify_fn(fn, spec, confirm)
        except Exception as e:
            import traceback
            v = Verdict('engine', 'Z', 'undecided', f'executor error: {type(e).__name__}: {e} {traceback.format_exc()[-400:]}', 0, fn, 'safety', 'z3'); v.confirm = confirm
            out.append(v)
    return out


if __name__ == '__main__':
    import sys
    smt.EXTERNAL[0] = True
    for v in verify(sys.argv[1] if len(sys.argv) > 1 else 'C14'):
        print(v.status, v.fn, v.name, '|', str(v.detail)[:150])
