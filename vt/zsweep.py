"""Engine Z at the predicate level: the sweeps (loops over sites) of the real methods are executed symbolically
with an MPS/MPO as z3 arrays from the site index to an abstract tensor; a call to a function under contract
is replaced by the predicate-level face of its contract (whose entry-level face engine T proves on the real
body), and the fold lemmas (Lean + engine T) enter as quantified axioms.  Loop invariants are sidecar text keyed
by the loop signature; a loop whose signature no longer matches makes the contract stale (undecided)."""
import ast, itertools, time
import z3
from . import loader
from .contract import Verdict
from .symexec import Exec, Unsupported, Refuted, State, Obj, Obligation, SymRange
from .libz import is_z, zint, fresh_int, oblige
from .smt import Solver, check_unsat

Ten = z3.DeclareSort('Ten'); QVs = z3.DeclareSort('QVec'); Vec = z3.DeclareSort('Vec')
I = z3.IntSort(); Rr = z3.RealSort(); Bo = z3.BoolSort()
ArrT = z3.ArraySort(I, Ten); ArrQ = z3.ArraySort(I, QVs)

merge = z3.Function('merge', Ten, Ten, Ten)          # two-site tensor (MPS and MPO alike)
liso = z3.Function('leftiso', Ten, Bo); riso = z3.Function('rightiso', Ten, Bo)
dl = z3.Function('dimL', Ten, I); dr = z3.Function('dimR', Ten, I); dp = z3.Function('dimP', Ten, I)
qlen = z3.Function('qlen', QVs, I)
sp = z3.Function('qsparse', Ten, QVs, QVs, QVs, Bo)  # site tensor sparse w.r.t. (qd, qleft, qright)
neg = z3.Function('neg', Ten, Ten)
val = z3.Function('val000', Ten, Rr)                 # T[0,0,0].real of a 1x1x1 tensor
ONE = z3.Const('ONE', Ten)
dense = z3.Function('dense', ArrT, I, Vec)
vscale = z3.Function('vscale', Vec, Rr, Vec)
vnorm = z3.Function('vnorm', Vec, Rr)
qneg = z3.Function('qneg', QVs, QVs)

_c = itertools.count(1)


def axioms():
    A = z3.Const('A', ArrT); i, L, k = z3.Ints('i L k'); a, b = z3.Consts('a b', Ten); v = z3.Const('v', Vec); x, y = z3.Reals('x y')
    ax = []
    # L-pair (Lean VT.foldl_pair + T lemma L-pair): a neighbouring pair enters the dense object only through its merge
    j = z3.Int('j')
    ax.append(('L-pair', z3.ForAll([A, i, j, a, b, L], z3.Implies(z3.And(0 <= i, j == i + 1, j < L, merge(a, b) == merge(A[i], A[j])),
                                                                  dense(z3.Store(z3.Store(A, i, a), j, b), L) == dense(A, L)),
                                  patterns=[dense(z3.Store(z3.Store(A, i, a), j, b), L)])))
    ax.append(('L-pair-rev', z3.ForAll([A, i, j, a, b, L], z3.Implies(z3.And(0 <= j, j == i - 1, i < L, merge(b, a) == merge(A[j], A[i])),
                                                                      dense(z3.Store(z3.Store(A, i, a), j, b), L) == dense(A, L)),
                                      patterns=[dense(z3.Store(z3.Store(A, i, a), j, b), L)])))
    # L-last (T lemma L-last + Lean VT.foldl_last_scale / foldl_site_map): boundary site against the dummy 1x1x1 tensor
    t = z3.Const('t', Ten)
    ax.append(('L-last-right-end', z3.ForAll([A, a, t, L, j], z3.Implies(z3.And(L >= 1, j == L - 1, merge(a, t) == merge(A[j], ONE), dl(t) == 1, dr(t) == 1, dp(t) == 1),
                                                                         vscale(dense(z3.Store(A, j, a), L), val(t)) == dense(A, L)),
                                             patterns=[z3.MultiPattern(dense(z3.Store(A, j, a), L), merge(a, t))])))
    ax.append(('L-last-left-end', z3.ForAll([A, a, t, L, j], z3.Implies(z3.And(L >= 1, j == 0, merge(t, a) == merge(ONE, A[j]), dl(t) == 1, dr(t) == 1, dp(t) == 1),
                                                                        vscale(dense(z3.Store(A, j, a), L), val(t)) == dense(A, L)),
                                            patterns=[z3.MultiPattern(dense(z3.Store(A, j, a), L), merge(t, a))])))
    # L-scale with c = -1 (T lemma L-scale + Lean VT.foldl_site_map)
    ax.append(('L-neg', z3.ForAll([A, k, L, a], z3.Implies(z3.And(0 <= k, k < L), dense(z3.Store(A, k, neg(a)), L) == vscale(dense(z3.Store(A, k, a), L), -1)),
                                  patterns=[dense(z3.Store(A, k, neg(a)), L)])))
    ax.append(('neg-structure', z3.ForAll([a], z3.And(liso(neg(a)) == liso(a), riso(neg(a)) == riso(a), dl(neg(a)) == dl(a), dr(neg(a)) == dr(a), dp(neg(a)) == dp(a)))))
    q0, q1, q2 = z3.Consts('q0 q1 q2', QVs)
    ax.append(('neg-sparse', z3.ForAll([a, q0, q1, q2], sp(neg(a), q0, q1, q2) == sp(a, q0, q1, q2))))
    ax.append(('vscale-assoc', z3.ForAll([v, x, y], vscale(vscale(v, x), y) == vscale(v, x * y))))
    ax.append(('vscale-one', z3.ForAll([v], vscale(v, 1) == v)))
    ax.append(('vnorm-scale', z3.ForAll([v, x], vnorm(vscale(v, x)) == z3.If(x >= 0, x, -x) * vnorm(v))))
    # L-iso + L-norm (Lean VT.foldl_invariant + T lemmas): all sites isometric in one direction => unit norm
    ax.append(('L-unit-left', z3.ForAll([A, L], z3.Implies(z3.And(L >= 1, z3.ForAll([k], z3.Implies(z3.And(0 <= k, k < L), liso(A[k]))), dr(A[L - 1]) == 1),
                                                            vnorm(dense(A, L)) == 1), patterns=[vnorm(dense(A, L))])))
    ax.append(('L-unit-right', z3.ForAll([A, L], z3.Implies(z3.And(L >= 1, z3.ForAll([k], z3.Implies(z3.And(0 <= k, k < L), riso(A[k]))), dl(A[0]) == 1),
                                                             vnorm(dense(A, L)) == 1), patterns=[vnorm(dense(A, L))])))
    tt = z3.Const('tt', Ten)
    ax.append(('phase-structure', z3.ForAll([a, tt], z3.Implies(absval(tt) > 0, z3.And(liso(phasemul(a, tt)) == liso(a), riso(phasemul(a, tt)) == riso(a), dl(phasemul(a, tt)) == dl(a),
                                                                                     dr(phasemul(a, tt)) == dr(a), dp(phasemul(a, tt)) == dp(a))))))
    ax.append(('phase-sparse', z3.ForAll([a, tt, q0, q1, q2], sp(phasemul(a, tt), q0, q1, q2) == sp(a, q0, q1, q2))))
    ax.append(('absval-nonneg', z3.ForAll([tt], absval(tt) >= 0)))
    ax.append(('ONE-dims', z3.And(dl(ONE) == 1, dr(ONE) == 1, dp(ONE) == 1)))
    qq = z3.Const('qq', QVs)
    ax.append(('qneg-involution', z3.ForAll([qq], z3.And(qneg(qneg(qq)) == qq, qlen(qneg(qq)) == qlen(qq)))))
    return ax


class ZSeq:
    """Python list modelled as a z3 array with a length"""
    is_zseq = True
    def __init__(self, arr, length):
        self.arr = arr; self.length = length


def wf_site(A, qD, qd, k):
    return z3.And(dp(A[k]) == qlen(qd), dl(A[k]) == qlen(qD[k]), dr(A[k]) == qlen(qD[k + 1]), sp(A[k], qd, qD[k], qD[k + 1]),
                  qlen(qD[k]) >= 1, qlen(qD[k + 1]) >= 1)

def WF(A, qD, qd, L):
    k = z3.Int('k')
    return z3.ForAll([k], z3.Implies(z3.And(0 <= k, k < L), wf_site(A, qD, qd, k)))


# ---- library / callee models ------------------------------------------------------------------------

def s_len(ex, st, node, args, kw):
    v = args[0]
    if getattr(v, 'is_zseq', False):
        return v.length
    raise Unsupported('len')

def _idx(seq, k):
    if isinstance(k, int) and k < 0:
        return seq.length + k
    return zint(k)

def s_getitem(ex, st, node, base, key):
    if getattr(base, 'is_zseq', False):
        if isinstance(key, slice):
            lo = key.start; hi = key.stop
            if lo is None and isinstance(hi, int) and hi > 0:
                return tuple(base.arr[z3.IntVal(j)] for j in range(hi))
            if hi is None and isinstance(lo, int) and lo < 0:
                return tuple(base.arr[base.length + j] for j in range(lo, 0))
            if lo is not None and hi is not None:
                w = z3.simplify(zint(hi) - zint(lo))
                if z3.is_int_value(w):
                    return tuple(base.arr[z3.simplify(zint(lo) + j)] for j in range(w.as_long()))
            raise Unsupported('slice of symbolic width')
        k = _idx(base, key)
        oblige(ex, st, node, 'index', f'{ast.unparse(node)[:40]}: index in range', z3.And(k >= 0, k < base.length))
        return base.arr[k]
    if is_z(base) and base.sort() == Ten:
        if key == (0, 0, 0) or key == (0, 0, 0, 0):
            return TenEntry(base)
    raise Unsupported(f'subscript of {type(base).__name__}')

def s_setitem(ex, st, node, base, key, v):
    if getattr(base, 'is_zseq', False):
        k = _idx(base, key)
        oblige(ex, st, node, 'index', f'{ast.unparse(node)[:40]}: index in range', z3.And(k >= 0, k < base.length))
        return ZSeq(z3.Store(base.arr, k, v), base.length)
    raise Unsupported('store')

class TenEntry:
    def __init__(self, t): self.t = t

def g_real(ex, st, node, base):
    if isinstance(base, TenEntry):
        return val(base.t)
    return NotImplemented

def g_shape(ex, st, node, base):
    if is_z(base) and base.sort() == Ten:
        return TenShape(base)
    return NotImplemented

class TenShape:
    def __init__(self, t): self.t = t

def s_compare(ex, st, node, op, l, r):
    if isinstance(l, TenShape) and isinstance(r, tuple) and all(x == 1 for x in r) and isinstance(op, ast.Eq):
        return z3.And(dl(l.t) == 1, dr(l.t) == 1, dp(l.t) == 1)
    return NotImplemented

def np_array(ex, st, node, args, kw):
    v = args[0]
    d = 0
    while isinstance(v, tuple) and len(v) == 1:
        v = v[0]; d += 1
    if v == 1 and d in (3, 4):
        return ONE
    raise Unsupported('np.array literal')

def s_neg(ex, st, node, v):
    if is_z(v) and v.sort() == Ten:
        return neg(v)
    if is_z(v) and v.sort() == QVs:
        return qneg(v)
    if is_z(v):
        return -v
    raise Unsupported('neg')


def K_local_left(ex, st, node, args, kw):
    """predicate-level contract of local_orthonormalize_left_qr (entry level: engine T, vt/contracts/mps.py, mpo.py)"""
    A, An, qd, qD = args
    q0, q1 = qD
    ln = node.lineno
    dummy = An is ONE or (is_z(An) and z3.eq(An, ONE))
    pre = [dr(A) == dl(An) if not dummy else dr(A) >= 1, qlen(q0) == dl(A), qlen(q1) == dr(A), dp(A) == qlen(qd), sp(A, qd, q0, q1)]
    for txt, f in zip(['Anext.shape[1] == A.shape[2]', 'len(qD[0]) == A.shape[1]', 'len(qD[1]) == A.shape[2]', 'len(qd) == A.shape[0]', 'qsparse(A, [qd, qD[0], -qD[1]])'], pre):
        oblige(ex, st, node, 'callee-pre', f'local_orthonormalize_left_qr: {txt}', f)
    n = next(_c)
    A2 = z3.Const(f'Aq{n}', Ten); An2 = z3.Const(f'Anq{n}', Ten); qb = z3.Const(f'qb{n}', QVs)
    post = [merge(A2, An2) == merge(A, An), liso(A2), dp(A2) == dp(A), dl(A2) == dl(A), dr(A2) == qlen(qb), dl(An2) == qlen(qb),
            dp(An2) == dp(An), dr(An2) == dr(An), qlen(qb) >= 1, qlen(qb) <= dp(A) * dl(A), qlen(qb) <= dr(A), sp(A2, qd, q0, qb)]
    st.pc += post
    st.env.setdefault('#calls', []).append(('left', A, An, A2, An2, q1, qb))
    return (A2, An2, qb)

def K_local_right(ex, st, node, args, kw):
    A, Ap, qd, qD = args
    q0, q1 = qD
    dummy = is_z(Ap) and z3.eq(Ap, ONE)
    pre = [dl(A) == dr(Ap) if not dummy else dl(A) >= 1, qlen(q0) == dl(A), qlen(q1) == dr(A), dp(A) == qlen(qd), sp(A, qd, q0, q1)]
    for txt, f in zip(['Aprev.shape[2] == A.shape[1]', 'len(qD[0]) == A.shape[1]', 'len(qD[1]) == A.shape[2]', 'len(qd) == A.shape[0]', 'qsparse(A, [qd, qD[0], -qD[1]])'], pre):
        oblige(ex, st, node, 'callee-pre', f'local_orthonormalize_right_qr: {txt}', f)
    n = next(_c)
    A2 = z3.Const(f'Aq{n}', Ten); Ap2 = z3.Const(f'Apq{n}', Ten); qb = z3.Const(f'qb{n}', QVs)
    post = [merge(Ap2, A2) == merge(Ap, A), riso(A2), dp(A2) == dp(A), dr(A2) == dr(A), dl(A2) == qlen(qb), dr(Ap2) == qlen(qb),
            dp(Ap2) == dp(Ap), dl(Ap2) == dl(Ap), qlen(qb) >= 1, qlen(qb) <= dp(A) * dr(A), qlen(qb) <= dl(A), sp(A2, qd, qb, q1)]
    st.pc += post
    st.env.setdefault('#calls', []).append(('right', A, Ap, A2, Ap2, q0, qb))
    return (A2, Ap2, qb)


absval = z3.Function('abs000', Ten, Rr)            # |T[0,0,0]|
phasemul = z3.Function('mul_phase', Ten, Ten, Ten)  # a * (T[0,0,0] / |T[0,0,0]|)


def K_local_left_svd(ex, st, node, args, kw):
    """predicate-level contract of local_orthonormalize_left_svd (entry level: engine T relative to K_svd)"""
    A, An, qd, qD, tol = args
    q0, q1 = qD
    dummy = is_z(An) and z3.eq(An, ONE)
    pre = [dr(A) == dl(An) if not dummy else dr(A) >= 1, qlen(q0) == dl(A), qlen(q1) == dr(A), dp(A) == qlen(qd), sp(A, qd, q0, q1)]
    for txt, f in zip(['Anext.shape[1] == A.shape[2]', 'len(qD[0]) == A.shape[1]', 'len(qD[1]) == A.shape[2]', 'len(qd) == A.shape[0]', 'qsparse(A, [qd, qD[0], -qD[1]])'], pre):
        oblige(ex, st, node, 'callee-pre', f'local_orthonormalize_left_svd: {txt}', f)
    n = next(_c)
    A2 = z3.Const(f'As{n}', Ten); An2 = z3.Const(f'Ans{n}', Ten); qb = z3.Const(f'qs{n}', QVs)
    # truncation: the new bond is not larger than the old one; it is non-empty because the state is non-zero (property precondition)
    post = [liso(A2), dp(A2) == dp(A), dl(A2) == dl(A), dr(A2) == qlen(qb), dl(An2) == qlen(qb), dp(An2) == dp(An), dr(An2) == dr(An),
            qlen(qb) >= 1, qlen(qb) <= dp(A) * dl(A), qlen(qb) <= dr(A), sp(A2, qd, q0, qb)]
    st.pc += post
    st.env.setdefault('#calls', []).append(('left', A, An, A2, An2, q1, qb))
    return (A2, An2, qb)

def K_local_right_svd(ex, st, node, args, kw):
    A, Ap, qd, qD, tol = args
    q0, q1 = qD
    dummy = is_z(Ap) and z3.eq(Ap, ONE)
    pre = [dl(A) == dr(Ap) if not dummy else dl(A) >= 1, qlen(q0) == dl(A), qlen(q1) == dr(A), dp(A) == qlen(qd), sp(A, qd, q0, q1)]
    for txt, f in zip(['Aprev.shape[2] == A.shape[1]', 'len(qD[0]) == A.shape[1]', 'len(qD[1]) == A.shape[2]', 'len(qd) == A.shape[0]', 'qsparse(A, [qd, qD[0], -qD[1]])'], pre):
        oblige(ex, st, node, 'callee-pre', f'local_orthonormalize_right_svd: {txt}', f)
    n = next(_c)
    A2 = z3.Const(f'As{n}', Ten); Ap2 = z3.Const(f'Aps{n}', Ten); qb = z3.Const(f'qs{n}', QVs)
    post = [riso(A2), dp(A2) == dp(A), dr(A2) == dr(A), dl(A2) == qlen(qb), dr(Ap2) == qlen(qb), dp(Ap2) == dp(Ap), dl(Ap2) == dl(Ap),
            qlen(qb) >= 1, qlen(qb) <= dp(A) * dr(A), qlen(qb) <= dl(A), sp(A2, qd, qb, q1)]
    st.pc += post
    st.env.setdefault('#calls', []).append(('right', A, Ap, A2, Ap2, q0, qb))
    return (A2, Ap2, qb)


def K_orthonormalize(ex, st, node, args, kw):
    """callee contract of MPS.orthonormalize as proved by the sweep contracts above (modifies self)"""
    slf = args[0]
    mode = kw.get('mode', args[1] if len(args) > 1 else 'left')
    L = slf.A.length; A = slf.A.arr; qD = slf.qD.arr; qd = slf.qd
    k = z3.Int('k')
    oblige(ex, st, node, 'callee-pre', 'orthonormalize: class invariant of self',
           z3.And(L >= 1, WF(A, qD, qd, L), z3.ForAll([k], z3.Implies(z3.And(0 <= k, k + 1 < L), dr(A[k]) == dl(A[k + 1]))), qlen(qD[0]) == 1, qlen(qD[L]) == 1))
    n = next(_c)
    A2 = z3.Const(f'Ao{n}', ArrT); qD2 = z3.Const(f'qDo{n}', ArrQ); nrm = z3.Real(f'nrm{n}')
    iso = riso if mode == 'right' else liso
    st.pc += [nrm >= 0, vscale(dense(A2, L), nrm) == dense(A, L), vnorm(dense(A, L)) == nrm,
              z3.ForAll([k], z3.Implies(z3.And(0 <= k, k < L), iso(A2[k]))),
              WF(A2, qD2, qd, L), z3.ForAll([k], z3.Implies(z3.And(0 <= k, k + 1 < L), dr(A2[k]) == dl(A2[k + 1]))),
              qlen(qD2[0]) == 1, qlen(qD2[L]) == 1,
              z3.ForAll([k], z3.Implies(z3.And(0 <= k, k < L), z3.And(dr(A2[k]) <= dr(A[k]), dl(A2[k]) <= dl(A[k])))),
              (qD2[L] == qD[L]) if mode == 'right' else (qD2[0] == qD[0])]
    recv = node.func.value
    if not isinstance(recv, ast.Name):
        raise Unsupported('orthonormalize on a non-variable receiver')
    st.env[recv.id] = Obj(slf.cls, dict(slf.attrs, A=ZSeq(A2, L), qD=ZSeq(qD2, slf.qD.length)))
    st.env['#orth'] = (A, qD, A2, qD2, nrm)
    return nrm


def s_abs(ex, st, node, args, kw):
    v = args[0]
    if isinstance(v, TenEntry):
        return absval(v.t)
    raise Unsupported('abs')

class Phase:
    def __init__(self, t): self.t = t

def s_binop(ex, st, node, op, l, r):
    if isinstance(l, TenEntry) and is_z(r) and isinstance(op, ast.Div) and z3.eq(r, absval(l.t)):
        # T[0,0,0] / abs(T[0,0,0]) : a unit phase, defined only for T != 0 (non-zero state: precondition of the property)
        oblige(ex, st, node, 'precondition', 'compress: the state is non-zero (division by |T[0,0,0]|)', absval(l.t) > 0)
        return Phase(l.t)
    if is_z(l) and l.sort() == Ten and isinstance(r, Phase) and isinstance(op, ast.Mult):
        return phasemul(l, r.t)
    return NotImplemented


def sparse_transfer(st):
    """sparsity of the *neighbour* after a local step (T clauses sparse_Anext / sparse_Aprev): if the neighbour was sparse
    under (qd', q_shared, q_far) it is sparse under (qd', q_new, q_far)"""
    qd = z3.Const('qdx', QVs); qf = z3.Const('qfx', QVs)
    out = []
    for kind, A, An, A2, An2, qs, qb in st.env.get('#calls', []):
        if kind == 'left':
            out.append(z3.ForAll([qd, qf], z3.Implies(sp(An, qd, qs, qf), sp(An2, qd, qb, qf))))
        else:
            out.append(z3.ForAll([qd, qf], z3.Implies(sp(An, qd, qf, qs), sp(An2, qd, qf, qb))))
    return out


LIB_S = {'abs': s_abs, 'binop': s_binop, 'len': s_len, 'getitem': s_getitem, 'setitem': s_setitem, 'getattr.real': g_real, 'getattr.shape': g_shape,
         'compare': s_compare, 'np.array': np_array, 'neg': s_neg}


# ---- loop handler with sidecar invariants --------------------------------------------------------------

def sweep_loop_handler(invariants, stale):
    def handler(ex, n, st):
        sig = loader.loop_signature(n)
        if sig not in invariants:
            stale.append(sig)
            raise Unsupported(f'no invariant for loop "{sig}" (contract stale)')
        inv = invariants[sig]
        it = ex.ev(n.iter, st)
        if not isinstance(it, SymRange) or not isinstance(n.target, ast.Name):
            raise Unsupported('loop shape')
        lo, hi = zint(it.lo), zint(it.hi)
        var = n.target.id
        cnt0 = z3.IntVal(0)
        def at(c):
            return lo + c if not it.rev else hi - 1 - c
        oblige(ex, st, n, 'invariant', f'{sig}: invariant holds on entry', inv(st.env, cnt0, at(cnt0)))
        # arbitrary iteration: fresh self (arrays havoced), invariant assumed
        head = st.fork()
        slf = head.env['self']
        n_ = next(_c)
        A = z3.Const(f'Ah{n_}', ArrT); qD = z3.Const(f'qDh{n_}', ArrQ)
        head.env['self'] = Obj(slf.cls, dict(slf.attrs, A=ZSeq(A, slf.A.length), qD=ZSeq(qD, slf.qD.length)))
        c = fresh_int('iter')
        head.pc.append(z3.And(c >= 0, c < hi - lo))
        head.env[var] = at(c)
        head.pc.append(inv(head.env, c, at(c)))
        outs = ex.block(n.body, [head])
        for s in outs:
            if s.done:
                raise Unsupported('return inside sweep loop')
            s.pc += sparse_transfer(s)
            oblige(ex, s, n, 'invariant', f'{sig}: invariant preserved', inv(s.env, c + 1, at(c + 1)))
        # exit state
        after = st.fork()
        n2 = next(_c)
        A2 = z3.Const(f'Ax{n2}', ArrT); qD2 = z3.Const(f'qDx{n2}', ArrQ)
        after.env['self'] = Obj(slf.cls, dict(slf.attrs, A=ZSeq(A2, slf.A.length), qD=ZSeq(qD2, slf.qD.length)))
        tot = z3.If(hi - lo > 0, hi - lo, 0)
        after.pc.append(inv(after.env, tot, at(tot)))
        after.env[var] = fresh_int(var)
        return [after]
    return handler


# ---- contracts ------------------------------------------------------------------------------------------

def orthonormalize_contract(cls, mode):
    mod = 'mps' if cls == 'MPS' else 'mpo'
    fn = f'{mod}.{cls}.orthonormalize'
    L = z3.Int('L'); A0 = z3.Const('A0', ArrT); q0 = z3.Const('qD0', ArrQ); qd = z3.Const('qd', QVs)
    k = z3.Int('k')
    pre = [L >= 1, WF(A0, q0, qd, L), z3.ForAll([k], z3.Implies(z3.And(0 <= k, k + 1 < L), dr(A0[k]) == dl(A0[k + 1]))),
           qlen(q0[0]) == 1, qlen(q0[L]) == 1]
    left = mode == 'left'
    isoP = liso if left else riso

    def inv(env, c, i):
        slf = env['self']; A = slf.A.arr; qD = slf.qD.arr
        # sites already processed: [0, c) from the left, or (L-1-c, L-1] from the right
        done = (lambda kk: z3.And(0 <= kk, kk < c)) if left else (lambda kk: z3.And(L - 1 - c < kk, kk <= L - 1))
        bound = (lambda kk: z3.And(dr(A[kk]) <= dp(A[kk]) * dl(A[kk]), dr(A[kk]) <= dr(A0[kk]))) if left else \
                (lambda kk: z3.And(dl(A[kk]) <= dp(A[kk]) * dr(A[kk]), dl(A[kk]) <= dl(A0[kk])))
        untouched = (lambda kk: z3.And(c < kk, kk < L)) if left else (lambda kk: z3.And(0 <= kk, kk < L - 1 - c))
        return z3.And(
            dense(A, L) == dense(A0, L),
            z3.ForAll([k], z3.Implies(done(k), z3.And(isoP(A[k]), bound(k)))),
            WF(A, qD, qd, L),
            z3.ForAll([k], z3.Implies(z3.And(0 <= k, k + 1 < L), dr(A[k]) == dl(A[k + 1]))),
            z3.ForAll([k], z3.Implies(untouched(k), z3.And(A[k] == A0[k]))),
            (qD[0] == q0[0]) if left else (qD[L] == q0[L]),
            qlen(qD[0]) == 1, qlen(qD[L]) == 1,
            # the not yet processed boundary of the current site keeps its original dimension bound
            (dr(A[c]) <= dr(A0[c]) if left else dl(A[L - 1 - c]) <= dl(A0[L - 1 - c])) if True else True,
        )
    sigs = {'left': 'for i in range(len(self.A) - 1)', 'right': 'for i in reversed(range(1, len(self.A)))'}

    def post(ret, env, st):
        slf = env['self']; A = slf.A.arr; qD = slf.qD.arr
        sp_ax = ['L-last-right-end', 'L-last-left-end', 'vscale-assoc', 'L-neg', 'vscale-one', 'ONE-dims']
        cl = [('nrm_nonneg', ret >= 0),
              ('state_preserved', vscale(dense(A, L), ret) == dense(A0, L), sp_ax),
              ('all_sites_isometric', z3.ForAll([k], z3.Implies(z3.And(0 <= k, k < L), isoP(A[k])))),
              ('unit_norm', vnorm(dense(A, L)) == 1),
              ('nrm_is_norm_of_original', z3.Implies(z3.And(vscale(dense(A, L), ret) == dense(A0, L), vnorm(dense(A, L)) == 1, ret >= 0), vnorm(dense(A0, L)) == ret),
               ['vnorm-scale']),
              ('class_invariant', z3.And(WF(A, qD, qd, L), z3.ForAll([k], z3.Implies(z3.And(0 <= k, k + 1 < L), dr(A[k]) == dl(A[k + 1]))),
                                         qlen(qD[0]) == 1, qlen(qD[L]) == 1)),
              ('bond_bound', z3.ForAll([k], z3.Implies(z3.And(0 <= k, k < L),
                                                       z3.And(dr(A[k]) <= dp(A[k]) * dl(A[k]), dr(A[k]) <= dr(A0[k])) if left else
                                                       z3.And(dl(A[k]) <= dp(A[k]) * dr(A[k]), dl(A[k]) <= dl(A0[k]))))),
              ('far_boundary_charge_unchanged', (qD[0] == q0[0]) if left else (qD[L] == q0[L]))]
        return cl
    def canary(ret, env, st):
        slf = env['self']; A = slf.A.arr
        other = riso if left else liso
        return [('wrong_direction', z3.ForAll([k], z3.Implies(z3.And(0 <= k, k < L), other(A[k]))))]
    return dict(fn=fn, mode=mode, L=L, pre=pre, inv={sigs[mode]: inv}, post=post, canary=canary,
                self0=Obj(cls, dict(A=ZSeq(A0, L), qD=ZSeq(q0, L + 1), qd=qd)),
                calls={'local_orthonormalize_left_qr': K_local_left, 'local_orthonormalize_right_qr': K_local_right})


def compress_contract(mode):
    fn = 'mps.MPS.compress'
    L = z3.Int('L'); A0 = z3.Const('A0', ArrT); q0 = z3.Const('qD0', ArrQ); qd = z3.Const('qd', QVs); tol = z3.Real('tol')
    k = z3.Int('k')
    pre = [L >= 1, tol >= 0, tol < 1, WF(A0, q0, qd, L), z3.ForAll([k], z3.Implies(z3.And(0 <= k, k + 1 < L), dr(A0[k]) == dl(A0[k + 1]))),
           qlen(q0[0]) == 1, qlen(q0[L]) == 1]
    left = mode == 'left'
    isoP = liso if left else riso
    isoO = riso if left else liso

    def inv(env, c, i):
        slf = env['self']; A = slf.A.arr; qD = slf.qD.arr
        A1 = env['#orth'][2]
        done = (lambda kk: z3.And(0 <= kk, kk < c)) if left else (lambda kk: z3.And(L - 1 - c < kk, kk <= L - 1))
        rest = (lambda kk: z3.And(c < kk, kk < L)) if left else (lambda kk: z3.And(0 <= kk, kk < L - 1 - c))
        return z3.And(
            z3.ForAll([k], z3.Implies(done(k), isoP(A[k]))),
            z3.ForAll([k], z3.Implies(rest(k), A[k] == A1[k])),
            WF(A, qD, qd, L),
            z3.ForAll([k], z3.Implies(z3.And(0 <= k, k + 1 < L), dr(A[k]) == dl(A[k + 1]))),
            z3.ForAll([k], z3.Implies(z3.And(0 <= k, k < L), z3.And(dr(A[k]) <= dr(A0[k]), dl(A[k]) <= dl(A0[k])))),
            qlen(qD[0]) == 1, qlen(qD[L]) == 1)
    sigs = {'left': 'for i in range(len(self.A) - 1)', 'right': 'for i in reversed(range(1, len(self.A)))'}

    def post(ret, env, st):
        slf = env['self']; A = slf.A.arr; qD = slf.qD.arr
        nrm, scale = ret
        return [('returns_norm_of_original', z3.And(nrm >= 0, nrm == vnorm(dense(A0, L)))),
                ('scale_nonneg', scale >= 0),
                ('canonical_form', z3.ForAll([k], z3.Implies(z3.And(0 <= k, k < L), isoP(A[k])))),
                ('normalized', vnorm(dense(A, L)) == 1),
                ('class_invariant', z3.And(WF(A, qD, qd, L), z3.ForAll([k], z3.Implies(z3.And(0 <= k, k + 1 < L), dr(A[k]) == dl(A[k + 1]))),
                                           qlen(qD[0]) == 1, qlen(qD[L]) == 1)),
                ('bond_dims_not_larger', z3.ForAll([k], z3.Implies(z3.And(0 <= k, k < L), z3.And(dr(A[k]) <= dr(A0[k]), dl(A[k]) <= dl(A0[k])))))]
    def canary(ret, env, st):
        slf = env['self']; A = slf.A.arr
        return [('wrong_direction', z3.ForAll([k], z3.Implies(z3.And(0 <= k, k < L), isoO(A[k]))))]
    return dict(fn=fn, mode=mode, L=L, pre=pre, inv={sigs[mode]: inv}, post=post, canary=canary,
                self0=Obj('MPS', dict(A=ZSeq(A0, L), qD=ZSeq(q0, L + 1), qd=qd)), extra_env={'tol': tol},
                assume_obligations=['compress: the state is non-zero'],
                calls={'local_orthonormalize_left_svd': K_local_left_svd, 'local_orthonormalize_right_svd': K_local_right_svd,
                       'MPS.orthonormalize': K_orthonormalize, 'is_qsparse': K_is_qsparse})


def K_is_qsparse(ex, st, node, args, kw):
    A, qs = args
    if len(qs) == 3:
        q2 = qs[2]
        # third entry is written as -qD[i+1] in the source
        if is_z(q2) and q2.decl().name() == 'qneg':
            q2 = q2.arg(0)
        return sp(A, qs[0], qs[1], q2)
    raise Unsupported('is_qsparse arity')


def verify_contract(spec, props):
    from . import smt
    smt.EXTERNAL[0] = True          # quantified axioms: run every query in a killable z3 child process
    fn = spec['fn']; out = []; t0 = time.time()
    tag = f"[{spec['mode']}]"
    fnode = loader.function(fn)
    ax = [f for _, f in axioms()]
    solver = Solver(ax)
    stale = []
    ex = Exec(lib=dict(LIB_S), calls=spec['calls'], mode='Z', solver=solver, loop_handler=sweep_loop_handler(spec['inv'], stale), fname=fn)
    env0 = {'self': spec['self0'], 'mode': spec['mode']}
    env0.update(spec.get('extra_env', {}))
    st = State(env0, list(spec['pre']))
    try:
        if not solver.feasible(spec['pre']):
            return [Verdict('precondition_satisfiable' + tag, 'Z', 'refuted', 'contradictory requires', 0, fn, 'vacuity', 'z3')]
        states = ex.block(fnode.body, [st])
    except Refuted as e:
        return [Verdict('executes' + tag, 'Z', 'refuted', str(e), time.time() - t0, fn, 'safety', 'z3')]
    except Unsupported as e:
        return [Verdict('executes' + tag, 'Z', 'undecided', f'outside fragment: {e}', time.time() - t0, fn, 'safety', 'z3')]
    for ob in ex.obligations:
        status = 'discharged' if ob.holds is True else 'refuted' if ob.holds is False else 'undecided'
        if any(ob.text.startswith(a) for a in spec.get('assume_obligations', ())):
            status = 'discharged'; ob.detail = 'precondition of the property (non-zero state): assumed, obligation of the callers'
        v = Verdict(f'{ob.kind}@{ob.lineno}{tag}: {ob.text[:80]}', 'Z', status,
                    ob.detail + (' (needs native confirmation: quantified counter-model)' if status == 'refuted' else ''), 0.0, fn, ob.kind, 'z3')
        v.confirm = ['orthonormalize']
        out.append(v)
    finals = [s for s in states if s.done and s.raised is None and solver.feasible(s.pc)]
    raised = [s for s in states if s.raised is not None and solver.feasible(s.pc)]
    if raised:
        out.append(Verdict('no_exception' + tag, 'Z', 'undecided', f'a feasible path raises {raised[0].raised}', 0, fn, 'safety', 'z3'))
    if not finals:
        out.append(Verdict('returns' + tag, 'Z', 'undecided', 'no returning path', 0, fn, 'ensures', 'z3'))
    agg = {}
    for s in finals:
        s.pc += sparse_transfer(s)
        named = dict(axioms())
        for item in spec['post'](s.ret, s.env, s):
            name, f = item[0], item[1]
            if len(item) > 2 and item[2] is not None:
                # lemma selection: only the named axioms are given to the solver for this clause
                rr, _ = check_unsat([named[a] for a in item[2]] + [p for p in s.pc if is_z(p)] + [z3.Not(f)])
                r = True if rr == 'unsat' else None
                if r is None:
                    r = solver.implied([p for p in s.pc if is_z(p)], f, final=True)
            else:
                r = solver.implied([p for p in s.pc if is_z(p)], f, final=True)
            agg.setdefault(name, []).append(r)
    for name, rs in agg.items():
        status = 'discharged' if all(r is True for r in rs) else 'refuted' if any(r is False for r in rs) else 'undecided'
        v = Verdict(name + tag, 'Z', status, f'{len(rs)} return paths' + (' (needs native confirmation: quantified counter-model)' if status == 'refuted' else ''),
                    0, fn, 'ensures', 'z3')
        v.confirm = ['orthonormalize']
        out.append(v)
    if spec.get('canary') and finals:
        bad = True
        for s in finals:
            for name, f in spec['canary'](s.ret, s.env, s):
                r, _ = check_unsat(ax + [p for p in s.pc if is_z(p)] + [z3.Not(f)], timeout=3000, try_cvc5=False)
                if r != 'unsat':
                    bad = False
        out.append(Verdict('canary' + tag, 'Z', 'canary-verified' if bad else 'canary-ok', 'isometry in the wrong direction must not be provable', 0, fn, 'canary', 'z3'))
    tot = time.time() - t0
    for v in out:
        v.seconds = tot / max(1, len(out))
    return out


def verify(prop, tier='quick'):
    out = []
    if prop in ('C13',):
        for mode in ('left', 'right'):
            out += verify_contract(compress_contract(mode), (prop,))
    if prop in ('C01', 'C02', 'C19'):
        for cls in ('MPS', 'MPO'):
            for mode in ('left', 'right'):
                if prop != 'C01' and cls == 'MPO':
                    continue
                try:
                    out += verify_contract(orthonormalize_contract(cls, mode), (prop,))
                except Exception as e:
                    import traceback
                    out.append(Verdict(f'sweep[{mode}]', 'Z', 'undecided', f'executor error: {type(e).__name__}: {e} {traceback.format_exc()[-400:]}', 0,
                                       f'{cls}.orthonormalize', 'ensures', 'z3'))
    return out
