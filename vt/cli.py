"""python3-vt -m vt.cli check <PID> [--tier quick|thorough]   |  replay <path>  |  setup"""
import argparse, os, sys

def main():
    ap = argparse.ArgumentParser()
    sub = ap.add_subparsers(dest='cmd', required=True)
    c = sub.add_parser('check'); c.add_argument('pid'); c.add_argument('--tier', default=os.environ.get('VERIF_TIER', 'quick'))
    r = sub.add_parser('replay'); r.add_argument('path')
    sub.add_parser('setup')
    a = ap.parse_args()
    from . import check as chk
    if a.cmd == 'check':
        seed = int(os.environ.get('VERIF_SEED', '0'))
        tier = a.tier if a.tier in ('quick', 'thorough') else 'quick'
        try:
            rc = chk.check(a.pid, tier, seed)
        except Exception as e:                               # a crash is never a violation
            import traceback
            traceback.print_exc()
            print(f'CHECKER-BROKEN property={a.pid} {type(e).__name__}: {e}')
            rc = 3
        sys.exit(rc)
    if a.cmd == 'replay':
        sys.exit(chk.replay(a.path))
    if a.cmd == 'setup':
        from . import setup
        sys.exit(setup.main())

if __name__ == '__main__':
    main()
