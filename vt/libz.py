"""Engine Z library models: abstract ndarrays with z3 shapes (ZArr), opaque numeric scalars (ZScal),
index/shape/slice obligations, havoc loops with optional invariants."""
import ast, itertools
import z3
from .symexec import Exec, Unsupported, Refuted, Obligation, Unknown, State, SymRange, ModRef, Closure

_fresh = itertools.count(1)


def fresh_int(name='n'):
    return z3.Int(f'{name}!{next(_fresh)}')


class ZScal:
    """opaque real/complex number"""
    is_zscal = True
    def __init__(self, kind='complex'):
        self.kind = kind
    def _b(self, o):
        return ZScal()
    __add__ = __radd__ = __sub__ = __rsub__ = __mul__ = __rmul__ = __truediv__ = __rtruediv__ = __pow__ = _b
    def __neg__(self):
        return ZScal()


class ZArr:
    is_zarr = True
    def __init__(self, shape, kind='complex', elems=None, name=None):
        self.shape = tuple(shape); self.kind = kind; self.elems = elems; self.name = name
    @property
    def ndim(self):
        return len(self.shape)
    def __repr__(self):
        return f'ZArr{self.shape}'


def is_z(x):
    return isinstance(x, z3.ExprRef)

def zint(x):
    return x if is_z(x) else z3.IntVal(int(x))


def oblige(ex, st, node, kind, text, formula):
    """record an obligation: formula must follow from the path condition"""
    if isinstance(formula, bool):
        holds = formula
    else:
        holds = ex.solver.implied([p for p in st.pc if is_z(p)], formula, final=True)
        if holds is False and getattr(st, 'approx', False):
            holds = None if not ex.trust_models else False
    ex.obligations.append(Obligation(kind, text, getattr(node, 'lineno', 0), holds,
                                     '' if holds else ('counter-model exists' if holds is False else 'not provable / over-approximated state')))
    if not isinstance(formula, bool):
        st.pc.append(formula)


def shape_eq(a, b):
    if len(a) != len(b):
        return False
    cs = [zint(x) == zint(y) for x, y in zip(a, b)]
    return z3.And(*cs) if cs else True


def norm_index(ex, st, node, k, n, what):
    """index k into an axis of length n: obligation -n <= k < n; returns non-negative index expression"""
    k = zint(k); n = zint(n)
    oblige(ex, st, node, 'index', f'{what}: index in range', z3.And(k >= -n, k < n))
    return z3.If(k < 0, k + n, k)


def slice_len(sl, n):
    """length of a[lo:hi] for an axis of length n (NumPy/Python clipping semantics, step 1)"""
    n = zint(n)
    if sl.step is not None and sl.step != 1:
        raise Unsupported('slice with step')
    def clip(v, default):
        if v is None:
            return default
        v = zint(v)
        v = z3.If(v < 0, v + n, v)
        return z3.If(v < 0, 0, z3.If(v > n, n, v))
    lo = clip(sl.start, z3.IntVal(0)); hi = clip(sl.stop, n)
    return z3.simplify(z3.If(hi - lo < 0, 0, hi - lo)), lo, hi


def z_getitem(ex, st, node, base, key):
    if getattr(base, 'is_zarr', False):
        if not isinstance(key, tuple):
            key = (key,)
        shape = []; ax = 0
        for k in key:
            if k is None:
                shape.append(1); continue
            if ax >= base.ndim:
                raise Refuted(f'line {node.lineno}: too many indices')
            if isinstance(k, slice):
                ln, _, _ = slice_len(k, base.shape[ax]); shape.append(ln)
            elif getattr(k, 'is_zarr', False):
                if k.ndim != 1:
                    raise Unsupported('advanced indexing with rank > 1')
                shape.append(k.shape[0])
            elif isinstance(k, int) or is_z(k):
                norm_index(ex, st, node, k, base.shape[ax], ast.unparse(node)[:40])
            else:
                raise Unsupported(f'index {k!r}')
            ax += 1
        shape += list(base.shape[ax:])
        if not shape:
            return ZScal(kind_of(base))
        return ZArr(shape, kind_of(base))
    raise Unsupported(f'subscript of {type(base).__name__}')


def z_setitem(ex, st, node, base, key, v):
    if getattr(base, 'is_zarr', False):
        if not isinstance(key, tuple):
            key = (key,)
        shape = []; ax = 0
        for k in key:
            if isinstance(k, slice):
                # a slice that is clipped would change the target shape and make the store fail: require exact bounds
                n = zint(base.shape[ax])
                ln, lo, hi = slice_len(k, base.shape[ax]); shape.append(ln)
                if k.start is not None and k.stop is not None:
                    oblige(ex, st, node, 'index', f'{ast.unparse(node)[:50]}: slice within bounds',
                           z3.And(zint(k.start) >= 0, zint(k.stop) <= n, zint(k.start) <= zint(k.stop)))
            elif isinstance(k, int) or is_z(k):
                norm_index(ex, st, node, k, base.shape[ax], ast.unparse(node)[:40])
            else:
                raise Unsupported(f'store index {k!r}')
            ax += 1
        shape += list(base.shape[ax:])
        if ex.check_dtypes and kind_le(kind_of(v), kind_of(base)):
            from .symexec import Obligation as _Ob
            ex.obligations.append(_Ob('dtype', f'{ast.unparse(node)[:50]}: no narrowing store ({kind_of(v)} into {kind_of(base)})', node.lineno, True))
        if ex.check_dtypes and not kind_le(kind_of(v), kind_of(base)):
            from .symexec import Obligation as _Ob
            ex.obligations.append(_Ob('dtype', f'{ast.unparse(node)[:50]}: no narrowing store ({kind_of(v)} into {kind_of(base)})', node.lineno, False,
                                      f'a value of kind {kind_of(v)} is stored into an array of kind {kind_of(base)}: the imaginary/fractional part is dropped'))
        if getattr(v, 'is_zarr', False):
            # broadcasting: value shape must equal the target shape (trailing alignment, size-1 axes not used here)
            if len(v.shape) > len(shape):
                ex.obligations.append(Obligation('shape', f'{ast.unparse(node)[:50]}: value rank fits target', node.lineno, False, 'rank'))
            else:
                tgt = shape[len(shape) - len(v.shape):]
                oblige(ex, st, node, 'shape', f'{ast.unparse(node)[:50]}: value shape == target shape', shape_eq(tgt, v.shape))
        return base
    raise Unsupported(f'store into {type(base).__name__}')


def _elementwise(ex, st, node, l, r):
    la = getattr(l, 'is_zarr', False); ra = getattr(r, 'is_zarr', False)
    if la and ra:
        n = max(l.ndim, r.ndim)
        ls = (1,) * (n - l.ndim) + l.shape; rs = (1,) * (n - r.ndim) + r.shape
        out = []
        for a, b in zip(ls, rs):
            if isinstance(a, int) and a == 1:
                out.append(b)
            elif isinstance(b, int) and b == 1:
                out.append(a)
            else:
                oblige(ex, st, node, 'shape', f'{ast.unparse(node)[:50]}: operand shapes agree', zint(a) == zint(b))
                out.append(a)
        return ZArr(out, kind_join(kind_of(l), kind_of(r)))
    return ZArr((l if la else r).shape, kind_join(kind_of(l), kind_of(r)))


def z_binop(ex, st, node, op, l, r):
    la = getattr(l, 'is_zarr', False); ra = getattr(r, 'is_zarr', False)
    ls = getattr(l, 'is_zscal', False); rs = getattr(r, 'is_zscal', False)
    if isinstance(op, ast.MatMult):
        if la and ra:
            if l.ndim == 2 and r.ndim == 2:
                oblige(ex, st, node, 'shape', f'{ast.unparse(node)[:50]}: matmul inner dimensions', zint(l.shape[1]) == zint(r.shape[0]))
                return ZArr((l.shape[0], r.shape[1]))
            if l.ndim == 2 and r.ndim == 1:
                oblige(ex, st, node, 'shape', f'{ast.unparse(node)[:50]}: matmul inner dimensions', zint(l.shape[1]) == zint(r.shape[0]))
                return ZArr((l.shape[0],))
            if l.ndim == 1 and r.ndim == 2:
                oblige(ex, st, node, 'shape', f'{ast.unparse(node)[:50]}: matmul inner dimensions', zint(l.shape[0]) == zint(r.shape[0]))
                return ZArr((r.shape[1],))
        raise Unsupported('matmul operands')
    if la or ra:
        res = _elementwise(ex, st, node, l, r)
        if isinstance(op, ast.Div) and res.kind == 'int':
            res.kind = 'real'
        return res
    if ls or rs:
        k = kind_join(kind_of(l), kind_of(r))
        return ZScal('real' if (isinstance(op, ast.Div) and k == 'int') else k)
    return NotImplemented


def z_compare(ex, st, node, op, l, r):
    if getattr(l, 'is_zscal', False) or getattr(r, 'is_zscal', False):
        return z3.Bool(f'cmp!{next(_fresh)}')       # free boolean: both outcomes explored
    return NotImplemented


KIND_ORDER = {'int': 0, 'real': 1, 'complex': 2}

def kind_join(a, b):
    if a == b:
        return a
    if a in KIND_ORDER and b in KIND_ORDER:
        return a if KIND_ORDER[a] >= KIND_ORDER[b] else b
    return 'complex' if 'complex' in (a, b) else (a if a not in KIND_ORDER else b)

def kind_le(a, b):
    """may a value of kind a be stored into an array of kind b without loss?  'param:x' = the (unknown) kind of argument x"""
    if a == b or b == 'complex':
        return True
    if a in KIND_ORDER and b in KIND_ORDER:
        return KIND_ORDER[a] <= KIND_ORDER[b]
    if a == 'int':
        return True
    return False

def kind_of(v):
    if getattr(v, 'is_zarr', False) or getattr(v, 'is_zscal', False):
        return getattr(v, 'kind', 'complex') or 'complex'
    if isinstance(v, bool) or isinstance(v, int) or is_z(v):
        return 'int'
    if isinstance(v, float):
        return 'real'
    return 'complex'


def _shape_arg(shp):
    if isinstance(shp, (int,)) or is_z(shp):
        return (shp,)
    return tuple(shp)

def np_zeros(ex, st, node, args, kw):
    shp = _shape_arg(args[0])
    for d in shp:
        oblige(ex, st, node, 'shape', f'{ast.unparse(node)[:40]}: dimension >= 0', zint(d) >= 0)
    dt = kw.get('dtype')
    kind = 'real'
    if dt is not None:
        if isinstance(dt, tuple) and dt and dt[0] == 'dtype':
            kind = dt[1]
        else:
            nm = getattr(dt, 'name', None) or (dt if isinstance(dt, str) else '')
            nm = str(nm).split('.')[-1]
            kind = {'complex': 'complex', 'complex128': 'complex', 'float': 'real', 'float64': 'real', 'int': 'int'}.get(nm, 'complex')
    return ZArr(shp, kind)

def np_norm(ex, st, node, args, kw):
    return ZScal('real')

def np_vdot(ex, st, node, args, kw):
    a, b = args
    if getattr(a, 'is_zarr', False) and getattr(b, 'is_zarr', False):
        oblige(ex, st, node, 'shape', f'{ast.unparse(node)[:40]}: equal sizes', shape_eq(a.shape, b.shape))
    return ZScal()

def g_shape(ex, st, node, base):
    if getattr(base, 'is_zarr', False):
        return tuple(base.shape)
    return NotImplemented

def g_T(ex, st, node, base):
    if getattr(base, 'is_zarr', False):
        return ZArr(tuple(reversed(base.shape)), kind_of(base))
    return NotImplemented

def g_real(ex, st, node, base):
    if getattr(base, 'is_zarr', False):
        return ZArr(base.shape, 'real' if kind_of(base) != 'int' else 'int')
    if getattr(base, 'is_zscal', False):
        return ZScal('real')
    return NotImplemented

def g_dtype_z(ex, st, node, base):
    if getattr(base, 'is_zarr', False) or getattr(base, 'is_zscal', False):
        return ('dtype', kind_of(base))
    return NotImplemented

def g_ndim(ex, st, node, base):
    if getattr(base, 'is_zarr', False):
        return base.ndim
    return NotImplemented

def z_len(ex, st, node, args, kw):
    v = args[0]
    if getattr(v, 'is_zarr', False):
        if v.ndim == 0:
            raise Refuted('len of 0-d array')
        return v.shape[0]
    raise Unsupported(f'len of {type(v).__name__}')

def z_neg(ex, st, node, v):
    if getattr(v, 'is_zarr', False):
        return v
    if getattr(v, 'is_zscal', False):
        return ZScal()
    raise Unsupported('negation')

def np_finfo(ex, st, node, args, kw):
    class _F: pass
    return FInfo()

class FInfo:
    pass

def g_eps(ex, st, node, base):
    if isinstance(base, FInfo):
        return ZScal('real')
    return NotImplemented

def np_exp(ex, st, node, args, kw):
    return args[0] if getattr(args[0], 'is_zarr', False) else ZScal()

def m_reshape(ex, st, node, args, kw):
    a = args[0]
    shp = args[1] if len(args) == 2 else tuple(args[1:])
    shp = _shape_arg(shp)
    if any(isinstance(d, int) and d == -1 for d in shp):
        if len(shp) == 1:
            tot = z3.IntVal(1)
            for d in a.shape:
                tot = tot * zint(d)
            return ZArr((z3.simplify(tot),))
        raise Unsupported('reshape with -1')
    p = z3.IntVal(1); q = z3.IntVal(1)
    for d in a.shape: p = p * zint(d)
    for d in shp: q = q * zint(d)
    oblige(ex, st, node, 'shape', f'{ast.unparse(node)[:50]}: reshape preserves size', p == q)
    return ZArr(shp)

def warn(ex, st, node, args, kw):
    return None


def z_ifexp(ex, st, e):
    """conditional expression with a symbolic test: evaluate both arms under their path conditions and merge"""
    c = ex.ev(e.test, st)
    a = st.fork(); a.pc.append(c)
    b = st.fork(); b.pc.append(ex.not_(c))
    va = ex.ev(e.body, a); vb = ex.ev(e.orelse, b)
    if getattr(va, 'is_zarr', False) and not getattr(vb, 'is_zarr', False):
        return va
    if getattr(vb, 'is_zarr', False) and not getattr(va, 'is_zarr', False):
        return vb
    if getattr(va, 'is_zarr', False) and getattr(vb, 'is_zarr', False):
        if len(va.shape) == len(vb.shape):
            return ZArr([z3.If(c, zint(x), zint(y)) for x, y in zip(va.shape, vb.shape)])
        raise Unsupported('conditional expression with arrays of different rank')
    if (is_z(va) or isinstance(va, int)) and (is_z(vb) or isinstance(vb, int)) and is_z(c):
        return z3.If(c, zint(va), zint(vb))
    return ZScal()


def np_array(ex, st, node, args, kw):
    """np.array / np.asarray / np.copy of an array: same shape; same kind unless dtype= is given"""
    a = args[0] if args else None
    if getattr(a, 'is_zarr', False) and type(a) is ZArr:
        kind = a.kind
        dt = kw.get('dtype')
        if dt is not None:
            z = np_zeros(ex, st, node, [a.shape], {'dtype': dt})
            kind = z.kind
        return ZArr(a.shape, kind)
    raise Unsupported(f'np.array of {type(a).__name__}')


def z_augassign(ex, st, node, cur, res, rhs=None):
    """`a op= b` on an ndarray writes the result into a: NumPy refuses (UFuncTypeError) when the result kind does not fit"""
    if not ex.check_dtypes or not getattr(cur, 'is_zarr', False) or not getattr(res, 'is_zarr', False):
        return
    kr, kc = kind_of(res), kind_of(cur)
    if isinstance(node.op, ast.Div) and kc == 'int':
        kr = 'real' if kr == 'int' else kr
    ok = kind_le(kr, kc)
    if ok and kc not in KIND_ORDER:
        # array of unknown kind (a parameter): a true division or a real / complex operand gives at least a real result
        low = 'real' if isinstance(node.op, ast.Div) else 'int'
        if rhs is not None and kind_of(rhs) in KIND_ORDER:
            low = low if KIND_ORDER[low] >= KIND_ORDER[kind_of(rhs)] else kind_of(rhs)
        if low != 'int':
            kr = low; ok = kind_le(low, kc)
    ex.obligations.append(Obligation('dtype', f'{ast.unparse(node)[:50]}: in-place operator keeps the kind of the array ({kr} into {kc})', node.lineno, ok,
                                     '' if ok else f'the result of kind {kr} cannot be written into an array of kind {kc}: NumPy raises UFuncTypeError (or drops a part)'))


LIB_Z = {
    'augassign': z_augassign, 'np.array': np_array, 'np.asarray': np_array, 'np.copy': np_array,
    'ifexp': z_ifexp,
    'getitem': z_getitem, 'setitem': z_setitem, 'binop': z_binop, 'compare': z_compare, 'len': z_len, 'neg': z_neg,
    'np.zeros': np_zeros, 'np.linalg.norm': np_norm, 'np.vdot': np_vdot, 'np.finfo': np_finfo, 'np.exp': np_exp,
    'getattr.shape': g_shape, 'getattr.T': g_T, 'getattr.real': g_real, 'getattr.ndim': g_ndim, 'getattr.eps': g_eps, 'getattr.dtype': g_dtype_z,
    '.reshape': m_reshape, 'warnings.warn': warn, '.conj': lambda ex, st, node, args, kw: args[0],
    '.copy': lambda ex, st, node, args, kw: args[0],
}


# ---- loops: havoc + optional invariant -------------------------------------------------------------

def _assigned(stmts):
    names = set(); stored = set()
    for s in stmts:
        for n in ast.walk(s):
            if isinstance(n, ast.Name) and isinstance(n.ctx, ast.Store):
                names.add(n.id)
            if isinstance(n, (ast.Subscript, ast.Attribute)) and isinstance(n.ctx, ast.Store):
                r = n
                while isinstance(r, (ast.Subscript, ast.Attribute)):
                    r = r.value
                if isinstance(r, ast.Name):
                    stored.add(r.id)
    return names, stored


def make_loop_handler(invariants=None):
    """invariants: {loop signature: function(env) -> z3 formula}; loops without one are havoc-only"""
    invariants = invariants or {}
    def handler(ex, n, st):
        from . import loader
        sig = loader.loop_signature(n)
        inv = invariants.get(sig)
        names, stored = _assigned(n.body)
        if isinstance(n, ast.For):
            it = ex.ev(n.iter, st)
            if isinstance(it, SymRange):
                lo, hi = zint(it.lo), zint(it.hi)
                var = n.target.id if isinstance(n.target, ast.Name) else None
                if var is None:
                    raise Unsupported('loop target')
                elem = None
            elif (getattr(it, 'is_zarr', False) or getattr(it, 'is_iarr', False)) and it.ndim == 1 and isinstance(n.target, ast.Name):
                lo, hi = z3.IntVal(0), zint(it.shape[0]); var = '#k'; elem = it
            else:
                raise Unsupported(f'loop iterable at line {n.lineno}')
        else:
            raise Unsupported('while loop (engine Z)')
        # entry: invariant must hold initially (iteration index = lo)
        k0 = lo if not it_rev(it) else hi - 1
        if inv is not None:
            e0 = dict(st.env); e0['#iter'] = z3.IntVal(0); e0['#count'] = hi - lo
            f = inv(e0, ex, st)
            oblige(ex, st, n, 'invariant', f'{sig}: invariant holds on entry', f)
        def run_body(havoc):
            keep_shape = []
            head = st.fork(); head.approx = True
            cnt = fresh_int('iter')           # number of completed iterations
            for nm in havoc:
                cur = head.env.get(nm, None)
                if nm == (n.target.id if isinstance(n.target, ast.Name) else None):
                    continue
                if cur is None:
                    head.env[nm] = Unbound(nm)
                elif hasattr(cur, 'havoc') and getattr(cur, 'is_zarr', False):
                    head.env[nm] = cur.havoc()                   # a rebound array with contents: arbitrary contents of the same class
                    keep_shape.append((nm, cur.shape))           # (the shape is a candidate invariant, checked below)
                elif getattr(cur, 'is_zarr', False):
                    head.env[nm] = ZArr(cur.shape, cur.kind)     # candidate invariant: the shape is preserved (checked below)
                    keep_shape.append((nm, cur.shape))
                elif getattr(cur, 'is_zscal', False):
                    head.env[nm] = ZScal()
                elif is_z(cur) or (isinstance(cur, int) and not isinstance(cur, bool)):
                    head.env[nm] = fresh_int(nm)
                else:
                    head.env[nm] = cur
            for nm in stored:
                cur = head.env.get(nm, None)
                if hasattr(cur, 'havoc'):
                    head.env[nm] = cur.havoc()         # contents are arbitrary at the loop head; the invariant constrains them
            head.pc.append(z3.And(cnt >= 0, cnt < hi - lo))
            idx = lo + cnt if not it_rev(it) else hi - 1 - cnt
            if elem is not None:
                head.env[n.target.id] = ElemOf(elem, idx)
                head.env['#k'] = idx
            else:
                head.env[var] = idx
            head.env['#iter'] = cnt; head.env['#count'] = hi - lo
            if inv is not None:
                head.pc.append(inv(head.env, ex, head))
            snapshot = dict(head.env)
            body_states = ex.block(n.body, [head])
            modified = set()
            for s2 in body_states:
                if not s2.done:
                    for nm in names:
                        if s2.env.get(nm, None) is not snapshot.get(nm, None):
                            modified.add(nm)
            return body_states, keep_shape, cnt, modified

        nob = len(ex.obligations)
        body_states, keep_shape, cnt, modified = run_body(names)
        tvar = n.target.id if isinstance(n.target, ast.Name) else None
        reduced = {nm for nm in names if nm in modified or nm == tvar}
        if reduced != set(names):
            # names assigned only on paths that leave the loop need no havoc; re-run and check the smaller set is inductive
            del ex.obligations[nob:]
            body_states, keep_shape, cnt, modified2 = run_body(reduced)
            if not modified2 <= reduced:
                del ex.obligations[nob:]
                body_states, keep_shape, cnt, modified2 = run_body(names)
                reduced = set(names)
        out = []
        for s in body_states:
            if not s.done:
                for nm, shp in keep_shape:
                    v = s.env.get(nm)
                    ok = getattr(v, 'is_zarr', False) and len(v.shape) == len(shp) and \
                        (shape_eq(v.shape, shp) is True or ex.solver.implied([p for p in s.pc if is_z(p)], shape_eq(v.shape, shp), final=True) is True)
                    if not ok:
                        raise Unsupported(f'loop at line {n.lineno}: array variable {nm} changes shape across iterations')
            if getattr(s, 'ctrl', None) == 'break':
                s.ctrl = None
                out.append(s)            # leaves the loop with the state reached at the break
                continue
            if getattr(s, 'ctrl', None) == 'continue':
                s.ctrl = None
            if s.done:
                out.append(s)            # return / raise inside the loop
            elif inv is not None:
                e1 = dict(s.env); e1['#iter'] = cnt + 1
                f1 = inv(e1, ex, s)
                parts = _conjuncts(f1)
                if len(parts) <= 3:
                    oblige(ex, s, n, 'invariant', f'{sig}: invariant preserved', f1)
                else:
                    # a long conjunction is proved conjunct by conjunct (smaller queries); each proved conjunct is then available
                    for pi, part in enumerate(parts):
                        oblige(ex, s, n, 'invariant', f'{sig}: invariant preserved [conjunct {pi + 1}/{len(parts)}]', part)
        names = reduced
        # after the loop: havoc state with invariant at count iterations
        after = st.fork(); after.approx = True
        for nm in names:
            cur = after.env.get(nm, None)
            if cur is None:
                after.env[nm] = MaybeUnbound(nm)
            elif hasattr(cur, 'havoc') and getattr(cur, 'is_zarr', False):
                after.env[nm] = cur.havoc()
            elif getattr(cur, 'is_zarr', False):
                after.env[nm] = ZArr(cur.shape, cur.kind)
            elif getattr(cur, 'is_zscal', False):
                after.env[nm] = ZScal()
            elif is_z(cur) or isinstance(cur, int):
                after.env[nm] = fresh_int(nm)
        for nm in stored:
            cur = after.env.get(nm, None)
            if hasattr(cur, 'havoc'):
                after.env[nm] = cur.havoc()
        if isinstance(n.target, ast.Name) and elem is None:
            after.env[n.target.id] = fresh_int(n.target.id)
        if inv is not None:
            e2 = dict(after.env); e2['#iter'] = z3.If(hi - lo > 0, hi - lo, 0); e2['#count'] = hi - lo
            after.pc.append(inv(e2, ex, after))
        out.append(after)
        return out
    return handler


def _conjuncts(f):
    if is_z(f) and z3.is_and(f):
        out = []
        for ch in f.children():
            out += _conjuncts(ch)
        return out
    return [f]


def it_rev(it):
    return isinstance(it, SymRange) and it.rev


class Unbound:
    is_unbound = True
    def __init__(self, name): self.name = name

class MaybeUnbound(Unbound):
    pass

def HavocArr(cur):
    """an array that is only item-assigned in the loop keeps its shape; a rebound array variable is a temporary"""
    return ZArr(cur.shape, cur.kind)

class ElemOf:
    """element idx of a 1-D integer array (loop variable of `for x in arr`)"""
    def __init__(self, arr, idx):
        self.arr = arr; self.idx = idx
