"""Numeric interpreter for contract clauses (the same clause text the prover reads symbolically)."""
import numpy as np
from . import oracle

TOL = 1e-9

class N:
    """numeric value with contract-clause semantics: == is 'equal up to rounding'"""
    def __init__(self, v):
        self.v = np.asarray(v)
    def __eq__(self, o):
        o = o.v if isinstance(o, N) else np.asarray(o)
        return oracle.close(self.v, o, tol=TOL)
    __hash__ = object.__hash__
    def __neg__(self):
        return N(-self.v)
    def __getitem__(self, k):
        return N(self.v[k])
    @property
    def dim(self):
        return len(self.v)
    @property
    def shape(self):
        return self.v.shape

def unwrap(x):
    if isinstance(x, N):
        return x.v
    if isinstance(x, (tuple, list)):
        return [unwrap(y) for y in x]
    return x

def wrap(x):
    if isinstance(x, np.ndarray):
        return N(x)
    if isinstance(x, (tuple, list)):
        return tuple(wrap(y) for y in x)
    return x

def namespace(args, res, dimvals):
    def einsum(spec, *ts):
        ins, out = spec.replace(' ', '').split('->')
        ops = []; parts = []
        for p, t in zip(ins.split(','), ts):
            a = unwrap(t)
            if p.endswith('*'):
                a = np.conj(a); p = p[:-1]
            ops.append(a); parts.append(p)
        return N(np.einsum(','.join(parts) + '->' + out, *ops))
    def identity(d):
        return N(np.identity(int(d)))
    def shape(t):
        return tuple(unwrap(t).shape)
    def dim(*names):
        out = 1
        for n in names:
            out *= dimvals[n]
        return out
    def reshape(t, *dims):
        return N(unwrap(t).reshape([int(d) for d in dims]))
    def scale(t, c):
        return N(unwrap(t) * float(c))
    def add(a, b):
        return N(unwrap(a) + unwrap(b))
    def mul(a, s):
        return N(unwrap(a) * unwrap(s))
    def conj(t):
        return N(np.conj(unwrap(t)))
    def zeros_like(t):
        return N(np.zeros_like(unwrap(t)))
    def qsparse(t, qs):
        return oracle.qsparse(unwrap(t), [np.asarray(unwrap(q)) for q in qs])
    ns = dict(einsum=einsum, identity=identity, shape=shape, dim=dim, reshape=reshape, scale=scale, add=add, mul=mul,
              conj=conj, zeros_like=zeros_like, qsparse=qsparse)
    for k, v in args.items():
        ns[k] = wrap(v)
    ns['res'] = wrap(res)
    return ns
