"""Helpers shared by the C11 / C12 bounded stand-ins: small-scope enumeration of charge vectors,
block-sparse matrices with prescribed entries / prescribed block spectra.  Independent of pytenet."""
import numpy as np

QVALS = (-1, 0, 1)


def decode_charges(k, m, n):
    """k in [0, 3^(m+n)) -> (q0, q1) over {-1,0,1}^m x {-1,0,1}^n (base-3 digits)"""
    digs = []
    for _ in range(m + n):
        digs.append(QVALS[k % 3])
        k //= 3
    return np.array(digs[:m], dtype=np.int64), np.array(digs[m:], dtype=np.int64)


def relabel(q):
    """affine relabelling to large and negative charges; preserves the equality pattern"""
    return 100003 * np.asarray(q, dtype=np.int64) - 7


def mask(q0, q1):
    return np.equal.outer(np.asarray(q0), np.asarray(q1))


def rand_entries(rng, shape, entries):
    if entries == 'real':
        return rng.standard_normal(shape)
    if entries == 'complex':
        return rng.standard_normal(shape) + 1j * rng.standard_normal(shape)
    if entries == 'int':
        return rng.integers(-3, 4, shape)
    raise ValueError(entries)


def blocks(q0, q1):
    """list of (charge, row indices, col indices) for charges present on both sides"""
    out = []
    for c in np.intersect1d(q0, q1):
        out.append((int(c), np.where(q0 == c)[0], np.where(q1 == c)[0]))
    return out


def masked_matrix(rng, q0, q1, entries):
    """A[i,j] != 0 only if q0[i]==q1[j]; entries in {'real','complex','int','rankdef','rankdef_real'}"""
    m, n = len(q0), len(q1)
    if entries in ('real', 'complex', 'int'):
        A = rand_entries(rng, (m, n), entries)
        return np.where(mask(q0, q1), A, 0)
    # rank-deficient blocks built on purpose (rank r < min(block shape), including zero blocks)
    cplx = entries == 'rankdef'
    A = np.zeros((m, n), dtype=complex if cplx else float)
    for (_, I, J) in blocks(q0, q1):
        r = int(rng.integers(0, min(len(I), len(J)) + 1))
        if r == min(len(I), len(J)) and r > 0:
            r -= 1
        if r == 0:
            continue
        kind = 'complex' if cplx else 'real'
        B = rand_entries(rng, (len(I), r), kind) @ rand_entries(rng, (r, len(J)), kind)
        if rng.integers(2):        # exact duplicate rows/columns instead of a generic low-rank product
            B = np.repeat(rand_entries(rng, (1, len(J)), kind), len(I), axis=0)
        A[np.ix_(I, J)] = B
    return A


def rand_unitary(rng, k, cplx=True):
    Z = rng.standard_normal((k, k)) + (1j * rng.standard_normal((k, k)) if cplx else 0)
    Q, R = np.linalg.qr(Z)
    d = np.diagonal(R)
    return Q * (d / np.abs(d))


def matrix_from_block_spectra(rng, q0, q1, spectra, cplx=True):
    """spectra: dict charge -> list of min(|I|,|J|) singular values (>=0).  Returns A with exactly these
    block singular values (up to rounding)."""
    m, n = len(q0), len(q1)
    A = np.zeros((m, n), dtype=complex if cplx else float)
    for (c, I, J) in blocks(q0, q1):
        s = np.asarray(spectra[c], dtype=float)
        k = min(len(I), len(J))
        assert len(s) == k
        U = rand_unitary(rng, len(I), cplx)[:, :k]
        V = rand_unitary(rng, len(J), cplx)[:, :k]
        A[np.ix_(I, J)] = (U * s) @ V.conj().T
    return A


def block_singular_values(A, q0, q1):
    """independent reference: all singular values of A, computed block by block (A is block sparse)"""
    out = []
    for (_, I, J) in blocks(q0, q1):
        out.extend(np.linalg.svd(A[np.ix_(I, J)], compute_uv=False).tolist())
    return np.array(sorted(out, reverse=True), dtype=float)


def rand_charges(rng, m, n, style):
    """charge vectors for the seeded random shapes"""
    if style == 'random':
        q0 = rng.integers(-2, 3, m); q1 = rng.integers(-2, 3, n)
    elif style == 'sorted':
        q0 = np.sort(rng.integers(-2, 3, m)); q1 = np.sort(rng.integers(-2, 3, n))
    elif style == 'sorted0':
        q0 = np.sort(rng.integers(-2, 3, m)); q1 = rng.integers(-2, 3, n)
    elif style == 'sorted1':
        q0 = rng.integers(-2, 3, m); q1 = np.sort(rng.integers(-2, 3, n))
    elif style == 'reverse':
        q0 = np.sort(rng.integers(-2, 3, m))[::-1].copy(); q1 = np.sort(rng.integers(-2, 3, n))[::-1].copy()
    elif style == 'constant':
        c = int(rng.integers(-2, 3)); q0 = np.full(m, c); q1 = np.full(n, c)
    elif style == 'disjoint':
        q0 = rng.integers(-2, 1, m); q1 = rng.integers(1, 4, n)
    elif style == 'large':
        q0 = relabel(rng.integers(-2, 3, m)) * 1000; q1 = relabel(rng.integers(-2, 3, n)) * 1000
    elif style == 'partial':      # some charges on one side only (empty blocks)
        q0 = rng.integers(-3, 2, m); q1 = rng.integers(-1, 4, n)
    else:
        raise ValueError(style)
    return np.asarray(q0, dtype=np.int64), np.asarray(q1, dtype=np.int64)


QSTYLES = ('random', 'sorted', 'sorted0', 'sorted1', 'reverse', 'constant', 'disjoint', 'large', 'partial')


def chunks(total, size):
    lo = 0
    while lo < total:
        yield lo, min(total, lo + size)
        lo += size
