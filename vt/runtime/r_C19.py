"""C19 bounded stand-in: operands are never modified and results share no mutable state with them
(byte-level snapshots before / after every monitored call and after mutating the result)."""
import json
import numpy as np
import pytenet as ptn
from pytenet import operation as pop
from . import oracle
from . import h_C02 as H

RULE = ('enumerated (operation, variant, L, charge style, follow-up mutation) x seeded random sector-consistent operands with '
        'non-zero boundary charges; snapshot all operands, call, compare, then mutate the result (in-place edits of every array '
        'field / zero_qnumbers / orthonormalize / compress, graphs: every container scrambled) and compare again; for the in-place '
        'algorithms the Hamiltonian / the other graph is compared bit-for-bit; a case is non-trivial if the monitored call returned; '
        'distinct = distinct descriptor')
BOUNDS = {'quick': 'L<=4, d<=3 (encoded pairs d<=4), D<=4', 'thorough': 'L<=5, d<=3 (encoded pairs d<=4), D<=5'}
EXHAUSTIVE = {'quick': False, 'thorough': False}

MUTS = ('inplace', 'zero_q', 'orth_left', 'orth_right', 'compress_left', 'compress_right')

# kind -> (variants, uses follow-up mutations of an MPS/MPO result)
KINDS = {
    'add_mps': (('+', '-', 'alpha'), True),
    'add_mpo': (('+', '-', 'alpha'), True),
    'multiply_mpo': (('@',), True),
    'apply_operator': (('apply',), True),
    'ctor_mps': (('random', 'scalar'), True),
    'ctor_mpo': (('random', 'scalar'), True),
    'identity': (('identity',), True),
    'from_opgraph': (('layered', 'nid_map'), True),
    'from_vector': (('complex', 'real', 'tol'), True),
    'hamiltonian': (('molecular', 'molecular_explicit', 'spin_molecular', 'linear_fermionic_c', 'linear_fermionic_a'), True),
    'chain': (('apply(op, a+b)', '(A@B)+C'), True),
    'scalar': (('vdot', 'norm', 'operator_average', 'operator_inner_product', 'operator_density_average'), False),
    'dense': (('as_vector', 'as_matrix', 'as_matrix_sparse'), False),
    'decomp': (('qr', 'qr_views', 'qr_dummy', 'split_matrix_svd', 'split_matrix_svd_tol', 'retained_bond_indices'), False),
    'local': (('split_mps_tensor', 'merge_mps_tensor_pair', 'merge_mpo_tensor_pair', 'right_blocks', 'local_hamiltonian', 'bond_contraction',
               'step_left'), False),
    'graph': (('from_opchains', 'from_optrees', 'from_automaton'), False),
    'graph_add': (('layered', 'chains'), False),
    'evolve': (('tdvp1', 'tdvp2', 'dmrg1', 'dmrg2'), False),
}
QSTYLES = ('u1', 'spin', 'boson', 'pair', 'large')
EVOLVE_FN = {'tdvp1': 'integrate_local_singlesite', 'tdvp2': 'integrate_local_twosite',
             'dmrg1': 'calculate_ground_state_local_singlesite', 'dmrg2': 'calculate_ground_state_local_twosite'}


def cases(tier, seed):
    rng = np.random.default_rng(seed)
    quick = tier == 'quick'
    Ls = (1, 2, 3, 4) if quick else (1, 2, 3, 4, 5)
    reps = 1 if quick else 3
    for kind, (variants, mutating) in KINDS.items():
        for var in variants:
            for L in Ls:
                for qs in QSTYLES:
                    muts = MUTS if mutating else ('none',)
                    for mut in muts:
                        if quick and mutating and qs in ('boson', 'large') and mut not in ('inplace', 'zero_q'):
                            continue
                        if kind in ('hamiltonian', 'from_vector', 'graph', 'graph_add') and qs not in ('u1', 'spin'):
                            continue      # charges are fixed by the constructor; qs only multiplies the seeds
                        for r in range(reps * (2 if not mutating else 1)):
                            yield dict(kind=kind, var=var, L=L, d=int(rng.integers(2, 4)), qstyle=qs, mut=mut, Dmax=4 if quick else 5,
                                       entries=('complex', 'real')[int(rng.integers(2))], seed=int(rng.integers(1 << 31)))


# ----------------------------------------------------------------------------------------------------------------

def _snap(o):
    if isinstance(o, ptn.OpGraph):
        return H.dump_graph(o)
    if isinstance(o, ptn.AutOp):
        return H.dump_autop(o)
    if isinstance(o, ptn.OpChain):
        return H.dump_chain(o)
    if isinstance(o, ptn.OpTree):
        return H.dump_tree(o)
    if isinstance(o, (list, tuple)) and o and isinstance(o[0], (ptn.OpChain, ptn.OpTree)):
        return tuple(_snap(x) for x in o)
    return oracle.snapshot(o)


def _mutate(x, mut, rng):
    """follow-up mutations of a returned MPS/MPO; exceptions of the follow-up calls belong to other properties"""
    try:
        if mut == 'zero_q':
            x.zero_qnumbers()
        elif mut in ('orth_left', 'orth_right'):
            x.orthonormalize(mode=mut[5:])
        elif mut in ('compress_left', 'compress_right'):
            if hasattr(x, 'compress'):
                x.compress((0.0, 1e-8, 0.1)[int(rng.integers(3))], mode=mut[9:])
            else:
                x.orthonormalize(mode=mut[9:])
                x.zero_qnumbers()
    except Exception:      # noqa: BLE001 - not a C19 clause (e.g. the list-kind charges of from_vector, C02)
        pass
    # in-place edits of every array field
    for i in range(len(x.A)):
        if isinstance(x.A[i], np.ndarray):
            try:
                x.A[i][...] = 0 if i % 2 else 3
            except ValueError:      # read-only result array: nothing can leak through it
                pass
    for i in range(len(x.qD)):
        q = x.qD[i]
        if isinstance(q, np.ndarray):
            q[...] = 7
        elif isinstance(q, list):
            for j in range(len(q)):
                q[j] = 7
    if isinstance(x.qd, np.ndarray):
        x.qd[...] = 5
    elif isinstance(x.qd, list):
        for j in range(len(x.qd)):
            x.qd[j] = 5


class _Case:
    def __init__(self, c):
        self.c = c
        self.rng = np.random.default_rng(c['seed'])
        self.fails = []
        self.L = c['L']
        self.qd = H.make_qd(self.rng, 4 if c['qstyle'] == 'pair' and self.rng.random() < 0.5 else c['d'], c['qstyle'])
        self.returned = False
        self.note = ''

    def sector(self, mpo=False):
        # non-zero leading charge wherever possible: a dropped copy of a boundary charge list is then visible to zero_qnumbers
        q0 = int(self.rng.integers(1, 3)) * (1 if self.rng.random() < 0.5 else -1)
        return H.pick_sector(self.rng, self.qd, self.L, mpo=mpo, q0=q0)

    def mps(self, q0, q1):
        rng = self.rng
        return H.rand_mps(rng, self.qd, self.L, int(rng.integers(1, self.c['Dmax'] + 1)), q0, q1, self.c['entries'])

    def mpo(self, q0, q1, Dmax=None):
        rng = self.rng
        return H.rand_mpo(rng, self.qd, self.L, int(rng.integers(1, (Dmax or self.c['Dmax']) + 1)), q0, q1, self.c['entries'])

    def compare(self, fn, clause, operands, before, what):
        for lab, o in operands.items():
            if _snap(o) != before[lab]:
                self.fails.append(dict(clause=clause, detail=f'{self.c["kind"]}/{self.c["var"]} L={self.L} qd={self.qd}: operand `{lab}` of {fn} {what}',
                                       signature=f'{fn}:{clause}:{lab}'))

    def monitored(self, fn, operands, call):
        """snapshot, call, compare; returns (returned?, result, snapshots)"""
        before = {lab: _snap(o) for lab, o in operands.items()}
        try:
            res = call()
            ok = True
        except Exception as e:      # noqa: BLE001 - success of the call is the business of other properties; operands still must be intact
            res, ok = None, False
            self.note = f'{fn} raised {type(e).__name__}: {e}'
        self.compare(fn, 'operand_modified', operands, before, 'is not bit-for-bit unchanged after the call')
        self.returned = self.returned or ok
        return ok, res, before

    def follow_up(self, fn, res, operands, before):
        mut = self.c['mut']
        _mutate(res, mut, self.rng)
        self.compare(fn, 'shares_state', operands, before, f'changed when the result was mutated ({mut} + in-place edits): shared mutable state')


def _sparse_rand(rng, qlists, entries):
    shape = tuple(len(q) for q in qlists)
    T = rng.normal(size=shape) + (1j * rng.normal(size=shape) if entries == 'complex' else 0)
    tot = np.zeros((), dtype=np.int64)
    for q in qlists:
        tot = np.add.outer(tot, np.asarray(q, dtype=np.int64))
    return np.where(tot == 0, T, 0)


def _rand_chains(rng, L):
    """translation-invariant chain lists in the style of the lattice constructors (spin-1/2 operator IDs)"""
    # oids: -1 S-, 0 I, 1 S+, 2 Sz ; bond charge after S+ is +2, after S- is -2 (qd = [1, -1])
    local = [([1, -1], [0, 2, 0]), ([-1, 1], [0, -2, 0]), ([2, 2], [0, 0, 0]), ([2], [0, 0]), ([1, 0, -1], [0, 2, 2, 0]), ([2, 0, 2], [0, 0, 0, 0])]
    chains = []
    for oids, qn in local:
        if len(oids) > L or rng.random() < 0.25:
            continue
        co = float(rng.normal())
        for i in range(L - len(oids) + 1):
            chains.append(ptn.OpChain(list(oids), list(qn), co if rng.random() < 0.7 else float(rng.normal()), i))
    if not chains:
        chains = [ptn.OpChain([2], [0, 0], 0.5, i) for i in range(L)]
    return chains


SPIN_OPMAP = {-1: np.array([[0., 0.], [1., 0.]]), 0: np.identity(2), 1: np.array([[0., 1.], [0., 0.]]), 2: np.diag([0.5, -0.5])}


def _rand_tree_node(rng, depth):
    if depth == 0:
        return ptn.OpTreeNode([], 0)
    n = 1 + int(rng.random() < 0.5)
    return ptn.OpTreeNode([ptn.OpTreeEdge(int(rng.choice([0, 2])), float(rng.normal()), _rand_tree_node(rng, depth - 1 if rng.random() < 0.8 else 0))
                           for _ in range(n)], 0)


def _rand_automaton(rng):
    n0, n1, nz, nw = (ptn.AutOpNode(i, [], [], 0) for i in range(4))
    a = ptn.AutOp([n0, n1, nz, nw], [], [0, 1])
    a.add_connect_edge(ptn.AutOpEdge(0, [0, 0], [(0, 1.)]))
    a.add_connect_edge(ptn.AutOpEdge(1, [1, 1], [(0, 1.)]))
    a.add_connect_edge(ptn.AutOpEdge(2, [0, 2], [(2, float(rng.normal()))]))
    a.add_connect_edge(ptn.AutOpEdge(3, [2, 1], [(2, 1.)]))
    a.add_connect_edge(ptn.AutOpEdge(4, [0, 1], [(2, float(rng.normal())), (0, float(rng.normal()))]))
    if rng.random() < 0.6:
        a.add_connect_edge(ptn.AutOpEdge(5, [0, 3], [(2, float(rng.normal()))]))
        a.add_connect_edge(ptn.AutOpEdge(6, [3, 3], [(0, 1.)]))
        a.add_connect_edge(ptn.AutOpEdge(7, [3, 1], [(2, float(rng.normal()))]))
    return a


def run_case(c):
    k = _Case(c)
    rng, L, var, kind = k.rng, k.L, c['var'], c['kind']
    ent = c['entries']

    if kind == 'add_mps' or kind == 'add_mpo':
        mk, fn = (k.mps, 'add_mps') if kind == 'add_mps' else (k.mpo, 'add_mpo')
        sec = k.sector(kind == 'add_mpo')
        a, b = mk(*sec), mk(*sec)
        ops = {'op0': a, 'op1': b}
        alpha = complex(rng.normal(), rng.normal())
        f = {'+': lambda: a + b, '-': lambda: a - b,
             'alpha': (lambda: ptn.mps.add_mps(a, b, alpha)) if kind == 'add_mps' else (lambda: ptn.mpo.add_mpo(a, b, alpha))}[var]
        ok, r, before = k.monitored(fn, ops, f)
        if ok:
            k.follow_up(fn, r, ops, before)
    elif kind == 'multiply_mpo':
        a, b = k.mpo(*k.sector(True)), k.mpo(*k.sector(True))
        ops = {'op0': a, 'op1': b}
        ok, r, before = k.monitored('multiply_mpo', ops, lambda: a @ b)
        if ok:
            k.follow_up('multiply_mpo', r, ops, before)
    elif kind == 'apply_operator':
        a, s = k.mpo(*k.sector(True)), k.mps(*k.sector())
        ops = {'op': a, 'psi': s}
        ok, r, before = k.monitored('apply_operator', ops, lambda: ptn.apply_operator(a, s))
        if ok:
            k.follow_up('apply_operator', r, ops, before)
    elif kind in ('ctor_mps', 'ctor_mpo'):
        mpo = kind == 'ctor_mpo'
        q0, q1 = k.sector(mpo)
        Ds = H.bond_dims(rng, L, c['Dmax'])
        qD = [np.array(q) for q in H.sector_charges(rng, k.qd, Ds, q0, q1, mpo)]
        qd = np.array(k.qd)
        ops = {'qd': qd, 'qD': qD}
        cls = ptn.MPO if mpo else ptn.MPS
        fn = 'MPO' if mpo else 'MPS'
        if var == 'random':
            ok, r, before = k.monitored(fn, ops, lambda: cls(qd, qD, fill='random', rng=np.random.default_rng(5)))
        else:
            ok, r, before = k.monitored(fn, ops, lambda: cls(qd, qD, fill=(0.5, 1, 1j)[int(rng.integers(3))]))
        if ok:
            k.follow_up(fn, r, ops, before)
    elif kind == 'identity':
        qd = np.array(k.qd)
        ops = {'qd': qd}
        ok, r, before = k.monitored('MPO.identity', ops, lambda: ptn.MPO.identity(qd, L, scale=1.5))
        if ok:
            k.follow_up('MPO.identity', r, ops, before)
    elif kind == 'from_opgraph':
        for _ in range(6):
            g, opmap, good = H.rand_layered_graph(rng, k.qd, L, width=3, q0=int(rng.integers(-1, 2)))
            if good:
                break
        if good:
            qd = np.array(k.qd)
            ops = {'qd': qd, 'graph': g, 'opmap': opmap}
            ok, r, before = k.monitored('MPO.from_opgraph', ops, lambda: ptn.MPO.from_opgraph(qd, g, opmap, compute_nid_map=(var == 'nid_map')))
            if ok:
                if var == 'nid_map':
                    r.nid_map.clear()
                k.follow_up('MPO.from_opgraph', r, ops, before)
    elif kind == 'from_vector':
        d = c['d']
        n = d ** L
        v = rng.normal(size=n) + (1j * rng.normal(size=n) if var != 'real' else 0)
        tol = 1e-3 if var == 'tol' else 0
        ops = {'v': v}
        ok, r, before = k.monitored('MPS.from_vector', ops, lambda: ptn.MPS.from_vector(d, L, v, tol))
        if ok:
            k.follow_up('MPS.from_vector', r, ops, before)
    elif kind == 'hamiltonian':
        if var.startswith('linear'):
            coeff = rng.normal(size=L) + (1j * rng.normal(size=L) if ent == 'complex' else 0)
            ops = {'coeff': coeff}
            fn = 'linear_fermionic_mpo'
            ok, r, before = k.monitored(fn, ops, lambda: ptn.linear_fermionic_mpo(coeff, 'c' if var.endswith('_c') else 'a'))
        else:
            Lh = max(L, 2) if var != 'molecular_explicit' else 4 + (L % 2)
            if var == 'spin_molecular':
                Lh = min(Lh, 3)
            t, v = H.sym_tkin_vint(rng, Lh)
            if rng.random() < 0.5:
                # coefficient tensors without any index symmetry (the constructors symmetrize copies themselves)
                t = rng.normal(size=(Lh, Lh)); v = rng.normal(size=(Lh, Lh, Lh, Lh))
            ops = {'tkin': t, 'vint': v}
            if var == 'spin_molecular':
                fn = 'spin_molecular_hamiltonian_mpo'
                ok, r, before = k.monitored(fn, ops, lambda: ptn.spin_molecular_hamiltonian_mpo(t, v))
            else:
                fn = 'molecular_hamiltonian_mpo'
                ok, r, before = k.monitored(fn, ops, lambda: ptn.molecular_hamiltonian_mpo(t, v, optimize=(var == 'molecular')))
        if ok:
            k.follow_up(fn, r, ops, before)
    elif kind == 'chain':
        if var == 'apply(op, a+b)':
            sec = k.sector()
            a, b, w = k.mps(*sec), k.mps(*sec), k.mpo(*k.sector(True), Dmax=3)
            ops = {'a': a, 'b': b, 'op': w}
            ok, r1, before = k.monitored('add_mps', ops, lambda: a + b)
            if ok:
                ops2 = dict(ops, sum=r1)
                ok2, r2, before2 = k.monitored('apply_operator', ops2, lambda: ptn.apply_operator(w, r1))
                if ok2:
                    k.follow_up('apply_operator', r2, ops2, before2)
                k.follow_up('add_mps', r1, ops, before)
        else:
            A, B = k.mpo(*k.sector(True), Dmax=2), k.mpo(*k.sector(True), Dmax=2)
            ops = {'A': A, 'B': B}
            ok, r1, before = k.monitored('multiply_mpo', ops, lambda: A @ B)
            if ok:
                c0, c1 = int(r1.qD[0][0]), int(r1.qD[-1][0])
                if H.reach_sets(H.shifts_of(k.qd, True), L, c0, c1)[1][0]:
                    C = k.mpo(c0, c1, Dmax=3)
                else:       # the product sector cannot be reached by a single MPO: any summand with these boundary charges will do
                    C = ptn.MPO(k.qd, [[c0]] + [[int(x) for x in rng.integers(-1, 2, 2)] for _ in range(L - 1)] + [[c1]], fill='random', rng=rng)
                ops2 = dict(ops, prod=r1, C=C)
                ok2, r2, before2 = k.monitored('add_mpo', ops2, lambda: r1 + C)
                if ok2:
                    k.follow_up('add_mpo', r2, ops2, before2)
                k.follow_up('multiply_mpo', r1, ops, before)
    elif kind == 'scalar':
        sec = k.sector()
        psi, chi = k.mps(*sec), k.mps(*sec)
        q = int(rng.integers(-1, 2))
        op, rho = k.mpo(q, q), k.mpo(-q, -q)
        if var == 'vdot':
            k.monitored('vdot', {'chi': chi, 'psi': psi}, lambda: ptn.vdot(chi, psi))
        elif var == 'norm':
            k.monitored('norm', {'psi': psi}, lambda: ptn.norm(psi))
        elif var == 'operator_average':
            k.monitored('operator_average', {'psi': psi, 'op': op}, lambda: ptn.operator_average(psi, op))
        elif var == 'operator_inner_product':
            k.monitored('operator_inner_product', {'chi': chi, 'op': op, 'psi': psi}, lambda: ptn.operator_inner_product(chi, op, psi))
        else:
            k.monitored('operator_density_average', {'rho': rho, 'op': op}, lambda: ptn.operator_density_average(rho, op))
    elif kind == 'dense':
        if var == 'as_vector':
            psi = k.mps(*k.sector())
            k.monitored('MPS.as_vector', {'self': psi}, psi.as_vector)
        else:
            op = k.mpo(*k.sector(True))
            k.monitored('MPO.as_matrix', {'self': op}, lambda: op.as_matrix(sparse_format=(var == 'as_matrix_sparse')))
    elif kind == 'decomp':
        m, n = int(rng.integers(1, 7)), int(rng.integers(1, 7))
        mult = 100003 if c['qstyle'] == 'large' else 1
        q0 = rng.integers(-1, 2, size=m) * mult
        q1 = rng.integers(-1, 2, size=n) * mult
        if var == 'qr_dummy':
            q1 = q1 * 0 + 5 * mult
        A = _sparse_rand(rng, [q0, -q1], ent)
        if var == 'retained_bond_indices':
            s = np.abs(rng.normal(size=m))
            if rng.random() < 0.2:
                s[int(rng.integers(m))] = 0.0
            k.monitored('retained_bond_indices', {'s': s}, lambda: ptn.retained_bond_indices(s, (0.0, 1e-6, 0.2)[int(rng.integers(3))]))
        elif var in ('qr', 'qr_dummy'):
            k.monitored('qr', {'A': A, 'q0': q0, 'q1': q1}, lambda: ptn.qr(A, q0, q1))
        elif var == 'qr_views':
            # operands that are views into larger buffers (a stray write would also show in the buffers)
            bufA = np.zeros((m + 2, n + 2), dtype=A.dtype); bufA[1:-1, 1:-1] = A
            buf0 = np.concatenate(([9], q0, [9])); buf1 = np.concatenate(([9], q1, [9]))
            Av, v0, v1 = bufA[1:-1, 1:-1], buf0[1:-1], buf1[1:-1]
            k.monitored('qr', {'A': bufA, 'q0': buf0, 'q1': buf1}, lambda: ptn.qr(Av, v0, v1))
        else:
            tol = 0.0 if var == 'split_matrix_svd' else 0.1
            k.monitored('split_matrix_svd', {'A': A, 'q0': q0, 'q1': q1}, lambda: ptn.split_matrix_svd(A, q0, q1, tol))
    elif kind == 'local':
        sec = k.sector()
        psi = k.mps(*sec)
        op = k.mpo(0, 0)
        qd = np.asarray(k.qd)
        i = int(rng.integers(L))
        if var == 'split_mps_tensor':
            if L >= 2:
                i = int(rng.integers(L - 1))
                Am = np.einsum('sab,tbc->stac', psi.A[i], psi.A[i + 1]).reshape(len(qd) ** 2, psi.A[i].shape[1], psi.A[i + 1].shape[2])
                qd0, qd1, qb = np.array(k.qd), np.array(k.qd), [psi.qD[i].copy(), psi.qD[i + 2].copy()]
                distr = ('left', 'right', 'sqrt')[int(rng.integers(3))]
                k.monitored('split_mps_tensor', {'A': Am, 'qd0': qd0, 'qd1': qd1, 'qD': qb},
                            lambda: ptn.split_mps_tensor(Am, qd0, qd1, qb, distr, (0, 1e-3)[int(rng.integers(2))]))
        elif var == 'merge_mps_tensor_pair':
            if L >= 2:
                i = int(rng.integers(L - 1))
                k.monitored('merge_mps_tensor_pair', {'A0': psi.A[i], 'A1': psi.A[i + 1]}, lambda: ptn.merge_mps_tensor_pair(psi.A[i], psi.A[i + 1]))
        elif var == 'merge_mpo_tensor_pair':
            if L >= 2:
                i = int(rng.integers(L - 1))
                k.monitored('merge_mpo_tensor_pair', {'A0': op.A[i], 'A1': op.A[i + 1]}, lambda: ptn.merge_mpo_tensor_pair(op.A[i], op.A[i + 1]))
        elif var == 'right_blocks':
            ok, BR, before = k.monitored('compute_right_operator_blocks', {'psi': psi, 'op': op}, lambda: ptn.compute_right_operator_blocks(psi, op))
            if ok:
                for B in BR:
                    B[...] = 9
                k.compare('compute_right_operator_blocks', 'shares_state', {'psi': psi, 'op': op}, before, 'changed when the returned blocks were overwritten')
        else:
            BR = ptn.compute_right_operator_blocks(psi, op)
            BL = [np.array([[[1]]], dtype=complex)]
            for j in range(L - 1):
                BL.append(pop.contraction_operator_step_left(psi.A[j], psi.A[j], op.A[j], BL[j]))
            if var == 'local_hamiltonian':
                X = _sparse_rand(rng, [qd, psi.qD[i], -psi.qD[i + 1]], ent)
                k.monitored('apply_local_hamiltonian', {'L': BL[i], 'R': BR[i], 'W': op.A[i], 'A': X},
                            lambda: ptn.apply_local_hamiltonian(BL[i], BR[i], op.A[i], X))
            elif var == 'bond_contraction':
                if L >= 2:
                    j = int(rng.integers(1, L))
                    C = _sparse_rand(rng, [psi.qD[j], -psi.qD[j]], ent)
                    k.monitored('apply_local_bond_contraction', {'L': BL[j], 'R': BR[j - 1], 'C': C},
                                lambda: ptn.apply_local_bond_contraction(BL[j], BR[j - 1], C))
            else:
                k.monitored('contraction_operator_step_left', {'A': psi.A[i], 'W': op.A[i], 'L': BL[i]},
                            lambda: pop.contraction_operator_step_left(psi.A[i], psi.A[i], op.A[i], BL[i]))
                k.monitored('contraction_operator_step_right', {'A': psi.A[i], 'W': op.A[i], 'R': BR[i]},
                            lambda: pop.contraction_operator_step_right(psi.A[i], psi.A[i], op.A[i], BR[i]))
    elif kind == 'graph':
        Lg = max(L, 2)
        if var == 'from_opchains':
            chains = _rand_chains(rng, Lg)
            ops = {'chains': chains}
            ok, g, before = k.monitored('OpGraph.from_opchains', ops, lambda: ptn.OpGraph.from_opchains(chains, Lg, 0))
        elif var == 'from_optrees':
            trees = []
            for _ in range(int(rng.integers(1, 4))):
                ist = int(rng.integers(0, Lg))
                trees.append(ptn.OpTree(_rand_tree_node(rng, int(rng.integers(1, Lg - ist + 1))), ist))
            ops = {'trees': trees}
            ok, g, before = k.monitored('OpGraph.from_optrees', ops, lambda: ptn.OpGraph.from_optrees(trees, Lg, 0))
        else:
            a = _rand_automaton(rng)
            ops = {'autop': a}
            ok, g, before = k.monitored('OpGraph.from_automaton', ops, lambda: ptn.OpGraph.from_automaton(a, Lg))
        if ok:
            fn = 'OpGraph.' + var
            H.scramble_graph(g)
            k.compare(fn, 'shares_state', ops, before, 'changed when every container of the returned graph was overwritten')
    elif kind == 'graph_add':
        Lg = max(L, 2)
        if var == 'layered':
            qd = [1, -1]
            for _ in range(8):
                g0, _, ok0 = H.rand_layered_graph(rng, qd, Lg, q0=0, q1=0)
                g1, _, ok1 = H.rand_layered_graph(rng, qd, Lg, q0=0, q1=0, nid_offset=int(rng.integers(0, 3)), eid_offset=int(rng.integers(0, 3)))
                if ok0 and ok1:
                    break
            if not (ok0 and ok1):
                return dict(failures=[], nontrivial=False, key=json.dumps(c, sort_keys=True))
        else:
            gs = []
            for _ in range(12):       # set-up only: chain lists on which the (separately reported, C05) coefficient assert does not fire
                try:
                    gs.append(ptn.OpGraph.from_opchains(_rand_chains(rng, Lg), Lg, 0))
                except AssertionError:
                    continue
                if len(gs) == 2:
                    break
            if len(gs) < 2:
                return dict(failures=[], nontrivial=False, key=json.dumps(c, sort_keys=True))
            g0, g1 = gs
        ops = {'other': g1}
        ok, r, before = k.monitored('OpGraph.add', ops, lambda: g0.add(g1))
        if ok:
            H.scramble_graph(g0)
            k.compare('OpGraph.add', 'shares_state', ops, before, 'changed when every container of the updated graph was overwritten')
        # constructors: two graphs built from the same caller-owned lists; an in-place operation on one must not reach the other
        try:
            from pytenet.opgraph import OpGraph, OpGraphNode, OpGraphEdge
            term = [0, 2]; nids01 = [0, 1]; opics = [(1, 1.0)]; e_in = []; e_out = []
            def build():
                # the edge-id tables of node 0 are caller-owned lists shared by both graphs (the node constructor has to copy them)
                g_ = OpGraph([OpGraphNode(0, e_in, e_out, 0), OpGraphNode(1, [], [], 0), OpGraphNode(2, [], [], 0)], [], term)
                g_.add_connect_edge(OpGraphEdge(0, nids01, opics))
                g_.add_connect_edge(OpGraphEdge(1, [1, 2], opics))
                return g_
            ga, gb = build(), build()
            ga.flip()
            ga.rename_node_id(1, 7)
            if term != [0, 2] or nids01 != [0, 1] or opics != [(1, 1.0)] or e_in != [] or e_out != [] or list(gb.nid_terminal) != [0, 2] or sorted(gb.nodes) != [0, 1, 2] \
                    or list(gb.edges[0].nids) != [0, 1] or not gb.is_consistent():
                k.fails.append(dict(clause='shares_state', detail='OpGraph / OpGraphEdge constructors keep the caller\'s lists: flip() / rename_node_id() on one graph changed '
                                    f'the arguments or a second graph built from them (term={term}, nids={nids01}, second graph terminals {list(gb.nid_terminal)})',
                                    signature='OpGraph.__init__:shares_state'))
        except Exception as e:      # noqa: BLE001
            k.fails.append(dict(clause='shares_state', detail=f'two graphs built from the same argument lists: {type(e).__name__}: {e}', signature='OpGraph.__init__:shares_state'))
        # automaton nodes built from caller-owned edge-id lists: connecting an edge in one automaton must not reach the lists or a second automaton
        try:
            from pytenet.autop import AutOp, AutOpNode, AutOpEdge
            a_in = []; a_out = []
            def build_aut():
                au = AutOp([AutOpNode(0, a_in, a_out, 0), AutOpNode(1, [], [], 0)], [], [0, 1])
                return au
            au1, au2 = build_aut(), build_aut()
            au1.add_connect_edge(AutOpEdge(0, [0, 1], [(1, 1.0)]))
            if a_in != [] or a_out != [] or list(au2.nodes[0].eids[0]) != [] or list(au2.nodes[0].eids[1]) != []:
                k.fails.append(dict(clause='shares_state', detail='AutOpNode.__init__ keeps the caller\'s edge-id lists: add_connect_edge on one automaton changed '
                                    f'the argument lists ({a_in}, {a_out}) or a second automaton built from them', signature='AutOpNode.__init__:shares_state'))
        except Exception as e:      # noqa: BLE001
            k.fails.append(dict(clause='shares_state', detail=f'two automata built from the same argument lists: {type(e).__name__}: {e}', signature='AutOpNode.__init__:shares_state'))
        # edges as accumulators: an edge without operators takes up two others one after the other; the added edges stay as they were
        try:
            from pytenet.opgraph import OpGraphEdge
            e1 = OpGraphEdge(5, [3, 4], [(2, 0.5), (1, -1.0)]); e2 = OpGraphEdge(6, [3, 4], [(1, 0.25), (3, 2.0)])
            snap1, snap2 = list(e1.opics), list(e2.opics)
            acc = OpGraphEdge(7, [3, 4], [])
            acc.add(e1); acc.add(e2)
            if list(e1.opics) != snap1 or list(e2.opics) != snap2 or list(acc.opics) != [(1, -0.75), (2, 0.5), (3, 2.0)]:
                k.fails.append(dict(clause='shares_state', detail=f'OpGraphEdge.add on an empty accumulator edge: first added edge {snap1} -> {list(e1.opics)}, second {snap2} -> {list(e2.opics)}, '
                                    f'accumulator {list(acc.opics)}', signature='OpGraphEdge.add:shares_state'))
        except Exception as e:      # noqa: BLE001
            k.fails.append(dict(clause='shares_state', detail=f'OpGraphEdge.add on an empty accumulator edge: {type(e).__name__}: {e}', signature='OpGraphEdge.add:shares_state'))
    elif kind == 'evolve':
        models = ('ising', 'xxz', 'spin1', 'bose', 'fermion', 'hubbard', 'herm')
        model = models[int(rng.integers(len(models)))]
        Lh = max(L, 2)
        if model == 'hubbard':
            Lh = min(Lh, 3)
        if model == 'herm':
            qd = k.qd
            Hm = H.hermitian_mpo(rng, qd, Lh, 2, ent)
        else:
            qd = H.MODELS[model]['qd']
            Hm = H.model_hamiltonian(rng, model, Lh)[1]
        k.qd = list(qd)
        k.L = Lh
        psi = k.mps(*H.pick_sector(rng, qd, Lh, q0=0))
        ops = {'H': Hm}
        if var == 'tdvp1':
            ok, r, before = k.monitored('integrate_local_singlesite', ops, lambda: ptn.integrate_local_singlesite(Hm, psi, (0.1, 0.1j)[int(rng.integers(2))], 1, numiter_lanczos=5))
        elif var == 'tdvp2':
            ok, r, before = k.monitored('integrate_local_twosite', ops, lambda: ptn.integrate_local_twosite(Hm, psi, (0.1, 0.1j)[int(rng.integers(2))], 1, numiter_lanczos=5, tol_split=1e-8))
        elif var == 'dmrg1':
            ok, r, before = k.monitored('calculate_ground_state_local_singlesite', ops, lambda: ptn.calculate_ground_state_local_singlesite(Hm, psi, 2, numiter_lanczos=5))
        else:
            ok, r, before = k.monitored('calculate_ground_state_local_twosite', ops, lambda: ptn.calculate_ground_state_local_twosite(Hm, psi, 2, numiter_lanczos=5, tol_split=1e-8))
        if ok:
            # the evolved state shares nothing with the Hamiltonian either
            _mutate(psi, 'inplace', rng)
            k.compare(EVOLVE_FN[var], 'shares_state', ops, before, 'changed when the evolved state was overwritten in place')
    else:
        raise ValueError(kind)
    return dict(failures=k.fails, nontrivial=bool(k.returned), key=json.dumps(c, sort_keys=True), note=k.note)
