"""Shared helpers of the bounded stand-ins for C08, C09, C10 (TDVP time evolution, DMRG).

Generators: Hermitian MPOs (built-in models with their charges, random Hermitian MPOs with and without
quantum numbers, assembled by hand as X + X^dagger), block-sparse states with a prescribed bond profile and
charge sector that are generically non-zero, complete-manifold bond profiles per charge sector.
Oracles: dense linear algebra only (oracle.mpo_dense / oracle.mps_dense, numpy, scipy)."""
import os
for _v in ('OMP_NUM_THREADS', 'OPENBLAS_NUM_THREADS', 'MKL_NUM_THREADS'):
    # tiny tensors: BLAS threads only oversubscribe the 14-process pool (no effect if numpy is already loaded)
    os.environ.setdefault(_v, '1')
import numpy as np
import pytenet as ptn
from . import oracle

# name -> (physical dimension choices, has charges)
MODELS = {
    'ising':          ((2,), False),
    'heisenberg_xxz': ((2,), True),
    'heisenberg_s1':  ((3,), True),
    'bose_hubbard':   ((2, 3), True),
    'fermi_hubbard':  ((4,), True),
    'rand0':          ((2, 3), False),
    'randq':          ((2, 3), True),
    'randqz':         ((2, 3), True),
    'prodh':          ((2, 3), False),
    'rand0s':         ((2, 3), False),
    'randqs':         ((2, 3), True),
}

RANDQ_QD = {2: ([0, 1], [1, -1], [0, 2]), 3: ([0, 1, 2], [-1, 0, 1], [0, 0, 1], [1, 0, 0])}


def _nz(rng, lo=0.2, hi=1.5):
    """parameter bounded away from zero (coefficient 0 hits finding F1 of C05/C06, not our subject)"""
    return float(rng.uniform(lo, hi) * rng.choice([-1, 1]))


def adjoint_mpo_tensors(X):
    """site-wise adjoint of an MPO: tensors conj-transposed in the physical legs, bond charges negated"""
    A = [np.conj(a.transpose((1, 0, 2, 3))) for a in X.A]
    qD = [-np.asarray(q) for q in X.qD]
    return A, qD


def hermitian_sum(X):
    """H = X + X^dagger assembled by hand (direct sum of the virtual bonds); requires boundary charges 0"""
    L = len(X.A)
    Ad, qDd = adjoint_mpo_tensors(X)
    d = len(X.qd)
    assert len(X.qD[0]) == 1 and len(X.qD[-1]) == 1 and X.qD[0][0] == 0 and X.qD[-1][0] == 0
    qD = [[0]] + [list(X.qD[i]) + list(qDd[i]) for i in range(1, L)] + [[0]]
    H = ptn.MPO(list(X.qd), qD, fill=0.0)
    for i in range(L):
        a, b = X.A[i], Ad[i]
        if L == 1:
            T = a + b
        elif i == 0:
            T = np.concatenate((a, b), axis=3)
        elif i == L - 1:
            T = np.concatenate((a, b), axis=2)
        else:
            T = np.zeros((d, d, a.shape[2] + b.shape[2], a.shape[3] + b.shape[3]), dtype=complex)
            T[:, :, :a.shape[2], :a.shape[3]] = a
            T[:, :, a.shape[2]:, a.shape[3]:] = b
        H.A[i] = np.array(T, dtype=complex)
    return H


def build_hamiltonian(name, L, d, rng):
    """Hermitian MPO of the named family with seeded parameters"""
    if name == 'ising':
        return ptn.ising_mpo(L, _nz(rng), _nz(rng), _nz(rng))
    if name == 'heisenberg_xxz':
        return ptn.heisenberg_xxz_mpo(L, _nz(rng), _nz(rng), _nz(rng))
    if name == 'heisenberg_s1':
        return ptn.heisenberg_xxz_spin1_mpo(L, _nz(rng, 0.2, 1.0), _nz(rng, 0.2, 1.0), _nz(rng, 0.2, 1.0))
    if name == 'bose_hubbard':
        return ptn.bose_hubbard_mpo(d, L, _nz(rng), _nz(rng), _nz(rng))
    if name == 'fermi_hubbard':
        return ptn.fermi_hubbard_mpo(L, _nz(rng), _nz(rng), _nz(rng))
    if name == 'prodh':
        # product operator: every bond of the MPO has dimension one, every site carries its own complex Hermitian matrix
        H = ptn.MPO([0] * d, [[0]] * (L + 1), fill=0.0)
        for i in range(L):
            X = rng.standard_normal((d, d)) + 1j * rng.standard_normal((d, d))
            H.A[i] = ((X + X.conj().T) / 2).reshape(d, d, 1, 1) * float(rng.uniform(0.7, 1.6))
        return H
    if name in ('rand0', 'randq', 'rand0s', 'randqs', 'randqz'):
        # random Hermitian MPO X + X^dagger; spectral norm rescaled to the range of the built-in models
        # ('...s' = stiff variant: ||H|| of a few hundred, see the note on Lanczos orthogonality in r_C08)
        stiff = name.endswith('s')
        if name.startswith('rand0'):
            qd = [0] * d
        else:
            opts = RANDQ_QD[d]
            qd = list(opts[int(rng.integers(len(opts)))])
        diffs = sorted({a - b for a in qd for b in qd})
        qD = [[0]]
        for i in range(1, L):
            D = int(rng.integers(1, 4))
            # keep the charge 0 on every bond so that X has a non-vanishing charge-conserving part
            q = [0] + [int(rng.choice(diffs)) if name != 'randqz' else 0 for _ in range(D - 1)]
            qD.append(q)
        qD.append([0])
        X = ptn.MPO(qd, qD, fill='random', rng=rng)
        H = hermitian_sum(X)
        target = float(rng.choice([150.0, 400.0])) if stiff else float(rng.choice([1.0, 3.0, 8.0]))
        nH = float(np.linalg.norm(oracle.mpo_dense(H.A), 2))
        if nH > 0:
            H.A[0] = H.A[0] * (target / nH)
        if name == 'randqz':
            # all bond charges are zero: the operator conserves the charge without any label of its own.  It forgets its physical
            # labels (every entry of an unlabelled MPO is admissible); states keep the labels under `state_qd`
            H.state_qd = [int(x) for x in H.qd]
            H.zero_qnumbers()
        return H
    raise ValueError(name)


def model_available(name, L):
    # F1 (C05/C06): heisenberg-type chains with a single site abort in OpGraph.from_opchains
    return not (L == 1 and name in ('heisenberg_xxz', 'heisenberg_s1'))


def dense_hamiltonian(H):
    """dense matrix, spectral norm; asserts (harness invariant) that the generated operator is Hermitian"""
    Hd = oracle.mpo_dense(H.A)
    nH = float(np.linalg.norm(Hd, 2)) if Hd.size else 0.0
    assert np.linalg.norm(Hd - Hd.conj().T) <= 1e-12 * max(1.0, nH), 'generator produced a non-Hermitian MPO'
    return Hd, nH


# ---------------------------------------------------------------- charge bookkeeping

def count_tables(qd, L):
    """n[i][q] = number of strings of i physical indices with total charge q"""
    n = [{0: 1}]
    for i in range(L):
        cur = {}
        for q, m in n[-1].items():
            for s in qd:
                cur[q + int(s)] = cur.get(q + int(s), 0) + m
        n.append(cur)
    return n


def sectors(qd, L):
    return sorted(count_tables(qd, L)[L].keys())


def state_charges(rng, qd, L, Ds, qL):
    """bond charges for bond dimensions Ds in the sector qL; each bond charge lies on a path from the left
    boundary (charge 0) to the right boundary (charge qL), so a random block-sparse state is generically non-zero"""
    n = count_tables(qd, L)
    assert qL in n[L]
    out = [[0]]
    for i in range(1, L + 1):
        allowed = {q for q in n[i] if (qL - q) in n[L - i]}
        cand = sorted({p + int(s) for p in out[-1] for s in qd} & allowed)
        assert cand
        out.append([int(cand[int(rng.integers(len(cand)))]) for _ in range(Ds[i])])
    assert out[-1] == [qL]
    return out


def complete_charges(qd, L, qL):
    """bond charges of the complete manifold of the sector qL: on bond i the charge q has multiplicity
    min(nL_i(q), nR_i(qL - q)) (the maximal Schmidt rank of that block).  Also returns 'uniform': every bond is
    left-complete in all its sectors or right-complete in all its sectors; in that case all projectors of the
    projector-splitting integrator are nested/identical in pairs, the sub-steps commute and TDVP is exact."""
    n = count_tables(qd, L)
    out = []
    uniform = True
    for i in range(L + 1):
        qs = []
        lc = rc = True
        for q in sorted(n[i]):
            if (qL - q) in n[L - i]:
                a, b = n[i][q], n[L - i][qL - q]
                qs += [int(q)] * min(a, b)
                lc &= a <= b
                rc &= b <= a
        out.append(qs)
        uniform &= (lc or rc)
    return out, uniform


def reduced_charges(rng, qd, L, qL, Dmax):
    """random sub-profile of the complete manifold of sector qL with at most Dmax states per bond such that a
    generic block-sparse state has full Schmidt rank in every charge block: multiplicities m_i(q) are clipped to the
    fixed point of m_i(q) <= sum_s m_{i-1}(q-s), m_i(q) <= sum_s m_{i+1}(q+s)"""
    comp, _ = complete_charges(qd, L, qL)
    for attempt in range(20):
        m = []
        for i in range(L + 1):
            full = {}
            for q in comp[i]:
                full[q] = full.get(q, 0) + 1
            if i in (0, L):
                m.append(dict(full))
                continue
            cur = {q: int(rng.integers(0, k + 1)) for q, k in full.items()}
            if sum(cur.values()) == 0:
                q = sorted(full)[int(rng.integers(len(full)))]
                cur[q] = 1
            # trim to Dmax
            while sum(cur.values()) > Dmax:
                qs = [q for q in sorted(cur) if cur[q] > 0]
                cur[qs[int(rng.integers(len(qs)))]] -= 1
            m.append(cur)
        changed = True
        while changed:
            changed = False
            for i in range(1, L):
                for q in m[i]:
                    lim = min(sum(m[i - 1].get(q - int(s), 0) for s in qd), sum(m[i + 1].get(q + int(s), 0) for s in qd))
                    if m[i][q] > lim:
                        m[i][q] = lim
                        changed = True
        if all(sum(mi.values()) > 0 for mi in m):
            return [[int(q) for q in sorted(mi) for _ in range(mi[q])] for mi in m]
    # fall back: a single path (bond dimension one)
    return state_charges(rng, qd, L, [1] * (L + 1), qL)


def rand_state(rng, qd, qD, scale=1.0):
    psi = ptn.MPS(list(qd), [list(q) for q in qD], fill='random', rng=rng)
    if len(psi.A):
        psi.A[0] = psi.A[0] * scale
    return psi


def integer_tensors(psi):
    """the same state pattern with integer-dtype tensors (entries in -3..3, zeros stay zeros): a valid MPS whose tensors
    every algorithm has to promote to floating point itself"""
    for i in range(len(psi.A)):
        a = np.asarray(psi.A[i]).real
        m = float(np.max(np.abs(a))) if a.size else 0.0
        psi.A[i] = np.rint(3 * a / m).astype(np.int64) if m > 0 else a.astype(np.int64)
    return psi


def small_profile(rng, L, d, Dmax, style):
    """bond dimensions; 'reduced' clips a random profile so that a generic state has full Schmidt rank"""
    if style == 'one':
        Ds = [1] * (L + 1)
    elif style == 'two':
        Ds = [1] + [2] * (L - 1) + [1]
    elif style == 'max':
        Ds = [1] + [Dmax] * (L - 1) + [1]
    else:
        Ds = [1] + [int(rng.integers(1, Dmax + 1)) for _ in range(L - 1)] + [1]
    if L == 0:
        return [1]
    if style == 'reduced':
        for _ in range(L):
            for i in range(1, L):
                Ds[i] = min(Ds[i], d * Ds[i - 1], d * Ds[i + 1])
    return Ds


def local_dims(qd, qD, twosite=False):
    """maximal number of symmetry-allowed entries of a local (one- or two-site) tensor"""
    qd = np.asarray(qd, dtype=np.int64)
    L = len(qD) - 1
    best = 1
    if twosite:
        q2 = np.add.outer(qd, qd).ravel()
        for i in range(L - 1):
            t = np.add.outer(np.add.outer(q2, np.asarray(qD[i], dtype=np.int64)), -np.asarray(qD[i + 2], dtype=np.int64))
            best = max(best, int(np.count_nonzero(t == 0)))
    for i in range(L):
        t = np.add.outer(np.add.outer(qd, np.asarray(qD[i], dtype=np.int64)), -np.asarray(qD[i + 1], dtype=np.int64))
        best = max(best, int(np.count_nonzero(t == 0)))
    for i in range(1, L):
        t = np.add.outer(np.asarray(qD[i], dtype=np.int64), -np.asarray(qD[i], dtype=np.int64))
        best = max(best, int(np.count_nonzero(t == 0)))
    return best


def sector_mask(qd, L, qtot):
    """boolean mask of the computational basis states (site 0 most significant) with total charge qtot"""
    tot = np.zeros((), dtype=np.int64)
    for _ in range(L):
        tot = np.add.outer(tot, np.asarray(qd, dtype=np.int64))
    return (tot.ravel() == qtot)


def schmidt_ranks(v, d, L, rtol=1e-10):
    """numerical Schmidt ranks of a dense vector across all cuts 0..L"""
    r = []
    nv = np.linalg.norm(v)
    for i in range(L + 1):
        s = np.linalg.svd(v.reshape(d ** i, d ** (L - i)), compute_uv=False)
        r.append(int(np.count_nonzero(s > rtol * max(nv, 1e-300))))
    return r


def energy(Hd, v):
    """Rayleigh quotient <v|H|v>/<v|v> (real part)"""
    return float(np.real(np.vdot(v, Hd @ v)) / np.real(np.vdot(v, v)))


def bond_dims(psi):
    return [len(q) for q in psi.qD]


def choose_state(rng, qd, L, bstyle, Dmax, need_uniform=False):
    """bond charges for a state of the given style; returns dict(qD, qL, complete, uniform) or None if the
    requested style does not exist (no uniform complete sector of dimension >= 2)"""
    d = len(qd)
    secs = sectors(qd, L)
    if bstyle == 'complete':
        cands = []
        for q in secs:
            qD, uni = complete_charges(qd, L, q)
            if need_uniform and not (uni and int(np.count_nonzero(sector_mask(qd, L, q))) >= 2):
                continue
            cands.append((q, qD, uni))
        if not cands:
            return None
        nL = count_tables(qd, L)[L]
        big = [c for c in cands if nL[c[0]] >= 2]
        if big and rng.random() < 0.9:
            cands = big
        q, qD, uni = cands[int(rng.integers(len(cands)))]
        return dict(qD=qD, qL=int(q), complete=True, uniform=bool(uni))
    # mostly sectors of dimension >= 2 (in a one-dimensional sector H acts as a number)
    n = count_tables(qd, L)[L]
    big = [q for q in secs if n[q] >= 2]
    pool = big if (big and rng.random() < 0.9) else secs
    qL = int(pool[int(rng.integers(len(pool)))])
    if bstyle in ('reduced', 'reduced2'):
        return dict(qD=reduced_charges(rng, qd, L, qL, 2 if bstyle == 'reduced2' else Dmax), qL=qL,
                    complete=False, uniform=False)
    Ds = small_profile(rng, L, d, Dmax, bstyle)
    return dict(qD=state_charges(rng, qd, L, Ds, qL), qL=qL, complete=False, uniform=False)


def irreducible(M, tol):
    """True iff the graph with an edge (i, j) wherever |M[i, j]| > tol is connected (M has no invariant
    coordinate subspace, so a generic vector overlaps with every eigenvector)"""
    n = M.shape[0]
    if n <= 1:
        return True
    adj = np.abs(M) > tol
    adj = adj | adj.T
    seen = np.zeros(n, dtype=bool)
    seen[0] = True
    front = [0]
    while front:
        nxt = np.flatnonzero(adj[front].any(axis=0) & ~seen)
        seen[nxt] = True
        front = list(nxt)
    return bool(seen.all())
