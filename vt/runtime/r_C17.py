"""C17 bounded stand-in: operator trees and state automata unfold to graphs with the same meaning; the dense meaning
of chains, trees and graphs agrees with the symbolic meaning.

Oracles: tree polynomial (sum over root-to-leaf paths, identity padded), automaton polynomial (forward dynamic
programming over (site, state) on the harness' own edge table), graph path polynomial by own traversal
(h_graph.py, exact); dense Kronecker evaluation of a polynomial under a seeded random operator map."""
import json
from . import h_graph as hg            # first: limits BLAS threads before numpy is loaded
import numpy as np
import pytenet as ptn
from pytenet.opgraph import OpGraph
from . import oracle

RULE = ('(tree) ALL tree shapes of height 1..3 with branching <=2 (182 shapes, leaves at different depths) x every (start site 0..2, '
        'length <=4) that fits x seeded labelings (operator ids {identity 0,1,2} shared between siblings, coefficients {1,-1,2,0.5}, '
        'interior charges {0,1}); (trees) seeded lists of 2 trees; (aut) seeded automata with <=3 nodes besides the terminals (self '
        'loops, parallel edges, never-active edges, dead states, site-dependent active/opics tables) x every length 1..5 that admits '
        'a path between the terminals; (chain) seeded chains for OpChain.as_matrix; non-trivial = tree with >=2 edges / automaton '
        'with >=2 edges / chain of length >=2; distinct = distinct descriptor without the operator-map seed')
BOUNDS = {'quick': 'height<=3, branching<=2, istart<=2, L<=4, 3 labelings per (shape, istart, L), 1500 tree pairs; 1500 automata x L<=5; 300 chains',
          'thorough': 'height<=3, branching<=2, istart<=2, L<=4, 12 labelings per (shape, istart, L), 30000 tree pairs; 30000 automata x L<=5; 3000 chains'}
EXHAUSTIVE = {'quick': False, 'thorough': False}

OID_ID = 0


def cases(tier, seed):
    rng = np.random.default_rng(seed)
    quick = tier == 'quick'
    shapes = [s for s in hg.tree_shapes(3) if s]
    nlab = 3 if quick else 12

    def sd():
        return int(rng.integers(1 << 31))

    for s in shapes:
        h = hg.shape_height(s)
        for istart in range(3):
            for L in range(istart + h, 5):
                if L < 1:
                    continue
                for _ in range(nlab):
                    yield dict(kind='tree', L=L, trees=[[hg.label_tree(rng, s), istart]], seed=sd())
    for r in range(1500 if quick else 30000):
        L = int(rng.integers(1, 5))
        trees = []
        for _ in range(2):
            cand = [s for s in shapes if hg.shape_height(s) <= L]
            s = cand[int(rng.integers(len(cand)))] if rng.random() < 0.7 else cand[int(rng.integers(min(len(cand), 12)))]
            istart = int(rng.integers(0, min(2, L - hg.shape_height(s)) + 1))
            trees.append([hg.label_tree(rng, s), istart])
        yield dict(kind='trees', L=L, trees=trees, seed=sd())
    for r in range(1500 if quick else 30000):
        aut = hg.rand_automaton(rng, int(rng.integers(0, 4)))
        for L in range(1, 6):
            if hg.automaton_has_path(aut, L):
                yield dict(kind='aut', L=L, aut=aut, seed=sd())
    for r in range(300 if quick else 3000):
        n = int(rng.integers(1, 6))
        oids = [int(x) for x in rng.integers(0, 4, n)]
        qn = [0] + [int(x) for x in rng.integers(-1, 2, n - 1)] + [0]
        yield dict(kind='chain', chain=[oids, qn, float(rng.choice(hg.DYADIC)) * (1 if r % 2 else 0.37), int(rng.integers(0, 3))], seed=sd())


def rand_map(rng, oids, d):
    m = {}
    for o in oids:
        # every operator has its own entry kind (real operators next to complex ones)
        m[o] = np.identity(d) if o == OID_ID else (rng.standard_normal((d, d)) + 1j * rng.standard_normal((d, d)) if rng.random() < 0.5 else rng.standard_normal((d, d)))
    return m


def check_graph(fail, fn, graph, ref, L, rng, dense=True):
    """graph denotes ref, is consistent, has length L; OpGraph.as_matrix agrees with the symbolic meaning"""
    try:
        gp = hg.graph_poly(graph)
    except hg.Malformed as e:
        fail(fn, 'wellformed', f'not a layered graph between its terminals: {e}')
        return
    if not hg.p_eq(gp, ref):
        fail(fn, 'polynomial', f'[[graph]] - expected = {hg.p_diff(gp, ref)}')
    try:
        ok = graph.is_consistent()
        glen = graph.length
    except Exception as e:
        fail(fn, 'consistent', f'is_consistent()/length raised {type(e).__name__}: {e}')
        return
    if not ok:
        fail(fn, 'consistent', 'is_consistent() is False')
        return
    if glen != L:
        fail(fn, 'length', f'graph.length = {glen}, requested {L}')
        return
    if dense and all(len(w) == L for w in gp):
        d = 2
        opmap = rand_map(rng, (0, 1, 2), d)
        refm = hg.poly_dense(gp, opmap, L, d)
        for direction in (1, 0):
            try:
                m = graph.as_matrix(opmap, direction)
            except Exception as e:
                fail('as_matrix', 'returns', f'OpGraph.as_matrix(direction={direction}) raised {type(e).__name__}: {e}')
                continue
            m = np.asarray(m)
            if m.shape != refm.shape or not oracle.close(m, refm, tol=1e-9):
                fail('as_matrix', 'dense', f'OpGraph.as_matrix(direction={direction}) deviates from the dense evaluation of the path polynomial '
                     f'by {np.linalg.norm(m - refm) if m.shape == refm.shape else m.shape}')


def run_case(c):
    rng = np.random.default_rng(c['seed'])
    fails = []

    def fail(fn, clause, detail):
        fails.append(dict(clause=clause, detail=detail, signature=f'{fn}:{clause}'))

    kind = c['kind']
    if kind in ('tree', 'trees'):
        # constructors: two nodes built from the same caller-owned list of children, then one of them is extended
        try:
            from pytenet.optree import OpTreeNode, OpTreeEdge
            kids = [OpTreeEdge(1, 1.0, OpTreeNode([], 0))]
            n1, n2 = OpTreeNode(kids, 0), OpTreeNode(kids, 0)
            n1.add_child(OpTreeEdge(2, 0.5, OpTreeNode([], 0)))
            if len(kids) != 1 or len(n2.children) != 1 or len(n1.children) != 2:
                fail('OpTreeNode.__init__', 'shares_state', f'add_child on one node changed the caller\'s list ({len(kids)} entries) or a second node built from it ({len(n2.children)} children)')
        except Exception as e:      # noqa: BLE001
            fail('OpTreeNode.__init__', 'shares_state', f'two nodes built from the same list: {type(e).__name__}: {e}')
        L = c['L']
        key = json.dumps([kind, L, c['trees']])
        nontrivial = sum(len(hg._tree_paths(t[0])) for t in c['trees']) >= 2
        ref = hg.trees_poly(c['trees'], L, OID_ID)
        trees = [hg.build_tree(t) for t in c['trees']]
        try:
            graph = OpGraph.from_optrees(trees, L, OID_ID)
        except Exception as e:
            name, line, where = hg.exc_info(e)
            fail('OpGraph.from_optrees', 'returns', f'raised {name} at {where} ({line.strip()}): {e}')
            fails[-1]['signature'] = f'OpGraph.from_optrees:returns:{name}'
            return dict(failures=fails, nontrivial=nontrivial, key=key)
        check_graph(fail, 'OpGraph.from_optrees', graph, ref, L, rng)
        # dense meaning of the trees themselves: sub-trees padded with identities on the right up to the tree height
        d = 2
        opmap = rand_map(rng, (0, 1, 2), d)
        for td, tree in zip(c['trees'], trees):
            h = hg.tree_height(td[0])
            refm = hg.poly_dense(hg.tree_poly([td[0], 0], h, OID_ID), opmap, h, d)
            try:
                hh = tree.height()
                m = np.asarray(tree.as_matrix(opmap))
            except Exception as e:
                fail('OpTree.as_matrix', 'returns', f'raised {type(e).__name__}: {e}')
                continue
            if hh != h:
                fail('OpTree.height', 'height', f'height() = {hh}, expected {h}')
            if m.shape != refm.shape or not oracle.close(m, refm, tol=1e-9):
                fail('OpTree.as_matrix', 'dense', f'deviates from the dense evaluation of the tree polynomial by '
                     f'{np.linalg.norm(m - refm) if m.shape == refm.shape else m.shape}')
        return dict(failures=fails, nontrivial=nontrivial, key=key)

    if kind == 'aut':
        L = c['L']
        aut = c['aut']
        key = json.dumps([kind, L, aut])
        nontrivial = len(aut['edges']) >= 2
        assert hg.automaton_has_path(aut, L)          # generator invariant = precondition of the property
        ref = hg.automaton_poly(aut, L)
        a = hg.build_automaton(aut)
        try:
            graph = OpGraph.from_automaton(a, L)
        except Exception as e:
            name, line, where = hg.exc_info(e)
            fail('OpGraph.from_automaton', 'returns', f'raised {name} at {where} ({line.strip()}): {e}')
            fails[-1]['signature'] = f'OpGraph.from_automaton:returns:{name}'
            return dict(failures=fails, nontrivial=nontrivial, key=key)
        check_graph(fail, 'OpGraph.from_automaton', graph, ref, L, rng)
        # the terminal nodes of the unrolled graph carry the quantum numbers of the automaton's terminal states
        # (MPO.from_opgraph derives the bond quantum numbers from the node labels)
        try:
            qn = {nid: q for nid, q in aut['nodes']}
            t0, t1 = aut['term']
            g0, g1 = graph.nid_terminal
            got = (graph.nodes[g0].qnum, graph.nodes[g1].qnum)
            if L >= 1 and (got[0] != qn[t0] or got[1] != qn[t1]):
                fail('OpGraph.from_automaton', 'terminal_qnums', f'terminal nodes carry quantum numbers {got}, the automaton terminals {(qn[t0], qn[t1])}')
        except Exception as e:
            fail('OpGraph.from_automaton', 'terminal_qnums', f'cannot read the terminal nodes: {type(e).__name__}: {e}')
        return dict(failures=fails, nontrivial=nontrivial, key=key)

    if kind == 'chain':
        oids, qn, coeff, istart = c['chain']
        key = json.dumps([kind, c['chain']])
        d = 2 if len(oids) > 3 else 3
        opmap = rand_map(rng, (0, 1, 2, 3), d)
        ch = ptn.OpChain(oids, qn, coeff, istart)
        refm = coeff * np.identity(1)
        for o in oids:                    # explicit index formula instead of np.kron
            a, b = refm, opmap[o]
            refm = np.einsum('ij,kl->ikjl', a, b).reshape(a.shape[0] * b.shape[0], a.shape[1] * b.shape[1])
        try:
            m = np.asarray(ch.as_matrix(opmap))
        except Exception as e:
            fail('OpChain.as_matrix', 'returns', f'raised {type(e).__name__}: {e}')
            return dict(failures=fails, nontrivial=len(oids) >= 2, key=key)
        if m.shape != refm.shape or not oracle.close(m, refm, tol=1e-9):
            fail('OpChain.as_matrix', 'dense', f'deviates from coeff * Kronecker product by {np.linalg.norm(m - refm) if m.shape == refm.shape else m.shape}')
        # the same word with a complex coefficient over purely real (or integer) local matrices: the result is complex
        if c['seed'] % 3 != 1:
            zc = coeff * (0.6 + 0.8j)
            opr = {o: (np.rint(2 * np.real(M_)).astype(np.int64) if c['seed'] % 3 == 2 else np.real(M_).copy()) for o, M_ in opmap.items()}
            refz = zc * np.identity(1)
            for o in oids:
                a, b = refz, opr[o]
                refz = np.einsum('ij,kl->ikjl', a, b).reshape(a.shape[0] * b.shape[0], a.shape[1] * b.shape[1])
            try:
                mz = np.asarray(ptn.OpChain(oids, qn, zc, istart).as_matrix(opr))
                if mz.shape != refz.shape or not oracle.close(mz, refz, tol=1e-9):
                    fail('OpChain.as_matrix', 'dense', f'complex coefficient {zc} over real local matrices: deviates from coeff * Kronecker product by {np.linalg.norm(mz - refz) if mz.shape == refz.shape else mz.shape}')
            except Exception as e:
                fail('OpChain.as_matrix', 'returns', f'complex coefficient {zc} over real local matrices: raised {type(e).__name__}: {e}')
        # the padded chain denotes the identity-padded word
        L = istart + len(oids) + int(rng.integers(0, 2))
        if d ** L <= 300:
            try:
                pm = np.asarray(ch.padded(L, OID_ID).as_matrix(opmap))
            except Exception as e:
                fail('OpChain.padded', 'returns', f'raised {type(e).__name__}: {e}')
                return dict(failures=fails, nontrivial=len(oids) >= 2, key=key)
            pref = hg.poly_dense(hg.chains_poly([c['chain']], L, OID_ID), opmap, L, d)
            # coefficient is not dyadic in general: Fraction(float) is still exact
            if pm.shape != pref.shape or not oracle.close(pm, pref, tol=1e-9):
                fail('OpChain.padded', 'dense', 'padded chain deviates from the identity-padded word')
        return dict(failures=fails, nontrivial=len(oids) >= 2, key=key)
    raise ValueError(kind)
