"""C15 bounded stand-in: Krylov approximations (eigh_krylov, expm_krylov) are bounded, and exact once the Krylov
space is exhausted."""
import json, os, warnings
for _v in ('OMP_NUM_THREADS', 'OPENBLAS_NUM_THREADS', 'MKL_NUM_THREADS'):     # tiny matrices, 14 worker processes:
    os.environ.setdefault(_v, '1')                                            # threaded BLAS only causes contention
import numpy as np
import scipy.linalg
from pytenet import krylov
from . import oracle
from . import h_C14 as h

RULE = ('(function/flag, n, matrix type, spectrum {separated, degenerate}, k = true Krylov dimension of the start vector '
        '(invariant subspace spanned by eigenvectors of k distinct eigenvalues), time argument {imaginary, real, complex}) x '
        'every m in {1..n, n+1, 2n} inside the case; exactness clauses only for m >= k (Ritz value: two-sided bound instead of equality when the iteration ran past an '
        'undetected exhaustion), orthonormal-Ritz clauses only for '
        'm < k; distinct = distinct descriptor; non-trivial for n>=2')
BOUNDS = {'quick': 'n<=10, m in {1..n,n+1,2n}, every k, ||A||<=8 (<=10), |dt|*||A||<=5',
          'thorough': 'same, 30 repetitions (quick: 2)'}
EXHAUSTIVE = {'quick': False, 'thorough': False}
TOL = 1e-9


def cases(tier, seed):
    rng = np.random.default_rng(seed)
    reps = 2 if tier == 'quick' else 30
    for n in range(1, 11):
        for spec in h.SPECTRA:
            nd = n if spec == 'separated' else max(1, (n + 1) // 2)
            for k in range(1, nd + 1):
                for r in range(reps):
                    for mt in h.MATTYPES_HERM:
                        for vreal in (False, True):
                            yield dict(kind='eigh', mattype=mt, n=n, spectrum=spec, k=k, vreal=vreal, seed=int(rng.integers(1 << 31)))
                        for dtk in ('imag', 'real', 'complex'):
                            yield dict(kind='expm_herm', mattype=mt, n=n, spectrum=spec, k=k, vreal=False, dt=dtk,
                                       seed=int(rng.integers(1 << 31)))
                    for mt in h.MATTYPES_ALL:
                        if mt == 'gen_random' and (spec == 'degenerate' or k != nd):
                            continue
                        for dtk in ('imag', 'real', 'complex'):
                            yield dict(kind='expm_gen', mattype=mt, n=n, spectrum=spec, k=k, vreal=bool(rng.integers(2)), dt=dtk,
                                       seed=int(rng.integers(1 << 31)))
    # maps that return (a view of) their argument or a buffer of their own instead of a fresh array
    yield from _special_cases(rng, reps)
    yield from _extra_cases(rng, reps)


def _special_cases(rng, reps):
    for form in h.MAPFORMS:
        for n in range(1, 9):
            for r in range(reps):
                for vreal in (False, True):
                    yield dict(kind='eigh', mattype='special', mapform=form, n=n, spectrum='separated', k=0, vreal=vreal, seed=int(rng.integers(1 << 31)))
                for dtk in ('imag', 'real', 'complex'):
                    for kind in ('expm_herm', 'expm_gen'):
                        yield dict(kind=kind, mattype='special', mapform=form, n=n, spectrum='separated', k=0, vreal=bool(rng.integers(2)), dt=dtk,
                                   seed=int(rng.integers(1 << 31)))


def _extra_cases(rng, reps):
    for n in range(1, 6):
        for r in range(2 * reps):
            for dtk in ('imag', 'real', 'complex'):
                yield dict(kind='expm_gen', mattype='special', mapform='jordan', n=n, spectrum='separated', k=0, vreal=bool(rng.integers(2)), dt=dtk,
                           seed=int(rng.integers(1 << 31)))
    for n in range(2, 9):
        for r in range(reps):
            for vreal in (False, True):
                yield dict(kind='eigh', mattype='special', mapform='small32', n=n, spectrum='separated', k=0, vreal=vreal, seed=int(rng.integers(1 << 31)))
                yield dict(kind='expm_herm', mattype='special', mapform='small32', n=n, spectrum='separated', k=0, vreal=vreal, dt='imag',
                           seed=int(rng.integers(1 << 31)))


def run_case(c):
    rng = np.random.default_rng(c['seed'])
    fails = []
    fn = 'eigh_krylov' if c['kind'] == 'eigh' else 'expm_krylov'

    def fail(clause, detail):
        if len(fails) < 6:
            fails.append(dict(clause=clause, detail=detail, signature=f'{fn}:{clause}' + ('' if c['kind'] == 'eigh' else f':{c["kind"][5:]}')))
    n = c['n']
    TOL = 1e-5 if c.get('mapform') == 'small32' else globals()['TOL']
    radius = float(10.0 ** rng.uniform(-2, -0.5)) if rng.integers(5) == 0 else None
    if c.get('mapform'):
        P = h.special(rng, n, c['mapform'], c['vreal'])
    else:
        P = h.build(rng, n, c['mattype'], c['spectrum'], c['k'], radius=radius, vreal=c['vreal'])
    A, v, kdim = P['A'], P['v'], P['kdim']
    nA = float(np.linalg.norm(A, 2))
    assert nA <= 10
    sc = max(1.0, nA)
    nv = float(np.linalg.norm(v))
    Afunc = P.get('Afunc') or (lambda x: A @ x)
    v0 = v.copy()
    ms = list(range(1, n + 1)) + [n + 1, 2 * n]
    if c['kind'] == 'eigh':
        ev = np.linalg.eigvalsh(A)
        lam_min = float(ev[0])
        rq = float((v.conj() @ A @ v).real / nv ** 2)
        reach_min = float(np.min(P['reach'].real))
        for m in ms:
            # also more eigenpairs than the Krylov space has (fewer are returned, without an error)
            for numeig in sorted({1, min(m, kdim), m + 1} if m < kdim else {1, 2, kdim + 1}):
                tag = f'n={n} m={m} kdim={kdim} numeig={numeig}'
                try:
                    with warnings.catch_warnings():
                        warnings.simplefilter('ignore')
                        w, u = krylov.eigh_krylov(Afunc, v, m, numeig)
                except Exception as e:
                    if type(e).__name__ == 'CaseTimeout':      # the runner's wall-clock alarm must reach the runner
                        raise
                    fail('returns', f'{tag}: raised {type(e).__name__}: {e}')
                    continue
                if not np.array_equal(v, v0):
                    fail('args_unchanged', f'{tag}: start vector modified'); v = v0.copy()
                w = np.asarray(w)
                if w.ndim != 1 or len(w) < 1 or getattr(u, 'shape', None) != (n, len(w)) or len(w) > numeig:
                    fail('sizes', f'{tag}: w.shape={w.shape} u.shape={getattr(u, "shape", None)}')
                    continue
                th = float(np.real(w[0]))
                if th < lam_min - TOL * sc:
                    fail('ritz_lower', f'{tag}: lowest Ritz value {th} < lambda_min {lam_min}')
                if th > rq + TOL * sc:
                    fail('ritz_upper', f'{tag}: lowest Ritz value {th} > Rayleigh quotient of the start vector {rq}')
                if m >= kdim:
                    # m > kdim: the floating-point iteration may run past an undetected exhaustion (off-diagonal ~1e-13
                    # above the breakdown threshold); the start vector lies in the invariant subspace only up to rounding,
                    # so the Ritz value may then legitimately converge to a lower eigenvalue of A: two-sided bound only.
                    ran_past = False
                    if m > kdim:
                        with warnings.catch_warnings():
                            warnings.simplefilter('ignore')
                            ran_past = krylov.lanczos_iteration(Afunc, v, m)[2].shape[1] > kdim
                    if ran_past:
                        if th > reach_min + TOL * sc:
                            fail('ritz_exact', f'{tag}: lowest Ritz value {th} > smallest reachable eigenvalue {reach_min}')
                    elif abs(th - reach_min) > TOL * sc:
                        fail('ritz_exact', f'{tag}: lowest Ritz value {th} vs smallest eigenvalue reachable from the start vector '
                                           f'{reach_min} (m >= Krylov dimension)')
                else:
                    if len(w) != min(numeig, m):
                        fail('sizes', f'{tag}: {len(w)} Ritz values returned, {numeig} requested, {m} available')
                        continue
                    G = u.conj().T @ u
                    if not oracle.close(G, np.identity(len(w)), scale=1.0, tol=TOL):
                        fail('ritz_orthonormal', f'{tag}: |u^H u - I| = {np.linalg.norm(G - np.identity(len(w)))}')
                    rqs = np.real(np.einsum('ik,ij,jk->k', u.conj(), A, u))
                    if not oracle.close(rqs, w, scale=sc, tol=TOL):
                        fail('ritz_rayleigh', f'{tag}: Rayleigh quotients {rqs.tolist()} vs Ritz values {w.tolist()}')
    else:
        herm = c['kind'] == 'expm_herm'
        tau = float(rng.uniform(0.2, 5.0)) / max(nA, 1e-3) if nA > 0.05 else float(rng.uniform(0.2, 5.0))
        dt = {'imag': 1j * tau * (1 if rng.integers(2) else -1), 'real': tau * (1 if rng.integers(2) else -1),
              'complex': tau * np.exp(2j * np.pi * rng.uniform())}[c['dt']]
        E = scipy.linalg.expm(dt * A)
        exact = E @ v
        esc = max(1.0, float(np.linalg.norm(E, 2))) * max(1.0, nv)
        for m in ms:
            tag = f'n={n} m={m} kdim={kdim} dt={dt!r} hermitian={herm}'
            try:
                with warnings.catch_warnings():
                    warnings.simplefilter('ignore')
                    out = krylov.expm_krylov(Afunc, v, dt, m, hermitian=herm)
            except Exception as e:
                if type(e).__name__ == 'CaseTimeout':      # the runner's wall-clock alarm must reach the runner
                    raise
                fail('returns', f'{tag}: raised {type(e).__name__}: {e}')
                continue
            if not np.array_equal(v, v0):
                fail('args_unchanged', f'{tag}: start vector modified'); v = v0.copy()
            if getattr(out, 'shape', None) != (n,):
                fail('sizes', f'{tag}: result shape {getattr(out, "shape", None)}')
                continue
            if herm and c['dt'] == 'imag':
                if abs(np.linalg.norm(out) - nv) > TOL * max(1.0, nv):
                    fail('norm_preserved', f'{tag}: |out| = {np.linalg.norm(out)} vs |v| = {nv}')
            if m >= kdim:
                if not oracle.close(out, exact, scale=esc, tol=TOL):
                    fail('expm_exact', f'{tag}: |expm_krylov - expm(dt*A)v| = {np.linalg.norm(out - exact)} (scale {esc}) although '
                                       f'm >= Krylov dimension')
    return dict(failures=fails, nontrivial=n >= 2, key=json.dumps(c, sort_keys=True))
