"""Helpers for the C14 / C15 bounded stand-ins: matrices with a spectrum known by construction and start vectors whose
Krylov dimension is known by construction.  Independent of pytenet."""
import numpy as np

MATTYPES_HERM = ('rsym', 'cherm')
MATTYPES_ALL = ('rsym', 'cherm', 'gen_real', 'gen_complex', 'gen_random')
SPECTRA = ('separated', 'degenerate')


def rand_unitary(rng, n, cplx):
    Z = rng.standard_normal((n, n)) + (1j * rng.standard_normal((n, n)) if cplx else 0)
    Q, R = np.linalg.qr(Z)
    d = np.diagonal(R)
    return Q * (d / np.abs(d))


def distinct_values(rng, nd, cplx, radius):
    """nd well separated values (gaps >= 1 before scaling) with norm <= radius"""
    base = (np.arange(nd) - (nd - 1) / 2.0) + rng.uniform(-0.2, 0.2, nd)
    base = base[rng.permutation(nd)]
    if cplx:
        base = base + 1j * ((np.arange(nd)[rng.permutation(nd)] - (nd - 1) / 2.0) * 0.7 + rng.uniform(-0.2, 0.2, nd))
    mx = max(1.0, float(np.max(np.abs(base))))
    return base * (radius / mx)


def build(rng, n, mattype, spectrum, k, radius=None, vreal=False):
    """returns dict(A, v, kdim, lam (all n eigenvalues or None), reach (eigenvalues reachable from v or None))

    The start vector is a combination with O(1) coefficients of eigenvectors belonging to exactly k distinct
    eigenvalues, hence its Krylov space has dimension exactly k.  For 'gen_random' (non-normal random matrix, generic
    vector) k is ignored and the Krylov dimension is n."""
    if radius is None:
        radius = float(rng.uniform(0.5, 8.0))
    if mattype == 'gen_random':
        cplx = bool(rng.integers(2))
        A = rng.standard_normal((n, n)) + (1j * rng.standard_normal((n, n)) if cplx else 0)
        A = A * (radius / max(1e-300, np.linalg.norm(A, 2)))
        v = rng.standard_normal(n) + (0 if vreal else 1j * rng.standard_normal(n))
        return dict(A=A, v=v * float(10.0 ** rng.uniform(-1, 1)), kdim=n, lam=None, reach=None)
    nd = n if spectrum == 'separated' else max(1, (n + 1) // 2)
    herm = mattype in MATTYPES_HERM
    cplx = mattype in ('cherm', 'gen_complex')
    vals = distinct_values(rng, nd, cplx and not herm, radius)
    # multiplicities
    mult = np.ones(nd, dtype=int)
    for _ in range(n - nd):
        mult[int(rng.integers(nd))] += 1
    owner = np.repeat(np.arange(nd), mult)              # column -> index of its distinct eigenvalue
    owner = owner[rng.permutation(n)]
    lam = vals[owner]
    if herm:
        X = rand_unitary(rng, n, cplx)
        A = (X * lam) @ X.conj().T
        A = (A + A.conj().T) / 2
    else:
        X = rand_unitary(rng, n, cplx) * rng.uniform(0.5, 2.0, n) @ rand_unitary(rng, n, cplx)
        A = (X * lam) @ np.linalg.inv(X)
        nrm2 = float(np.linalg.norm(A, 2))
        if nrm2 > radius:                      # keep ||A||_2 <= radius for non-normal matrices as well
            f = radius / nrm2
            A, lam, vals = A * f, lam * f, vals * f
    k = max(1, min(k, nd))
    S = rng.permutation(nd)[:k]
    coef = np.zeros(n, dtype=complex)
    for sidx in S:
        cols = np.where(owner == sidx)[0]
        cc = rng.uniform(0.5, 1.5, len(cols)) * (np.sign(rng.standard_normal(len(cols))) if (vreal or not cplx and rng.integers(2))
                                                  else np.exp(2j * np.pi * rng.uniform(size=len(cols))))
        # keep at least a sizeable component in the eigenspace
        coef[cols] = cc
    v = X @ coef
    if vreal and cplx and k == nd:
        v = rng.standard_normal(n).astype(complex)      # generic real vector: reaches every eigenspace
    if np.all(v.imag == 0):
        v = v.real.copy()
    v = v * float(10.0 ** rng.uniform(-1, 1))
    return dict(A=A, v=v, kdim=k, lam=lam, reach=vals[S])


def ref_arnoldi_subdiag(A, v, m):
    """independent reference: Arnoldi with twice-repeated Gram-Schmidt; returns the sub-diagonal h[j+1,j], j < m-1
    (zero-padded after exhaustion)"""
    n = len(v)
    V = np.zeros((n, m), dtype=complex)
    V[:, 0] = v / np.linalg.norm(v)
    sub = np.zeros(max(0, m - 1))
    for j in range(m - 1):
        w = A @ V[:, j]
        for _ in range(2):
            w = w - V[:, :j + 1] @ (V[:, :j + 1].conj().T @ w)
        sub[j] = np.linalg.norm(w)
        if sub[j] < 1e-10 * max(1.0, np.linalg.norm(A, 2)):
            break
        V[:, j + 1] = w / sub[j]
    return sub


MAPFORMS = ('identity_alias', 'reversal_view', 'buffer', 'zero_map', 'diag_basis')
STIFF = ('stiff',)
GENERAL_FORMS = ('jordan',)          # non-Hermitian: Arnoldi / general exponential only
SMALL32 = ('small32',)
DECAY = ('decay',)                 # general matrix with rapidly decaying singular values: nearly dependent Krylov vectors             # single-precision start vector, operator of small norm


def special(rng, n, form, vreal):
    """maps given as *functions* that do not allocate a fresh result: the identity returning its argument, the reversal
    permutation (real symmetric, eigenvalues +-1) returning a view of its argument, and a dense Hermitian matrix whose
    product is written into a buffer owned by the callback.  -> dict(A, v, kdim, lam, reach, Afunc)"""
    v = rng.standard_normal(n) + (0 if vreal else 1j * rng.standard_normal(n))
    v = v * float(10.0 ** rng.uniform(-1, 1))
    if form == 'identity_alias':
        return dict(A=np.identity(n), v=v, kdim=1, lam=np.ones(n), reach=np.ones(1), Afunc=lambda x: x)
    if form == 'reversal_view':
        A = np.fliplr(np.identity(n))
        sym, asym = (v + v[::-1]) / 2, (v - v[::-1]) / 2
        tol = 1e-6 * np.linalg.norm(v)
        reach = np.array([lam for lam, part in ((1.0, sym), (-1.0, asym)) if np.linalg.norm(part) > tol])
        lam = np.array([1.0] * ((n + 1) // 2) + [-1.0] * (n // 2))
        return dict(A=A, v=v, kdim=len(reach), lam=lam, reach=reach, Afunc=lambda x: x[::-1])
    if form == 'almost_invariant':
        # Hermitian matrix of large norm with well separated spectrum; the start vector lies in a two-dimensional invariant subspace up to a
        # perturbation of relative size 1e-15 .. 1e-12: after two steps the residual is tiny but (just) above the exhaustion threshold
        U = rand_unitary(rng, n, not vreal)
        lam = 1e3 * np.arange(1, n + 1, dtype=float)
        A = (U * lam) @ U.conj().T
        A = (A + A.conj().T) / 2
        eps = float(10.0 ** rng.uniform(-15, -12))
        v = U[:, 0] + 0.7 * U[:, 1] + eps * (rng.standard_normal(n) + (0 if vreal else 1j * rng.standard_normal(n)))
        return dict(A=A, v=v, kdim=n, lam=lam, reach=lam)
    if form == 'zero_map':
        # the zero map (Hermitian): the Krylov space of any vector has dimension one and A v = 0 exactly
        return dict(A=np.zeros((n, n)), v=v, kdim=1, lam=np.zeros(n), reach=np.zeros(1), Afunc=lambda x: 0 * x)
    if form == 'diag_basis':
        # integer diagonal matrix (singular with probability ~1/2), start vector supported on a few basis vectors with small
        # integer coefficients: exhaustion happens in exact arithmetic (e.g. a start vector in the null space gives w = 0 exactly)
        dg = rng.integers(-2, 3, n).astype(float)
        if rng.random() < 0.5:
            dg[int(rng.integers(n))] = 0.0
        supp = rng.choice(n, size=int(rng.integers(1, min(n, 3) + 1)), replace=False)
        if rng.random() < 0.4 and np.any(dg == 0):
            supp = np.where(dg == 0)[0][:1]                      # null vector
        v = np.zeros(n, dtype=float if vreal else complex)
        v[supp] = rng.integers(1, 4, len(supp)) * (1 if vreal else rng.choice([1, -1, 1j, -1j], len(supp)))
        reach = np.unique(dg[supp])
        return dict(A=np.diag(dg), v=v, kdim=len(reach), lam=dg, reach=reach, Afunc=lambda x, dg=dg: dg * x)
    if form == 'stiff':
        # a cluster of eigenvalues in [-1, 1] and two far outliers: the outlying Ritz values converge after a few steps,
        # which is where a three-term recurrence without full re-orthogonalization loses orthogonality
        R = float(rng.choice([100.0, 1000.0]))
        lam = np.concatenate([np.linspace(-1, 1, n - 2), [R, -R]])
        X = rand_unitary(rng, n, not vreal)
        A = (X * lam) @ X.conj().T
        A = (A + A.conj().T) / 2
        return dict(A=A, v=v, kdim=n, lam=lam, reach=lam)
    if form == 'jordan':
        # defective matrix: Jordan blocks (sizes drawn at random) in a well-conditioned basis; a generic vector has full Krylov dimension
        lam = []; N = np.zeros((n, n))
        pos = 0
        while pos < n:
            sz = int(rng.integers(1, n - pos + 1))
            ev = float(rng.choice([0.0, 1.0, -0.5, 2.0]))
            for t in range(sz):
                lam.append(ev)
                if t + 1 < sz:
                    N[pos + t, pos + t + 1] = 1.0
            pos += sz
        J = np.diag(lam) + N
        X = rand_unitary(rng, n, not vreal)
        A = X @ J @ X.conj().T
        # the Krylov dimension of a generic vector is the degree of the minimal polynomial: for each eigenvalue the largest block
        sizes = {}
        pos = 0; cur = None; run = 0
        blocks = []
        i = 0
        while i < n:
            j = i
            while j + 1 < n and N[j, j + 1] == 1.0:
                j += 1
            blocks.append((lam[i], j - i + 1)); i = j + 1
        for ev, sz in blocks:
            sizes[ev] = max(sizes.get(ev, 0), sz)
        return dict(A=A, v=v, kdim=int(sum(sizes.values())), lam=np.array(lam), reach=np.array(sorted(sizes)))
    if form == 'decay':
        Qm = rand_unitary(rng, n, True); Pm = rand_unitary(rng, n, True)
        A = Qm @ np.diag(np.logspace(0, -12, n)) @ Pm
        return dict(A=A, v=v, kdim=n, lam=None, reach=None)
    if form == 'small32':
        P = build(rng, n, 'cherm' if not vreal else 'rsym', 'separated', n, radius=float(10.0 ** rng.uniform(-5, -3)), vreal=vreal)
        P['v'] = P['v'].astype(np.float32 if np.isrealobj(P['v']) else np.complex64)
        return P
    if form == 'buffer':
        P = build(rng, n, 'cherm', 'separated', n, vreal=vreal)
        buf = np.zeros(n, dtype=complex)
        A = P['A']
        def Afunc(x):
            buf[...] = A @ x
            return buf
        P['Afunc'] = Afunc
        return P
    raise ValueError(form)
