"""C10 bounded stand-in: DMRG energies are variational, consistent with the returned state and monotone;
exact ground-state energy on a complete manifold; H is never modified.

Scope notes (oracle validity, DESIGN 4.5):
* the exact ground-state energy is that of the dense Hamiltonian restricted to the basis states whose total
  physical charge equals qD[L] - qD[0] of the starting state (np.linalg.eigvalsh);
* 'exact energy reached' is asserted only on a complete manifold that is *uniform* (every bond left-complete in
  all charge blocks or right-complete in all charge blocks, see r_C09: then one local problem of the sweep is the
  full eigenproblem of the sector), for a full-rank start, >= 2 sweeps, a Lanczos count >= the number of
  symmetry-allowed entries of every local tensor, and a Hamiltonian that is irreducible on the sector (connected
  graph of non-zero matrix elements; for a block-diagonal H, e.g. a diagonal one, DMRG legitimately gets stuck in
  an excited eigenvector because every Krylov space started there is one-dimensional)."""
import os
for _v in ('OMP_NUM_THREADS', 'OPENBLAS_NUM_THREADS', 'MKL_NUM_THREADS'):
    os.environ.setdefault(_v, '1')
import json, warnings
import numpy as np
import pytenet as ptn
from . import oracle
from . import h_tdvp as h

RULE = ('enumerated (algorithm, Hamiltonian family, d, L, bond style in one/reduced2/random/complete/exact, Lanczos '
        'count) x seeded repetitions; each case draws the Hamiltonian parameters, a charge sector, a generically '
        'non-zero block-sparse start state and two successive invocations (1..4 sweeps each) on the same state; '
        'style exact = uniform complete sector of dimension >= 2 with Lanczos count >= local dimension; '
        'non-trivial iff the sector of the state has dimension >= 2; distinct = descriptor')
BOUNDS = {'quick': 'L in 2..4, d in 2,3,4, D<=4 or complete, 1..4 sweeps, Lanczos 2,3,10,25 (exact: local dim + 2)',
          'thorough': 'L in 2..6 (d=4: L<=5), d in 2,3,4, D<=8 or complete, 1..4 sweeps, Lanczos 2,3,10,25 (exact: L<=5)'}

FAMILIES = [('ising', 2), ('heisenberg_xxz', 2), ('heisenberg_s1', 3), ('bose_hubbard', 2), ('bose_hubbard', 3),
            ('fermi_hubbard', 4), ('rand0', 2), ('rand0', 3), ('randq', 2), ('randq', 3), ('randqz', 2), ('randqz', 3)]      # (no product operators here: alternating local minimisation has genuine local minima for them)
NITS = (2, 3, 10, 25)
BSTYLES = ('one', 'reduced2', 'random', 'complete', 'exact')


def cases(tier, seed):
    rng = np.random.default_rng(seed)
    quick = tier == 'quick'
    Lmax = 4 if quick else 6
    Dmax = 4 if quick else 8
    reps = 2 if quick else 3
    k = 0
    for alg in ('single', 'two'):
        for (model, d) in FAMILIES:
            for L in range(2, Lmax + 1):
                if d ** L > 1024:
                    continue
                for bstyle in BSTYLES:
                    if bstyle == 'exact' and (L > 5 or d ** L > 300):
                        continue
                    for nit in (NITS if bstyle != 'exact' else (0, 0, 0, 0)):
                        for r in range(reps):
                            k += 1
                            sweeps = [1 + k % 4, 1 + (k // 4) % 3]
                            if bstyle == 'exact':
                                sweeps[0] = 2 + k % 2
                            yield dict(kind=alg, model=model, d=d, L=L, bstyle=bstyle, Dmax=Dmax, numiter=nit,
                                       sweeps=sweeps, seed=int(rng.integers(1 << 31)))
                            if alg == 'two' and r == 0 and bstyle in ('random', 'complete') and nit in (3, 25):
                                # two-site DMRG with a non-zero split tolerance (singular values are really discarded)
                                yield dict(kind=alg, model=model, d=d, L=L, bstyle=bstyle, Dmax=Dmax, numiter=nit, sweeps=sweeps,
                                           tol_split=(1e-3, 0.05, 0.3)[k % 3], seed=int(rng.integers(1 << 31)))


def run_case(c):
    warnings.simplefilter('ignore')
    rng = np.random.default_rng(c['seed'])
    key = json.dumps(c, sort_keys=True)
    L, alg = c['L'], c['kind']
    fname = 'calculate_ground_state_local_singlesite' if alg == 'single' else 'calculate_ground_state_local_twosite'
    fails = []

    def fail(clause, detail):
        fails.append(dict(clause=clause, detail=detail, signature=f'{fname}:{clause}'))

    def skip(why):
        return dict(failures=[], nontrivial=False, key=key, skipped=why)

    try:
        H = h.build_hamiltonian(c['model'], L, c['d'], rng)
    except Exception as e:      # construction of the model is the subject of C05/C06
        return skip(f'model construction raised {type(e).__name__}')
    Hd, nH = h.dense_hamiltonian(H)
    Hsnap = oracle.snapshot(H)
    qd = [int(x) for x in getattr(H, 'state_qd', H.qd)]      # 'randqz': the state's labels differ from the (zeroed) labels of H
    d = len(qd)
    exact = c['bstyle'] == 'exact'
    st = h.choose_state(rng, qd, L, 'complete' if exact else c['bstyle'], c['Dmax'], need_uniform=exact)
    if st is None:
        return skip('no uniform complete sector of dimension >= 2')
    psi = h.rand_state(rng, qd, st['qD'], scale=float(rng.choice([0.1, 1.0, 4.0])))
    if c['seed'] % 3 == 0:
        # real-valued tensors (float dtype) against possibly complex Hamiltonians
        for _i in range(len(psi.A)):
            psi.A[_i] = psi.A[_i].real.copy()
    if c['seed'] % 6 == 3:
        # the same state with all bond labels shifted by a constant (non-zero leading label): the rule qd + left = right is unchanged
        sh_ = int(rng.choice([-2, -1, 1, 3]))
        psi.qD = [np.asarray(q) + sh_ for q in psi.qD]
    if c['seed'] % 7 == 2 and not exact:      # (the exactness oracle needs a generic start vector: small integers give symmetric ones)
        h.integer_tensors(psi)          # integer dtype: the algorithms have to promote the tensors themselves
    v = oracle.mps_dense(psi.A)
    n_in = float(np.linalg.norm(v))
    if n_in < 1e-10:
        return skip('zero state')
    qtot = int(psi.qD[-1][0]) - int(psi.qD[0][0])
    mask = h.sector_mask(qd, L, qtot)
    secdim = int(np.count_nonzero(mask))
    Egs = float(np.linalg.eigvalsh(Hd[np.ix_(mask, mask)])[0])
    tol = 1e-8 * max(1.0, nH)
    numiter = c['numiter']
    reach = False
    if exact:
        nloc = h.local_dims(qd, st['qD'], twosite=(alg == 'two'))
        numiter = nloc + 2
        # H restricted to the sector must not be block diagonal in the computational basis: otherwise a local
        # optimization can land exactly on an eigenvector of H that is orthogonal to the ground state (e.g. a
        # diagonal H: the sweep stops at the first basis state it selects) and no Krylov space ever leaves it
        reach = (st['uniform'] and h.schmidt_ranks(v, d, L) == h.bond_dims(psi)
                 and h.irreducible(Hd[np.ix_(mask, mask)], 1e-9 * max(1.0, nH)))
    Estart = h.energy(Hd, v)
    tsplit = c.get('tol_split', 0)
    for j, ns in enumerate(c['sweeps']):
        D0 = h.bond_dims(psi)
        where = f'invocation {j} (numsweeps={ns}, numiter={numiter}, bonds {D0}, sector {qtot} of dimension {secdim})'
        try:
            if c['seed'] % 5 == 1:
                # positional form of the documented signatures (H, psi, numsweeps, numiter_lanczos[, tol_split])
                en = ptn.calculate_ground_state_local_singlesite(H, psi, ns, numiter) if alg == 'single' else \
                    ptn.calculate_ground_state_local_twosite(H, psi, ns, numiter, tsplit)
            elif alg == 'single':
                en = ptn.calculate_ground_state_local_singlesite(H, psi, ns, numiter_lanczos=numiter)
            else:
                en = ptn.calculate_ground_state_local_twosite(H, psi, ns, numiter_lanczos=numiter, tol_split=tsplit)
        except Exception as e:
            fail('returns', f'{where}: raised {type(e).__name__}: {e}')
            break
        if oracle.snapshot(H) != Hsnap:
            fail('H_unchanged', f'{where}: the Hamiltonian MPO was modified')
        try:
            en = np.asarray(en, dtype=float).reshape(-1)
            ok = len(en) == ns and bool(np.all(np.isfinite(en)))
        except Exception:
            ok = False
        if not ok:
            fail('energies_reported', f'{where}: returned {en!r}, expected {ns} finite energies')
            break
        bad = oracle.wf_mps(psi)
        if bad:
            fail('wf', f'{where}: ' + '; '.join(bad))
            break
        v = oracle.mps_dense(psi.A)
        n1 = float(np.linalg.norm(v))
        if not abs(n1 - 1.0) <= 1e-8:
            fail('unit_norm', f'{where}: norm of the returned state is {n1!r}')
        if n1 > 0 and np.isfinite(n1):
            E1 = float(np.real(np.vdot(v, Hd @ v)))
            if tsplit > 0:
                # the last local step reports the Ritz value of the two-site tensor *before* its truncated split; the returned
                # state differs from that state by at most 2 sqrt(tol_split) in norm, hence the energies by 4 ||H|| sqrt(tol_split)
                if not abs(E1 - en[-1]) <= 4 * nH * np.sqrt(tsplit) + tol:
                    fail('last_energy_within_truncation_bound', f'{where}, tol_split={tsplit}: <psi|H|psi> = {E1!r}, last reported energy '
                                                                f'{en[-1]!r}, bound {4 * nH * np.sqrt(tsplit):.3e}')
                elif not abs(E1 - en[-1]) <= tol:
                    fails.append(dict(clause='last_energy_is_state_energy', signature=f'{fname}:last_energy_is_state_energy:tol_split>0',
                                      detail=f'{where}, tol_split={tsplit}: <psi|H|psi> = {E1!r} but last reported energy {en[-1]!r} '
                                             f'(the value reported is the one before the truncated split of the last two-site tensor)'))
            elif not abs(E1 - en[-1]) <= tol:
                fail('last_energy_is_state_energy', f'{where}: <psi|H|psi> = {E1!r} but last reported energy {en[-1]!r} '
                                                    f'(difference {E1 - en[-1]:.3e}, ||H||={nH:.3g})')
        if not np.all(en >= Egs - tol):
            fail('variational_lower_bound', f'{where}: reported {en.tolist()} below exact sector ground-state energy {Egs!r}')
        if tsplit == 0 and not np.all(en <= Estart + tol):
            fail('not_above_start', f'{where}: reported {en.tolist()} above energy of the normalized start state {Estart!r}')
        if tsplit == 0 and len(en) > 1 and not np.all(np.diff(en) <= tol):
            fail('non_increasing', f'{where}: reported energies {en.tolist()} increase')
        if reach and j == 0 and not abs(en[-1] - Egs) <= 1e-7 * max(1.0, nH):
            fail('exact_on_complete_manifold', f'{where}: last energy {en[-1]!r} vs exact {Egs!r} (difference {en[-1] - Egs:.3e})')
        if [f for f in fails if not f['signature'].endswith('tol_split>0')]:
            break
        # the next invocation starts from the returned state
        Estart = float(en[-1]) if n1 <= 0 else h.energy(Hd, v)
    return dict(failures=fails, nontrivial=secdim >= 2, key=key, reach_checked=bool(reach))
