"""C09 bounded stand-in: TDVP is exact on a complete manifold (dense matrix exponential as oracle) and
single-site TDVP is exactly time-reversible, provided the local Krylov dimension covers the local problem.

Scope notes (oracle validity, DESIGN 4.5):
* exactness is only asserted on complete manifolds that are *uniform*: on every bond either all charge blocks have
  the full left dimension or all have the full right dimension (always true without quantum numbers, where the
  profile is min(d^i, d^(L-i))).  Then the projectors of consecutive sub-steps coincide pairwise, all sub-steps
  commute and the splitting is exact.  On a complete profile with mixed blocks (e.g. Heisenberg L=4, Sz=+1) the
  splitting error of the integrator is O(dt^3) although every vector of the sector is representable - this is a
  property of the algorithm, not a defect, and such sectors are not generated;
* exactness and reversibility presuppose a state of full Schmidt rank (rank == bond dimension on every bond,
  decided on the dense vector); at rank-deficient points QR shrinks bonds asymmetrically and the manifold changes;
* the Krylov count is >= the number of symmetry-allowed entries of every local tensor met (bond dimensions
  never exceed the initial ones in these cases)."""
import os
for _v in ('OMP_NUM_THREADS', 'OPENBLAS_NUM_THREADS', 'MKL_NUM_THREADS'):
    os.environ.setdefault(_v, '1')
import json, warnings
import numpy as np
import scipy.linalg
import pytenet as ptn
from . import oracle
from . import h_tdvp as h

RULE = ('kind exact: enumerated (integrator, Hamiltonian family, d, L, dt kind, steps) x seeded repetitions, random '
        'uniform complete charge sector of dimension >= 2, full-rank random state, |dt|*||H|| in [0.3,2], Krylov count '
        '>= local dimension; kind reverse: single-site, (family, d, L, bond style in reduced/complete/reduced2/one, dt kind, '
        'steps); non-trivial iff the state has full Schmidt rank, sector dimension >= 2 and H is not zero; '
        'distinct = descriptor')
BOUNDS = {'quick': 'L<=4 (d=4: L<=3), d in 2,3,4, 1..3 steps, |dt|*||H||<=2, reverse: D<=4',
          'thorough': 'L<=5 (d=4: L<=4), d in 2,3,4, 1..3 steps, |dt|*||H||<=2, reverse: D<=6'}

FAMILIES = [('ising', 2), ('heisenberg_xxz', 2), ('heisenberg_s1', 3), ('bose_hubbard', 2), ('bose_hubbard', 3),
            ('fermi_hubbard', 4), ('rand0', 2), ('rand0', 3), ('randq', 2), ('randq', 3), ('randqz', 2), ('randqz', 3), ('prodh', 2), ('prodh', 3)]
DTKINDS = ('real', 'negreal', 'imag', 'negimag', 'complex')


def _unit(kind, rng):
    if kind == 'real':
        return 1.0 + 0.0j
    if kind == 'negreal':
        return -1.0 + 0.0j
    if kind == 'imag':
        return 1.0j
    if kind == 'negimag':
        return -1.0j
    th = float(rng.uniform(0, 2 * np.pi))
    return complex(np.cos(th), np.sin(th))


def cases(tier, seed):
    rng = np.random.default_rng(seed)
    quick = tier == 'quick'
    Lmax = 4 if quick else 5
    reps = 2 if quick else 4
    k = 0
    for integ in ('single', 'two'):
        for (model, d) in FAMILIES:
            for L in range(1 if integ == 'single' else 2, Lmax + 1):
                if not h.model_available(model, L) or (d == 4 and L > Lmax - 1):
                    continue
                for dtkind in DTKINDS:
                    for r in range(reps):
                        k += 1
                        yield dict(kind='exact', integ=integ, model=model, d=d, L=L, dtkind=dtkind,
                                   steps=1 + k % 3, nitfac=(1, 2, 4)[(k // 3) % 3], seed=int(rng.integers(1 << 31)))
    # large steps (|dt| * ||H|| between 30 and 50, purely imaginary dt) on the largest chains: the local problems have more than 25
    # dimensions and a Krylov space of the default size 25 is far from enough, so every local step has to use the requested count
    for integ in ('single', 'two'):
        for (model, d) in FAMILIES:
            L = Lmax if d < 4 else Lmax - 1
            if not h.model_available(model, L):
                continue
            for dtkind in ('imag', 'negimag'):
                for r in range(reps):
                    k += 1
                    yield dict(kind='exact', integ=integ, model=model, d=d, L=L, dtkind=dtkind, steps=1, nitfac=1, big=True, seed=int(rng.integers(1 << 31)))
    # one-dimensional sectors (all bonds of dimension one)
    for integ in ('single', 'two'):
        for (model, d) in FAMILIES:
            for L in range(1 if integ == 'single' else 2, Lmax + 1):
                if not h.model_available(model, L) or (d == 4 and L > Lmax - 1) or model in ('ising', 'rand0'):
                    continue
                for dtkind in ('real', 'imag', 'complex'):
                    k += 1
                    yield dict(kind='exact', integ=integ, model=model, d=d, L=L, dtkind=dtkind, steps=1 + k % 3, nitfac=1, onedim=True, seed=int(rng.integers(1 << 31)))
    Dmax = 4 if quick else 6
    for (model, d) in FAMILIES:
        for L in range(1, Lmax + 1):
            if not h.model_available(model, L) or (d == 4 and L > Lmax - 1):
                continue
            for bstyle in ('reduced', 'complete', 'reduced2', 'one', 'random'):
                if L == 1 and bstyle != 'reduced':
                    continue
                for dtkind in ('real', 'imag', 'complex', 'complex'):
                    for r in range(reps):
                        k += 1
                        yield dict(kind='reverse', integ='single', model=model, d=d, L=L, bstyle=bstyle, Dmax=Dmax,
                                   dtkind=dtkind, steps=1 + k % 3, nitfac=(1, 2, 4)[(k // 3) % 3],
                                   seed=int(rng.integers(1 << 31)))


def run_case(c):
    warnings.simplefilter('ignore')
    rng = np.random.default_rng(c['seed'])
    key = json.dumps(c, sort_keys=True)
    L, integ = c['L'], c['integ']
    fname = 'integrate_local_singlesite' if integ == 'single' else 'integrate_local_twosite'
    fails = []

    def fail(clause, detail):
        fails.append(dict(clause=clause, detail=detail, signature=f'{fname}:{clause}'))

    def skip(why):
        return dict(failures=[], nontrivial=False, key=key, skipped=why)

    try:
        H = h.build_hamiltonian(c['model'], L, c['d'], rng)
    except Exception as e:      # construction of the model is the subject of C05/C06
        return skip(f'model construction raised {type(e).__name__}')
    Hd, nH = h.dense_hamiltonian(H)
    qd = [int(x) for x in getattr(H, 'state_qd', H.qd)]      # 'randqz': the state's labels differ from the (zeroed) labels of H
    d = len(qd)
    if c['kind'] == 'exact' and c.get('onedim'):
        # the one-dimensional sector of maximal (or minimal) total charge: every bond has dimension one, the state is an eigenvector
        # of H and exactness is about its phase / norm factor exp(-dt n E)
        qx = max(qd) if c['seed'] % 2 else min(qd)
        if qd.count(qx) != 1:
            return skip('extreme charge is not unique')
        st = dict(qD=[[i * qx] for i in range(L + 1)], qL=L * qx, complete=True, uniform=True)
    elif c['kind'] == 'exact':
        st = h.choose_state(rng, qd, L, 'complete', None, need_uniform=True)
    else:
        st = h.choose_state(rng, qd, L, c['bstyle'], c['Dmax'])
    if st is None:
        return skip('no uniform complete sector of dimension >= 2')
    psi = h.rand_state(rng, qd, st['qD'], scale=float(rng.choice([0.2, 1.0, 5.0])))
    if c['seed'] % 3 == 0:
        # real-valued tensors (float dtype) against possibly complex Hamiltonians
        for _i in range(len(psi.A)):
            psi.A[_i] = psi.A[_i].real.copy()
    if c['seed'] % 6 == 3:
        # the same state with all bond labels shifted by a constant (non-zero leading label): the rule qd + left = right is unchanged
        sh_ = int(rng.choice([-2, -1, 1, 3]))
        psi.qD = [np.asarray(q) + sh_ for q in psi.qD]
    if c['seed'] % 7 == 2:
        h.integer_tensors(psi)          # integer dtype: the algorithms have to promote the tensors themselves
    v0 = oracle.mps_dense(psi.A)
    n0 = float(np.linalg.norm(v0))
    if n0 < 1e-10:
        return skip('zero state')
    D0 = h.bond_dims(psi)
    fullrank = h.schmidt_ranks(v0, d, L) == D0
    returns_only = False
    if not fullrank:
        # rank-deficient point of the manifold (e.g. a bond larger than its neighbours allow): outside the validity of both
        # oracles; the reverse kind still requires that both calls return ("for any bond dimension")
        if c['kind'] != 'reverse':
            return skip('state is rank deficient')
        returns_only = True
    # Krylov count covers every local problem (symmetry-allowed entries; bond dimensions cannot grow here)
    nloc = h.local_dims(qd, st['qD'], twosite=(integ == 'two'))
    numiter = c['nitfac'] * nloc + 2
    z = _unit(c['dtkind'], rng)
    r = float(rng.uniform(0.3, 2.0)) if not c.get('big') else float(rng.uniform(30.0, 50.0))
    dt = z * r / nH if nH > 1e-12 else z * r
    steps = c['steps']
    psin = v0 / n0
    secdim = int(np.count_nonzero(h.sector_mask(qd, L, st['qL'])))
    nontrivial = (secdim >= 2 or bool(c.get('onedim'))) and nH > 1e-12

    def integrate(dtv):
        if integ == 'single':
            return ptn.integrate_local_singlesite(H, psi, dtv, steps, numiter_lanczos=numiter)
        return ptn.integrate_local_twosite(H, psi, dtv, steps, numiter_lanczos=numiter, tol_split=0)

    where = f'dt={dt:.6g} (|dt|*||H||={abs(dt) * nH:.3g}), steps={steps}, numiter={numiter} >= local dim {nloc}, bonds {D0}, sector {st["qL"]}'
    try:
        nrm1 = integrate(dt)
    except Exception as e:
        fail('returns', f'{where}: raised {type(e).__name__}: {e}')
        return dict(failures=fails, nontrivial=nontrivial, key=key)
    v1 = oracle.mps_dense(psi.A)
    if c['kind'] == 'exact':
        ref = scipy.linalg.expm(-dt * steps * Hd) @ psin
        nref = float(np.linalg.norm(ref))
        err = float(np.linalg.norm(v1 - ref))
        if not err <= 1e-8 * nref:
            fail('exact_on_complete_manifold', f'{where}: |psi - expm(-dt*n*H) psi0/|psi0|| = {err:.3e}, reference norm {nref:.3e}')
        return dict(failures=fails, nontrivial=nontrivial, key=key)
    # reversibility
    try:
        nrm2 = integrate(-dt)
    except Exception as e:
        fail('returns', f'{where}: backward call raised {type(e).__name__}: {e}')
        return dict(failures=fails, nontrivial=nontrivial, key=key)
    v2 = oracle.mps_dense(psi.A)
    if returns_only:
        if not (np.all(np.isfinite(v2)) and np.isfinite(complex(nrm2))):
            fail('returns', f'{where}: non-finite result at a rank-deficient state')
        return dict(failures=fails, nontrivial=False, key=key)
    try:
        back = complex(nrm2) * v2
        n2 = float(np.real(nrm2))
    except Exception:
        fail('reversible', f'{where}: second call returned {nrm2!r}')
        return dict(failures=fails, nontrivial=nontrivial, key=key)
    err = float(np.linalg.norm(back - psin))
    if not err <= 1e-8:
        fail('reversible', f'{where}: |nrm2 * Phi_(-dt)^n Phi_(dt)^n psi - psi/|psi|| = {err:.3e} (nrm2 = {n2!r})')
    if c['dtkind'] in ('imag', 'negimag') and not abs(n2 - 1.0) <= 1e-8:
        fail('second_norm_one', f'{where}: purely imaginary dt but the second call reports norm {n2!r}')
    return dict(failures=fails, nontrivial=nontrivial, key=key)
