"""Independent references for C06 / C07 (engine R), written only with NumPy / SciPy.

Nothing in this file imports pytenet, the repository's test helpers or the repository's operator maps.
Conventions (the ones the library documents / exposes through `as_matrix()`):

* site 0 is the most significant factor of the Kronecker product;
* local fermionic basis (|0>, |1>), i.e. a = [[0, 1], [0, 0]];
* spin-endowed sites: local basis |n_up n_dn> with index 2*n_up + n_dn, spin orbitals ordered
  (0 up, 0 dn, 1 up, 1 dn, ...), i.e. mode m = 2*i + sigma;
* Jordan-Wigner strings: parity-even operators do not depend on the orientation of the string (both are
  provided, `selfcheck()` compares them); `linear_fermionic_mpo` documents in its source "identity ... from the
  left and Z strings from the right", a_i = I^{(x) i} (x) a (x) Z^{(x)(L-i-1)}  ->  orientation='right'.
"""
import os
import re
import traceback
# single-threaded BLAS (as vt/check.py sets it for the runner); only effective if numpy is not yet imported
for _v in ('OMP_NUM_THREADS', 'OPENBLAS_NUM_THREADS', 'MKL_NUM_THREADS'):
    os.environ.setdefault(_v, '1')
import numpy as np
import scipy.sparse as sp


# ---------------------------------------------------------------------------------------------------------------
# classification of exceptions raised by the constructors (signatures of the known findings F1 / F2)

def exception_qualifier(e):
    """'AssertionError-final-coeff' (F1), 'ValueError-duplicate-edge-id' (F2) or 'other-<type>'"""
    tb = traceback.extract_tb(e.__traceback__)
    last = tb[-1] if tb else None
    if isinstance(e, AssertionError) and last is not None:
        line = (last.line or '').replace(' ', '')
        if 'coeffs_next[0]==1.0' in line:
            return 'AssertionError-final-coeff'
    if isinstance(e, ValueError) and re.search(r'edge with ID .* already exists', str(e)):
        return 'ValueError-duplicate-edge-id'
    return f'other-{type(e).__name__}'


def exception_where(e):
    tb = traceback.extract_tb(e.__traceback__)
    if not tb:
        return '?'
    last = tb[-1]
    return f'{last.filename.split("/")[-1]}:{last.lineno} `{(last.line or "").strip()}`'


# ---------------------------------------------------------------------------------------------------------------
# Kronecker helpers (dense)

def kron_list(ops):
    m = np.ones((1, 1))
    for o in ops:
        m = np.kron(m, o)
    return m


def site_sum(op, L):
    """sum_i 1 (x) ... (x) op_i (x) ... (x) 1"""
    d = op.shape[0]
    H = np.zeros((d ** L, d ** L), dtype=np.result_type(op.dtype, float))
    for i in range(L):
        H = H + np.kron(np.kron(np.identity(d ** i), op), np.identity(d ** (L - i - 1)))
    return H


def bond_sum(opa, opb, L):
    """sum_i opa_i opb_{i+1} (empty for L < 2)"""
    d = opa.shape[0]
    H = np.zeros((d ** L, d ** L), dtype=np.result_type(opa.dtype, opb.dtype, float))
    for i in range(L - 1):
        H = H + np.kron(np.kron(np.identity(d ** i), np.kron(opa, opb)), np.identity(d ** (L - i - 2)))
    return H


# ---------------------------------------------------------------------------------------------------------------
# spin models

PAULI_X = np.array([[0., 1.], [1., 0.]])
PAULI_Y = np.array([[0., -1j], [1j, 0.]])
PAULI_Z = np.array([[1., 0.], [0., -1.]])


def spin_matrices(two_s):
    """(Sx, Sy, Sz) for spin s = two_s/2 in the basis m = s, s-1, ..., -s"""
    s = two_s / 2
    ms = [s - k for k in range(two_s + 1)]
    d = len(ms)
    Sz = np.diag(ms).astype(float)
    Sp = np.zeros((d, d))
    for k in range(1, d):
        m = ms[k]                                     # S+ |m> = sqrt(s(s+1) - m(m+1)) |m+1>
        Sp[k - 1, k] = np.sqrt(s * (s + 1) - m * (m + 1))
    Sx = (Sp + Sp.T) / 2
    Sy = (Sp - Sp.T) / 2j
    return Sx, Sy, Sz


def ising_ref(L, J, h, g):
    """sum_i J sz_i sz_{i+1} + sum_i (h sz_i + g sx_i), Pauli matrices"""
    return J * bond_sum(PAULI_Z, PAULI_Z, L) + h * site_sum(PAULI_Z, L) + g * site_sum(PAULI_X, L)


def xxz_ref(L, J, D, h, two_s=1):
    """sum_i J (Sx Sx + Sy Sy) + D Sz Sz  -  h sum_i Sz_i, spin operators of spin two_s/2"""
    Sx, Sy, Sz = spin_matrices(two_s)
    H = J * (bond_sum(Sx, Sx, L) + bond_sum(Sy, Sy, L)) + D * bond_sum(Sz, Sz, L) - h * site_sum(Sz, L)
    return H


def bose_hubbard_ref(d, L, t, U, mu):
    """-t sum (b^dag_i b_{i+1} + h.c.) + U/2 sum n (n - 1) - mu sum n, occupations 0..d-1"""
    b = np.zeros((d, d))
    for n in range(1, d):
        b[n - 1, n] = np.sqrt(n)                      # b |n> = sqrt(n) |n-1>
    n_op = np.diag(np.arange(d, dtype=float))
    return (-t * (bond_sum(b.T, b, L) + bond_sum(b, b.T, L))
            + 0.5 * U * site_sum(n_op @ (n_op - np.identity(d)), L) - mu * site_sum(n_op, L))


# ---------------------------------------------------------------------------------------------------------------
# fermions

def fermi_ann_jw(n, orientation='left'):
    """annihilation operators of n modes as sparse matrices via Jordan-Wigner Kronecker products.
    orientation 'left':  c_k = Z^{(x)k} (x) a (x) I^{(x)(n-k-1)};  'right': c_k = I^{(x)k} (x) a (x) Z^{(x)(n-k-1)}"""
    a = sp.csr_matrix(np.array([[0., 1.], [0., 0.]]))
    Z = sp.csr_matrix(np.array([[1., 0.], [0., -1.]]))
    I = sp.identity(2, format='csr')
    ops = []
    for k in range(n):
        m = sp.identity(1, format='csr')
        for j in range(n):
            if j == k:
                f = a
            elif (j < k) == (orientation == 'left'):
                f = Z
            else:
                f = I
            m = sp.kron(m, f, format='csr')
        ops.append(m)
    return ops


def fermi_ann_fock(n):
    """annihilation operators of n modes built from their action on occupation-number states:
    c_k |n_0 ... n_{n-1}> = (-1)^{n_0 + ... + n_{k-1}} n_k |... 0_k ...>, mode 0 = most significant bit"""
    dim = 1 << n
    states = np.arange(dim)
    ops = []
    for k in range(n):
        bit = 1 << (n - 1 - k)
        occ = (states & bit) != 0
        src = states[occ]
        before = src >> (n - k)                        # bits of modes 0..k-1
        par = np.zeros(len(src), dtype=int)
        for j in range(k):
            par += (before >> j) & 1
        sign = 1.0 - 2.0 * (par % 2)
        ops.append(sp.csr_matrix((sign, (src ^ bit, src)), shape=(dim, dim)))
    return ops


def fermion_hamiltonian(T, V, ops=None):
    """sum_{mn} T[m,n] c^dag_m c_n + 1/2 sum_{mnpq} V[m,n,p,q] c^dag_m c^dag_n c_q c_p   (dense ndarray)"""
    T = np.asarray(T)
    V = np.asarray(V)
    n = T.shape[0]
    assert T.shape == (n, n) and V.shape == (n, n, n, n)
    c = fermi_ann_fock(n) if ops is None else ops
    cd = [x.conj().T.tocsr() for x in c]
    dim = 1 << n
    H = sp.csr_matrix((dim, dim), dtype=complex)
    for m in range(n):
        for k in range(n):
            if T[m, k] != 0:
                H = H + T[m, k] * (cd[m] @ c[k])
    # pair annihilators  c_q c_p
    pair = {(p, q): (c[q] @ c[p]) for p in range(n) for q in range(n) if p != q}
    for m in range(n):
        for k in range(n):
            if m == k or not np.any(V[m, k]):
                continue
            inner = sp.csr_matrix((dim, dim), dtype=complex)
            for (p, q), cc in pair.items():
                if V[m, k, p, q] != 0:
                    inner = inner + V[m, k, p, q] * cc
            H = H + 0.5 * ((cd[m] @ cd[k]) @ inner)
    return np.asarray(H.todense())


def spin_orbital_coefficients(t, v):
    """coefficients over modes m = 2*i + sigma of
    sum_{ij sigma} t_ij c^dag_{i sigma} c_{j sigma} + 1/2 sum v_ijkl c^dag_{i sigma} c^dag_{j tau} c_{l tau} c_{k sigma}"""
    t = np.asarray(t)
    v = np.asarray(v)
    L = t.shape[0]
    I2 = np.identity(2)
    T = np.einsum('ij,ab->iajb', t, I2).reshape(2 * L, 2 * L)
    V = np.einsum('ijkl,ac,bd->iajbkcld', v, I2, I2).reshape(2 * L, 2 * L, 2 * L, 2 * L)
    return T, V


def molecular_ref(t, v):
    return fermion_hamiltonian(t, v)


def spin_molecular_ref(t, v):
    T, V = spin_orbital_coefficients(t, v)
    return fermion_hamiltonian(T, V)


def fermi_hubbard_ref(L, t, U, mu):
    """-t sum_{i,sigma} (c^dag_{i sigma} c_{i+1 sigma} + h.c.) + U sum (n_up - 1/2)(n_dn - 1/2) - mu sum (n_up + n_dn)"""
    c = fermi_ann_jw(2 * L, 'left')
    cd = [x.conj().T.tocsr() for x in c]
    dim = 4 ** L
    I = sp.identity(dim, format='csr')
    H = sp.csr_matrix((dim, dim), dtype=float)
    for i in range(L):
        nu = cd[2 * i] @ c[2 * i]
        nd = cd[2 * i + 1] @ c[2 * i + 1]
        H = H + U * ((nu - 0.5 * I) @ (nd - 0.5 * I)) - mu * (nu + nd)
        if i + 1 < L:
            for s in (0, 1):
                hop = cd[2 * i + s] @ c[2 * (i + 1) + s]
                H = H - t * (hop + hop.conj().T)
    return np.asarray(H.todense())


def linear_fermionic_ref(coeff, ftype, orientation='right'):
    """sum_i f_i a^dag_i ('c', 'create', 'creation': the spellings accepted by the pinned source) or sum_i f_i a_i (any other)"""
    ftype = 'c' if ftype in ('c', 'create', 'creation') else 'a'
    coeff = np.asarray(coeff)
    L = len(coeff)
    c = fermi_ann_jw(L, orientation)
    M = sp.csr_matrix((2 ** L, 2 ** L), dtype=complex)
    for i in range(L):
        M = M + coeff[i] * (c[i].conj().T if ftype == 'c' else c[i])
    return np.asarray(M.todense())


# ---------------------------------------------------------------------------------------------------------------
# seeded coefficient tensors for the molecular Hamiltonians

COEFF_STYLES = ('complex', 'real', 'sparse', 'sparse_real', 'symmetric', 'padded', 'tonly', 'vonly', 'ints', 'diagonal')


def molecular_coefficients(rng, L, style):
    """(tkin, vint) of the given structural style; never identically zero"""
    def crand(shape):
        return (rng.standard_normal(shape) + 1j * rng.standard_normal(shape)) / np.sqrt(2)
    if style == 'real':
        t, v = rng.standard_normal((L, L)), rng.standard_normal((L, L, L, L))
    elif style == 'ints':
        t = rng.integers(-2, 3, (L, L)).astype(float)
        v = rng.integers(-2, 3, (L, L, L, L)).astype(float)
    elif style in ('sparse', 'sparse_real'):
        t, v = (crand((L, L)), crand((L, L, L, L))) if style == 'sparse' else \
               (rng.standard_normal((L, L)), rng.standard_normal((L, L, L, L)))
        t = t * (rng.random((L, L)) < 0.3)
        v = v * (rng.random((L, L, L, L)) < 0.08)
        if not t.any() and not v.any():
            k, l = (int(x) for x in rng.integers(0, L, 2))
            t[k, l] = 0.75
    elif style == 'symmetric':
        # Hermitian one-body part, two-body part with the symmetries of Coulomb integrals in physicists' notation:
        # v_ijkl = v_jilk = conj(v_klij)
        t = crand((L, L)); t = (t + t.conj().T) / 2
        v = crand((L, L, L, L))
        v = v + v.transpose(1, 0, 3, 2)
        v = (v + v.transpose(2, 3, 0, 1).conj()) / 2
    elif style == 'padded':
        # coefficients supported on a contiguous sub-block of orbitals, zero elsewhere
        t, v = crand((L, L)), crand((L, L, L, L))
        lo = int(rng.integers(0, L))
        hi = int(rng.integers(lo + 1, L + 1))
        mask = np.zeros(L)
        mask[lo:hi] = 1
        t = t * np.outer(mask, mask)
        v = v * np.einsum('i,j,k,l->ijkl', mask, mask, mask, mask)
    elif style == 'tonly':
        t, v = crand((L, L)), np.zeros((L, L, L, L))
    elif style == 'vonly':
        t, v = np.zeros((L, L)), crand((L, L, L, L))
    elif style == 'diagonal':
        # density-density form: t_ii and v_ijij only
        t = np.diag(rng.standard_normal(L))
        v = np.zeros((L, L, L, L))
        for i in range(L):
            for j in range(L):
                v[i, j, i, j] = rng.standard_normal()
    else:
        t, v = crand((L, L)), crand((L, L, L, L))
    return t, v


def rotate_coefficients(t, v, u2, i):
    """coefficients after the substitution a^dag_c -> sum_a u[c,a] a^dag_a with u = 1 (+) u2 (+) 1 acting on
    orbitals i, i+1:  t' = u^T t conj(u),  v'_{abcd} = sum u_ea u_fb conj(u_gc) conj(u_hd) v_efgh"""
    L = t.shape[0]
    u = np.identity(L, dtype=complex)
    u[i:i + 2, i:i + 2] = u2
    t2 = u.T @ t @ u.conj()
    v2 = np.einsum('ea,fb,gc,hd,efgh->abcd', u, u, u.conj(), u.conj(), v, optimize=True)
    return t2, v2


def random_unitary2(rng, style):
    if style == 'identity':
        return np.identity(2)
    if style == 'swap':
        return np.array([[0., 1.], [1., 0.]])
    if style == 'swap_int':
        return np.array([[0, 1], [1, 0]])
    if style == 'phases':
        return np.diag(np.exp(1j * rng.uniform(0, 2 * np.pi, 2)))
    if style == 'rotation':
        th = rng.uniform(0, 2 * np.pi)
        return np.array([[np.cos(th), -np.sin(th)], [np.sin(th), np.cos(th)]])
    if style == 'reflection':
        th = rng.uniform(0, 2 * np.pi)
        return np.array([[np.cos(th), np.sin(th)], [np.sin(th), -np.cos(th)]])
    # Haar-distributed element of U(2): QR of a Ginibre matrix with the phases of diag(R) fixed
    g = rng.standard_normal((2, 2)) + 1j * rng.standard_normal((2, 2))
    q, r = np.linalg.qr(g)
    ph = np.diag(r) / np.abs(np.diag(r))
    return q * ph


# ---------------------------------------------------------------------------------------------------------------

def selfcheck():
    """consistency of the independent references among themselves (run by hand, not part of any case)"""
    rng = np.random.default_rng(7)
    for n in range(1, 7):
        a = fermi_ann_jw(n, 'left')
        b = fermi_ann_fock(n)
        r = fermi_ann_jw(n, 'right')
        for k in range(n):
            assert abs(a[k] - b[k]).max() == 0
        for ops in (a, r):
            for k in range(n):
                for l in range(n):
                    ac = ops[k] @ ops[l].conj().T + ops[l].conj().T @ ops[k]
                    assert abs(ac - (k == l) * sp.identity(2 ** n)).max() == 0
                    assert abs(ops[k] @ ops[l] + ops[l] @ ops[k]).max() == 0
        if n >= 1:
            t, v = molecular_coefficients(rng, n, 'complex')
            assert np.allclose(fermion_hamiltonian(t, v, a), fermion_hamiltonian(t, v, r), atol=1e-12)
    return True
