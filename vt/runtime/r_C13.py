"""C13 bounded stand-in: MPS.compress and MPS.from_vector obey their truncation error bounds."""
import itertools, json
import os
for _v in ('OMP_NUM_THREADS', 'OPENBLAS_NUM_THREADS', 'MKL_NUM_THREADS'):     # tiny matrices, 14 worker processes:
    os.environ.setdefault(_v, '1')                                            # threaded BLAS only causes contention
import numpy as np
import pytenet as ptn
from . import gen, oracle

RULE = ('kind=compress: (L, d, state style {product, flat, stair (Schmidt weights just below the threshold), stair_above, '
        'decay, random bond profile}, charge style, tol in {0,1e-12,1e-4,0.05,0.9/L}, mode) x seeded coefficients; structured '
        'states are superpositions of K<=8 computational basis states of equal total charge (bond dimension K, Schmidt '
        'weights = grouped |c_k|^2); kind=from_vector: (n, d, vector style, tol); zero states are skipped (trivial); '
        'distinct = distinct descriptor')
BOUNDS = {'quick': 'L<=5, d<=3, D<=8', 'thorough': 'L<=6, d<=3, D<=8, 8 repetitions'}
EXHAUSTIVE = {'quick': False, 'thorough': False}

STYLES = ('product', 'flat', 'stair', 'stair_above', 'chain', 'chain_above', 'decay', 'random', 'random_max')
QST = ('zero', 'number', 'spin', 'repeated', 'large')
MARGIN = 1e-9
SQTOL = 1e-12        # squared-form identities of a multi-step sweep, relative to nrm^2


def tol_value(L, t):
    return 0.9 / L if t == '0.9/L' else float(t)


def cases(tier, seed):
    rng = np.random.default_rng(seed)
    Ls = range(1, 6) if tier == 'quick' else range(1, 7)
    reps = 1 if tier == 'quick' else 8
    for L in Ls:
        for d in (2, 3):
            for style in STYLES:
                for qst in QST:
                    if tier == 'quick' and qst in ('repeated', 'large') and style not in ('random', 'stair'):
                        continue
                    for t in ('0', '1e-12', '1e-4', '0.05', '0.9/L'):
                        for mode in ('left', 'right'):
                            for r in range(reps):
                                yield dict(kind='compress', L=L, d=d, style=style, qstyle=qst, tol=t, mode=mode,
                                           seed=int(rng.integers(1 << 31)))
    for n in Ls:
        for d in (1, 2, 3):
            if d ** n > 729:
                continue
            for vs in ('complex', 'real', 'int', 'product', 'flat', 'stair', 'lowrank', 'chain', 'chain_above'):
                for t in ('0', '1e-12', '1e-4', '0.05', '0.9/L'):
                    for r in range(reps):
                        yield dict(kind='from_vector', n=n, d=d, vstyle=vs, tol=t, seed=int(rng.integers(1 << 31)))
                        if r == 0 and vs in ('complex', 'real', 'lowrank') and t in ('0', '1e-4'):
                            # the error bounds are relative: the same vector at a scale where squares under- / overflow (exact power of two)
                            yield dict(kind='from_vector', n=n, d=d, vstyle=vs, tol=t, scale2=(-600, 600)[(n + d) % 2], seed=int(rng.integers(1 << 31)))
    # vectors made of a dominant weakly entangled branch and a low-weight, highly entangled branch (the error bound sqrt(L tol) of
    # the sequential splitting is attained only if the weights travel with the remainder)
    for r in range(6 if tier == 'quick' else 40):
        n, h = (12, 4) if r % 2 == 0 else (13, 5)
        eps, b2 = ((0.05, 0.33), (0.03, 0.3))[r % 2] if r < 4 else (float(rng.uniform(0.03, 0.06)), float(rng.uniform(0.27, 0.38)))
        yield dict(kind='from_vector', n=n, d=2, vstyle='branch', h=h, tol=('0.02', '0.01')[r % 2], eps=eps, b2=b2, seed=int(rng.integers(1 << 31)))
    # the tolerance rule itself on exactly representable spectra: ties between tol and a cumulative weight, exact zeros
    # (decided in exact rational arithmetic; shared with the C12 stand-in)
    from . import r_C12
    for i in range(len(r_C12.DYADIC)):
        for r in range(2 if tier == 'quick' else 10):
            yield dict(kind='rbi', spectrum=i, shift=int(rng.integers(-3, 4)) if r % 2 else int(rng.choice([-900, -600, 600, 900])), seed=int(rng.integers(1 << 31)))
            yield dict(kind='tie', spectrum=i, shift=int(rng.integers(-3, 4)), seed=int(rng.integers(1 << 31)))


# ------------------------------------------------------------------------------------------------------------------

def phys_charges(rng, d, qst):
    if qst == 'zero':
        return [0] * d
    if qst == 'number':
        return list(range(d))
    if qst == 'spin':
        return [1, -1] if d == 2 else [1, 0, -1]
    if qst == 'repeated':
        return [0, 0] if d == 2 else [0, 1, 0]
    if qst == 'large':
        return [100003 * x - 7 for x in ([1, -1] if d == 2 else [2, -1, 0])]
    raise ValueError(qst)


def coefficients(rng, K, style, tol):
    """|c_k|^2 weights (normalised to 1 before the random overall scale)"""
    if style in ('flat', 'product'):
        w = np.ones(K)
    elif style == 'decay':
        w = 0.25 ** np.arange(K)
    else:
        t = tol if tol > 0 else 1e-3
        small = t * (0.999 if style == 'stair' else 1.001)
        ns = min(2, K - 1)
        if ns == 0 or ns * small >= 0.9:
            w = np.ones(K)
        else:
            w = np.concatenate([np.full(ns, small), np.full(K - ns, (1 - ns * small) / (K - ns))])
    w = w / w.sum()
    ph = np.exp(2j * np.pi * rng.uniform(size=K))
    return np.sqrt(w) * ph


def chain_states(L, tol, style):
    """alternating basis state 0101.. plus, for every cut b, the state with sites b-1,b swapped (same total charge for any
    physical charges).  The swapped state is an exact Schmidt component of weight x at cut b and at no other cut, so a
    sweep discards weight ~x at EVERY bond: x = 0.95*tol puts the accumulated error at (L-1)*0.95*tol, right under the
    bound L*tol; x = 1.5*tol must not be truncated at all."""
    base = tuple(i % 2 for i in range(L))
    sel = [base]
    for b in range(1, L):
        s = list(base); s[b - 1], s[b] = s[b], s[b - 1]
        sel.append(tuple(s))
    t = tol if tol > 0 else 1e-3
    x = t * (0.95 if style == 'chain' else 1.5)
    if L > 1:
        x = min(x, 0.5 / (L - 1))
    w = np.array([1 - (L - 1) * x] + [x] * (L - 1))
    return sel, w


def superposition_mps(rng, L, d, qd, style, tol):
    """MPS (bond dimension K) of sum_k c_k |basis state k>, all basis states of equal total charge"""
    states = list(itertools.product(range(d), repeat=L))
    groups = {}
    for s in states:
        groups.setdefault(sum(qd[x] for x in s), []).append(s)
    if style in ('chain', 'chain_above'):
        sel, w = chain_states(L, tol, style)
        groups = {}
    big = [g for g in groups.values() if len(g) >= min(4, max(len(x) for x in groups.values()))]
    if style in ('chain', 'chain_above'):
        K = len(sel)
        c = np.sqrt(w) * np.exp(2j * np.pi * rng.uniform(size=K)) * float(10.0 ** rng.uniform(-1, 1))
    else:
        grp = big[int(rng.integers(len(big)))]
        K = 1 if style == 'product' else min(len(grp), int(rng.integers(2, 9)))
        sel = [grp[i] for i in rng.permutation(len(grp))[:K]]
        c = coefficients(rng, K, style, tol) * float(10.0 ** rng.uniform(-1, 1))
    qD = [[0]]
    for i in range(1, L):
        qD.append([sum(qd[x] for x in s[:i]) for s in sel])
    qD.append([sum(qd[x] for x in sel[0])])
    psi = ptn.MPS(qd, qD, fill='postpone')
    for i in range(L):
        Dl, Dr = len(qD[i]), len(qD[i + 1])
        A = np.zeros((d, Dl, Dr), dtype=complex)
        for k, s in enumerate(sel):
            a = 0 if i == 0 else k
            b = 0 if i == L - 1 else k
            A[s[i], a, b] += c[k] if i == 0 else 1.0
        psi.A[i] = A
    return psi


def rule_range(sig, tol):
    """number of Schmidt values the tolerance rule keeps: (r_lo, r_hi) allowing for rounding of the cumulative weights"""
    x = np.sort(np.asarray(sig, dtype=float) ** 2)
    cum = np.cumsum(x) / x.sum()
    return int(np.sum(cum > tol + MARGIN)), int(np.sum(cum > tol - MARGIN))


def run_case(c):
    rng = np.random.default_rng(c['seed'])
    fails = []
    key = json.dumps(c, sort_keys=True)
    fname = 'MPS.compress' if c['kind'] == 'compress' else 'MPS.from_vector'

    def fail(clause, detail):
        fails.append(dict(clause=clause, detail=detail, signature=f'{fname}:{clause}'))
    if c['kind'] in ('rbi', 'tie'):
        from . import r_C12
        return r_C12.run_case(c)
    if c['kind'] == 'from_vector':
        return run_from_vector(c, rng, fail, fails, key)
    L, d, mode = c['L'], c['d'], c['mode']
    tol = tol_value(L, c['tol'])
    qd = phys_charges(rng, d, c['qstyle'])
    if c['style'] in ('random', 'random_max'):
        Ds = gen.bond_profile(rng, L, d, 8, 'random' if c['style'] == 'random' else 'max')
        qs = {'zero': 'zero', 'number': 'consistent', 'spin': 'sorted', 'repeated': 'repeated', 'large': 'consistent'}[c['qstyle']]
        psi = gen.rand_mps(rng, L, d, Ds, qs, 'complex' if rng.integers(2) else 'real', qd=qd)
    else:
        psi = superposition_mps(rng, L, d, qd, c['style'], tol)
    v0 = oracle.mps_dense(psi.A)
    n0 = float(np.linalg.norm(v0))
    if n0 < 1e-12:
        return dict(failures=[], nontrivial=False, key=key)       # property speaks of non-zero states only
    D0 = [len(q) for q in psi.qD]
    try:
        ret = psi.compress(tol, mode=mode)
    except Exception as e:
        if type(e).__name__ == 'CaseTimeout':      # the runner's wall-clock alarm must reach the runner
            raise
        fail('returns', f'compress({tol}, {mode}) raised {type(e).__name__}: {e}')
        return dict(failures=fails, nontrivial=True, key=key)
    try:
        nrm, scale = ret
        nrm = complex(nrm); scale = complex(scale)
    except Exception as e:
        if type(e).__name__ == 'CaseTimeout':      # the runner's wall-clock alarm must reach the runner
            raise
        fail('return_type', f'compress returned {ret!r}, expected (norm, scale)')
        return dict(failures=fails, nontrivial=True, key=key)
    if nrm.imag != 0 or scale.imag != 0:
        fail('return_type', f'compress returned non-real (norm, scale) = {ret!r}')
        return dict(failures=fails, nontrivial=True, key=key)
    nrm, scale = nrm.real, scale.real
    if abs(nrm - n0) > 1e-9 * max(1.0, n0):
        fail('nrm_is_norm', f'returned norm {nrm} vs norm of the original state {n0}')
    if not (scale <= 1 + 1e-9 and scale >= 0 and scale ** 2 >= 1 - L * tol - 1e-9):
        fail('scale_range', f'scale {scale} outside [sqrt(1-L*tol), 1] = [{np.sqrt(max(0, 1 - L * tol))}, 1]')
    # structural consistency needed for a dense contraction
    ok = len(psi.A) == L and all(isinstance(A, np.ndarray) and A.ndim == 3 and A.shape[0] == d for A in psi.A)
    ok = ok and psi.A[0].shape[1] == 1 and psi.A[-1].shape[2] == 1 and all(psi.A[i].shape[2] == psi.A[i + 1].shape[1] for i in range(L - 1))
    if not ok:
        fail('shapes', f'tensor shapes after compress: {[getattr(A, "shape", None) for A in psi.A]}')
        return dict(failures=fails, nontrivial=True, key=key)
    D1 = [psi.A[0].shape[1]] + [A.shape[2] for A in psi.A]
    if [len(q) for q in psi.qD] != D1:
        fail('shapes', f'len of bond charges {[len(q) for q in psi.qD]} != bond dimensions {D1}')
    if any(a > b for a, b in zip(D1, D0)):
        fail('bond_dims', f'bond dimensions grew: {D0} -> {D1}')
    v1 = oracle.mps_dense(psi.A)
    if abs(np.linalg.norm(v1) - 1) > 1e-9:
        fail('unit_norm', f'norm after compress = {np.linalg.norm(v1)}')
    for i, A in enumerate(psi.A):
        G = np.einsum('sab,sac->bc', A.conj(), A) if mode == 'left' else np.einsum('sab,scb->ac', A.conj(), A)
        if not oracle.close(G, np.identity(G.shape[0]), scale=1.0, tol=1e-9):
            fail('isometry', f'site {i} is not a {mode} isometry (deviation {np.linalg.norm(G - np.identity(G.shape[0]))})')
            break
    err2 = float(np.linalg.norm(nrm * scale * v1 - v0) ** 2)
    if abs(err2 - nrm ** 2 * (1 - scale ** 2)) > SQTOL * n0 ** 2:
        fail('error_identity', f'|nrm*scale*new - old|^2 = {err2} vs nrm^2*(1-scale^2) = {nrm**2 * (1 - scale**2)} (nrm^2 = {n0**2})')
    if err2 > n0 ** 2 * L * tol + SQTOL * n0 ** 2:
        fail('error_bound', f'|nrm*scale*new - old|^2 = {err2} > nrm^2*L*tol = {n0**2 * L * tol}')
    if tol == 0:
        if not oracle.close(nrm * scale * v1, v0, scale=max(1.0, n0), tol=1e-9):
            fail('tol0_exact', f'tol=0 but |nrm*scale*new - old| = {np.sqrt(err2)} (norm {n0})')
        if abs(scale - 1) > 1e-9:
            fail('tol0_exact', f'tol=0 but scale = {scale}')
    # first truncated bond (in sweep order): compare with an independent SVD of the dense state across that bond
    bonds = range(1, L) if mode == 'left' else range(L - 1, 0, -1)
    for b in bonds:
        M = v0.reshape(d ** b, d ** (L - b))
        sig = np.linalg.svd(M, compute_uv=False)
        W = float(np.sum(sig ** 2))
        r = D1[b]
        rlo, rhi = rule_range(sig, tol)
        if not (rlo <= r <= max(rhi, 1)):
            fail('first_bond', f'bond {b}: kept {r} Schmidt values, tolerance rule prescribes {rlo if rlo == rhi else (rlo, rhi)}; '
                               f'relative weights {(np.sort(sig**2)[::-1] / W).tolist()} tol={tol}')
            break
        if r > len(sig):
            break
        # the kept sub-space must carry exactly the r largest Schmidt weights (<= always; == iff dominant sub-space)
        if mode == 'left':
            Lm = np.ones((1, 1), dtype=complex)
            for A in psi.A[:b]:
                Lm = np.einsum('xa,sab->xsb', Lm, A).reshape(Lm.shape[0] * A.shape[0], A.shape[2])
            cap = float(np.linalg.norm(Lm.conj().T @ M) ** 2)
        else:
            Rm = np.ones((1, 1), dtype=complex)
            for A in reversed(psi.A[b:]):
                Rm = np.einsum('sab,bx->asx', A, Rm).reshape(A.shape[1], A.shape[0] * Rm.shape[1])
            cap = float(np.linalg.norm(M @ Rm.conj().T) ** 2)
        top = float(np.sum(sig[:r] ** 2))
        if abs(cap - top) > SQTOL * W:
            fail('first_bond', f'bond {b}: kept sub-space carries weight {cap / W}, the {r} largest Schmidt values carry {top / W}')
            break
        if (W - top) / W > 1e-26:
            break              # this was the first truncated bond; later bonds no longer see the original state
    trivial = False
    return dict(failures=fails, nontrivial=not trivial, key=key)


def _basis(bits):
    v = np.array([1.0])
    for b in bits:
        e = np.zeros(2); e[b] = 1.0
        v = np.kron(v, e)
    return v


def branch_vector(n, h, eps, b2):
    """|0> (x) Phi sqrt(1 - eps) + |1> (x) Psi sqrt(eps): Phi is a product state up to site h with one Schmidt pair (1 - b2, b2)
    behind it, Psi has a flat Schmidt spectrum of rank 2^h"""
    m = n - 1
    psi = np.zeros(2 ** m)
    for x in range(2 ** h):
        xb = [(x >> k) & 1 for k in range(h)]
        psi += _basis(xb + [1] + xb + [0] * (m - 2 * h - 1))
    psi /= np.linalg.norm(psi)
    phi = np.kron(_basis([0] * h), np.sqrt(1 - b2) * _basis([0] * (m - h)) + np.sqrt(b2) * _basis([1] * (m - h)))
    v = np.concatenate([np.sqrt(1 - eps) * phi, np.sqrt(eps) * psi])
    return v / np.linalg.norm(v)


def make_vector(rng, d, n, vs, tol):
    N = d ** n
    if vs == 'complex':
        v = rng.standard_normal(N) + 1j * rng.standard_normal(N)
    elif vs == 'real':
        v = rng.standard_normal(N)
    elif vs == 'int':
        v = rng.integers(-3, 4, N)
        if not np.any(v):
            v[0] = 1
    elif vs == 'product':
        v = np.ones(1, dtype=complex)
        for _ in range(n):
            v = np.kron(v, rng.standard_normal(d) + 1j * rng.standard_normal(d))
    elif vs in ('flat', 'stair'):
        # superposition of up to d 'diagonal' basis states |kk..k> : Schmidt weights |c_k|^2 across every bond
        K = d
        if vs == 'flat' or K == 1:
            w = np.ones(K)
        else:
            t = tol if tol > 0 else 1e-3
            small = 0.999 * t
            w = np.concatenate([[small], np.full(K - 1, (1 - small) / (K - 1))])
        v = np.zeros(N, dtype=complex)
        for k in range(K):
            idx = sum(k * d ** i for i in range(n))
            v[idx] = np.sqrt(w[k]) * np.exp(2j * np.pi * rng.uniform())
    elif vs in ('chain', 'chain_above'):
        if d == 1:
            return np.ones(1, dtype=complex)
        sel, w = chain_states(n, tol, vs)
        v = np.zeros(N, dtype=complex)
        for st, wk in zip(sel, w):
            idx = 0
            for x in st:
                idx = idx * d + x
            v[idx] = np.sqrt(wk) * np.exp(2j * np.pi * rng.uniform())
    elif vs == 'lowrank':
        # sum of two random product states with weights on the staircase
        v = np.zeros(N, dtype=complex)
        for wgt in (1.0, np.sqrt(max(tol, 1e-6) * 0.9)):
            p = np.ones(1, dtype=complex)
            for _ in range(n):
                x = rng.standard_normal(d) + 1j * rng.standard_normal(d)
                p = np.kron(p, x / np.linalg.norm(x))
            v = v + wgt * p
    else:
        raise ValueError(vs)
    return v * (1 if vs == 'int' else float(10.0 ** rng.uniform(-1, 1)))


def run_from_vector(c, rng, fail, fails, key):
    n, d = c['n'], c['d']
    tol = tol_value(n, c['tol'])
    v = branch_vector(n, c['h'], c['eps'], c['b2']) if c['vstyle'] == 'branch' else make_vector(rng, d, n, c['vstyle'], tol)
    nv = float(np.linalg.norm(v))
    if nv < 1e-12:
        return dict(failures=[], nontrivial=False, key=key)
    v_unit = v
    sc2 = 2.0 ** c.get('scale2', 0)
    v = v * sc2                       # exact
    snap = oracle.snapshot(v)
    try:
        psi = ptn.MPS.from_vector(d, n, v, tol=tol)
    except Exception as e:
        if type(e).__name__ == 'CaseTimeout':      # the runner's wall-clock alarm must reach the runner
            raise
        fail('returns', f'from_vector({d}, {n}, v, {tol}) raised {type(e).__name__}: {e}')
        return dict(failures=fails, nontrivial=True, key=key)
    if oracle.snapshot(v) != snap:
        fail('args_unchanged', 'from_vector modified its argument')
    A = psi.A
    ok = len(A) == n and all(isinstance(a, np.ndarray) and a.ndim == 3 and a.shape[0] == d for a in A)
    ok = ok and A[0].shape[1] == 1 and A[-1].shape[2] == 1 and all(A[i].shape[2] == A[i + 1].shape[1] for i in range(n - 1))
    if not ok:
        fail('shapes', f'tensor shapes: {[getattr(a, "shape", None) for a in A]}')
        return dict(failures=fails, nontrivial=True, key=key)
    w = oracle.mps_dense(A) / sc2     # exact rescaling back to the unit scale
    v = v_unit
    if not np.all(np.isfinite(w)):
        fail('returns', f'non-finite state for a vector of scale 2**{c.get("scale2", 0)}')
        return dict(failures=fails, nontrivial=True, key=key)
    err2 = float(np.linalg.norm(w - v) ** 2)
    if err2 > n * tol * nv ** 2 + 1e-12 * nv ** 2:
        fail('error_bound', f'relative error^2 {err2 / nv**2} > L*tol = {n * tol}')
    if tol == 0 and not oracle.close(w, v, scale=max(1.0, nv), tol=1e-9):
        fail('tol0_exact', f'tol=0 but |mps - v| = {np.sqrt(err2)} (norm {nv})')
    return dict(failures=fails, nontrivial=not (d == 1), key=key)
