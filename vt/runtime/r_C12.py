"""C12 bounded stand-in: split_matrix_svd / retained_bond_indices / split_mps_tensor truncate exactly the
smallest weights within tolerance."""
import json
from fractions import Fraction
import os
for _v in ('OMP_NUM_THREADS', 'OPENBLAS_NUM_THREADS', 'MKL_NUM_THREADS'):     # tiny matrices, 14 worker processes:
    os.environ.setdefault(_v, '1')                                            # threaded BLAS only causes contention
import numpy as np
from pytenet import bond_ops
from pytenet import mps as ptn_mps
from . import oracle
from . import h_C11 as h

RULE = ('kind=enum: every charge-vector pair over {-1,0,1}^m x {-1,0,1}^n (base-3 code range [lo,hi) step stride) x block '
        'spectrum {decaying, degenerate, rankdef, flat, zero} x tolerances {0, 0.15, 0.99, each cumulative weight, each '
        'cumulative weight*(1+-1e-6)}; kind=rand: seeded shapes <=24x24, 9 charge styles, masked random entries or '
        'prescribed spectra; kind=tie: 1x1 blocks with dyadic singular values so that tol == cumulative weight exactly '
        '(decided in exact rational arithmetic); kind=rbi: retained_bond_indices directly (dyadic ties, random spectra, '
        'zero vector); kind=mps_split: split_mps_tensor with the three distributions. Distinct = distinct descriptor; '
        'non-trivial unless the matrix is 1x1')
BOUNDS = {'quick': 'exhaustive charge vectors for m,n<=3; 1/7 subsample for shapes with a side of 4; random <=24x24; '
                   'two-site tensors d0,d1<=3, D<=4',
          'thorough': 'all charge vectors for m,n<=5 (1/5 subsample for 5x5 only); random <=24x24; two-site tensors d<=3, D<=4'}
EXHAUSTIVE = {'quick': False, 'thorough': False}

SPECTRA = ('decaying', 'degenerate', 'rankdef', 'flat')
MAXFAIL = 5
MARGIN = 1e-12       # on relative weights (rounding of a cumulative weight is ~1e-16)

DYADIC = ([1, 1, 1, 1], [3, 2, 1, 1, 1], [2, 2, 2, 1, 1, 1, 1], [7, 3, 2, 1, 1], [1], [2, 0, 0], [3, 2, 1, 1, 1, 0],
          [5, 5, 3, 2, 1], [4, 4, 4, 4], [6, 4, 2, 2, 2], [1, 1, 1, 1, 0, 0], [2, 2, 2, 2, 4, 4, 4], [8])


def cases(tier, seed):
    rng = np.random.default_rng(seed)
    N = 4 if tier == 'quick' else 5
    for m in range(1, N + 1):
        for n in range(1, N + 1):
            total = 3 ** (m + n)
            stride, off = 1, 0
            if tier == 'quick' and max(m, n) == 4:
                stride, off = 7, seed % 7
            if tier != 'quick' and (m, n) == (5, 5):
                stride, off = 5, seed % 5
            for spec in SPECTRA + ('zero',):
                if spec == 'zero' and max(m, n) > 3:
                    continue
                for cplx in (True, False):
                    if not cplx and spec not in ('decaying', 'degenerate'):
                        continue
                    for lo, hi in h.chunks(total, 243 * stride):
                        yield dict(kind='enum', m=m, n=n, lo=lo + off, hi=hi, stride=stride, spectrum=spec, cplx=cplx,
                                   relabel=bool(spec == 'decaying' and cplx), seed=int(rng.integers(1 << 31)))
    reps = 2 if tier == 'quick' else 20
    for style in h.QSTYLES:
        for src in SPECTRA + ('entries_real', 'entries_complex', 'entries_int', 'entries_rankdef'):
            for r in range(reps):
                yield dict(kind='rand', style=style, source=src, count=6, seed=int(rng.integers(1 << 31)))
    for i in range(len(DYADIC)):
        for r in range(3 if tier == 'quick' else 20):
            yield dict(kind='tie', spectrum=i, shift=int(rng.integers(-3, 4)), seed=int(rng.integers(1 << 31)))
            # the rule is scale invariant: also spectra whose squares under- or overflow (exact powers of two)
            yield dict(kind='rbi', spectrum=i, shift=int(rng.integers(-3, 4)) if r % 3 else int(rng.choice([-900, -600, 600, 900])), seed=int(rng.integers(1 << 31)))
    for r in range(20 if tier == 'quick' else 200):
        yield dict(kind='rbi', spectrum=-1, shift=0, seed=int(rng.integers(1 << 31)))
    for distr in ('left', 'right', 'sqrt'):
        for spec in SPECTRA + ('entries',):
            for r in range(8 if tier == 'quick' else 80):
                yield dict(kind='mps_split', distr=distr, spectrum=spec, count=8, seed=int(rng.integers(1 << 31)))


# ------------------------------------------------------------------------------------------------------------------

def make_spectra(rng, q0, q1, kind):
    """dict charge -> singular values of the block; total K values of the requested kind, randomly spread over blocks"""
    bl = h.blocks(q0, q1)
    ks = [min(len(I), len(J)) for (_, I, J) in bl]
    K = sum(ks)
    if kind == 'decaying':
        vals = 2.0 ** -np.arange(K) if K <= 8 else 0.8 ** np.arange(K)
    elif kind == 'degenerate':
        vals = 2.0 ** -(np.arange(K) // 2) if K <= 12 else 0.8 ** (np.arange(K) // 3)
    elif kind == 'flat':
        vals = np.ones(K)
    elif kind == 'rankdef':
        vals = 2.0 ** -np.arange(K) if K <= 8 else 0.8 ** np.arange(K)
        nz = min(K, max(1, K // 2))
        vals = np.concatenate([vals[:nz], np.zeros(K - nz)])
    elif kind == 'zero':
        vals = np.zeros(K)
    else:
        raise ValueError(kind)
    vals = vals[rng.permutation(K)] if K else vals
    out, p = {}, 0
    for (c, _, _), k in zip(bl, ks):
        out[c] = vals[p:p + k]; p += k
    return out


def tolerances(sref):
    """0, 0.15, 0.99, every cumulative relative weight (from the smallest value upwards) and its +-1e-6 neighbours"""
    tols = [0.0, 0.15, 0.99]
    W = float(np.sum(sref ** 2))
    if W > 0:
        cum = np.cumsum(np.sort(sref ** 2)) / W
        seen = set()
        for c in cum[:-1]:
            c = float(c)
            if c <= 1e-6 or c >= 1 - 1e-5 or round(c, 9) in seen:
                continue
            seen.add(round(c, 9))
            tols += [c, c * (1 + 1e-6), c * (1 - 1e-6)]
        if len(tols) > 18:      # many distinct cumulative weights (random shapes): deterministic thinning
            tols = tols[:3] + tols[3:][:: max(1, (len(tols) - 3) // 15)]
    return tols


def truncation_clauses(sref, skept, tol, nA, fail, tag):
    """sref: independent full spectrum (descending); skept: returned values.  Float version with margins."""
    r = len(skept)
    W = float(np.sum(sref ** 2))
    if r > len(sref):
        fail('too_many', f'{tag}: {r} values returned, matrix has only {len(sref)} block singular values')
        return
    if r == 0:
        fail('keeps_none', f'{tag}: every singular value of a non-zero matrix was discarded (tol={tol})')
        return
    if not np.all(skept > 0):
        fail('s_positive', f'{tag}: kept singular values not all > 0: {skept.tolist()}')
    if not oracle.close(np.sort(skept)[::-1], sref[:r], scale=max(1.0, nA), tol=1e-9):
        fail('ordering', f'{tag}: kept values {np.sort(skept)[::-1].tolist()} are not the {r} largest singular values '
                         f'{sref.tolist()} (a kept value is smaller than a discarded one)')
        return
    disc = float(np.sum(sref[r:] ** 2)) / W
    if disc > tol + MARGIN:
        fail('disc_weight', f'{tag}: discarded relative weight {disc} > tol {tol}')
    nxt = float(sref[r - 1] ** 2) / W
    if disc + nxt <= tol - MARGIN:
        fail('maximal', f'{tag}: discarding one more would give weight {disc + nxt} <= tol {tol}; kept {r} of {len(sref)}')


def check_split(A, q0, q1, tol, sref, fail, tag):
    m, n = A.shape
    nA = float(np.linalg.norm(A))
    snap = oracle.snapshot([A, q0, q1])
    try:
        u, s, v, q = bond_ops.split_matrix_svd(A, q0, q1, tol)
    except Exception as e:
        if type(e).__name__ == 'CaseTimeout':      # the runner's wall-clock alarm must reach the runner
            raise
        fail('returns', f'{tag}: split_matrix_svd raised {type(e).__name__}: {e}')
        return None
    if oracle.snapshot([A, q0, q1]) != snap:
        fail('args_unchanged', f'{tag}: an argument was modified')
    ok = (isinstance(u, np.ndarray) and isinstance(v, np.ndarray) and u.ndim == 2 and v.ndim == 2 and np.ndim(s) == 1
          and u.shape[0] == m and v.shape[1] == n)
    if not ok:
        fail('shapes', f'{tag}: u {getattr(u, "shape", None)} v {getattr(v, "shape", None)} s {np.shape(s)}')
        return None
    s = np.asarray(s)
    rec = (u * s) @ v if len(s) else np.zeros((m, n))
    if nA == 0:
        # zero matrix: only "product equals zero without raising"
        if u.shape[1] != len(s) or v.shape[0] != len(s) or np.linalg.norm(rec) != 0:
            fail('zero_matrix', f'{tag}: product for the zero matrix is not zero / inconsistent sizes')
        return rec
    r = len(s)
    if not (len(q) == r == u.shape[1] == v.shape[0]):
        fail('interm_len', f'{tag}: len(q)={len(q)} len(s)={r} u.shape[1]={u.shape[1]} v.shape[0]={v.shape[0]}')
        return None
    if s.dtype.kind != 'f':
        fail('s_real', f'{tag}: singular values dtype {s.dtype}')
        return None
    if not oracle.close(u.conj().T @ u, np.identity(r), scale=1.0, tol=1e-9):
        fail('u_isometry', f'{tag}: |u^H u - I| = {np.linalg.norm(u.conj().T @ u - np.identity(r))}')
    if not oracle.close(v @ v.conj().T, np.identity(r), scale=1.0, tol=1e-9):
        fail('v_isometry', f'{tag}: |v v^H - I| = {np.linalg.norm(v @ v.conj().T - np.identity(r))}')
    q = np.asarray(q)
    if q.dtype.kind not in 'iu':
        fail('interm_integer', f'{tag}: q dtype {q.dtype}')
    else:
        if not oracle.qsparse(u, [q0, -q]):
            fail('u_sparse', f'{tag}: u not block sparse under (q0, -q), q={q.tolist()}')
        if not oracle.qsparse(v, [q, -q1]):
            fail('v_sparse', f'{tag}: v not block sparse under (q, -q1), q={q.tolist()}')
    truncation_clauses(sref, s, tol, nA, fail, tag)
    err2 = float(np.linalg.norm(rec - A) ** 2)
    disc2 = float(np.sum(sref[r:] ** 2)) if r <= len(sref) else 0.0
    if abs(err2 - disc2) > 1e-12 * nA ** 2:
        fail('error_identity', f'{tag}: |A-usv|^2 = {err2} vs sum of discarded s^2 = {disc2} (|A|^2 = {nA**2})')
    if tol == 0 and not oracle.close(rec, A, scale=max(1.0, nA), tol=1e-9):
        fail('tol0_exact', f'{tag}: tol=0 but |A-usv| = {np.sqrt(err2)}')
    return rec


def exact_rule(svals, kept, tol):
    """exact rational check of the truncation rule for an index set; returns violated clause or None"""
    x = [Fraction(int(v)) ** 2 for v in svals]
    W = sum(x)
    t = Fraction(tol) * W
    kept = sorted(int(i) for i in kept)
    if len(set(kept)) != len(kept) or any(i < 0 or i >= len(x) for i in kept):
        return 'indices'
    if not kept:
        return 'keeps_none'
    dis = [i for i in range(len(x)) if i not in kept]
    d = sum(x[i] for i in dis)
    if d > t:
        return 'disc_weight'
    if dis and min(x[i] for i in kept) < max(x[i] for i in dis):
        return 'ordering'
    if d + min(x[i] for i in kept) <= t:
        return 'maximal'
    if any(x[i] == 0 for i in kept):
        return 's_positive'
    return None


def tie_tolerances(svals):
    x = sorted(Fraction(int(v)) ** 2 for v in svals)
    W = sum(x)
    tols = [0.0]
    acc = Fraction(0)
    for xi in x[:-1]:
        acc += xi
        c = float(acc / W)
        assert Fraction(c) == acc / W         # dyadic: exact in floating point
        if 0 < c < 1:
            tols += [c, float(np.nextafter(c, 0)), float(np.nextafter(c, 1))]
    return sorted(set(tols))


# ------------------------------------------------------------------------------------------------------------------

def run_case(c):
    rng = np.random.default_rng(c['seed'])
    fails = []
    fn = {'rbi': 'retained_bond_indices', 'mps_split': 'split_mps_tensor'}.get(c['kind'], 'split_matrix_svd')

    def fail(clause, detail):
        if len(fails) < MAXFAIL:
            fails.append(dict(clause=clause, detail=detail, signature=f'{fn}:{clause}'))
    nontrivial = True
    if c['kind'] == 'enum':
        m, n = c['m'], c['n']
        nontrivial = (m, n) != (1, 1)
        for k in range(c['lo'], c['hi'], c['stride']):
            q0, q1 = h.decode_charges(k, m, n)
            if c['relabel']:
                q0, q1 = h.relabel(q0), h.relabel(q1)
            scale = (1.0, 37.5, 1e-3)[int(rng.integers(3))]
            A = scale * h.matrix_from_block_spectra(rng, q0, q1, make_spectra(rng, q0, q1, c['spectrum']), c['cplx'])
            sref = h.block_singular_values(A, q0, q1)
            for tol in tolerances(sref):
                check_split(A, q0, q1, tol, sref, fail, f'k={k} q0={q0.tolist()} q1={q1.tolist()} tol={tol!r}')
    elif c['kind'] == 'rand':
        for r in range(c['count']):
            m, n = int(rng.integers(1, 25)), int(rng.integers(1, 25))
            q0, q1 = h.rand_charges(rng, m, n, c['style'])
            if r % 7 == 3:
                # three labels -c, 0, +c in the cyclic order 0, +c, -c (every descent is a step of 2c, every ascent a step of c)
                o0, o1 = int(rng.integers(3)), int(rng.integers(3))
                q0 = np.array([(0, 1, -1)[(i + o0) % 3] for i in range(m)]); q1 = np.array([(0, 1, -1)[(i + o1) % 3] for i in range(n)])
                # labels of both signs close to the ends of the integer range (differences of neighbouring labels overflow), also as 32-bit arrays
                if (r // 7) % 2:
                    q0 = (np.asarray(q0, dtype=np.int64) * 5 * 10 ** 18).astype(np.int64); q1 = (np.asarray(q1, dtype=np.int64) * 5 * 10 ** 18).astype(np.int64)
                else:
                    q0 = (np.asarray(q0, dtype=np.int64) * 2 * 10 ** 9).astype(np.int32); q1 = (np.asarray(q1, dtype=np.int64) * 2 * 10 ** 9).astype(np.int32)
            if r % 7 == 5:
                # charges are 64-bit integers: labels beyond 2^53 (not representable as doubles) are as good as small ones
                off = (2 ** 53 + 1, -(2 ** 53) - 3, 2 ** 62 - 7)[r % 3]
                q0 = np.asarray(q0, dtype=np.int64) + np.int64(off); q1 = np.asarray(q1, dtype=np.int64) + np.int64(off)
            if c['source'].startswith('entries_'):
                A = h.masked_matrix(rng, q0, q1, c['source'][8:])
                if A.dtype.kind in 'iu':
                    dt = (np.int64, np.int32, np.int16, np.int8, np.bool_)[r % 5]       # integer matrices of every width: double-precision factors
                    A = (A != 0) if dt is np.bool_ else A.astype(dt)
            else:
                A = h.matrix_from_block_spectra(rng, q0, q1, make_spectra(rng, q0, q1, c['source']), bool(rng.integers(2)))
            sref = h.block_singular_values(A, q0, q1)
            tols = tolerances(sref) + [float(t) for t in rng.uniform(0, 1, 3)] + [float(10.0 ** -rng.uniform(1, 12))]
            for tol in tols:
                check_split(A, q0, q1, tol, sref, fail, f'r={r} shape={(m, n)} q0={q0.tolist()} q1={q1.tolist()} tol={tol!r}')
    elif c['kind'] == 'tie':
        # all blocks 1x1 => the singular values seen by the truncation rule are exactly |entries|; dyadic => exact ties
        base = DYADIC[c['spectrum']]
        svals = [v * 2 ** c['shift'] if c['shift'] >= 0 else v / 2 ** (-c['shift']) for v in base]
        K = len(svals)
        ch = rng.permutation(np.arange(-2, K - 2)) * (1 if rng.integers(2) else 100003)
        p0, p1 = rng.permutation(K), rng.permutation(K)
        q0, q1 = ch[p0].astype(np.int64), ch[p1].astype(np.int64)
        extra0, extra1 = int(rng.integers(0, 2)), int(rng.integers(0, 2))     # unmatched charges on either side
        q0 = np.concatenate([q0, np.full(extra0, 77)]).astype(np.int64)
        q1 = np.concatenate([q1, np.full(extra1, -77)]).astype(np.int64)
        A = np.zeros((len(q0), len(q1)))
        sv_of_charge = {int(ch[i]): svals[i] for i in range(K)}
        for i, a in enumerate(q0):
            for j, b in enumerate(q1):
                if a == b:
                    A[i, j] = sv_of_charge[int(a)] * (1 if rng.integers(2) else -1)
        if rng.integers(2):
            A = A.astype(complex) * 1j
        sref = np.array(sorted((abs(float(v)) for v in svals), reverse=True))
        for tol in tie_tolerances(base):
            tag = f'spectrum={svals} q0={q0.tolist()} q1={q1.tolist()} tol={tol!r}'
            check_split(A, q0, q1, tol, sref, fail, tag)
            try:
                u, s, v, q = bond_ops.split_matrix_svd(A, q0, q1, tol)
            except Exception as e:
                if type(e).__name__ == 'CaseTimeout':      # the runner's wall-clock alarm must reach the runner
                    raise
                continue
            # exact decision: kept set identified through the returned charges (one singular value per charge)
            idx_of_charge = {int(ch[i]): i for i in range(K)}
            try:
                kept = [idx_of_charge[int(x)] for x in np.asarray(q)]
            except KeyError:
                fail('u_sparse', f'{tag}: returned charge not among shared charges: {np.asarray(q).tolist()}')
                continue
            bad = exact_rule(base, kept, tol)
            if bad:
                fail(bad, f'{tag}: exact rational check of the truncation rule: {bad}; kept values '
                          f'{[svals[i] for i in sorted(kept)]}')
    elif c['kind'] == 'rbi':
        if c['spectrum'] >= 0:
            base = list(DYADIC[c['spectrum']])
            perm = rng.permutation(len(base))
            base = [base[i] for i in perm]
            s = np.array([v * 2.0 ** c['shift'] for v in base])
            for tol in tie_tolerances(base):
                s0 = s.copy()
                tag = f's={s0.tolist()} tol={tol!r}'
                try:
                    idx = bond_ops.retained_bond_indices(s, tol)
                except Exception as e:
                    if type(e).__name__ == 'CaseTimeout':      # the runner's wall-clock alarm must reach the runner
                        raise
                    fail('returns', f'{tag}: raised {type(e).__name__}: {e}')
                    continue
                if not (s.dtype == s0.dtype and np.array_equal(s, s0)):
                    fail('args_unchanged', f'{tag}: caller\'s s modified to {s.tolist()}')
                    s = s0.copy()
                bad = exact_rule(base, np.asarray(idx).tolist(), tol)
                if bad:
                    fail(bad, f'{tag}: exact rational check: {bad}; returned indices {np.asarray(idx).tolist()}')
        else:
            K = int(rng.integers(1, 30))
            mode = int(rng.integers(4))
            s = np.abs(rng.standard_normal(K)) * 10.0 ** rng.uniform(-3, 3)
            if mode == 1:
                s = np.repeat(s[: (K + 1) // 2], 2)[:K]                 # degenerate pairs
            elif mode == 2:
                s[rng.integers(0, K, K // 2)] = 0                       # exact zeros
            elif mode == 3:
                s = np.zeros(K)                                         # zero vector -> no index, no exception
            sref = np.sort(s)[::-1]
            tols = [0.0, 0.15, 0.99] if mode == 3 else tolerances(sref) + [float(t) for t in rng.uniform(0, 1, 3)]
            for tol in tols:
                s0 = s.copy()
                tag = f's={s0.tolist()} tol={tol!r}'
                try:
                    idx = np.asarray(bond_ops.retained_bond_indices(s, tol))
                except Exception as e:
                    if type(e).__name__ == 'CaseTimeout':      # the runner's wall-clock alarm must reach the runner
                        raise
                    fail('returns', f'{tag}: raised {type(e).__name__}: {e}')
                    continue
                if not np.array_equal(s, s0):
                    fail('args_unchanged', f'{tag}: caller\'s s modified')
                    s = s0.copy()
                if mode == 3:
                    if len(idx) != 0:
                        fail('zero_matrix', f'{tag}: zero spectrum but indices {idx.tolist()} returned')
                    continue
                if idx.dtype.kind not in 'iu' or len(set(idx.tolist())) != len(idx) or (len(idx) and (idx.min() < 0 or idx.max() >= K)):
                    fail('indices', f'{tag}: invalid index set {idx.tolist()}')
                    continue
                truncation_clauses(sref, s0[idx], tol, float(np.linalg.norm(s0)), fail, tag)
    elif c['kind'] == 'mps_split':
        for r in range(c['count']):
            d0, d1 = int(rng.integers(1, 4)), int(rng.integers(1, 4))
            D0, D2 = int(rng.integers(1, 5)), int(rng.integers(1, 5))
            zero_q = rng.integers(4) == 0
            def qv(k):
                return np.zeros(k, dtype=np.int64) if zero_q else rng.integers(-1, 2, k).astype(np.int64)
            qd0, qd1, qa, qb = qv(d0), qv(d1), qv(D0), qv(D2)
            q0 = np.add.outer(qd0, qa).reshape(-1)
            q1 = np.add.outer(-qd1, qb).reshape(-1)
            if c['spectrum'] == 'entries':
                M = h.masked_matrix(rng, q0, q1, 'complex' if rng.integers(2) else 'real')
            else:
                M = h.matrix_from_block_spectra(rng, q0, q1, make_spectra(rng, q0, q1, c['spectrum']), bool(rng.integers(2)))
            A = M.reshape(d0, D0, d1, D2).transpose(0, 2, 1, 3).reshape(d0 * d1, D0, D2).copy()
            assert oracle.qsparse(A, [np.add.outer(qd0, qd1).reshape(-1), qa, -qb])
            sref = h.block_singular_values(M, q0, q1)
            nA = float(np.linalg.norm(M))
            for tol in tolerances(sref):
                tag = (f'r={r} qd0={qd0.tolist()} qd1={qd1.tolist()} qD={[qa.tolist(), qb.tolist()]} distr={c["distr"]} '
                       f'tol={tol!r}')
                snap = oracle.snapshot([A, qd0, qd1, qa, qb])
                try:
                    A0, A1, qbond = ptn_mps.split_mps_tensor(A, qd0, qd1, [qa, qb], c['distr'], tol)
                except Exception as e:
                    if type(e).__name__ == 'CaseTimeout':      # the runner's wall-clock alarm must reach the runner
                        raise
                    fail('returns', f'{tag}: raised {type(e).__name__}: {e}')
                    continue
                if oracle.snapshot([A, qd0, qd1, qa, qb]) != snap:
                    fail('args_unchanged', f'{tag}: an argument was modified')
                D1 = len(qbond)
                if getattr(A0, 'shape', None) != (d0, D0, D1) or getattr(A1, 'shape', None) != (d1, D1, D2):
                    fail('shapes', f'{tag}: A0 {getattr(A0, "shape", None)} A1 {getattr(A1, "shape", None)} len(qbond)={D1}')
                    continue
                merged = np.einsum('sab,tbc->stac', A0, A1).reshape(d0 * d1, D0, D2)
                if nA == 0:
                    if np.linalg.norm(merged) != 0:
                        fail('zero_matrix', f'{tag}: product for the zero tensor is not zero')
                    continue
                qbond = np.asarray(qbond)
                if not oracle.qsparse(A0, [qd0, qa, -qbond]):
                    fail('u_sparse', f'{tag}: A0 not block sparse under (qd0, qD0, -qbond), qbond={qbond.tolist()}')
                if not oracle.qsparse(A1, [qd1, qbond, -qb]):
                    fail('v_sparse', f'{tag}: A1 not block sparse under (qd1, qbond, -qD1), qbond={qbond.tolist()}')
                # rank and error identity against the independent spectrum
                if D1 > len(sref) or D1 == 0:
                    fail('too_many' if D1 else 'keeps_none', f'{tag}: new bond dimension {D1}, spectrum {sref.tolist()}')
                    continue
                err2 = float(np.linalg.norm(merged - A) ** 2)
                disc2 = float(np.sum(sref[D1:] ** 2))
                if abs(err2 - disc2) > 1e-12 * nA ** 2:
                    fail('error_identity', f'{tag}: |A - A0*A1|^2 = {err2} vs discarded {disc2}, |A|^2={nA**2}')
                if tol == 0 and not oracle.close(merged, A, scale=max(1.0, nA), tol=1e-9):
                    fail('tol0_exact', f'{tag}: tol=0 but |A - A0*A1| = {np.sqrt(err2)}')
                W = float(np.sum(sref ** 2))
                if disc2 / W > tol + MARGIN:
                    fail('disc_weight', f'{tag}: discarded weight {disc2 / W} > tol')
                if disc2 / W + sref[D1 - 1] ** 2 / W <= tol - MARGIN:
                    fail('maximal', f'{tag}: one more could be discarded: {disc2 / W + sref[D1 - 1] ** 2 / W} <= tol')
                # distribution of the singular values
                G0 = np.einsum('sab,sac->bc', A0.conj(), A0)
                G1 = np.einsum('sab,scb->ac', A1, A1.conj())
                I = np.identity(D1)
                sc = max(1.0, nA)
                if c['distr'] == 'left' and not oracle.close(G1, I, scale=1.0, tol=1e-9):
                    fail('v_isometry', f'{tag}: svd_distr=left but A1 is not a right isometry')
                if c['distr'] == 'right' and not oracle.close(G0, I, scale=1.0, tol=1e-9):
                    fail('u_isometry', f'{tag}: svd_distr=right but A0 is not a left isometry')
                kept = np.sort({'left': np.sqrt(np.abs(np.diagonal(G0))), 'right': np.sqrt(np.abs(np.diagonal(G1))),
                                'sqrt': np.abs(np.diagonal(G0))}[c['distr']].real)[::-1]
                if not oracle.close(kept, sref[:D1], scale=sc, tol=1e-9):
                    fail('ordering', f'{tag}: weights carried by the factors {kept.tolist()} are not the {D1} largest '
                                     f'singular values {sref.tolist()}')
                if c['distr'] == 'sqrt' and not (oracle.close(G0, G1, scale=sc, tol=1e-9)
                                                 and oracle.close(G0, np.diag(np.diagonal(G0)), scale=sc, tol=1e-9)):
                    fail('sqrt_distr', f'{tag}: svd_distr=sqrt but Gram matrices of the two factors differ / are not diagonal')
                # same truncated reconstruction as the matrix split
                try:
                    u, s, v, _ = bond_ops.split_matrix_svd(M, q0, q1, tol)
                    recM = ((u * s) @ v).reshape(d0, D0, d1, D2).transpose(0, 2, 1, 3).reshape(d0 * d1, D0, D2)
                    if not oracle.close(merged, recM, scale=sc, tol=1e-9):
                        fail('same_reconstruction', f'{tag}: merged product differs from u diag(s) v of the matrix split by '
                                                    f'{np.linalg.norm(merged - recM)}')
                except Exception as e:
                    if type(e).__name__ == 'CaseTimeout':      # the runner's wall-clock alarm must reach the runner
                        raise
                    pass
    else:
        raise ValueError(c['kind'])
    return dict(failures=fails, nontrivial=nontrivial, key=json.dumps(c, sort_keys=True))
