"""Independent oracles (engine R): dense contraction of MPS/MPO written directly with einsum,
numeric comparison policy of DESIGN.md 4.5."""
import numpy as np


def mps_dense(Alist):
    """psi[s0 s1 ... s_{L-1}] row-major, site 0 most significant"""
    v = np.ones((1, 1), dtype=complex)            # (sigma, bond)
    for A in Alist:
        v = np.einsum('xa,sab->xsb', v, A).reshape(v.shape[0] * A.shape[0], A.shape[2])
    assert v.shape[1] == 1
    return v[:, 0]


def mpo_dense(Alist):
    m = np.ones((1, 1, 1), dtype=complex)         # (row, col, bond)
    for A in Alist:
        m = np.einsum('xya,stab->xsytb', m, A).reshape(m.shape[0] * A.shape[0], m.shape[1] * A.shape[1], A.shape[3])
    assert m.shape[2] == 1
    return m[:, :, 0]


def close(a, b, scale=None, tol=1e-9):
    a = np.asarray(a); b = np.asarray(b)
    if a.shape != b.shape:
        return False
    if scale is None:
        scale = max(1.0, float(np.linalg.norm(a.ravel())), float(np.linalg.norm(b.ravel())))
    return bool(np.linalg.norm((a - b).ravel()) <= tol * scale)


def qsparse(A, qs):
    """exact-zero block sparsity: entries off the charge sector are exactly zero"""
    mask = np.zeros(())
    tot = np.zeros((), dtype=np.int64)
    for q in qs:
        tot = np.add.outer(tot, np.asarray(q, dtype=np.int64))
    if tot.shape != A.shape:
        return False
    return not np.any(A[tot != 0])


def wf_mps(psi):
    """class invariant WF of DESIGN 2.5 for an MPS; returns list of violated clauses"""
    bad = []
    if not isinstance(psi.qd, np.ndarray) or psi.qd.dtype.kind not in 'iu':
        bad.append('qd is not an integer ndarray')
    L = len(psi.A)
    if len(psi.qD) != L + 1:
        bad.append('len(qD) != L+1'); return bad
    for i, q in enumerate(psi.qD):
        if not isinstance(q, np.ndarray) or q.dtype.kind not in 'iu':
            bad.append(f'qD[{i}] is not an integer ndarray ({type(q).__name__})')
    for i, A in enumerate(psi.A):
        if not isinstance(A, np.ndarray) or A.ndim != 3:
            bad.append(f'A[{i}] is not a rank-3 ndarray'); continue
        if A.shape != (len(psi.qd), len(psi.qD[i]), len(psi.qD[i + 1])):
            bad.append(f'A[{i}].shape {A.shape} != (d, len qD[i], len qD[i+1]) = {(len(psi.qd), len(psi.qD[i]), len(psi.qD[i+1]))}')
            continue
        if not qsparse(A, [np.asarray(psi.qd), np.asarray(psi.qD[i]), -np.asarray(psi.qD[i + 1])]):
            bad.append(f'A[{i}] violates the quantum-number rule')
    if L and (len(psi.qD[0]) != 1 or len(psi.qD[-1]) != 1):
        bad.append('boundary bond dimension != 1')
    return bad


def wf_mpo(op, boundary_one=False):
    bad = []
    if not isinstance(op.qd, np.ndarray) or op.qd.dtype.kind not in 'iu':
        bad.append('qd is not an integer ndarray')
    L = len(op.A)
    if len(op.qD) != L + 1:
        bad.append('len(qD) != L+1'); return bad
    for i, q in enumerate(op.qD):
        if not isinstance(q, np.ndarray) or q.dtype.kind not in 'iu':
            bad.append(f'qD[{i}] is not an integer ndarray ({type(q).__name__})')
    for i, A in enumerate(op.A):
        if not isinstance(A, np.ndarray) or A.ndim != 4:
            bad.append(f'A[{i}] is not a rank-4 ndarray'); continue
        if A.shape != (len(op.qd), len(op.qd), len(op.qD[i]), len(op.qD[i + 1])):
            bad.append(f'A[{i}].shape {A.shape} inconsistent with charge lists'); continue
        if not qsparse(A, [np.asarray(op.qd), -np.asarray(op.qd), np.asarray(op.qD[i]), -np.asarray(op.qD[i + 1])]):
            bad.append(f'A[{i}] violates the quantum-number rule')
    return bad


def snapshot(obj):
    """byte-level snapshot of an MPS/MPO/ndarray/list structure"""
    if isinstance(obj, np.ndarray):
        return ('nd', obj.dtype.str, obj.shape, obj.tobytes())
    if isinstance(obj, (list, tuple)):
        return ('seq', type(obj).__name__, tuple(snapshot(x) for x in obj))
    if hasattr(obj, 'A') and hasattr(obj, 'qD'):
        return ('obj', snapshot(obj.qd), snapshot(obj.qD), snapshot(obj.A))
    if isinstance(obj, dict):
        return ('dict', tuple(sorted((repr(k), snapshot(v)) for k, v in obj.items())))
    return ('val', repr(obj))
