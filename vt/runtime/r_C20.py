"""C20 bounded stand-in: compiled Hamiltonian MPOs are as compact as the operator allows.

Oracle: numerical operator Schmidt rank (singular values of the dense operator reshaped across the cut, relative
threshold 1e-10; a verdict is only given when the singular values show a clean gap: smallest kept > 1e-7, largest
discarded < 1e-12, both relative to the largest) of the independently contracted MPO (oracle.mpo_dense)."""
import json
from . import h_graph as hg            # first: limits BLAS threads before numpy is loaded
import numpy as np
import pytenet as ptn
import pytenet.hamiltonian as ham
from pytenet.opgraph import OpGraph
from . import oracle
from . import r_C16

RULE = ('(model) every built-in model through the chain construction (heisenberg_xxz, heisenberg_xxz_spin1, bose_hubbard d=2,3,4, '
        'fermi_hubbard), the automaton construction (ising), the optimized molecular constructions (molecular, spin_molecular, '
        'optimize=True) and linear_fermionic (both types) x every L>=2 within the stated dense reach x seeded generic parameters '
        '(magnitudes in [0.3,1.5], random signs; molecular integrals standard normal without symmetry): bond dimension == operator '
        'Schmidt rank at every cut; (bound) seeded random charge-typed chain lists (<=12 chains, L<=8): bond dimension <= number of '
        'chains with non-zero coefficient; (simplify) start graphs of C16 (charge-typed operator ids): no bond dimension grows '
        'under simplify.  non-trivial = L>=2; distinct = distinct descriptor')
BOUNDS = {'quick': 'models: d=2 L<=6, d=3 L<=5, d=4 L<=4, 6 parameter draws; 1500 chain lists; ~1440 graphs',
          'thorough': 'models: d=2 L<=8, d=3 L<=6, d=4 L<=5, 25 parameter draws; 30000 chain lists; ~20800 graphs'}
EXHAUSTIVE = {'quick': False, 'thorough': False}

MODELS = {   # name -> (d, constructor from (L, parameter list), number of scalar parameters or None)
    'heisenberg_xxz_mpo': 2, 'ising_mpo': 2, 'linear_fermionic_mpo:c': 2, 'linear_fermionic_mpo:a': 2,
    'molecular_hamiltonian_mpo': 2, 'bose_hubbard_mpo:2': 2,
    'heisenberg_xxz_spin1_mpo': 3, 'bose_hubbard_mpo:3': 3,
    'bose_hubbard_mpo:4': 4, 'fermi_hubbard_mpo': 4, 'spin_molecular_hamiltonian_mpo': 4,
}


def cases(tier, seed):
    rng = np.random.default_rng(seed)
    quick = tier == 'quick'
    Lmax = {2: 6, 3: 5, 4: 4} if quick else {2: 8, 3: 6, 4: 5}
    reps = 6 if quick else 25
    for name, d in MODELS.items():
        for L in range(2, Lmax[d] + 1):
            for r in range(reps):
                yield dict(kind='model', model=name, L=L, seed=int(rng.integers(1 << 31)))
    for r in range(1500 if quick else 30000):
        L = int(rng.integers(2, 9))
        sub = np.random.default_rng(int(rng.integers(1 << 31)))
        yield dict(kind='bound', L=L, chains=hg.rand_chain_list(sub, L, 12), seed=int(rng.integers(1 << 31)))
    for tag, src in r_C16.start_graphs(tier, rng):
        if 'trees' in src:
            continue
        if 'graph' in src:
            src = dict(graph=hg.gd_typed(src['graph']))
        yield dict(kind='simplify', tag=tag, src=src, seed=int(rng.integers(1 << 31)))


def build_model(name, L, rng):
    def par():
        return float(rng.uniform(0.3, 1.5) * rng.choice([-1.0, 1.0]))
    if name == 'heisenberg_xxz_mpo':
        args = (L, par(), par(), par())
        return args, lambda: ham.heisenberg_xxz_mpo(*args)
    if name == 'heisenberg_xxz_spin1_mpo':
        args = (L, par(), par(), par())
        return args, lambda: ham.heisenberg_xxz_spin1_mpo(*args)
    if name == 'ising_mpo':
        args = (L, par(), par(), par())
        return args, lambda: ham.ising_mpo(*args)
    if name.startswith('bose_hubbard_mpo'):
        args = (int(name.split(':')[1]), L, par(), par(), par())
        return args, lambda: ham.bose_hubbard_mpo(*args)
    if name == 'fermi_hubbard_mpo':
        args = (L, par(), par(), par())
        return args, lambda: ham.fermi_hubbard_mpo(*args)
    if name.startswith('linear_fermionic_mpo'):
        args = ([par() for _ in range(L)], name.split(':')[1])
        return args, lambda: ham.linear_fermionic_mpo(*args)
    if name == 'molecular_hamiltonian_mpo':
        t, v = rng.standard_normal((L, L)), rng.standard_normal((L, L, L, L))
        flag = (True, 1, np.True_)[int(rng.integers(3))]         # every truthy value of the option selects the optimized construction
        return ('tkin, vint = rng.standard_normal((L,L)), rng.standard_normal((L,L,L,L)) from default_rng(seed) after 0 draws',), \
            lambda: ham.molecular_hamiltonian_mpo(t, v, optimize=flag)
    if name == 'spin_molecular_hamiltonian_mpo':
        t, v = rng.standard_normal((L, L)), rng.standard_normal((L, L, L, L))
        flag = (True, 1, np.True_, None)[int(rng.integers(4))]      # None: the documented default of the option
        return ('tkin, vint = rng.standard_normal((L,L)), rng.standard_normal((L,L,L,L)) from default_rng(seed) after 0 draws',), \
            (lambda: ham.spin_molecular_hamiltonian_mpo(t, v, optimize=flag)) if flag is not None else (lambda: ham.spin_molecular_hamiltonian_mpo(t, v))
    raise ValueError(name)


def run_case(c):
    rng = np.random.default_rng(c['seed'])
    fails = []

    def fail(fn, clause, detail):
        fails.append(dict(clause=clause, detail=detail, signature=f'{fn}:{clause}'))

    kind = c['kind']
    if kind == 'model':
        name, L = c['model'], c['L']
        d = MODELS[name]
        fn = name.split(':')[0]
        key = json.dumps([name, L, c['seed']])
        args, build = build_model(name, L, rng)
        try:
            mpo = build()
        except Exception as e:
            nm, line, where = hg.exc_info(e)
            fail(fn, 'returns', f'{fn}{args} raised {nm} at {where} ({line.strip()}): {e}')
            fails[-1]['signature'] = f'{fn}:returns:{nm}' + ('-final-coeff' if hg.is_final_coeff_assert(e) else '')
            return dict(failures=fails, nontrivial=True, key=key)
        D = list(mpo.bond_dims)
        if len(D) != L + 1:
            fail(fn, 'length', f'{len(D) - 1} sites instead of {L}')
            return dict(failures=fails, nontrivial=True, key=key)
        M = oracle.mpo_dense(mpo.A)
        # the operator Schmidt rank is taken from the *documented* operator (independent reference of the C06 stand-in) where one
        # exists for the model; the dense form of the MPO itself would follow a wrong construction
        try:
            from . import h_ham
            base = name.split(':')[0]
            ref = None
            if base == 'heisenberg_xxz_mpo':
                ref = h_ham.xxz_ref(*args)
            elif base == 'heisenberg_xxz_spin1_mpo':
                ref = h_ham.xxz_ref(*args, two_s=2)
            elif base == 'ising_mpo':
                ref = h_ham.ising_ref(*args)
            elif base == 'bose_hubbard_mpo':
                ref = h_ham.bose_hubbard_ref(*args)
            elif base == 'fermi_hubbard_mpo':
                ref = h_ham.fermi_hubbard_ref(*args)
            if ref is not None:
                ref = np.asarray(ref.todense() if hasattr(ref, 'todense') else ref)
                if ref.shape == M.shape and np.linalg.norm(ref - M) <= 1e-9 * max(1.0, np.linalg.norm(ref)):
                    pass                     # same operator: ranks of either are the same
                elif ref.shape == M.shape:
                    M = ref                  # the construction deviates from the documented operator (reported by C06): rank of the documented one
        except Exception:
            pass
        ranks = hg.schmidt_ranks(M, d, L)
        decided = True
        for l in range(1, L):
            r, kept, disc = ranks[l - 1]
            clean = kept > 1e-7 and disc < 1e-12
            if not clean:
                decided = False          # no clean gap in the singular values: the numerical rank is not trustworthy, no verdict
                continue
            if D[l] != r:
                fail(fn, 'schmidt_rank', f'{fn}{args}: bond dimension {D[l]} at cut {l} of {L}, operator Schmidt rank {r} '
                     f'(smallest kept singular value {kept:.2e}, largest discarded {disc:.2e} relative); bond dims {D}, ranks {[x[0] for x in ranks]}')
        return dict(failures=fails, nontrivial=decided, key=key)

    if kind == 'bound':
        L, chains_d = c['L'], c['chains']
        key = json.dumps([L, chains_d])
        nnz = sum(1 for ch in chains_d if ch[2] != 0)
        chain_objs = hg.build_chains(chains_d)
        try:
            graph = OpGraph.from_opchains(chain_objs, L, 0)
        except Exception:
            # construction failures belong to C05 (finding F1); the bound speaks about the MPO that exists
            return dict(failures=[], nontrivial=False, key=key)
        charges = hg.chain_charges(chains_d, L, 0)
        qd = [0, 1, 2] if L <= 5 else [0, 1]
        opmap = hg.rand_opmap(rng, qd, charges, 0)
        try:
            mpo = ptn.MPO.from_opgraph(qd, graph, opmap)
        except Exception as e:
            nm, line, where = hg.exc_info(e)
            fail('MPO.from_opgraph', 'returns', f'raised {nm} at {where}: {e}')
            return dict(failures=fails, nontrivial=True, key=key)
        D = list(mpo.bond_dims)
        for l in range(1, len(D) - 1):
            if D[l] > nnz:
                fail('OpGraph.from_opchains', 'chain_count_bound', f'bond dimension {D[l]} at cut {l} exceeds the number {nnz} of chains with '
                     f'non-zero coefficient; bond dims {D}; chains={chains_d}')
                break
        # history: switch some couplings off on the *same* chain objects and compile again
        live = [k for k, ch in enumerate(chains_d) if ch[2] != 0]
        if len(live) >= 2 and not fails:
            off = [int(k) for k in rng.choice(live, size=int(rng.integers(1, len(live))), replace=False)]
            for k in off:
                chain_objs[k].coeff = 0.0
            mod = [list(ch) for ch in chains_d]
            for k in off:
                mod[k][2] = 0.0
            try:
                D2 = list(ptn.MPO.from_opgraph(qd, OpGraph.from_opchains(chain_objs, L, 0), opmap).bond_dims)
                D3 = list(ptn.MPO.from_opgraph(qd, OpGraph.from_opchains(hg.build_chains(mod), L, 0), opmap).bond_dims)
            except Exception:
                return dict(failures=fails, nontrivial=True, key=key)
            nnz2 = len(live) - len(off)
            if any(x > nnz2 for x in D2[1:-1]) or D2 != D3:
                fail('OpGraph.from_opchains', 'chain_count_bound', f'after setting the coefficients of chains {off} to zero on the same OpChain objects the bond '
                     f'dimensions are {D2} ({nnz2} chains with non-zero coefficient; freshly built chains give {D3}); chains={chains_d}')
        return dict(failures=fails, nontrivial=True, key=key)

    if kind == 'simplify':
        src = c['src']
        key = json.dumps([kind, src])
        g = r_C16.build_source(src)
        if g is None:
            return dict(failures=[], nontrivial=False, key=key)
        try:
            charges = hg.pyten_graph_charges(g)
        except KeyError:
            charges = None
        if charges is None and 'graph' not in src:
            return dict(failures=[], nontrivial=False, key=key)      # defect of from_opchains: reported by C05
        assert charges is not None
        qd = [0, 1, 2]
        for o in (0, 1, 2):
            charges.setdefault(o, 0)
        opmap = hg.rand_opmap(rng, qd, charges, None)
        qual = ':dangling' if c['tag'] == 'dang' else ''
        try:
            D0 = list(ptn.MPO.from_opgraph(qd, g, opmap).bond_dims)
        except Exception as e:
            fail('MPO.from_opgraph', 'returns' + qual, f'before simplify: raised {type(e).__name__}: {e}')
            return dict(failures=fails, nontrivial=True, key=key)
        try:
            g.simplify()
            D1 = list(ptn.MPO.from_opgraph(qd, g, opmap).bond_dims)
        except Exception as e:
            nm, line, where = hg.exc_info(e)
            fail('OpGraph.simplify', 'returns' + qual, f'simplify / from_opgraph after simplify raised {nm} at {where}: {e}')
            return dict(failures=fails, nontrivial=True, key=key)
        if len(D0) != len(D1) or any(b > a for a, b in zip(D0, D1)):
            fail('OpGraph.simplify', 'bond_dims_no_growth' + qual, f'bond dimensions {D0} -> {D1} under simplify')
        return dict(failures=fails, nontrivial=len(g.edges) >= 2, key=key)
    raise ValueError(kind)
