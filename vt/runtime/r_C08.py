"""C08 bounded stand-in: real-time TDVP (purely imaginary dt) conserves norm and energy, returns the input norm,
evolves the normalized input, never modifies H; single-site TDVP never increases a bond dimension.

Kinds 'single' / 'two': built-in models and random Hermitian MPOs whose spectral norm is rescaled to the range of the
built-in models (1..8), so |dt|*||H|| <= 8 (built-in: <= ~25).  Zero failures expected on the unchanged tree.

Kinds 'single_stiff' / 'two_stiff' (signature qualifier ':stiff'): random Hermitian MPOs with ||H|| = 150 or 400.
On the unchanged tree a fraction of these cases violates the norm / energy clauses by 1e-7 .. 1e-3: `lanczos_iteration`
does no re-orthogonalization, the Lanczos vectors lose orthogonality completely once outlying Ritz values have
converged (within < 10 iterations for such spectra), and `expm_krylov(..., hermitian=True)` is then not unitary.
This is a genuine violation of "for any number of local Krylov iterations ... up to rounding" (minimal call:
a = np.r_[np.linspace(-1, 1, 28), 1000., -1000.]; v = np.ones(30)/np.sqrt(30);
np.linalg.norm(ptn.expm_krylov(lambda x: a*x, v, -1j, 8, hermitian=True)) == 1.000145), kept apart from the main
kinds so that it can be listed as a known finding without masking anything else."""
import os
for _v in ('OMP_NUM_THREADS', 'OPENBLAS_NUM_THREADS', 'MKL_NUM_THREADS'):
    os.environ.setdefault(_v, '1')
import json, warnings
import numpy as np
import pytenet as ptn
from . import oracle
from . import h_tdvp as h

RULE = ('enumerated (integrator, Hamiltonian family, d, L, bond-profile style) x seeded repetitions; each case draws the '
        'Hamiltonian parameters, a charge sector, bond charges on paths to that sector (state generically non-zero), '
        'a norm scale and 2-3 successive calls (dt in {0.05i,-0.3i,1.0i}, 1..5 steps, Krylov count in {1,2,5,25}) on '
        'the same state; non-trivial unless the state vanishes or the Hilbert space has dimension 1; distinct = descriptor')
BOUNDS = {'quick': 'L<=4 (two-site 2..4), d<=4, D<=4 or complete, <=3 calls x <=5 steps',
          'thorough': 'L<=6 (two-site 2..6; d=4: L<=5), d<=4, D<=8 or complete, <=3 calls x <=5 steps'}

DTS = (0.05j, -0.3j, 1.0j)
NITS = (1, 2, 5, 25)
FAMILIES = [('ising', 2), ('heisenberg_xxz', 2), ('heisenberg_s1', 3), ('bose_hubbard', 2), ('bose_hubbard', 3),
            ('fermi_hubbard', 4), ('rand0', 2), ('rand0', 3), ('randq', 2), ('randq', 3), ('randqz', 2), ('randqz', 3), ('prodh', 2), ('prodh', 3)]
STIFF_FAMILIES = [('rand0s', 3), ('randqs', 3)]
BSTYLES = ('one', 'random', 'max', 'complete')


def cases(tier, seed):
    rng = np.random.default_rng(seed)
    quick = tier == 'quick'
    Lmax = 4 if quick else 6
    Dmax = 4 if quick else 8
    reps = 5 if quick else 8
    k = 0
    for integ in ('single', 'two'):
        for (model, d) in FAMILIES:
            for L in range(1 if integ == 'single' else 2, Lmax + 1):
                if not h.model_available(model, L) or d ** L > 1024:
                    continue
                for bstyle in BSTYLES:
                    for r in range(reps):
                        ncalls = 2 + (k % 2)
                        calls = []
                        for j in range(ncalls):
                            # cycle through all (dt, numiter) pairs, random step count
                            calls.append(dict(dt=[0.0, float(DTS[(k + j) % 3].imag)], numiter=int(NITS[((k // 3) + j) % 4]),
                                              steps=int(rng.integers(1, 6))))
                        k += 1
                        yield dict(kind=integ, model=model, d=d, L=L, bstyle=bstyle, Dmax=Dmax, calls=calls,
                                   seed=int(rng.integers(1 << 31)))
    # stiff family (|dt|*||H|| of a few hundred): separate kinds and signature qualifier ':stiff', see module docstring
    for integ in ('single', 'two'):
        for (model, d) in STIFF_FAMILIES:
            for L in ((3, 4) if quick else (3, 4, 5)):
                for bstyle in ('max', 'complete'):
                    for r in range(4 if quick else 8):
                        calls = [dict(dt=[0.0, float(DTS[(k + j) % 3].imag)], numiter=int((25, 5)[(k // 3 + j) % 2]),
                                      steps=int(rng.integers(1, 6))) for j in range(2)]
                        k += 1
                        yield dict(kind=integ + '_stiff', model=model, d=d, L=L, bstyle=bstyle, Dmax=Dmax, calls=calls,
                                   seed=int(rng.integers(1 << 31)))


def run_case(c):
    warnings.simplefilter('ignore')
    rng = np.random.default_rng(c['seed'])
    key = json.dumps(c, sort_keys=True)
    L, integ = c['L'], c['kind'].split('_')[0]
    stiff = c['kind'].endswith('_stiff')
    fname = 'integrate_local_singlesite' if integ == 'single' else 'integrate_local_twosite'
    fails = []

    def fail(clause, detail, qual=''):
        qual = qual or ('stiff' if stiff else '')
        fails.append(dict(clause=clause, detail=detail, signature=f'{fname}:{clause}' + (f':{qual}' if qual else '')))

    try:
        H = h.build_hamiltonian(c['model'], L, c['d'], rng)
    except Exception as e:      # construction of the model is the subject of C05/C06, not of this property
        return dict(failures=[], nontrivial=False, key=key, skipped=f'model construction raised {type(e).__name__}')
    Hd, nH = h.dense_hamiltonian(H)
    Hsnap = oracle.snapshot(H)
    qd = [int(x) for x in getattr(H, 'state_qd', H.qd)]      # 'randqz': the state's labels differ from the (zeroed) labels of H
    st = h.choose_state(rng, qd, L, c['bstyle'], c['Dmax'])
    psi = h.rand_state(rng, qd, st['qD'], scale=float(rng.choice([0.03, 1.0, 7.0])))
    if c['seed'] % 3 == 0:
        # real-valued tensors (float dtype) against possibly complex Hamiltonians
        for _i in range(len(psi.A)):
            psi.A[_i] = psi.A[_i].real.copy()
    if c['seed'] % 6 == 3:
        # the same state with all bond labels shifted by a constant (non-zero leading label): the rule qd + left = right is unchanged
        sh_ = int(rng.choice([-2, -1, 1, 3]))
        psi.qD = [np.asarray(q) + sh_ for q in psi.qD]
    if c['seed'] % 7 == 2:
        h.integer_tensors(psi)          # integer dtype: the algorithms have to promote the tensors themselves
    v = oracle.mps_dense(psi.A)
    n_in = float(np.linalg.norm(v))
    if n_in < 1e-10:
        return dict(failures=[], nontrivial=False, key=key, skipped='zero state')
    E0 = h.energy(Hd, v)
    etol = 1e-8 * max(1.0, nH)
    for j, call in enumerate(c['calls']):
        dt = complex(call['dt'][0], call['dt'][1])
        D0 = h.bond_dims(psi)
        qfirst, qlast = psi.qD[0].copy(), psi.qD[-1].copy()
        try:
            if c['seed'] % 5 == 1:
                # positional form of the documented signatures (H, psi, dt, numsteps, numiter_lanczos[, tol_split])
                nrm = ptn.integrate_local_singlesite(H, psi, dt, call['steps'], call['numiter']) if integ == 'single' else \
                    ptn.integrate_local_twosite(H, psi, dt, call['steps'], call['numiter'], 0)
            elif integ == 'single':
                nrm = ptn.integrate_local_singlesite(H, psi, dt, call['steps'], numiter_lanczos=call['numiter'])
            else:
                nrm = ptn.integrate_local_twosite(H, psi, dt, call['steps'], numiter_lanczos=call['numiter'], tol_split=0)
        except Exception as e:
            fail('returns', f'call {j} (dt={dt}, steps={call["steps"]}, numiter={call["numiter"]}) raised {type(e).__name__}: {e}')
            break
        where = f'call {j} (dt={dt}, steps={call["steps"]}, numiter={call["numiter"]}, bonds {D0})'
        if oracle.snapshot(H) != Hsnap:
            fail('H_unchanged', f'{where}: the Hamiltonian MPO was modified')
        try:
            nrm_f = float(np.real(nrm))
            ok = abs(complex(nrm) - n_in) <= 1e-9 * max(1.0, n_in)
        except Exception:
            nrm_f, ok = float('nan'), False
        if not ok:
            fail('returns_input_norm', f'{where}: returned {nrm!r}, norm of the input state is {n_in}')
        bad = oracle.wf_mps(psi)
        if bad:
            fail('wf', f'{where}: ' + '; '.join(bad))
            break
        D1 = h.bond_dims(psi)
        if integ == 'single' and any(a > b for a, b in zip(D1, D0)):
            fail('bond_not_increased', f'{where}: bond dimensions {D0} -> {D1}')
        if not (np.array_equal(psi.qD[0], qfirst) and np.array_equal(psi.qD[-1], qlast)):
            fail('boundary_charges', f'{where}: boundary charges {qfirst},{qlast} -> {psi.qD[0]},{psi.qD[-1]}')
        v = oracle.mps_dense(psi.A)
        n1 = float(np.linalg.norm(v))
        if not abs(n1 - 1.0) <= 1e-8:
            fail('unit_norm', f'{where}: norm of the evolved state is {n1!r} (deviation {n1 - 1.0:.3e})')
        if n1 > 0 and np.isfinite(n1):
            E1 = h.energy(Hd, v)
            if not abs(E1 - E0) <= etol:
                fail('energy_conserved', f'{where}: energy {E1!r} vs energy of the normalized input {E0!r} '
                                         f'(difference {E1 - E0:.3e}, ||H||={nH:.3g})')
        else:
            break
        n_in = n1
        if fails:
            break
    trivial = len(qd) ** L <= 1
    return dict(failures=fails, nontrivial=not trivial, key=key)
