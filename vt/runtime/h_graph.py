"""Independent symbolic oracle for operator chains / trees / automata / layered operator graphs
(engine R, properties C05, C16, C17, C20).

Spec function: the *path polynomial* of a layered operator graph = formal sum, over all paths from
terminal node 0 to terminal node 1, of the ordered products of the edges' operator sums, in the free
algebra over (site, operator id).  Represented as  {tuple of operator ids (one per site): Fraction}.
Binary floating-point coefficients are converted exactly (Fraction(float)), so for the dyadic
coefficients used by the generators every comparison is exact.

Nothing here calls OpGraph.as_matrix / OpChain.as_matrix / OpTree.as_matrix / is_consistent /
MPO.from_opgraph: graphs are traversed through graph.nodes / graph.edges / graph.nid_terminal only.

Descriptor formats (all JSON-able):
  chain      [oids, qnums, coeff, istart]
  tree node  [qnum, [[oid, coeff, child tree node], ...]]          tree  [tree node, istart]
  automaton  {'nodes': [[nid, qnum], ...], 'edges': [[eid, nid0, nid1, opics, active], ...], 'term': [t0, t1]}
             opics  = [[oid, coeff], ...]  (static)   or {'sites': [opics at site 0, opics at site 1, ...]}
             active = true/false (static)             or [bool at site 0, bool at site 1, ...]
  graph      {'nodes': [[nid, qnum], ...], 'edges': [[eid, nid0, nid1, [[oid, coeff], ...]], ...], 'term': [t0, t1]}
"""
import os
# single-threaded BLAS (as vt/check.py sets it for the runner): with 14 worker processes the OpenBLAS thread pool
# costs ~40 ms per call on 60k-element arrays in this sandbox; only effective if numpy is not yet imported
for _v in ('OMP_NUM_THREADS', 'OPENBLAS_NUM_THREADS', 'MKL_NUM_THREADS'):
    os.environ.setdefault(_v, '1')
from fractions import Fraction
import itertools
import traceback
import numpy as np


class Malformed(Exception):
    """the graph under inspection is not a layered graph between its terminals (dangling reference, cycle, ...)"""


# ---------------------------------------------------------------------------------------------
# polynomials

def frac(c):
    if isinstance(c, Fraction):
        return c
    if isinstance(c, (int, np.integer)):
        return Fraction(int(c))
    c = complex(c)
    if c.imag != 0:
        raise TypeError('complex coefficients are not supported by the symbolic oracle')
    return Fraction(c.real)          # exact for binary floats


def p_clean(p):
    return {w: c for w, c in p.items() if c != 0}


def p_add(p, q, s=1):
    r = dict(p)
    for w, c in q.items():
        r[w] = r.get(w, 0) + s * c
    return r


def p_scale(p, s):
    return {w: s * c for w, c in p.items()}


def p_eq(p, q):
    return p_clean(p) == p_clean(q)


def p_flip(p):
    return {tuple(reversed(w)): c for w, c in p.items()}


def p_str(p, limit=6):
    items = sorted(p_clean(p).items())
    s = ' + '.join(f'{float(c):g}*{list(w)}' for w, c in items[:limit])
    if len(items) > limit:
        s += f' + ... ({len(items)} terms)'
    return s or '0'


def p_diff(p, q, limit=4):
    """human readable difference p - q"""
    return p_str(p_add(p, q, -1), limit)


def chain_word(ch, L, oid_identity):
    oids, qnums, coeff, istart = ch
    n = len(oids)
    if istart < 0 or istart + n > L:
        raise ValueError('chain does not fit')
    return tuple([oid_identity] * istart + [int(o) for o in oids] + [oid_identity] * (L - istart - n))


def chains_poly(chains, L, oid_identity):
    """sum coeff * identity-padded chain word"""
    p = {}
    for ch in chains:
        w = chain_word(ch, L, oid_identity)
        p[w] = p.get(w, 0) + frac(ch[2])
    return p


def _tree_paths(node):
    """list of (word, coeff) for all root-to-leaf paths of a tree node descriptor"""
    qnum, children = node
    if not children:
        return [((), Fraction(1))]
    out = []
    for oid, coeff, child in children:
        for w, c in _tree_paths(child):
            out.append(((int(oid),) + w, frac(coeff) * c))
    return out


def tree_height(node):
    return 0 if not node[1] else 1 + max(tree_height(ch[2]) for ch in node[1])


def tree_poly(tree, L, oid_identity):
    """every root-to-leaf path padded with identities before istart and after the leaf up to L"""
    node, istart = tree
    p = {}
    for w, c in _tree_paths(node):
        if istart + len(w) > L:
            raise ValueError('tree does not fit')
        full = tuple([oid_identity] * istart) + w + tuple([oid_identity] * (L - istart - len(w)))
        p[full] = p.get(full, 0) + c
    return p


def trees_poly(trees, L, oid_identity):
    p = {}
    for t in trees:
        p = p_add(p, tree_poly(t, L, oid_identity))
    return p


def aut_edge_active(e, i):
    a = e[4]
    return bool(a[i]) if isinstance(a, list) else bool(a)


def aut_edge_opics(e, i):
    o = e[3]
    return o['sites'][i] if isinstance(o, dict) else o


def automaton_poly(aut, L):
    """sum over all automaton paths of length L from term[0] to term[1]; forward dynamic programming over
    (site, state) with the harness' own edge table (not the AutOp object)"""
    t0, t1 = aut['term']
    cur = {t0: {(): Fraction(1)}}
    for i in range(L):
        nxt = {}
        for e in aut['edges']:
            eid, n0, n1 = e[0], e[1], e[2]
            if n0 not in cur or not aut_edge_active(e, i):
                continue
            tgt = nxt.setdefault(n1, {})
            for oid, c in aut_edge_opics(e, i):
                fc = frac(c)
                for w, cw in cur[n0].items():
                    w2 = w + (int(oid),)
                    tgt[w2] = tgt.get(w2, 0) + cw * fc
        cur = nxt
    return cur.get(t1, {})


def automaton_has_path(aut, L):
    """is there a path of active edges of length L between the terminals"""
    t0, t1 = aut['term']
    cur = {t0}
    for i in range(L):
        cur = {e[2] for e in aut['edges'] if e[1] in cur and aut_edge_active(e, i)}
    return t1 in cur


def graph_poly(graph, charges=False):
    """path polynomial of a pytenet OpGraph by own traversal (memoised suffix polynomials);
    charges=True: refined polynomial, keys (operator ids, node charges along the path) - the operator together with
    its bond quantum numbers"""
    if charges:
        return _graph_poly_q(graph)
    t0, t1 = graph.nid_terminal
    nnodes = len(graph.nodes)
    memo = {}

    def rec(nid, depth):
        if depth > nnodes + 1:
            raise Malformed('cycle or path longer than the number of nodes')
        if nid == t1:
            return {(): Fraction(1)}
        if nid in memo:
            return memo[nid]
        if nid not in graph.nodes:
            raise Malformed(f'node {nid} referenced but missing')
        node = graph.nodes[nid]
        p = {}
        for eid in node.eids[1]:
            if eid not in graph.edges:
                raise Malformed(f'edge {eid} referenced by node {nid} but missing')
            edge = graph.edges[eid]
            if edge.nids[0] != nid:
                raise Malformed(f'edge {eid} listed as outgoing of node {nid} but starts at {edge.nids[0]}')
            sub = rec(edge.nids[1], depth + 1)
            for oid, c in edge.opics:
                fc = frac(c)
                for w, cw in sub.items():
                    w2 = (int(oid),) + w
                    p[w2] = p.get(w2, 0) + fc * cw
        memo[nid] = p
        return p

    if t0 not in graph.nodes or t1 not in graph.nodes:
        raise Malformed('terminal node missing')
    p = rec(t0, 0)
    lens = {len(w) for w in p}
    if len(lens) > 1:
        raise Malformed(f'paths of different lengths {sorted(lens)} between the terminals')
    return p


def _graph_poly_q(graph):
    t0, t1 = graph.nid_terminal
    nnodes = len(graph.nodes)
    memo = {}

    def rec(nid, depth):
        if depth > nnodes + 1:
            raise Malformed('cycle or path longer than the number of nodes')
        if nid not in graph.nodes:
            raise Malformed(f'node {nid} referenced but missing')
        q = graph.nodes[nid].qnum
        if nid == t1:
            return {((), (q,)): Fraction(1)}
        if nid in memo:
            return memo[nid]
        p = {}
        for eid in graph.nodes[nid].eids[1]:
            if eid not in graph.edges:
                raise Malformed(f'edge {eid} referenced by node {nid} but missing')
            edge = graph.edges[eid]
            sub = rec(edge.nids[1], depth + 1)
            for oid, c in edge.opics:
                fc = frac(c)
                for (w, qs), cw in sub.items():
                    k = ((int(oid),) + w, (q,) + qs)
                    p[k] = p.get(k, 0) + fc * cw
        memo[nid] = p
        return p

    return rec(t0, 0)


def pq_flip(p):
    return {(tuple(reversed(w)), tuple(reversed(qs))): c for (w, qs), c in p.items()}


def graph_levels(graph):
    """own breadth-first levels from terminal 0 along outgoing edges: dict nid -> level"""
    t0 = graph.nid_terminal[0]
    lev = {t0: 0}
    frontier = [t0]
    steps = 0
    while frontier:
        steps += 1
        if steps > len(graph.nodes) + 2:
            raise Malformed('level search does not terminate (cycle)')
        nxt = []
        for nid in frontier:
            if nid not in graph.nodes:
                raise Malformed(f'node {nid} missing')
            for eid in graph.nodes[nid].eids[1]:
                if eid not in graph.edges:
                    raise Malformed(f'edge {eid} missing')
                m = graph.edges[eid].nids[1]
                if m in lev:
                    if lev[m] != lev[nid] + 1:
                        raise Malformed(f'node {m} at two levels')
                else:
                    lev[m] = lev[nid] + 1
                    nxt.append(m)
        frontier = nxt
    return lev


def graph_widths(graph):
    lev = graph_levels(graph)
    n = max(lev.values()) + 1
    w = [0] * n
    for l in lev.values():
        w[l] += 1
    return w


def graph_dump(graph):
    """deep structural dump (pure Python values) of an OpGraph"""
    nodes = tuple(sorted((k, n.nid, tuple(n.eids[0]), tuple(n.eids[1]), n.qnum) for k, n in graph.nodes.items()))
    edges = tuple(sorted((k, e.eid, tuple(e.nids), tuple((i, float(c)) for i, c in e.opics)) for k, e in graph.edges.items()))
    return (nodes, edges, tuple(graph.nid_terminal))


# ---------------------------------------------------------------------------------------------
# dense evaluation

def poly_dense(p, opmap, L, d):
    """sum_w coeff(w) * opmap[w0] (x) opmap[w1] (x) ... as dense matrix (prefix-sharing recursion)"""
    items = [(w, float(c)) for w, c in p_clean(p).items()]
    for w, _ in items:
        if len(w) != L:
            raise ValueError('word length differs from L')

    def rec(its, k):
        if k == L:
            return np.array([[sum(c for _, c in its)]], dtype=complex)
        groups = {}
        for w, c in its:
            groups.setdefault(w[0], []).append((w[1:], c))
        out = np.zeros((d ** (L - k), d ** (L - k)), dtype=complex)
        for o, sub in groups.items():
            out = out + np.kron(opmap[o], rec(sub, k + 1))
        return out

    if not items:
        return np.zeros((d ** L, d ** L), dtype=complex)
    return rec(items, 0)


def rand_opmap(rng, qd, charges, oid_identity=None, cplx=True):
    """random local operators with the sparsity demanded by the operator charges:
    op[s, t] != 0 only if qd[s] - qd[t] == charge; the identity id is the identity matrix"""
    qd = np.asarray(qd)
    d = len(qd)
    diff = qd[:, None] - qd[None, :]
    opmap = {}
    for oid in sorted(charges):
        if oid == oid_identity:
            opmap[oid] = np.identity(d)
            continue
        m = rng.standard_normal((d, d))
        if cplx:
            m = m + 1j * rng.standard_normal((d, d))
        opmap[oid] = np.where(diff == charges[oid], m, 0)
    return opmap


def chain_charges(chains, L, oid_identity):
    """charge (difference of the adjacent bond quantum numbers) of every operator id of the padded chains;
    None if some id occurs with two different charges or the identity id is charged"""
    ch = {oid_identity: 0}
    for oids, qnums, coeff, istart in chains:
        for k, o in enumerate(oids):
            dq = qnums[k + 1] - qnums[k]
            if ch.setdefault(int(o), dq) != dq:
                return None
    return ch


def graph_charges(gd):
    """same for a graph descriptor"""
    q = {n[0]: n[1] for n in gd['nodes']}
    ch = {}
    for eid, n0, n1, opics in gd['edges']:
        for o, c in opics:
            dq = q[n1] - q[n0]
            if ch.setdefault(int(o), dq) != dq:
                return None
    return ch


def pyten_graph_charges(graph):
    ch = {}
    for e in graph.edges.values():
        dq = graph.nodes[e.nids[1]].qnum - graph.nodes[e.nids[0]].qnum
        for o, c in e.opics:
            if ch.setdefault(int(o), dq) != dq:
                return None
    return ch


def schmidt_ranks(M, d, L, rtol=1e-10):
    """operator Schmidt rank of the dense d^L x d^L matrix across every cut 1..L-1 together with the
    singular-value gap (smallest kept / largest discarded relative to the largest)"""
    out = []
    for l in range(1, L):
        a, b = d ** l, d ** (L - l)
        T = M.reshape(a, b, a, b).transpose(0, 2, 1, 3).reshape(a * a, b * b)
        s = np.linalg.svd(T, compute_uv=False)
        if s[0] == 0:
            out.append((0, 0.0, 0.0))
            continue
        r = int(np.sum(s > rtol * s[0]))
        kept = s[r - 1] / s[0]
        disc = s[r] / s[0] if r < len(s) else 0.0
        out.append((r, float(kept), float(disc)))
    return out


# ---------------------------------------------------------------------------------------------
# construction of pytenet objects from descriptors

def build_chains(chains):
    """the caller fills the same two scratch lists for every chain and overwrites them afterwards (a chain owns copies)"""
    import pytenet as ptn
    out = []; so = []; sq = []
    for o, q, c, s in chains:
        so[:] = list(o); sq[:] = list(q)
        out.append(ptn.OpChain(so, sq, c, s))
    so[:] = [-7] * len(so); sq[:] = [123] * len(sq)
    return out


def build_tree_node(nd):
    from pytenet.optree import OpTreeNode, OpTreeEdge
    qnum, children = nd
    if (len(children) + int(qnum)) % 2:
        # built incrementally: the node is created empty and its children are attached afterwards (the public add_child)
        node = OpTreeNode([], qnum)
        for oid, coeff, ch in children:
            node.add_child(OpTreeEdge(oid, coeff, build_tree_node(ch)))
        return node
    return OpTreeNode([OpTreeEdge(oid, coeff, build_tree_node(ch)) for oid, coeff, ch in children], qnum)


def build_tree(t):
    from pytenet.optree import OpTree
    return OpTree(build_tree_node(t[0]), t[1])


def build_automaton(aut):
    from pytenet.autop import AutOp, AutOpNode, AutOpEdge
    a = AutOp([AutOpNode(nid, [], [], q) for nid, q in aut['nodes']], [], list(aut['term']))
    for e in aut['edges']:
        eid, n0, n1, opics, active = e
        if isinstance(opics, dict):
            tab = [[(int(o), c) for o, c in site] for site in opics['sites']]
            op = (lambda i, tab=tab: list(tab[i]))
        else:
            op = [(int(o), c) for o, c in opics]
        if isinstance(active, list):
            if eid % 2 == 1:
                # activity read from a boolean mask array (round 9): the callable returns numpy.bool_, which is falsy / truthy
                # but not the object False / True -- the documented type is "bool", a mask lookup is the realistic way to get one
                import numpy as _np
                act = (lambda i, tab=_np.array([bool(x) for x in active], dtype=bool): tab[i])
            else:
                act = (lambda i, tab=list(active): bool(tab[i]))
        else:
            act = bool(active)
        a.add_connect_edge(AutOpEdge(eid, [n0, n1], op, act))
    return a


def build_graph(gd):
    from pytenet.opgraph import OpGraph, OpGraphNode, OpGraphEdge
    # the caller-owned list of terminal ids is passed as it is (the constructor has to copy it: flip() reverses the graph's own list)
    g = OpGraph([OpGraphNode(nid, [], [], q) for nid, q in gd['nodes']], [], gd['term'])
    shared = {}
    for eid, n0, n1, opics in gd['edges']:
        # parallel edges are built from one caller-owned [from, to] list object (the constructor has to copy it)
        nids = shared.setdefault((n0, n1), [n0, n1])
        g.add_connect_edge(OpGraphEdge(eid, nids, [(int(o), c) for o, c in opics]))
    return g


def gd_poly(gd):
    """path polynomial of a graph *descriptor* (second independent implementation, forward DP over edges)"""
    t0, t1 = gd['term']
    out = {}
    for e in gd['edges']:
        out.setdefault(e[1], []).append(e)
    cur = {t0: {(): Fraction(1)}}
    res = {}
    for _ in range(len(gd['nodes']) + 1):
        if t1 in cur:
            res = p_add(res, cur[t1])
        nxt = {}
        for nid, p in cur.items():
            if nid == t1:
                continue
            for eid, n0, n1, opics in out.get(nid, []):
                tgt = nxt.setdefault(n1, {})
                for o, c in opics:
                    fc = frac(c)
                    for w, cw in p.items():
                        w2 = w + (int(o),)
                        tgt[w2] = tgt.get(w2, 0) + cw * fc
        cur = nxt
        if not cur:
            break
    return res


def gd_relabel(gd, nmap, emap):
    return dict(nodes=[[nmap[n], q] for n, q in gd['nodes']],
                edges=[[emap[e], nmap[a], nmap[b], [list(x) for x in op]] for e, a, b, op in gd['edges']],
                term=[nmap[gd['term'][0]], nmap[gd['term'][1]]])


def gd_typed(gd):
    """make operator ids charge-typed: oid' = 3*oid + (dq + 1), so that a global operator map consistent with
    the node charges exists (dq in {-1, 0, 1})"""
    q = {n[0]: n[1] for n in gd['nodes']}
    return dict(nodes=[list(n) for n in gd['nodes']],
                edges=[[e, a, b, [[3 * int(o) + (q[b] - q[a] + 1), c] for o, c in op]] for e, a, b, op in gd['edges']],
                term=list(gd['term']))


# ---------------------------------------------------------------------------------------------
# exception classification

def exc_info(e):
    """(type name, source line of the innermost frame, 'file:lineno')"""
    tb = traceback.extract_tb(e.__traceback__)
    if not tb:
        return type(e).__name__, '', ''
    fr = tb[-1]
    return type(e).__name__, (fr.line or ''), f'{fr.filename.split("/")[-1]}:{fr.lineno}'


def is_final_coeff_assert(e):
    name, line, where = exc_info(e)
    return name == 'AssertionError' and 'coeffs_next[0] == 1.0' in line


# ---------------------------------------------------------------------------------------------
# generators shared between the property modules

COEFFS = (1.0, -1.0, 2.0, 0.5)
DYADIC = (1.0, -1.0, 2.0, 0.5, -0.5, 0.25, 3.0, -2.0, 1.5, -0.75, 4.0, -3.0)

# charge-typed alphabet for random chain lists: operator id -> charge; id 0 is the identity
TYPED = {0: 0, 1: 0, 2: 0, 3: 1, 4: 1, 5: -1, 6: -1, 7: 2, 8: -2}
TYPED_BY_DQ = {0: (0, 1, 2), 1: (3, 4), -1: (5, 6), 2: (7,), -2: (8,)}


def chain_shapes(L, letters=(0, 1, 2), charges=(0, 1, -1)):
    """all (oids, qnums, istart) on a lattice of length L: every start site and length, every word over the
    letters, every interior bond-charge assignment (leading and trailing charge 0)"""
    out = []
    for n in range(1, L + 1):
        for s in range(0, L - n + 1):
            for w in itertools.product(letters, repeat=n):
                for q in itertools.product(charges, repeat=n - 1):
                    out.append((list(w), [0] + list(q) + [0], s))
    return out


def rand_typed_chain(rng, L, zero_charge=False):
    n = int(rng.integers(1, L + 1))
    s = int(rng.integers(0, L - n + 1))
    q = [0]
    for k in range(n - 1):
        q.append(0 if zero_charge else int(rng.choice([-1, 0, 0, 1])))
    q.append(0)
    oids = []
    for k in range(n):
        dq = q[k + 1] - q[k]
        oids.append(int(rng.choice(TYPED_BY_DQ[dq])))
    return [oids, q, None, s]


def rand_chain_list(rng, L, nmax, zero_coeffs=True):
    """random charge-typed chain list with duplicates, accumulating / cancelling repeats, shared prefixes and
    suffixes, identity ids inside chains, zero coefficients; dyadic coefficients (exact arithmetic)"""
    m = int(rng.integers(1, nmax + 1))
    zero_charge = rng.random() < 0.25
    chains = []
    for k in range(m):
        r = rng.random()
        if chains and r < 0.2:
            src = chains[int(rng.integers(len(chains)))]
            ch = [list(src[0]), list(src[1]), None, src[3]]
            if rng.random() < 0.4:
                ch[2] = -src[2]
        elif chains and r < 0.45:
            # same operators except at one position with the same charge
            src = chains[int(rng.integers(len(chains)))]
            ch = [list(src[0]), list(src[1]), None, src[3]]
            k2 = int(rng.integers(len(ch[0])))
            dq = ch[1][k2 + 1] - ch[1][k2]
            ch[0][k2] = int(rng.choice(TYPED_BY_DQ[dq]))
        else:
            ch = rand_typed_chain(rng, L, zero_charge)
        if ch[2] is None:
            pool = DYADIC + ((0.0,) if zero_coeffs else ())
            ch[2] = float(rng.choice(pool))
        chains.append(ch)
    if all(c[2] == 0 for c in chains):
        chains[0][2] = 1.0
    return chains


OPICS_MENU = ([[1, 1.0]], [[2, 1.0]], [[1, -1.0]], [[0, 1.0]], [[1, 2.0]], [[1, 1.0], [2, -1.0]],
              [[1, 0.5], [2, 0.5]], [[2, -1.0]], [[0, 1.0], [1, 1.0]], [[2, 0.5]],
              [[1, 1.0], [1, 1.0]], [[2, 1.0], [1, 0.5], [2, -1.0]])      # repeated ids inside one operator sum (accumulate / cancel)


# operator sums that differ only by a coefficient perturbation far below np.isclose's tolerances (exactly representable:
# sums of a few of them are exact in binary floating point, the symbolic oracle works with Fractions)
NEAR_MENUS = (([[1, 1.0]], [[1, 1.0 + 2.0 ** -30]]), ([[2, 2.0 ** -40]], [[2, 3 * 2.0 ** -40]]),
              ([[1, 0.5], [2, 0.5]], [[1, 0.5], [2, 0.5 + 2.0 ** -32]]))


def rand_layered_graph(rng, length, wmax, maxpar=2, dangling=False, menu_size=None, charges=(0, 1), pdens=None, near=None):
    """random small consistent layered graph descriptor: canonical ids (nodes numbered layer by layer from 0,
    edges from 0), every node on a path between the terminals unless dangling=True"""
    widths = [1] + [int(rng.integers(1, wmax + 1)) for _ in range(length - 1)] + [1]
    k = int(rng.integers(2, 5)) if menu_size is None else menu_size
    menu = [OPICS_MENU[i] for i in rng.choice(len(OPICS_MENU), size=k, replace=False)]
    if near is not None:
        menu = list(NEAR_MENUS[near % len(NEAR_MENUS)]) + menu[:max(0, k - 2)]
    layers = []
    nid = 0
    nodes = []
    for w in widths:
        lay = []
        for _ in range(w):
            nodes.append([nid, int(rng.choice(charges))])
            lay.append(nid)
            nid += 1
        layers.append(lay)
    pdens = float(rng.choice([0.35, 0.6, 0.85])) if pdens is None else pdens
    edges = []
    eid = 0
    for l in range(length):
        mult = {}
        for u in layers[l]:
            for v in layers[l + 1]:
                if rng.random() < pdens:
                    mult[(u, v)] = 1 + int(maxpar > 1 and rng.random() < 0.3)
        for u in layers[l]:
            if not any(a == u for a, b in mult):
                mult[(u, layers[l + 1][int(rng.integers(len(layers[l + 1])))])] = 1
        for v in layers[l + 1]:
            if not any(b == v for a, b in mult):
                mult[(layers[l][int(rng.integers(len(layers[l])))], v)] = 1
        for (u, v), m in sorted(mult.items()):
            for _ in range(m):
                edges.append([eid, u, v, [list(x) for x in menu[int(rng.integers(len(menu)))]]])
                eid += 1
    if dangling and length >= 2:
        # extra interior nodes with incoming edges only (dead end) or outgoing edges only (unreachable)
        for _ in range(int(rng.integers(1, 3))):
            l = int(rng.integers(1, length))
            nodes.append([nid, int(rng.choice(charges))])
            if rng.random() < 0.5:
                for u in layers[l - 1]:
                    if rng.random() < 0.7 or u == layers[l - 1][0]:
                        edges.append([eid, u, nid, [list(x) for x in menu[int(rng.integers(len(menu)))]]])
                        eid += 1
            else:
                for v in layers[l + 1]:
                    if rng.random() < 0.7 or v == layers[l + 1][0]:
                        edges.append([eid, nid, v, [list(x) for x in menu[int(rng.integers(len(menu)))]]])
                        eid += 1
            nid += 1
    return dict(nodes=nodes, edges=edges, term=[layers[0][0], layers[-1][0]])


def enum_tiny_graphs(length, width, menu, maxpar, charges=(0, 1), cap=None):
    """exhaustive enumeration of the layered graphs with the given interior width (all interior layers), every
    node on a terminal-to-terminal path: per node pair of adjacent layers none / one / two parallel edges with
    operator sums from the menu (unordered), interior node charges from `charges`, terminal charges 0"""
    widths = [1] + [width] * (length - 1) + [1]
    layers = []
    nid = 0
    for w in widths:
        layers.append(list(range(nid, nid + w)))
        nid += w
    pairs = [(u, v) for l in range(length) for u in layers[l] for v in layers[l + 1]]
    opts = [[]] + [[m] for m in range(len(menu))]
    if maxpar > 1:
        opts += [[a, b] for a in range(len(menu)) for b in range(a, len(menu))]
    interior = [n for lay in layers[1:-1] for n in lay]
    count = 0
    for qs in itertools.product(charges, repeat=len(interior)):
        q = {layers[0][0]: 0, layers[-1][0]: 0}
        q.update(dict(zip(interior, qs)))
        for choice in itertools.product(range(len(opts)), repeat=len(pairs)):
            has_out = set()
            has_in = set()
            for (u, v), c in zip(pairs, choice):
                if opts[c]:
                    has_out.add(u)
                    has_in.add(v)
            if any(n not in has_out for lay in layers[:-1] for n in lay) or any(n not in has_in for lay in layers[1:] for n in lay):
                continue
            edges = []
            eid = 0
            for (u, v), c in zip(pairs, choice):
                for m in opts[c]:
                    edges.append([eid, u, v, [list(x) for x in menu[m]]])
                    eid += 1
            yield dict(nodes=[[n, q[n]] for lay in layers for n in lay], edges=edges, term=[layers[0][0], layers[-1][0]])
            count += 1
            if cap and count >= cap:
                return


def mergeable_pairs(gd_nodes_edges):
    """(eid1, eid2, direction, branch) for every ordered pair of distinct edges of an OpGraph satisfying the
    documented preconditions of merge_edges; branch 'same' = same upstream node, 'fuse' = different upstream
    nodes (equal operator sums, both upstream nodes have exactly one edge towards the base node, equal charges)"""
    graph = gd_nodes_edges
    out = []
    eids = sorted(graph.edges)
    for direction in (0, 1):
        for e1 in eids:
            for e2 in eids:
                if e1 == e2:
                    continue
                a, b = graph.edges[e1], graph.edges[e2]
                if a.nids[direction] != b.nids[direction]:
                    continue
                if a.nids[1 - direction] == b.nids[1 - direction]:
                    out.append((e1, e2, direction, 'same'))
                    continue
                if [(int(i), float(c)) for i, c in a.opics] != [(int(i), float(c)) for i, c in b.opics]:
                    continue
                n1, n2 = graph.nodes[a.nids[1 - direction]], graph.nodes[b.nids[1 - direction]]
                if len(n1.eids[direction]) != 1 or len(n2.eids[direction]) != 1 or n1.qnum != n2.qnum:
                    continue
                if n1.nid in graph.nid_terminal or n2.nid in graph.nid_terminal:
                    continue
                out.append((e1, e2, direction, 'fuse'))
    return out


# ---------------------------------------------------------------------------------------------
# trees and automata

def tree_shapes(h):
    """all tree shapes of height <= h with branching <= 2 (ordered children); a shape is a tuple of child shapes,
    () is a leaf.  1, 3, 13, 183 shapes for h = 0, 1, 2, 3"""
    if h == 0:
        return [()]
    sub = tree_shapes(h - 1)
    return [()] + [(a,) for a in sub] + [(a, b) for a in sub for b in sub]


def shape_height(s):
    return 0 if not s else 1 + max(shape_height(c) for c in s)


def label_tree(rng, shape, root=True, letters=(0, 1, 2), share=0.35):
    """tree node descriptor for a shape: root and leaf charges 0, interior charges from {0, 1}; edge operator ids
    from the letters (0 = identity), coefficients from COEFFS; siblings share operator and coefficient with
    probability `share` (so that the simplification inside from_optrees has something to merge)"""
    if not shape:
        return [0, []]
    q = 0 if root else int(rng.integers(0, 2))
    children = []
    for k, sub in enumerate(shape):
        if k > 0 and rng.random() < share:
            oid, coeff = children[0][0], children[0][1]
        else:
            oid, coeff = int(rng.choice(letters)), float(rng.choice(COEFFS))
        children.append([oid, coeff, label_tree(rng, sub, False, letters, share)])
    if len(children) == 2 and rng.random() < share:
        # equal interior charges make the two children mergeable
        if children[0][2][1] and children[1][2][1]:
            children[1][2][0] = children[0][2][0]
    return [q, children]


def rand_automaton(rng, nextra, Lmax=5, letters=(0, 1, 2)):
    """random operator state automaton descriptor: terminals 0 and 1 (occasionally one node serving as both),
    `nextra` further nodes, self loops, parallel edges, never-active edges, site-dependent active / opics tables
    (length Lmax); dead states arise naturally"""
    single = rng.random() < 0.08
    nids = [0] if single else [0, 1]
    nids += list(range(2, 2 + nextra))
    nodes = [[n, int(rng.integers(0, 2))] for n in nids]
    dens = float(rng.choice([0.25, 0.4, 0.6]))
    edges = []
    eid = 0

    def opics():
        k = 1 + int(rng.random() < 0.3)
        # occasionally the same id twice in one operator sum (OpGraphEdge accumulates the coefficients)
        return [[int(o), float(rng.choice(COEFFS))] for o in rng.choice(letters, size=k, replace=bool(rng.random() < 0.25))]

    for u in nids:
        for v in nids:
            p = dens * (1.6 if u == v else 1.0)
            if rng.random() >= p:
                continue
            for _ in range(1 + int(rng.random() < 0.2)):
                r = rng.random()
                op = opics() if r < 0.7 else {'sites': [opics() for _ in range(Lmax)]}
                r = rng.random()
                if r < 0.7:
                    act = True
                elif r < 0.78:
                    act = False
                else:
                    act = [bool(x) for x in rng.random(Lmax) < 0.65]
                edges.append([eid, u, v, op, act])
                eid += 1
    return dict(nodes=nodes, edges=edges, term=[0, 0] if single else [0, 1])
