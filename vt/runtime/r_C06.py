"""C06 bounded stand-in: built-in lattice Hamiltonians equal their textbook definitions.

Clauses (per returned MPO): returns, wf (class invariant / block sparsity under the carried quantum numbers),
qd_faithful (the physical charges distinguish the local states of a conserving model, i.e. the quantum numbers
do express magnetization / particle number / (particle number, spin)), shape, dense (as_matrix() == independent
reference), hermitian (model Hamiltonians, real parameters); for linear_fermionic_mpo additionally the
orientation-independent facts anticommutator (op op^dag + op^dag op = sum|f|^2 I) and adjoint
(mpo(f,'a') == mpo(conj f,'c')^dag).
"""
import itertools, json, os
# single-threaded BLAS (vt/check.py sets the same for the runner): 14 worker processes x the OpenBLAS thread pool
# oversubscribe the 16 cores (measured: 235 s instead of 25 s wall); only effective if numpy is not yet imported
for _v in ('OMP_NUM_THREADS', 'OPENBLAS_NUM_THREADS', 'MKL_NUM_THREADS'):
    os.environ.setdefault(_v, '1')
import numpy as np
import pytenet as ptn
from . import oracle, h_ham

RULE = ('enumerated (model, L[, d]) x parameter grid {0, +1, -1, generic g>0, generic -g\'}^3 (generic values seeded, '
        'plus fully generic seeded points; parameters passed as float, points in {0,+-1}^3 also as int); the point is '
        'skipped only if every parameter whose term exists on the lattice is zero (identically zero operator; two-site '
        'couplings do not exist for L=1); linear_fermionic_mpo: both types x coefficient-vector styles (complex, real, '
        'unit vectors, zeros inside, +-1, imaginary). Every evaluated case is non-trivial; distinct = distinct descriptor')
BOUNDS = {'quick': 'L=1..6 (Fermi-Hubbard L<=4; bosons d=1..4 with d^L<=1024), 5^3 grid + 4 generic points per (model,L,d); '
                   'linear fermionic L=1..6, ~24 vectors per (L,type)',
          'thorough': 'L=1..6 (Fermi-Hubbard L<=5; bosons d=1..4, (d=4,L=6) on 6 points only), 5^3 grid + 40 generic points; '
                      'linear fermionic L=1..6, ~120 vectors per (L,type)'}

MODELS = ('ising', 'xxz', 'xxz1', 'bose', 'fermi')
CTOR = {'ising': 'ising_mpo', 'xxz': 'heisenberg_xxz_mpo', 'xxz1': 'heisenberg_xxz_spin1_mpo',
        'bose': 'bose_hubbard_mpo', 'fermi': 'fermi_hubbard_mpo', 'linear': 'linear_fermionic_mpo'}
# index of the parameters that multiply two-site terms (absent for L = 1)
TWO_SITE = {'ising': (0,), 'xxz': (0, 1), 'xxz1': (0, 1), 'bose': (0,), 'fermi': (0,)}
VEC_STYLES = ('complex', 'real', 'unit', 'unit_phase', 'holes', 'pm1', 'imag', 'first_last', 'ints')


def in_domain(model, L, params):
    eff = [p for k, p in enumerate(params) if not (L == 1 and k in TWO_SITE[model])]
    return any(p != 0 for p in eff)


def cases(tier, seed):
    rng = np.random.default_rng(seed)
    quick = tier == 'quick'
    ngen = 4 if quick else 40
    for model in MODELS:
        Ls = range(1, 7)
        if model == 'fermi':
            Ls = range(1, 5) if quick else range(1, 6)
        for L in Ls:
            ds = (1, 2, 3, 4) if model == 'bose' else (None,)
            for d in ds:
                small = False
                if d is not None and d ** L > 1024:
                    if quick:
                        continue
                    small = True            # (d=4, L=6): 4096 x 4096, a handful of points only
                g1, g2 = float(rng.uniform(0.1, 2.0)), float(-rng.uniform(0.1, 2.0))
                vals = (0.0, 1.0, -1.0, g1, g2)
                pts = [list(p) for p in itertools.product(vals, repeat=3)]
                if small:
                    pts = [[g1, g2, 1.0], [0.0, g2, 0.0], [1.0, 0.0, 0.0], [-1.0, 1.0, g1], [0.0, 0.0, g2], [g2, -1.0, g1]]
                for _ in range(ngen if not small else 0):
                    pts.append([float(x) for x in rng.normal(0, 1.5, 3)])
                # other energy units: every parameter value is legal, also very small and very large ones
                for sc in ((1e-9, 1e+7) if quick else (1e-9, 1e-12, 3e-7, 1e+7, 1e+12)):
                    if not small:
                        pts.append([float(x) * sc for x in rng.normal(0, 1.5, 3)])
                        pts.append([g1 * sc, 0.0, g2 * sc])
                for p in pts:
                    if not in_domain(model, L, p):
                        continue
                    as_int = bool(all(x in (0.0, 1.0, -1.0) for x in p) and rng.integers(2))
                    c = dict(kind=model, L=L, params=p, as_int=as_int, seed=int(rng.integers(1 << 31)))
                    if d is not None:
                        c['d'] = d
                    yield c
    reps = 2 if quick else 12
    for L in range(1, 7):
        for ftype in ('c', 'a'):
            for style in VEC_STYLES:
                n = L if style in ('unit', 'unit_phase') else reps
                for r in range(n):
                    yield dict(kind='linear', L=L, ftype=ftype, style=style, idx=r, seed=int(rng.integers(1 << 31)))
        # the long spellings of the type argument accepted by the pinned source
        for ftype in ('create', 'creation', 'annihilate', 'annihilation'):
            for style in ('complex', 'unit'):
                if style in VEC_STYLES:
                    yield dict(kind='linear', L=L, ftype=ftype, style=style, idx=0, seed=int(rng.integers(1 << 31)))


def coeff_vector(rng, L, style, idx):
    z = rng.standard_normal(L) + 1j * rng.standard_normal(L)
    if style == 'real':
        f = rng.standard_normal(L)
    elif style == 'unit':
        f = np.zeros(L); f[idx % L] = 1.0
    elif style == 'unit_phase':
        f = np.zeros(L, dtype=complex); f[idx % L] = z[0]
    elif style == 'holes':
        f = z * (rng.random(L) < 0.5)
        if not f.any():
            f[int(rng.integers(L))] = z[0]
    elif style == 'pm1':
        f = rng.choice([-1.0, 1.0], L)
    elif style == 'imag':
        f = 1j * rng.standard_normal(L)
    elif style == 'first_last':
        f = np.zeros(L, dtype=complex); f[0] = z[0]; f[-1] = z[-1]
    elif style == 'ints':
        f = rng.integers(-2, 3, L)
        if not f.any():
            f[int(rng.integers(L))] = 2
    else:
        f = z
    return f


def _construct(c):
    """returns (callable, printable call, reference thunk, hermitian?, must-distinguish-local-states?)"""
    k, L = c['kind'], c['L']
    p = [int(x) for x in c['params']] if c.get('as_int') else list(c['params'])
    if k == 'ising':
        return (lambda: ptn.ising_mpo(L, *p)), f'ising_mpo({L}, {p[0]!r}, {p[1]!r}, {p[2]!r})', \
               (lambda: h_ham.ising_ref(L, *c['params'])), 2
    if k == 'xxz':
        return (lambda: ptn.heisenberg_xxz_mpo(L, *p)), f'heisenberg_xxz_mpo({L}, {p[0]!r}, {p[1]!r}, {p[2]!r})', \
               (lambda: h_ham.xxz_ref(L, *c['params'], two_s=1)), 2
    if k == 'xxz1':
        return (lambda: ptn.heisenberg_xxz_spin1_mpo(L, *p)), f'heisenberg_xxz_spin1_mpo({L}, {p[0]!r}, {p[1]!r}, {p[2]!r})', \
               (lambda: h_ham.xxz_ref(L, *c['params'], two_s=2)), 3
    if k == 'bose':
        d = c['d']
        return (lambda: ptn.bose_hubbard_mpo(d, L, *p)), f'bose_hubbard_mpo({d}, {L}, {p[0]!r}, {p[1]!r}, {p[2]!r})', \
               (lambda: h_ham.bose_hubbard_ref(d, L, *c['params'])), d
    if k == 'fermi':
        return (lambda: ptn.fermi_hubbard_mpo(L, *p)), f'fermi_hubbard_mpo({L}, {p[0]!r}, {p[1]!r}, {p[2]!r})', \
               (lambda: h_ham.fermi_hubbard_ref(L, *c['params'])), 4
    raise ValueError(k)


def _checked_dense(op, name, call, dloc, L, fail):
    """wf + shape + as_matrix(); returns the dense matrix or None"""
    bad = oracle.wf_mpo(op)
    if len(op.A) != L:
        bad.append(f'number of sites {len(op.A)} != {L}')
    elif len(op.qD[0]) != 1 or len(op.qD[-1]) != 1:
        bad.append(f'boundary bond dimensions {len(op.qD[0])}, {len(op.qD[-1])} != 1')
    if bad:
        fail('wf', f'{call}: ' + '; '.join(bad))
        return None
    if len(op.qd) != dloc:
        fail('shape', f'{call}: local dimension {len(op.qd)} != {dloc}')
        return None
    try:
        if dloc ** L > 1024:
            M = op.as_matrix(sparse_format=True).toarray()
        else:
            M = op.as_matrix()
    except Exception as e:
        fail('dense', f'{call}.as_matrix() raised {type(e).__name__}: {e} at {h_ham.exception_where(e)}', f'as_matrix-{type(e).__name__}')
        return None
    M = np.asarray(M)
    if M.shape != (dloc ** L, dloc ** L):
        fail('shape', f'{call}.as_matrix() has shape {M.shape}, expected {(dloc ** L, dloc ** L)}')
        return None
    return M


def run_case(c):
    key = json.dumps(c, sort_keys=True)
    fails = []
    name = CTOR[c['kind']]

    def fail(clause, detail, qualifier=None):
        fails.append(dict(clause=clause, detail=detail, signature=f'{name}:{clause}' + (f':{qualifier}' if qualifier else '')))

    def done():
        return dict(failures=fails, nontrivial=True, key=key)

    L = c['L']
    if c['kind'] == 'linear':
        rng = np.random.default_rng(c['seed'])
        f = coeff_vector(rng, L, c['style'], c['idx'])
        ft = c['ftype']
        other = 'a' if ft in ('c', 'create', 'creation') else 'c'
        call = f'linear_fermionic_mpo({f.tolist()!r}, {ft!r})'
        mats = {}
        for typ, vec in ((ft, f), (other, np.conj(f))):
            cl = f'linear_fermionic_mpo({np.asarray(vec).tolist()!r}, {typ!r})'
            try:
                op = ptn.linear_fermionic_mpo(vec, typ)
            except Exception as e:
                fail('returns', f'{cl} raised {type(e).__name__}: {e} at {h_ham.exception_where(e)}', h_ham.exception_qualifier(e))
                return done()
            M = _checked_dense(op, name, cl, 2, L, fail)
            if M is None:
                return done()
            if len(set(int(q) for q in op.qd)) != 2:
                fail('qd_faithful', f'{cl}: physical quantum numbers {op.qd.tolist()} do not distinguish |0> and |1>')
            mats[typ] = M
        M = mats[ft]
        ref = h_ham.linear_fermionic_ref(f, ft, 'right')
        if not oracle.close(M, ref):
            alt = h_ham.linear_fermionic_ref(f, ft, 'left')
            fail('dense', f'{call}: |as_matrix - reference| = {np.linalg.norm(M - ref):.3e} (norm {np.linalg.norm(ref):.3e}; '
                          f'distance to the reference with the opposite Jordan-Wigner orientation {np.linalg.norm(M - alt):.3e})')
        w = float(np.sum(np.abs(f) ** 2))
        ac = M @ M.conj().T + M.conj().T @ M
        if not oracle.close(ac, w * np.identity(2 ** L), scale=max(1.0, w * np.sqrt(2 ** L))):
            fail('anticommutator', f'{call}: |op op^dag + op^dag op - {w} I| = {np.linalg.norm(ac - w * np.identity(2 ** L)):.3e}')
        if not oracle.close(M, mats[other].conj().T):
            fail('adjoint', f'{call}: differs from linear_fermionic_mpo(conj f, {other!r})^dagger by {np.linalg.norm(M - mats[other].conj().T):.3e}')
        return done()

    build, call, reference, dloc = _construct(c)
    try:
        op = build()
    except Exception as e:
        fail('returns', f'{call} raised {type(e).__name__}: {e} at {h_ham.exception_where(e)}', h_ham.exception_qualifier(e))
        return done()
    M = _checked_dense(op, name, call, dloc, L, fail)
    if M is None:
        return done()
    if c['kind'] != 'ising' and len(set(int(q) for q in op.qd)) != dloc:
        fail('qd_faithful', f'{call}: physical quantum numbers {op.qd.tolist()} do not distinguish the {dloc} local states '
                            '(magnetization / particle number / spin sectors)')
    ref = reference()
    nref = float(np.linalg.norm(ref))
    if not oracle.close(M, ref):
        fail('dense', f'{call}: |as_matrix - reference| = {np.linalg.norm(M - ref):.3e}, reference norm {nref:.3e}')
    if not oracle.close(M, M.conj().T):
        fail('hermitian', f'{call}: |H - H^dagger| = {np.linalg.norm(M - M.conj().T):.3e}, norm {np.linalg.norm(M):.3e}')
    # history: the first result is overwritten in place (tensors and quantum numbers), then the constructor is called again with the
    # same arguments ("for every parameter value": also the second time)
    if c['seed'] % 3 == 0:
        try:
            for T_ in op.A:
                T_ *= 0
            op.zero_qnumbers()
            op2 = build()
            M2 = _checked_dense(op2, name, call + ' (second call after the first result was overwritten in place)', dloc, L, fail)
            if M2 is not None and not oracle.close(M2, ref):
                fail('dense', f'{call}: the second call with the same arguments, after the first result was overwritten in place, deviates from the reference by '
                              f'{np.linalg.norm(M2 - ref):.3e}')
        except Exception as e:
            fail('returns', f'{call}: second call raised {type(e).__name__}: {e}')
    return done()
