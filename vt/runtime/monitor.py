"""Run-time contract monitor for the engine-T contracts of a property: the clause text that the prover reads
symbolically is evaluated numerically on outputs of the real functions for generated inputs that satisfy the
preconditions (CPython cross-check of contracts and engine; bounded, never counted as proved).
  python -m vt.runtime.monitor <PID> <seeds>   -> JSON {evaluations, failures:[...]}"""
import json, sys, warnings
from . import fsearch


def main():
    pid = sys.argv[1]; nseeds = int(sys.argv[2]) if len(sys.argv) > 2 else 4
    warnings.simplefilter('ignore')
    from ..props.common import load_contracts
    from ..contract import REGISTRY
    load_contracts()
    evals = 0; fails = []; skipped = 0
    for fn, cs in REGISTRY.items():
        for c in cs:
            if pid not in c.props:
                continue
            for name, cl in c.ensures.items():
                if callable(cl) and not hasattr(cl, 'numeric'):
                    skipped += 1
                    continue
                for seed in range(nseeds):
                    desc = dict(kind='fsearch', fn=fn, clause=name, seed=seed)
                    try:
                        r = fsearch.run_case(desc)
                    except Exception as e:
                        skipped += 1
                        break
                    if r.get('skipped'):
                        skipped += 1
                        break
                    evals += 1
                    for f in r['failures']:
                        fails.append(dict(case=desc, **f))
    print(json.dumps(dict(evaluations=evals, skipped=skipped, failures=fails)))


if __name__ == '__main__':
    main()
