"""Shared helpers of the bounded stand-ins C02, C03, C04, C19 (engine R).

Generators of *sector-consistent* block-sparse MPS / MPO with prescribed boundary charges (so that two
independently drawn operands can be added and are generically non-zero), harness-side adjoint / direct-sum
constructions written with plain NumPy (independent of pytenet's arithmetic), random layered operator graphs,
model table of the built-in Hamiltonian constructors, structural dumps of graphs / chains / trees / automata."""
import numpy as np
import pytenet as ptn


def enc(qa, qb):
    """encoded charge pair (particle number, spin) as used by the Fermi-Hubbard and spin-orbital models"""
    return (int(qa) << 16) + int(qb)


QD_PAIR = [enc(0, 0), enc(1, -1), enc(1, 1), enc(2, 0)]

QDSTYLES = ('zero', 'u1', 'spin', 'boson', 'large', 'pair')


def make_qd(rng, d, style):
    if style == 'zero':
        return [0] * d
    if style == 'spin':
        return [d - 1 - 2 * k for k in range(d)]
    if style == 'boson':
        return list(range(d))
    if style == 'large':
        return [int(x) * 100003 for x in rng.integers(-2, 3, d)]
    if style == 'pair':
        # d encoded pairs (d = 4 is the Hubbard site; smaller d: a prefix)
        return QD_PAIR[:d] if d <= 4 else QD_PAIR + [enc(3, 1)] * (d - 4)
    return [int(x) for x in rng.integers(-1, 2, d)]


def shifts_of(qd, mpo):
    if mpo:
        return sorted({int(a) - int(b) for a in qd for b in qd})
    return sorted({int(a) for a in qd})


def reach_sets(shifts, L, q0, q1):
    """left[i]: charges reachable at bond i from q0; valid[i]: those from which q1 is still reachable"""
    left = [{int(q0)}]
    for _ in range(L):
        left.append({p + s for p in left[-1] for s in shifts})
    right = [{int(q1)}]
    for _ in range(L):
        right.append({p - s for p in right[-1] for s in shifts})
    right.reverse()
    valid = [sorted(left[i] & right[i]) for i in range(L + 1)]
    return [sorted(x) for x in left], valid


def pick_sector(rng, qd, L, mpo=False, q0=None, zero_total=False):
    """boundary charges (q0, q1) of a non-empty sector, via a random backbone configuration"""
    sh = shifts_of(qd, mpo)
    if q0 is None:
        q0 = int(rng.integers(-2, 3)) if rng.random() < 0.5 else 0
    if zero_total and 0 in sh:
        return int(q0), int(q0)
    q1 = int(q0) + int(sum(int(rng.choice(sh)) for _ in range(L)))
    return int(q0), q1


def bond_dims(rng, L, Dmax, bstyle='random'):
    Ds = [1]
    for _ in range(1, L):
        if bstyle == 'one':
            Ds.append(1)
        elif bstyle == 'max':
            Ds.append(Dmax)
        else:
            Ds.append(int(rng.integers(1, Dmax + 1)))
    if L >= 1:
        Ds.append(1)
    return Ds


def sector_charges(rng, qd, Ds, q0, q1, mpo=False, order='random', dead=0.15):
    """bond charge lists of a sector-consistent object: entries drawn from the charges that connect q0 to q1
    (with probability `dead` from the merely left-reachable ones: blocks that vanish identically)"""
    L = len(Ds) - 1
    left, valid = reach_sets(shifts_of(qd, mpo), L, q0, q1)
    assert valid[0] and valid[L], 'empty sector requested'
    out = [[int(q0)]]
    for i in range(1, L):
        q = []
        for _ in range(Ds[i]):
            if valid[i] and rng.random() >= dead:
                q.append(int(rng.choice(valid[i])))
            else:
                q.append(int(rng.choice(left[i])))
        if valid[i] and not any(x in valid[i] for x in q):
            q[int(rng.integers(len(q)))] = int(rng.choice(valid[i]))
        if order == 'sorted':
            q = sorted(q)
        elif order == 'reverse':
            q = sorted(q, reverse=True)
        out.append(q)
    if L >= 1:
        out.append([int(q1)])
    return out


def _fix_entries(x, entries, rng=None):
    sites = None
    if entries == 'sites':
        # every site tensor gets its own entry kind (a real first site followed by complex ones, ...)
        sites = [('real', 'complex', 'int')[int(k)] for k in (rng.choice(3, size=len(x.A), p=[0.45, 0.45, 0.1]) if rng is not None else [i % 2 for i in range(len(x.A))])]
        if len(sites) >= 2 and len(set(sites)) == 1:
            sites[0] = 'real'; sites[-1] = 'complex'
    for i in range(len(x.A)):
        if sites is not None:
            entries = sites[i]
        if entries == 'real':
            x.A[i] = x.A[i].real.copy()
        elif entries == 'int':
            x.A[i] = np.round(3 * np.sqrt(x.A[i].size) * x.A[i].real).astype(int)
    return x


def rand_mps(rng, qd, L, Dmax, q0, q1, entries='complex', bstyle='random', order='random', dead=0.15):
    Ds = bond_dims(rng, L, Dmax, bstyle)
    qD = sector_charges(rng, qd, Ds, q0, q1, False, order, dead)
    return _fix_entries(ptn.MPS(list(qd), qD, fill='random', rng=rng), entries, rng)


def rand_mpo(rng, qd, L, Dmax, q0, q1, entries='complex', bstyle='random', order='random', dead=0.15):
    Ds = bond_dims(rng, L, Dmax, bstyle)
    qD = sector_charges(rng, qd, Ds, q0, q1, True, order, dead)
    return _fix_entries(ptn.MPO(list(qd), qD, fill='random', rng=rng), entries, rng)


def nontrivial(*objs):
    """an instance is trivial iff all charges are zero and all bonds are 1"""
    for x in objs:
        if any(len(q) > 1 for q in x.qD) or np.any(np.asarray(x.qd) != 0) or any(np.any(np.asarray(q) != 0) for q in x.qD):
            return True
    return False


# ---------------------------------------------------------------- harness-side constructions (plain NumPy)

def adjoint_tensors(op):
    """(qD, A) of the adjoint MPO: W'[s,t,a,b] = conj(W[t,s,a,b]), bond charges negated"""
    return [(-np.asarray(q)).tolist() for q in op.qD], [np.conj(W.transpose(1, 0, 2, 3)).copy() for W in op.A]


def direct_sum_mpo_tensors(A0, A1):
    """tensors of the MPO sum written with explicit zero padding (independent of add_mpo / np.block)"""
    L = len(A0)
    if L == 1:
        return [A0[0] + A1[0]]
    out = []
    for i in range(L):
        a, b = A0[i], A1[i]
        d = a.shape[0]
        if i == 0:
            T = np.zeros((d, d, 1, a.shape[3] + b.shape[3]), dtype=complex)
            T[:, :, :, :a.shape[3]] = a
            T[:, :, :, a.shape[3]:] = b
        elif i == L - 1:
            T = np.zeros((d, d, a.shape[2] + b.shape[2], 1), dtype=complex)
            T[:, :, :a.shape[2], :] = a
            T[:, :, a.shape[2]:, :] = b
        else:
            T = np.zeros((d, d, a.shape[2] + b.shape[2], a.shape[3] + b.shape[3]), dtype=complex)
            T[:, :, :a.shape[2], :a.shape[3]] = a
            T[:, :, a.shape[2]:, a.shape[3]:] = b
        out.append(T)
    return out


def hermitian_mpo(rng, qd, L, Dmax, entries='complex', order='random'):
    """op + op^dagger as a new MPO object assembled by the harness (boundary charges 0 -> 0)"""
    op = rand_mpo(rng, qd, L, Dmax, 0, 0, entries, order=order)
    qDa, Aa = adjoint_tensors(op)
    L = len(op.A)
    if L == 1:
        qD = [[0], [0]]
    else:
        qD = [[0]] + [np.asarray(op.qD[i]).tolist() + qDa[i] for i in range(1, L)] + [[0]]
    H = ptn.MPO(list(qd), qD, fill='postpone')
    H.A = direct_sum_mpo_tensors(op.A, Aa)
    if entries == 'real':
        H.A = [W.real.copy() for W in H.A]
    return H


# ---------------------------------------------------------------- random layered operator graphs

def rand_layered_graph(rng, qd, L, width=3, q0=0, density=0.7, nid_offset=0, eid_offset=0, q1=None):
    """random layered OpGraph with node charges, edges carrying operators whose physical charge shift equals the
    charge difference of the end nodes; returns (graph, opmap)"""
    qd = [int(x) for x in qd]
    d = len(qd)
    shifts = shifts_of(qd, True)
    # one or two operators per shift
    opmap = {}
    byshift = {}
    oid = 0
    for s in shifts:
        for _ in range(1 + int(rng.random() < 0.5)):
            M = rng.normal(size=(d, d)) + (1j * rng.normal(size=(d, d)) if rng.random() < 0.5 else 0)
            mask = np.array([[qd[a] - qd[b] == s for b in range(d)] for a in range(d)])
            M = np.where(mask, M, 0)
            if not np.any(M):
                continue
            opmap[oid] = M
            byshift.setdefault(s, []).append(oid)
            oid += 1
    if q1 is None:
        q1 = pick_sector(rng, qd, L, mpo=True, q0=q0)[1]
    left, valid = reach_sets(shifts, L, q0, q1)
    layers = []
    nid = nid_offset
    nodes = []
    for i in range(L + 1):
        n = 1 if i in (0, L) else int(rng.integers(1, width + 1))
        layer = []
        for k in range(n):
            q = q0 if i == 0 else (q1 if i == L else int(rng.choice(valid[i])))
            node = ptn.OpGraphNode(nid, [], [], q)
            nodes.append(node)
            layer.append(node)
            nid += 1
        layers.append(layer)
    graph = ptn.OpGraph(nodes, [], [layers[0][0].nid, layers[L][0].nid])
    eid = eid_offset
    for i in range(L):
        for u in layers[i]:
            for v in layers[i + 1]:
                ops = byshift.get(v.qnum - u.qnum, [])
                if not ops:
                    continue
                if rng.random() < density or len(layers[i]) * len(layers[i + 1]) == 1:
                    k = 1 + int(rng.random() < 0.3)
                    opics = [(int(rng.choice(ops)), float(rng.normal())) for _ in range(k)]
                    graph.add_connect_edge(ptn.OpGraphEdge(eid, [u.nid, v.nid], opics))
                    eid += 1
    # every node needs a path to both terminals, otherwise from_opgraph would see dangling nodes: connect greedily
    for i in range(L):
        for v in layers[i + 1]:
            if not v.eids[0]:
                for u in layers[i]:
                    ops = byshift.get(v.qnum - u.qnum, [])
                    if ops:
                        graph.add_connect_edge(ptn.OpGraphEdge(eid, [u.nid, v.nid], [(int(rng.choice(ops)), float(rng.normal()))]))
                        eid += 1
                        break
    for i in reversed(range(L)):
        for u in layers[i]:
            if not u.eids[1]:
                for v in layers[i + 1]:
                    ops = byshift.get(v.qnum - u.qnum, [])
                    if ops:
                        graph.add_connect_edge(ptn.OpGraphEdge(eid, [u.nid, v.nid], [(int(rng.choice(ops)), float(rng.normal()))]))
                        eid += 1
                        break
    ok = all((n.eids[0] or n.nid == graph.nid_terminal[0]) and (n.eids[1] or n.nid == graph.nid_terminal[1])
             for n in graph.nodes.values())
    return graph, opmap, ok


def graph_dense(graph, opmap):
    """dense matrix of a layered operator graph by explicit path summation from the right (independent of as_matrix)"""
    memo = {}

    def rec(nid):
        if nid == graph.nid_terminal[1]:
            return np.identity(1, dtype=complex)
        if nid in memo:
            return memo[nid]
        tot = 0
        for eid in graph.nodes[nid].eids[1]:
            e = graph.edges[eid]
            loc = sum(c * np.asarray(opmap[i], dtype=complex) for i, c in e.opics)
            tot = tot + np.kron(loc, rec(e.nids[1]))
        memo[nid] = tot
        return tot
    return rec(graph.nid_terminal[0])


# ---------------------------------------------------------------- structural dumps (bit-for-bit comparison of graphs etc.)

def _num(c):
    c = complex(c)
    return (type(c).__name__, c.real.hex(), c.imag.hex())


def dump_opics(opics):
    if callable(opics):
        return ('callable', id(opics))
    return tuple((int(i), _num(c)) for i, c in opics)


def dump_graph(g):
    return ('graph',
            tuple((k, n.nid, tuple(n.eids[0]), tuple(n.eids[1]), int(n.qnum), type(n.eids).__name__) for k, n in g.nodes.items()),
            tuple((k, e.eid, tuple(e.nids), dump_opics(e.opics)) for k, e in g.edges.items()),
            tuple(g.nid_terminal))


def dump_autop(a):
    return ('autop',
            tuple((k, n.nid, tuple(n.eids[0]), tuple(n.eids[1]), int(n.qnum)) for k, n in a.nodes.items()),
            tuple((k, e.eid, tuple(e.nids), dump_opics(e.opics), e.active if not callable(e.active) else id(e.active)) for k, e in a.edges.items()),
            tuple(a.nid_terminal))


def dump_chain(c):
    return ('chain', tuple(int(o) for o in c.oids), tuple(int(q) for q in c.qnums), _num(c.coeff), int(c.istart))


def dump_treenode(n):
    return ('tnode', int(n.qnum), tuple((int(e.oid), _num(e.coeff), dump_treenode(e.node)) for e in n.children))


def dump_tree(t):
    return ('tree', int(t.istart), dump_treenode(t.root))


def scramble_graph(g):
    """mutate every mutable container reachable from a graph (used on *results* only)"""
    for n in list(g.nodes.values()):
        n.eids[0].append(987654)
        n.eids[1][:] = [123456]
        n.qnum = 77
        n.nid = -n.nid - 5
    for e in list(g.edges.values()):
        e.nids[0] = -99
        e.nids.append(5)
        e.opics.append((999, 3.25))
        if e.opics:
            e.opics[0] = (998, -1.5)
        e.eid = -e.eid - 7
    g.nid_terminal[0] = 31337
    g.nid_terminal.reverse()
    g.nodes.clear()
    g.edges.clear()


# ---------------------------------------------------------------- built-in models

def sym_tkin_vint(rng, L):
    t = rng.normal(size=(L, L)); t = 0.5 * (t + t.T)
    v = rng.normal(size=(L, L, L, L))
    v = 0.5 * (v + v.transpose(2, 3, 0, 1))       # Hermitian two-body operator
    v = 0.5 * (v + v.transpose(1, 0, 3, 2))
    return t, v


def _p(rng):
    """generic non-zero real parameter"""
    x = float(rng.uniform(0.3, 1.5))
    return x if rng.random() < 0.5 else -x


# name -> (d, qd, Lmin, Lmax_quick)
MODELS = {
    'u1':      dict(d=None, Lmin=1),
    'ising':   dict(d=2, qd=[0, 0], Lmin=1),
    'xxz':     dict(d=2, qd=[1, -1], Lmin=2),
    'spin1':   dict(d=3, qd=[1, 0, -1], Lmin=2),
    'bose':    dict(d=3, qd=[0, 1, 2], Lmin=2),
    'fermion': dict(d=2, qd=[0, 1], Lmin=2),
    'hubbard': dict(d=4, qd=QD_PAIR, Lmin=2),
    'spinorb': dict(d=4, qd=QD_PAIR, Lmin=2),
}


def model_hamiltonian(rng, model, L):
    """Hermitian Hamiltonian MPO of a built-in model through the public constructor; returns (name, mpo)"""
    if model == 'ising':
        return 'ising_mpo', ptn.ising_mpo(L, _p(rng), _p(rng), _p(rng))
    if model == 'xxz':
        return 'heisenberg_xxz_mpo', ptn.heisenberg_xxz_mpo(L, _p(rng), _p(rng), _p(rng))
    if model == 'spin1':
        return 'heisenberg_xxz_spin1_mpo', ptn.heisenberg_xxz_spin1_mpo(L, _p(rng), _p(rng), _p(rng))
    if model == 'bose':
        return 'bose_hubbard_mpo', ptn.bose_hubbard_mpo(3, L, _p(rng), _p(rng), _p(rng))
    if model == 'hubbard':
        return 'fermi_hubbard_mpo', ptn.fermi_hubbard_mpo(L, _p(rng), _p(rng), _p(rng))
    if model == 'fermion':
        t, v = sym_tkin_vint(rng, L)
        opt = True if L < 4 else bool(rng.random() < 0.6)
        return 'molecular_hamiltonian_mpo', ptn.molecular_hamiltonian_mpo(t, v, optimize=opt)
    if model == 'spinorb':
        t, v = sym_tkin_vint(rng, L)
        opt = True if L < 4 else bool(rng.random() < 0.6)
        return 'spin_molecular_hamiltonian_mpo', ptn.spin_molecular_hamiltonian_mpo(t, v, optimize=opt)
    raise ValueError(model)
