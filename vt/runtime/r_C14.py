"""C14 bounded stand-in: Lanczos and Arnoldi iterations satisfy their Krylov factorization relations."""
import json, warnings
import os
for _v in ('OMP_NUM_THREADS', 'OPENBLAS_NUM_THREADS', 'MKL_NUM_THREADS'):     # tiny matrices, 14 worker processes:
    os.environ.setdefault(_v, '1')                                            # threaded BLAS only causes contention
import numpy as np
from pytenet import krylov
from . import oracle
from . import h_C14 as h

RULE = ('(algorithm, n, matrix type {real symmetric, complex Hermitian, diagonalizable general real/complex, random '
        'non-normal}, spectrum {separated, degenerate}, k = number of distinct eigenvalues reachable from the start vector '
        '= true Krylov dimension, real/complex start vector) x every 1<=m<=n inside the case; relations are checked on the '
        'leading min(m\', k) vectors only; distinct = distinct descriptor; non-trivial for n>=2')
BOUNDS = {'quick': 'n<=12, every m<=n, every k, 1e-3<=||A||<=8; stiff spectra (cluster + outliers 1e2..1e3) n<=40, m in 8,16,24; non-allocating maps n<=8', 'thorough': 'same, 30 repetitions'}
EXHAUSTIVE = {'quick': False, 'thorough': False}


def cases(tier, seed):
    rng = np.random.default_rng(seed)
    reps = 2 if tier == 'quick' else 30
    for algo in ('lanczos', 'arnoldi'):
        for mt in (h.MATTYPES_HERM if algo == 'lanczos' else h.MATTYPES_ALL):
            for n in range(1, 13):
                for spec in h.SPECTRA:
                    nd = n if spec == 'separated' else max(1, (n + 1) // 2)
                    ks = [n] if mt == 'gen_random' else range(1, nd + 1)
                    if mt == 'gen_random' and spec == 'degenerate':
                        continue
                    for k in ks:
                        for vreal in (False, True):
                            for r in range(reps):
                                yield dict(kind=algo, mattype=mt, n=n, spectrum=spec, k=k, vreal=vreal,
                                           seed=int(rng.integers(1 << 31)))
        if algo == 'arnoldi':
            for n in (40, 50):
                for r in range(reps):
                    yield dict(kind=algo, mattype='special', mapform='decay', n=n, spectrum='separated', k=0, vreal=False, ms=[n // 2], otol=1e-7,
                               seed=int(rng.integers(1 << 31)))
            for n in range(1, 6):
                for vreal in (False, True):
                    for r in range(reps):
                        yield dict(kind=algo, mattype='special', mapform='jordan', n=n, spectrum='separated', k=0, vreal=vreal, seed=int(rng.integers(1 << 31)))
        if algo == 'lanczos':
            for n in (8, 12):
                for vreal in (False, True):
                    for r in range(reps * 3):
                        yield dict(kind=algo, mattype='special', mapform='almost_invariant', n=n, spectrum='separated', k=0, vreal=vreal, ms=[3, 4], seed=int(rng.integers(1 << 31)))
            for n in (24, 32, 40):
                for vreal in (False, True):
                    for r in range(reps):
                        yield dict(kind=algo, mattype='special', mapform='stiff', n=n, spectrum='separated', k=0, vreal=vreal, ms=[8, 16, 24],
                                   seed=int(rng.integers(1 << 31)))
        # maps that return (a view of) their argument or a buffer of their own instead of a fresh array
        for form in h.MAPFORMS:
            for n in range(1, 9):
                for vreal in (False, True):
                    for r in range(reps):
                        yield dict(kind=algo, mattype='special', mapform=form, n=n, spectrum='separated', k=0, vreal=vreal,
                                   seed=int(rng.integers(1 << 31)))


def run_case(c):
    rng = np.random.default_rng(c['seed'])
    fails = []

    def fail(clause, detail):
        if len(fails) < 6:
            fails.append(dict(clause=clause, detail=detail, signature=f'{c["kind"]}_iteration:{clause}'))
    n = c['n']
    radius = float(10.0 ** rng.uniform(-3, -1)) if rng.integers(4) == 0 else None      # also small-norm maps
    if c.get('mapform'):
        P = h.special(rng, n, c['mapform'], c['vreal'])
    else:
        P = h.build(rng, n, c['mattype'], c['spectrum'], c['k'], radius=radius, vreal=c['vreal'])
    A, v, kdim = P['A'], P['v'], P['kdim']
    if not c.get('mapform') and c['seed'] % 6 == 1 and c['vreal'] and np.max(np.abs(v)) > 0:
        vi = np.rint(3 * np.real(v) / np.max(np.abs(v))).astype(np.int64)       # integer-dtype start vector (promoted by the routine itself)
        if np.any(vi != 0) and kdim == n:
            v = vi
    elif not c.get('mapform') and c['seed'] % 6 == 2 and np.linalg.norm(v) > 0:
        v = v / np.linalg.norm(v) * (1 + 6e-9)                                  # almost, but not exactly, normalised
    nA = float(np.linalg.norm(A, 2))
    sc = max(1.0, nA)
    Afunc = P.get('Afunc') or (lambda x: A @ x)
    v0 = v.copy()
    for m in (c.get('ms') or range(1, n + 1)):
        tag = f'n={n} m={m} kdim={kdim}'
        sub = h.ref_arnoldi_subdiag(A, v, min(m, kdim))        # reference off-diagonals before exhaustion
        try:
            with warnings.catch_warnings():
                warnings.simplefilter('ignore')
                ret = (krylov.lanczos_iteration if c['kind'] == 'lanczos' else krylov.arnoldi_iteration)(Afunc, v, m)
        except Exception as e:
            if type(e).__name__ == 'CaseTimeout':      # the runner's wall-clock alarm must reach the runner
                raise
            fail('returns', f'{tag}: raised {type(e).__name__}: {e}')
            continue
        if not np.array_equal(v, v0):
            fail('args_unchanged', f'{tag}: start vector modified')
            v = v0.copy()
        if c['kind'] == 'lanczos':
            alpha, beta, V = ret
            alpha, beta = np.asarray(alpha), np.asarray(beta)
            mp = V.shape[1] if getattr(V, 'ndim', 0) == 2 else -1
            if not (alpha.ndim == 1 and beta.ndim == 1 and 1 <= mp <= m and V.shape[0] == n and len(alpha) == mp and len(beta) == mp - 1):
                fail('sizes', f'{tag}: len(alpha)={len(alpha)} len(beta)={len(beta)} V.shape={getattr(V, "shape", None)}')
                continue
            if alpha.dtype.kind == 'c' and np.any(alpha.imag != 0) or beta.dtype.kind == 'c' and np.any(beta.imag != 0):
                fail('real_coefficients', f'{tag}: alpha/beta not real')
                continue
            p = min(mp, kdim)
            T = np.diag(alpha[:p].real.astype(float)) + np.diag(beta[:p - 1].real, 1) + np.diag(beta[:p - 1].real, -1)
            if not np.all(beta[:p - 1].real > 0):
                fail('beta_positive', f'{tag}: off-diagonals on the leading part not positive: {beta[:p-1].tolist()}')
        else:
            H, V = ret
            mp = V.shape[1] if getattr(V, 'ndim', 0) == 2 else -1
            if not (1 <= mp <= m and V.shape[0] == n and getattr(H, 'shape', None) == (mp, mp)):
                fail('sizes', f'{tag}: H.shape={getattr(H, "shape", None)} V.shape={getattr(V, "shape", None)}')
                continue
            p = min(mp, kdim)
            T = H[:p, :p]
            low = np.tril(H, -2)
            if np.linalg.norm(low) > 1e-9 * sc:
                fail('hessenberg', f'{tag}: H is not upper Hessenberg (|entries below the sub-diagonal| = {np.linalg.norm(low)})')
        # everything that is returned is a number (also past the exhaustion point: "real coefficients", "orthonormal vectors")
        outs = (alpha, beta, V) if c['kind'] == 'lanczos' else (H, V)
        if not all(np.all(np.isfinite(np.asarray(x))) for x in outs):
            fail('finite', f'{tag}: the returned arrays contain NaN/inf')
        # no premature exit while the Krylov space is not exhausted (only where the reference off-diagonal is clearly non-zero)
        if mp < min(m, kdim) and sub[mp - 1] > 1e-6 * sc:
            fail('premature_exit', f'{tag}: returned only {mp} vectors, Krylov dimension is {kdim}, reference off-diagonal {sub[mp-1]}')
        Vp = V[:, :p]
        G = Vp.conj().T @ Vp
        otol = c.get('otol', 1e-9)
        if c['kind'] == 'arnoldi' and p >= 2:
            # Arnoldi (modified Gram-Schmidt, no re-orthogonalization) divides by the sub-diagonal: a rounding error eps * |A| in w becomes
            # eps * |A| / h_{j+1,j} in the next vector.  Close to (but above the threshold of) exhaustion this is rounding, not a defect:
            # the tolerance follows the smallest *reference* sub-diagonal (computed independently of the routine)
            smin = float(np.min(sub[:p - 1])) if len(sub) >= p - 1 and p - 1 > 0 else 0.0
            if smin > 0:
                otol = max(otol, 200 * n * np.finfo(float).eps * sc / smin)
        if not oracle.close(G, np.identity(p), scale=1.0, tol=otol):
            fail('orthonormal', f'{tag}: |V^H V - I| on the leading {p} vectors = {np.linalg.norm(G - np.identity(p))}')
        # first vector is the normalised start vector
        if not oracle.close(Vp[:, 0] * np.linalg.norm(v), v, scale=float(np.linalg.norm(v)), tol=1e-9):
            fail('first_vector', f'{tag}: V[:,0] is not the normalised start vector')
        PT = Vp.conj().T @ A @ Vp
        if not oracle.close(PT, T, scale=sc, tol=otol):
            fail('projection', f'{tag}: |V^H A V - T| on the leading {p}x{p} part = {np.linalg.norm(PT - T)} (|A| = {nA})')
    # history: a result must not change when the routine is called again with arguments of the same size (second call)
    if not fails:
        fnc = krylov.lanczos_iteration if c['kind'] == 'lanczos' else krylov.arnoldi_iteration
        m0 = min(3, n)
        try:
            with warnings.catch_warnings():
                warnings.simplefilter('ignore')
                first = fnc(Afunc, v, m0)
                snap = [np.array(x, copy=True) for x in first]
                v2 = (rng.standard_normal(n) + (0 if c['vreal'] else 1j * rng.standard_normal(n))).astype(np.asarray(v).dtype)
                if np.linalg.norm(v2) > 0:
                    fnc(Afunc, v2, m0)
            if not all(a.shape == b.shape and np.array_equal(a, b, equal_nan=True) for a, b in zip(first, snap)):
                fail('result_unchanged_by_later_call', f'n={n} m={m0}: the arrays returned by the first call changed during a second call of the same size')
        except Exception as e:
            if type(e).__name__ == 'CaseTimeout':
                raise
    return dict(failures=fails, nontrivial=n >= 2, key=json.dumps(c, sort_keys=True))
