"""C07 bounded stand-in: molecular Hamiltonian MPOs are exact for every orbital count, both build paths.

Clauses: returns (constructor must succeed on its documented domain), shape, dense (as_matrix == independent
Fock-space reference of the documented second-quantized formula; qualifier = build path), paths_agree
(optimize=True and optimize=False represent the same operator wherever both are defined), gauge_identity (the matrices
returned by molecular_hamiltonian_orbital_gauge_transform turn [original tensors outside sites i,i+1 | rotated
tensors at sites i,i+1] into the operator of the explicit MPO of the rotated coefficients).
"""
import json, os
# single-threaded BLAS (vt/check.py sets the same for the runner); only effective if numpy is not yet imported
for _v in ('OMP_NUM_THREADS', 'OPENBLAS_NUM_THREADS', 'MKL_NUM_THREADS'):
    os.environ.setdefault(_v, '1')
import numpy as np
import pytenet as ptn
from . import oracle, h_ham

RULE = ('enumerated (model, L, coefficient style in complex/real/sparse/sparse_real/symmetric/zero-padded/t-only/v-only/'
        'integer/density-density) x seeded tensors, every case builds all paths defined for its L and compares each with '
        'the Fock-space reference and with each other; gauge cases: (L, orbital pair i, unitary style in Haar U(2)/real '
        'rotation/reflection/phases/identity/swap, coefficient style) x seeds. A case whose reference operator is exactly '
        'zero is skipped and counted trivial; distinct = distinct descriptor')
BOUNDS = {'quick': 'spinless L=1..6 (optimized L>=1, explicit L>=4), spin L=1..4 (optimized L>=1, explicit L>=2) and '
                   'explicit-only L=5 (2 cases), 10 styles x 8 resp. 6 seeds; gauge L=4..6, every i, 8 unitary styles x 3 coefficient styles x 2 seeds',
          'thorough': 'same L ranges, 10 styles x 40 resp. 25 seeds, explicit-only spin L=5 x 20; gauge L=4..6, every i, '
                      '8 unitary styles x 3 coefficient styles x 10 seeds'}

USTYLES = ('haar', 'haar', 'rotation', 'reflection', 'phases', 'identity', 'swap', 'swap_int')
GAUGE_CSTYLES = ('complex', 'real', 'sparse')
SPINLESS = 'molecular_hamiltonian_mpo'
SPIN = 'spin_molecular_hamiltonian_mpo'
GAUGE = 'molecular_hamiltonian_orbital_gauge_transform'


def cases(tier, seed):
    rng = np.random.default_rng(seed)
    quick = tier == 'quick'
    def s():
        return int(rng.integers(1 << 31))
    for L in range(1, 7):
        for style in h_ham.COEFF_STYLES:
            for r in range(8 if quick else 40):
                yield dict(kind='spinless', L=L, style=style, seed=s())
    for L in range(1, 5):
        for style in h_ham.COEFF_STYLES:
            for r in range(6 if quick else 25):
                yield dict(kind='spin', L=L, style=style, seed=s())
    for r in range(2 if quick else 20):
        yield dict(kind='spin', L=5, style=('complex', 'sparse_real', 'symmetric', 'real')[r % 4], explicit_only=True, seed=s())
    for L in range(4, 7):
        for i in range(L - 1):
            for k, ustyle in enumerate(USTYLES):
                for cstyle in GAUGE_CSTYLES:
                    for r in range(2 if quick else 10):
                        yield dict(kind='gauge', L=L, i=i, ustyle=ustyle, uidx=k, cstyle=cstyle, seed=s())
    # larger systems: the gauge blocks of the right-connected nodes that carry a third orbital only exist for L >= 7
    # (rotated pair i with L//2+1 <= i <= L-3); complex unitaries, every pair
    for L in ((7,) if quick else (7, 8)):
        for i in range(L - 1):
            for k, ustyle in enumerate(USTYLES[:2] if quick else USTYLES):
                for r in range(1 if quick else 3):
                    yield dict(kind='gauge', L=L, i=i, ustyle=ustyle, uidx=k, cstyle=GAUGE_CSTYLES[0], seed=s())
    # spin-orbital explicit construction: two distinct sites in the right half first occur for L = 5
    for r in range(4 if quick else 12):
        yield dict(kind='spin', L=5, style=('complex', 'real', 'sparse', 'symmetric')[r % 4], explicit_only=True, seed=s())


def _dense(op, L, dloc):
    """matrix of the MPO as pytenet reports it (sparse contraction beyond 256 x 256 to bound memory)"""
    if dloc ** L > 256:
        return np.asarray(op.as_matrix(sparse_format=True).toarray())
    return np.asarray(op.as_matrix())


def _fmt(t, v, opt):
    return f'(tkin{list(np.shape(t))}, vint{list(np.shape(v))}, optimize={opt})'


def run_case(c):
    key = json.dumps(c, sort_keys=True)
    rng = np.random.default_rng(c['seed'])
    fails = []

    def fail(name, clause, detail, qualifier=None):
        fails.append(dict(clause=clause, detail=detail, signature=f'{name}:{clause}' + (f':{qualifier}' if qualifier else '')))

    L = c['L']
    if c['kind'] in ('spinless', 'spin'):
        spin = c['kind'] == 'spin'
        name = SPIN if spin else SPINLESS
        ctor = ptn.spin_molecular_hamiltonian_mpo if spin else ptn.molecular_hamiltonian_mpo
        dloc = 4 if spin else 2
        t, v = h_ham.molecular_coefficients(rng, L, c['style'])
        if c['seed'] % 4 == 1:
            # the same Hamiltonian in other units: every comparison below is relative to the norm of the reference operator
            f = (1e-9, 1e7)[(c['seed'] // 4) % 2]
            t = t * f; v = v * f
        ref = h_ham.spin_molecular_ref(t, v) if spin else h_ham.molecular_ref(t, v)
        nref = float(np.linalg.norm(ref))
        if nref == 0.0:
            return dict(failures=[], nontrivial=False, key=key)       # identically zero operator: outside the quantifier
        paths = []
        if not c.get('explicit_only'):
            paths.append(True)
        if L >= (2 if spin else 4):
            paths.append(False)
        mats = {}
        for opt in paths:
            pname = 'optimized' if opt else 'explicit'
            call = f'{name}{_fmt(t, v, opt)} [style {c["style"]}, seed {c["seed"]}]'
            try:
                op = ctor(t, v, optimize=opt)
            except Exception as e:
                fail(name, 'returns', f'{call} raised {type(e).__name__}: {e} at {h_ham.exception_where(e)}', h_ham.exception_qualifier(e))
                continue
            if len(op.A) != L or len(op.qd) != dloc or op.A[0].shape[2] != 1 or op.A[-1].shape[3] != 1:
                fail(name, 'shape', f'{call}: {len(op.A)} sites, local dimension {len(op.qd)}, boundary bonds '
                                    f'{op.A[0].shape[2]}, {op.A[-1].shape[3]}; expected {L}, {dloc}, 1, 1', pname)
                continue
            try:
                M = _dense(op, L, dloc)
            except Exception as e:
                fail(name, 'dense', f'{call}.as_matrix raised {type(e).__name__}: {e} at {h_ham.exception_where(e)}', f'{pname}-as_matrix-{type(e).__name__}')
                continue
            if M.shape != ref.shape:
                fail(name, 'shape', f'{call}.as_matrix() has shape {M.shape}, expected {ref.shape}', pname)
                continue
            mats[opt] = M
            if not oracle.close(M, ref, scale=nref):
                fail(name, 'dense', f'{call}: |as_matrix - reference| = {np.linalg.norm(M - ref):.3e}, reference norm {nref:.3e}', pname)
        if True in mats and False in mats and not oracle.close(mats[True], mats[False], scale=nref):
            fail(name, 'paths_agree', f'{name} [L={L}, style {c["style"]}, seed {c["seed"]}]: |optimized - explicit| = '
                                      f'{np.linalg.norm(mats[True] - mats[False]):.3e}, norm {nref:.3e}')
        return dict(failures=fails, nontrivial=True, key=key)

    # gauge transform
    i = c['i']
    t, v = h_ham.molecular_coefficients(rng, L, c['cstyle'])
    u2 = h_ham.random_unitary2(rng, c['ustyle'])
    t2, v2 = h_ham.rotate_coefficients(t, v, u2, i)
    ref = h_ham.molecular_ref(t2, v2)
    if float(np.linalg.norm(ref)) == 0.0:
        return dict(failures=[], nontrivial=False, key=key)
    where = f'[L={L}, i={i}, u {c["ustyle"]}, coefficients {c["cstyle"]}, seed {c["seed"]}]'
    ops = []
    for tt, vv, what in ((t, v, 'original'), (t2, v2, 'rotated')):
        try:
            ops.append(ptn.molecular_hamiltonian_mpo(tt, vv, optimize=False))
        except Exception as e:
            fail(SPINLESS, 'returns', f'{SPINLESS}{_fmt(tt, vv, False)} ({what} coefficients) {where} raised {type(e).__name__}: {e} '
                                      f'at {h_ham.exception_where(e)}', h_ham.exception_qualifier(e))
            return dict(failures=fails, nontrivial=True, key=key)
    h, h2 = ops
    try:
        v_l, v_r = ptn.molecular_hamiltonian_orbital_gauge_transform(h, u2, i)
    except Exception as e:
        fail(GAUGE, 'returns', f'{GAUGE}(h, {u2.tolist()!r}, {i}) {where} raised {type(e).__name__}: {e} at {h_ham.exception_where(e)}',
             h_ham.exception_qualifier(e))
        return dict(failures=fails, nontrivial=True, key=key)
    v_l, v_r = np.asarray(v_l), np.asarray(v_r)
    shapes_ok = (len(h.A) == L and len(h2.A) == L and all(a.shape == b.shape for a, b in zip(h.A, h2.A))
                 and h.A[0].shape[2] == 1 and h.A[-1].shape[3] == 1)
    if not shapes_ok:
        fail(SPINLESS, 'shape', f'explicit MPOs of original and rotated coefficients have different tensor shapes {where}', 'explicit')
        return dict(failures=fails, nontrivial=True, key=key)
    Dl, Dr = h2.A[i].shape[2], h2.A[i + 1].shape[3]
    if v_l.shape != (Dl, Dl) or v_r.shape != (Dr, Dr):
        fail(GAUGE, 'shape', f'gauge matrices have shapes {v_l.shape}, {v_r.shape}; bonds {i} and {i + 2} have dimensions {Dl}, {Dr} {where}')
        return dict(failures=fails, nontrivial=True, key=key)
    A = [np.asarray(a) for a in h.A]
    A[i] = np.einsum('ac,stcb->stab', v_l, h2.A[i])
    A[i + 1] = np.einsum('bc,stac->stab', v_r, h2.A[i + 1])
    M = oracle.mpo_dense(A)
    target = oracle.mpo_dense(h2.A)
    if not oracle.close(M, target):
        fail(GAUGE, 'gauge_identity', f'{where} u = {u2.tolist()!r}: |gauged(original | rotated sites {i},{i + 1}) - rotated MPO| = '
                                      f'{np.linalg.norm(M - target):.3e}, norm {np.linalg.norm(target):.3e}; distance to the independent '
                                      f'reference of the rotated coefficients {np.linalg.norm(M - ref):.3e}')
    elif not oracle.close(target, ref):
        fail(SPINLESS, 'dense', f'{SPINLESS}{_fmt(t2, v2, False)} (rotated coefficients) {where}: |as_matrix - reference| = '
                                f'{np.linalg.norm(target - ref):.3e}, reference norm {np.linalg.norm(ref):.3e}', 'explicit')
    return dict(failures=fails, nontrivial=True, key=key)
