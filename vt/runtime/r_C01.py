"""C01 bounded stand-in: orthonormalization preserves the represented state/operator."""
import itertools, json
import numpy as np
import pytenet as ptn
from . import gen, oracle

RULE = ('enumerated (class, mode, L, d, bond profile style, charge style, entry kind) x seeded random tensors; '
        'a case is non-trivial unless all charges are zero AND all bonds are 1; distinct = distinct descriptor')
BOUNDS = {'quick': 'L<=4, d<=3, D<=4', 'thorough': 'L<=6, d<=4, D<=8'}


def cases(tier, seed):
    rng = np.random.default_rng(seed)
    Ls = (1, 2, 3, 4) if tier == 'quick' else (1, 2, 3, 4, 5, 6)
    ds = (1, 2, 3) if tier == 'quick' else (1, 2, 3, 4)
    Dmax = 4 if tier == 'quick' else 8
    reps = 1 if tier == 'quick' else 3
    for cls in ('mps', 'mpo'):
        for mode in ('left', 'right'):
            for L in Ls:
                for d in ds:
                    if cls == 'mpo' and (d > 3 or L > 4 and d > 2):
                        continue
                    for qstyle in gen.QSTYLES:
                        for entries in ('complex', 'real', 'int', 'mixed'):
                            for bstyle in ('random', 'one', 'max'):
                                if bstyle != 'random' and entries != 'complex':
                                    continue
                                for r in range(reps):
                                    yield dict(kind=cls, mode=mode, L=L, d=d, Dmax=Dmax, qstyle=qstyle, entries=entries,
                                               bstyle=bstyle, seed=int(rng.integers(1 << 31)))


def run_case(c):
    rng = np.random.default_rng(c['seed'])
    L, d = c['L'], c['d']
    Ds = gen.bond_profile(rng, L, d, c['Dmax'], c['bstyle'])
    fails = []
    def fail(clause, detail):
        fails.append(dict(clause=clause, detail=detail, signature=f'{c["kind"]}.orthonormalize:{clause}' + (':int' if c['entries'] == 'int' else '')))
    if c['kind'] == 'mps':
        x = gen.rand_mps(rng, L, d, Ds, c['qstyle'], c['entries'])
        dense = oracle.mps_dense
        wf = oracle.wf_mps
        phys = d
    else:
        Ds2 = list(Ds)
        if c['bstyle'] == 'random':      # MPO boundary bonds need not be 1 for the class, keep 1 for dense comparison
            pass
        x = gen.rand_mpo(rng, L, d, Ds, c['qstyle'], c['entries'])
        dense = oracle.mpo_dense
        wf = oracle.wf_mpo
        phys = d * d
    v0 = dense(x.A)
    n0 = float(np.linalg.norm(v0.ravel()))
    D0 = [len(q) for q in x.qD]
    qfirst, qlast = x.qD[0].copy(), x.qD[-1].copy()
    try:
        nrm = x.orthonormalize(mode=c['mode'])
    except Exception as e:
        fail('returns', f'orthonormalize raised {type(e).__name__}: {e}')
        return dict(failures=fails, nontrivial=True, key=json.dumps(c, sort_keys=True))
    tol = 1e-9 * max(1.0, n0)
    if not (np.isreal(nrm) and nrm >= 0):
        fail('nrm_nonneg', f'factor {nrm!r} is not a non-negative real')
    if abs(nrm - n0) > tol:
        fail('nrm_is_norm', f'factor {nrm} vs norm of original {n0}')
    bad = wf(x)
    if bad:
        fail('wf', '; '.join(bad))
        return dict(failures=fails, nontrivial=True, key=json.dumps(c, sort_keys=True))
    v1 = dense(x.A)
    if not oracle.close(nrm * v1, v0, tol=1e-9):
        fail('state_preserved', f'|nrm*new - old| = {np.linalg.norm((nrm*v1 - v0).ravel())}, norm {n0}')
    if n0 > 1e-12 and abs(np.linalg.norm(v1.ravel()) - 1) > 1e-9:
        fail('unit_norm', f'norm after = {np.linalg.norm(v1.ravel())}')
    # isometries
    for i, A in enumerate(x.A):
        if c['kind'] == 'mps':
            G = np.einsum('sab,sac->bc', A.conj(), A) if c['mode'] == 'left' else np.einsum('sab,scb->ac', A.conj(), A)
        else:
            G = np.einsum('stab,stac->bc', A.conj(), A) if c['mode'] == 'left' else np.einsum('stab,stcb->ac', A.conj(), A)
        if n0 > 1e-12 or True:
            if not oracle.close(G, np.identity(G.shape[0]), scale=1.0, tol=1e-9):
                fail('isometry', f'site {i} is not a {c["mode"]} isometry (deviation {np.linalg.norm(G - np.identity(G.shape[0]))})')
                break
    # bond bounds
    D1 = [len(q) for q in x.qD]
    for i in range(L + 1):
        if c['mode'] == 'left' and i >= 1:
            if D1[i] > max(1, min(phys * D1[i - 1], D0[i])):
                fail('bond_bound', f'bond {i}: {D1[i]} > min({phys}*{D1[i-1]}, {D0[i]})')
        if c['mode'] == 'right' and i <= L - 1:
            if D1[i] > max(1, min(phys * D1[i + 1], D0[i])):
                fail('bond_bound', f'bond {i}: {D1[i]} > min({phys}*{D1[i+1]}, {D0[i]})')
    if n0 > 1e-12:
        if not (np.array_equal(x.qD[0], qfirst) and np.array_equal(x.qD[-1], qlast)):
            fail('boundary_charges', f'boundary charges changed: {qfirst}->{x.qD[0]}, {qlast}->{x.qD[-1]}')
    trivial = c['qstyle'] == 'zero' and all(D == 1 for D in Ds)
    return dict(failures=fails, nontrivial=not trivial, key=json.dumps(c, sort_keys=True))
