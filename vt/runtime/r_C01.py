"""C01 bounded stand-in: orthonormalization preserves the represented state/operator."""
import itertools, json
import numpy as np
import pytenet as ptn
from . import gen, oracle

RULE = ('enumerated (class, mode, L, d, bond profile style, charge style, entry kind) x seeded random tensors; '
        'a case is non-trivial unless all charges are zero AND all bonds are 1; distinct = distinct descriptor')
BOUNDS = {'quick': 'L<=4, d<=3, D<=4', 'thorough': 'L<=6, d<=4, D<=8'}


def cases(tier, seed):
    rng = np.random.default_rng(seed)
    Ls = (1, 2, 3, 4) if tier == 'quick' else (1, 2, 3, 4, 5, 6)
    ds = (1, 2, 3) if tier == 'quick' else (1, 2, 3, 4)
    Dmax = 4 if tier == 'quick' else 8
    reps = 1 if tier == 'quick' else 3
    for cls in ('mps', 'mpo'):
        for mode in ('left', 'right'):
            for L in Ls:
                for d in ds:
                    if cls == 'mpo' and (d > 3 or L > 4 and d > 2):
                        continue
                    for qstyle in gen.QSTYLES:
                        for entries in ('complex', 'real', 'int', 'mixed'):
                            for bstyle in ('random', 'one', 'max'):
                                if bstyle != 'random' and entries != 'complex':
                                    continue
                                for r in range(reps):
                                    yield dict(kind=cls, mode=mode, L=L, d=d, Dmax=Dmax, qstyle=qstyle, entries=entries,
                                               bstyle=bstyle, seed=int(rng.integers(1 << 31)))


def snorm(x):
    """Euclidean norm that does not under- or overflow (np.linalg.norm squares the entries)"""
    x = np.asarray(x).ravel()
    m = float(np.max(np.abs(x))) if x.size else 0.0
    return 0.0 if m == 0 or not np.isfinite(m) else m * float(np.linalg.norm(x / m))


def run_case(c):
    rng = np.random.default_rng(c['seed'])
    L, d = c['L'], c['d']
    Ds = gen.bond_profile(rng, L, d, c['Dmax'], c['bstyle'])
    fails = []
    def fail(clause, detail):
        fails.append(dict(clause=clause, detail=detail, signature=f'{c["kind"]}.orthonormalize:{clause}' + (':int' if c['entries'] == 'int' else '')))
    if c['kind'] == 'mps':
        x = gen.rand_mps(rng, L, d, Ds, c['qstyle'], c['entries'])
        dense = oracle.mps_dense
        wf = oracle.wf_mps
        phys = d
    else:
        Ds2 = list(Ds)
        if c['bstyle'] == 'random':      # MPO boundary bonds need not be 1 for the class, keep 1 for dense comparison
            pass
        x = gen.rand_mpo(rng, L, d, Ds, c['qstyle'], c['entries'])
        dense = oracle.mpo_dense
        wf = oracle.wf_mpo
        phys = d * d
    if c['seed'] % 5 == 0 and c['entries'] in ('complex', 'real') and L >= 2:
        # the factorization is scale invariant: very large or very small tensors (norms beyond 1e154 / below 1e-154)
        f = (1e90, 1e-80)[(c['seed'] // 5) % 2]
        x.A[0] = x.A[0] * f; x.A[-1] = x.A[-1] * f
    if c['seed'] % 5 == 1 and c['entries'] in ('complex', 'real') and L >= 2:
        # a badly balanced gauge on one bond index: the slice of the left tensor is scaled by 1e-15, the matching slice of the right
        # tensor by 1e+15 (the object is unchanged and of ordinary magnitude; an absolute threshold on a factor would cut the index off)
        i = int(rng.integers(1, L)); b = int(rng.integers(x.A[i].shape[-2]))
        if np.issubdtype(x.A[i - 1].dtype, np.inexact) and np.issubdtype(x.A[i].dtype, np.inexact):
            x.A[i - 1] = x.A[i - 1].copy(); x.A[i] = x.A[i].copy()
            x.A[i - 1][..., b] *= 1e-15; x.A[i][..., b, :] *= 1e15
    if c['seed'] % 2 == 1 and L >= 3:
        # the same array object on several sites (translation-invariant bulk): sites with equal shapes and bond charges share one tensor
        for i in range(1, L - 1):
            for j in range(i + 1, L - 1):
                if x.A[i].shape == x.A[j].shape and np.array_equal(x.qD[i], x.qD[j]) and np.array_equal(x.qD[i + 1], x.qD[j + 1]):
                    x.A[j] = x.A[i]
    v0 = dense(x.A)
    n0 = snorm(v0)
    D0 = [len(q) for q in x.qD]
    qfirst, qlast = x.qD[0].copy(), x.qD[-1].copy()
    try:
        nrm = x.orthonormalize(mode=c['mode'])
    except Exception as e:
        fail('returns', f'orthonormalize raised {type(e).__name__}: {e}')
        return dict(failures=fails, nontrivial=True, key=json.dumps(c, sort_keys=True))
    tol = 1e-9 * (max(1.0, n0) if 1e-30 < n0 < 1e30 or n0 == 0 else n0)
    if not (np.isreal(nrm) and nrm >= 0):
        fail('nrm_nonneg', f'factor {nrm!r} is not a non-negative real')
    if abs(nrm - n0) > tol:
        fail('nrm_is_norm', f'factor {nrm} vs norm of original {n0}')
    bad = wf(x)
    if bad:
        fail('wf', '; '.join(bad))
        return dict(failures=fails, nontrivial=True, key=json.dumps(c, sort_keys=True))
    v1 = dense(x.A)
    if not snorm(nrm * v1 - v0) <= 1e-9 * (max(1.0, n0) if 1e-30 < n0 < 1e30 or n0 == 0 else n0):
        fail('state_preserved', f'|nrm*new - old| = {snorm(nrm * v1 - v0)}, norm {n0}')
    if (n0 > 1e-12 or (n0 > 0 and c['seed'] % 5 == 0)) and abs(snorm(v1) - 1) > 1e-9:
        fail('unit_norm', f'norm after = {snorm(v1)}')
    # isometries
    for i, A in enumerate(x.A):
        if c['kind'] == 'mps':
            G = np.einsum('sab,sac->bc', A.conj(), A) if c['mode'] == 'left' else np.einsum('sab,scb->ac', A.conj(), A)
        else:
            G = np.einsum('stab,stac->bc', A.conj(), A) if c['mode'] == 'left' else np.einsum('stab,stcb->ac', A.conj(), A)
        if n0 > 1e-12 or True:
            if not oracle.close(G, np.identity(G.shape[0]), scale=1.0, tol=1e-9):
                fail('isometry', f'site {i} is not a {c["mode"]} isometry (deviation {np.linalg.norm(G - np.identity(G.shape[0]))})')
                break
    # bond bounds
    D1 = [len(q) for q in x.qD]
    for i in range(L + 1):
        if c['mode'] == 'left' and i >= 1:
            if D1[i] > max(1, min(phys * D1[i - 1], D0[i])):
                fail('bond_bound', f'bond {i}: {D1[i]} > min({phys}*{D1[i-1]}, {D0[i]})')
        if c['mode'] == 'right' and i <= L - 1:
            if D1[i] > max(1, min(phys * D1[i + 1], D0[i])):
                fail('bond_bound', f'bond {i}: {D1[i]} > min({phys}*{D1[i+1]}, {D0[i]})')
    if n0 > 1e-12:
        if not (np.array_equal(x.qD[0], qfirst) and np.array_equal(x.qD[-1], qlast)):
            fail('boundary_charges', f'boundary charges changed: {qfirst}->{x.qD[0]}, {qlast}->{x.qD[-1]}')
    # history: a site tensor of the (now canonical) object is rescaled in place, then the same call is made again
    if not fails and 1e-12 < n0 < 1e30 and c['entries'] in ('complex', 'real', 'mixed'):
        fac = (2.5, 1 + 3e-7, -1.0, 1e-3, 1 - 2e-7)[c['seed'] % 5]
        site = int(rng.integers(L))
        x.A[site] *= fac
        v2 = dense(x.A)
        n2 = snorm(v2)
        try:
            nrm2 = x.orthonormalize(mode=c['mode'])
        except Exception as e:
            fail('returns', f'second orthonormalize (after rescaling site {site} by {fac}) raised {type(e).__name__}: {e}')
            return dict(failures=fails, nontrivial=True, key=json.dumps(c, sort_keys=True))
        if not abs(nrm2 - n2) <= 1e-10 * max(1.0, n2):
            fail('nrm_is_norm', f'second call after rescaling site {site} in place by {fac}: factor {nrm2!r}, norm of the object {n2!r}')
        v3 = dense(x.A)
        if not oracle.close(nrm2 * v3, v2, tol=1e-9):
            fail('state_preserved', f'second call after rescaling site {site} by {fac}: |nrm*new - old| = {np.linalg.norm((nrm2 * v3 - v2).ravel())}')
        if abs(np.linalg.norm(v3.ravel()) - 1) > 1e-10:
            fail('unit_norm', f'second call after rescaling site {site} by {fac}: norm after = {np.linalg.norm(v3.ravel())!r}')
    # history: the quantum numbers of the (canonical) object are zeroed, every entry becomes admissible and is perturbed, then the
    # object is orthonormalized in the other direction (anything remembered from the first call about the old charges is stale)
    if not fails and 1e-12 < n0 < 1e30 and c['entries'] in ('complex', 'real') and c['seed'] % 3 == 0:
        try:
            x.zero_qnumbers()
            for i in range(len(x.A)):
                x.A[i] = x.A[i] + 0.3 * rng.standard_normal(x.A[i].shape)
            v4 = dense(x.A); n4 = snorm(v4)
            mode2 = 'right' if c['mode'] == 'left' else 'left'
            nrm4 = x.orthonormalize(mode=mode2)
        except Exception as e:
            fail('returns', f'orthonormalize after zero_qnumbers() raised {type(e).__name__}: {e}')
            return dict(failures=fails, nontrivial=True, key=json.dumps(c, sort_keys=True))
        bad = wf(x)
        if bad:
            fail('wf', 'after zero_qnumbers() and a second orthonormalize: ' + '; '.join(bad))
        else:
            v5 = dense(x.A)
            if not abs(nrm4 - n4) <= 1e-9 * max(1.0, n4):
                fail('nrm_is_norm', f'after zero_qnumbers(): factor {nrm4!r}, norm of the object {n4!r}')
            if not oracle.close(nrm4 * v5, v4, tol=1e-9):
                fail('state_preserved', f'after zero_qnumbers(): |nrm*new - old| = {np.linalg.norm((nrm4 * v5 - v4).ravel())}')
    trivial = c['qstyle'] == 'zero' and all(D == 1 for D in Ds)
    return dict(failures=fails, nontrivial=not trivial, key=json.dumps(c, sort_keys=True))
