"""Bounded stand-in / replay vehicle (engine R).  Runs under /venv/bin/python (the interpreter of the
test suite) with PYTHONPATH=/verif:$VT_REPO.

  python -m vt.runtime.run <PID> --tier quick --seed 0 --out result.json
  python -m vt.runtime.run <PID> --replay case.json

A property module vt/runtime/r_<PID>.py provides
  cases(tier, seed) -> iterable of JSON-able case descriptors (dicts with at least 'kind')
  run_case(desc)    -> dict(failures=[{'clause':..., 'detail':..., 'signature':...}], nontrivial=bool, key=str)
Every random choice derives from the descriptor (which carries its own seed)."""
import argparse, importlib, json, os, signal, sys, time, traceback, hashlib, warnings
import multiprocessing as mp

CASE_TIMEOUT = int(os.environ.get('VT_CASE_TIMEOUT', '120'))


class CaseTimeout(BaseException):
    pass


def _alarm(signum, frame):
    raise CaseTimeout()


def _limit_memory():
    """address-space limit of a worker: a change of the code under test that tries to allocate tens of gigabytes for a tiny input gets a
    MemoryError (a `returns` failure of that case) instead of driving the machine into swap"""
    try:
        import resource
        lim = int(float(os.environ.get('VT_CASE_MEMORY_GB', '16')) * (1 << 30))
        resource.setrlimit(resource.RLIMIT_AS, (lim, lim))
    except Exception:
        pass


def _run_one(arg):
    pid, desc = arg
    mod = importlib.import_module('vt.runtime.fsearch' if desc.get('kind') == 'fsearch' else f'vt.runtime.r_{pid}')
    warnings.simplefilter('ignore')
    signal.signal(signal.SIGALRM, _alarm)
    signal.alarm(CASE_TIMEOUT)
    t0 = time.time()
    try:
        r = mod.run_case(desc)
    except CaseTimeout:
        r = dict(failures=[dict(clause='terminates', detail=f'case exceeded its wall-clock limit after {time.time() - t0:.0f}s (limit {CASE_TIMEOUT}s per case, or the tighter limit a case sets for itself)',
                                signature='timeout')], nontrivial=True, key=json.dumps(desc, sort_keys=True))
    except Exception as e:
        tb = traceback.extract_tb(e.__traceback__)
        inner = tb[-1] if tb else None
        if inner is not None and '/pytenet/' in inner.filename.replace('\\', '/'):
            # the exception was raised inside the code under test at a place where the stand-in did not expect one: that is a
            # failure of the clause "returns" (the unchanged tree has no such case), not a crash of the harness
            r = dict(failures=[dict(clause='returns', detail=f'uncaught {type(e).__name__}: {e} raised in {os.path.basename(inner.filename)}:{inner.lineno} ({inner.name})',
                                    signature=f'{inner.name}:returns:uncaught')], nontrivial=True, key=json.dumps(desc, sort_keys=True, default=str))
        else:
            # a crash of the harness itself is not a violation of the property: report as harness error
            r = dict(failures=[], nontrivial=False, key=json.dumps(desc, sort_keys=True, default=str),
                     harness_error=f'{type(e).__name__}: {e}\n{traceback.format_exc()[-1500:]}')
    finally:
        signal.alarm(0)
    r['desc'] = desc
    r['seconds'] = time.time() - t0
    return r


def _run_chunk(chunk):
    return [_run_one(c) for c in chunk]


def main():
    ap = argparse.ArgumentParser()
    ap.add_argument('pid')
    ap.add_argument('--tier', default='quick')
    ap.add_argument('--seed', type=int, default=0)
    ap.add_argument('--out')
    ap.add_argument('--replay')
    ap.add_argument('--jobs', type=int, default=int(os.environ.get('VT_JOBS', '14')))
    a = ap.parse_args()
    t0 = time.time()
    if a.replay:
        rep = json.load(open(a.replay))
        r = _run_one((a.pid, rep['case']))
        json.dump(r, sys.stdout, default=str)
        print()
        sys.exit(1 if r['failures'] else (3 if r.get('harness_error') else 0))
    mod = importlib.import_module(f'vt.runtime.r_{a.pid}')
    descs = list(mod.cases(a.tier, a.seed))
    results = []
    if a.jobs <= 1 or len(descs) <= 1:
        results = [_run_one((a.pid, d)) for d in descs]
    else:
        # overall wall-clock budget: a change of the code under test that makes many cases slow must not hang the check;
        # cases not reached are reported (`not_evaluated`), cases that hit the per-case limit are `terminates` failures
        budget = float(os.environ.get('VT_BOUNDED_BUDGET', '900' if a.tier == 'quick' else '5400'))
        with mp.Pool(a.jobs, initializer=_limit_memory) as pool:
            cs = max(1, len(descs) // (a.jobs * 8))
            args = [(a.pid, d) for d in descs]
            it = pool.imap_unordered(_run_chunk, [args[i:i + cs] for i in range(0, len(args), cs)])
            while True:
                try:
                    if time.time() - t0 > budget:
                        raise mp.TimeoutError()
                    results.extend(it.next(timeout=max(1.0, budget - (time.time() - t0))))
                except StopIteration:
                    break
                except mp.TimeoutError:
                    pool.terminate()
                    break
    keys = set()
    failures = []
    herr = []
    samples = []
    kinds = {}
    for r in results:
        kinds[r['desc'].get('kind', '?')] = kinds.get(r['desc'].get('kind', '?'), 0) + 1
        if r.get('harness_error'):
            herr.append(dict(desc=r['desc'], error=r['harness_error']))
            continue
        if r.get('nontrivial'):
            keys.add(hashlib.sha1(str(r.get('key')).encode()).hexdigest())
        for f in r['failures']:
            failures.append(dict(case=r['desc'], **f))
    results.sort(key=lambda r: json.dumps(r['desc'], sort_keys=True, default=str))
    step = max(1, len(results) // 5)
    samples = [r['desc'] for r in results[::step]][:6]
    out = dict(property=a.pid, tier=a.tier, seed=a.seed, evaluations=len(results), distinct_nontrivial=len(keys),
               failures=failures, harness_errors=herr[:10], n_harness_errors=len(herr), samples=samples,
               kinds=kinds, wall_s=time.time() - t0, not_evaluated=len(descs) - len(results),
               rule=getattr(mod, 'RULE', ''), bounds=getattr(mod, 'BOUNDS', {}).get(a.tier, ''),
               exhaustive=bool(getattr(mod, 'EXHAUSTIVE', {}).get(a.tier, False)))
    if a.out:
        json.dump(out, open(a.out, 'w'), default=str)
    else:
        json.dump(out, sys.stdout, default=str, indent=1)


if __name__ == '__main__':
    main()
