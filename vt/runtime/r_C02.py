"""C02 bounded stand-in: quantum-number block sparsity (class invariant WF) after every step of seeded random
histories of public operations, and constancy of the boundary bond charges under the in-place algorithms."""
import json
import numpy as np
import pytenet as ptn
from . import oracle
from . import h_C02 as H

RULE = ('seeded random histories: a pool of MPS/MPO of one model (random U(1) charges or a built-in model incl. the '
        'encoded-pair models) is created through public constructors and then driven through randomly chosen public '
        'operations (orthonormalize, compress, +, -, @, apply_operator, split/merge, from_opgraph, Hamiltonian '
        'constructors, from_vector, zero_qnumbers, TDVP single/two-site, DMRG single/two-site), results re-enter the pool; '
        'WF (kinds, list lengths, shapes, exact zeros) of every pool object is checked after every step; a history is '
        'non-trivial if at least two operations were applied and some object has a bond > 1 or a non-zero charge; '
        'distinct = distinct descriptor (model, L, length, seed)')
BOUNDS = {'quick': 'history length <= 6 after 3-4 constructions, L<=4 (d=4 models L<=3), state bonds <= 16 (TDVP/DMRG <= 8)',
          'thorough': 'history length <= 12, L<=5 (d=4 models L<=4), state bonds <= 24 (TDVP/DMRG <= 8)'}
EXHAUSTIVE = {'quick': False, 'thorough': False}

KIND_MSG = 'is not an integer ndarray'


def cases(tier, seed):
    rng = np.random.default_rng(seed)
    quick = tier == 'quick'
    reps = 50 if quick else 150
    for model in H.MODELS:
        big = H.MODELS[model].get('d') == 4
        Lmax = (3 if big else 4) if quick else (4 if big else 5)
        for L in range(H.MODELS[model]['Lmin'], Lmax + 1):
            for r in range(reps):
                length = int(rng.integers(2, 7)) if quick else int(rng.integers(4, 13))
                yield dict(kind='history', model=model, L=L, length=length, tier=tier,
                           d=int(rng.integers(2, 4)), entries=('complex', 'real')[int(rng.integers(2))],
                           seed=int(rng.integers(1 << 31)))
    # tensor splitting / orthonormalization steps on identically vanishing blocks whose row and column charges share no value
    # (a dead bond): the factors must still obey the sparsity rule under the returned bond charges
    for r in range(120 if quick else 1200):
        yield dict(kind='dead', d=int(rng.integers(1, 4)), seed=int(rng.integers(1 << 31)))


# --------------------------------------------------------------------------------------------------------------

class _Obj:
    def __init__(self, kind, x, herm=False, origin=''):
        self.kind = kind
        self.x = x
        self.herm = herm
        self.taint = False        # carries list-kind charge lists inherited from MPS.from_vector
        self.origin = origin
        self.age = 0

    @property
    def tag(self):
        return tuple(int(q) for q in np.asarray(self.x.qd).tolist())

    @property
    def L(self):
        return len(self.x.A)

    def maxD(self):
        return max(len(q) for q in self.x.qD)

    def bq(self):
        return (tuple(np.asarray(self.x.qD[0]).tolist()), tuple(np.asarray(self.x.qD[-1]).tolist()))


def _mps_relnorm(A):
    v = oracle.mps_dense(A)
    p = float(np.prod([np.linalg.norm(a.ravel()) for a in A]))
    return 0.0 if p == 0 or not np.isfinite(p) else float(np.linalg.norm(v)) / p


def _mpo_relnorm(A):
    T = np.ones((1, 1), dtype=complex)
    for a in A:
        T = np.einsum('ab,stac,stbd->cd', T, a, a.conj(), optimize=True)
    p = float(np.prod([np.linalg.norm(a.ravel()) for a in A]))
    if p == 0 or not np.isfinite(p):
        return 0.0
    return float(np.sqrt(abs(T[0, 0]))) / p


class _Stop(Exception):
    pass


class _History:
    def __init__(self, c):
        self.c = c
        self.rng = np.random.default_rng(c['seed'])
        self.L = c['L']
        self.model = c['model']
        quick = c.get('tier', 'quick') == 'quick'
        self.capS = 16 if quick else 24
        self.capO = 16 if quick else 24
        m = H.MODELS[self.model]
        if self.model == 'u1':
            self.qd = H.make_qd(self.rng, c['d'], ('u1', 'u1', 'large', 'spin', 'boson')[int(self.rng.integers(5))])
        else:
            self.qd = list(m['qd'])
        self.d = len(self.qd)
        self.sector = H.pick_sector(self.rng, self.qd, self.L, q0=0)
        self.pool = []
        self.fails = []
        self.trace = []
        self.nops = 0

    # ------------------------------------------------------------------ bookkeeping
    def fail(self, op, clause, detail, objs=()):
        tainted = any(o.taint for o in objs)
        sig = f'MPS.from_vector:downstream:{op}' if tainted else f'{op}:{clause}'
        self.fails.append(dict(clause=clause, detail=f'step {len(self.trace)} [{" > ".join(self.trace[-6:])}] {op}: {detail}',
                               signature=sig))
        return tainted

    def call(self, op, objs, fn, *a, **k):
        """run a pytenet call whose preconditions hold; an exception is a violation ('returns')"""
        self.trace.append(op)
        try:
            return fn(*a, **k)
        except Exception as e:     # noqa: BLE001 - any exception of the code under test
            tainted = self.fail(op, 'returns', f'raised {type(e).__name__}: {e}', objs)
            if tainted:
                for o in objs:
                    if o.taint:
                        self.repair(o)
                return None
            raise _Stop()

    def repair(self, o):
        o.x.qD = [np.asarray(q, dtype=int) for q in o.x.qD]
        o.taint = False
        wf = oracle.wf_mps if o.kind == 'mps' else oracle.wf_mpo
        if wf(o.x) and o in self.pool:
            self.pool.remove(o)

    def check(self, op, touched, operands=()):
        """WF of every pool object after the step; `touched` are the objects created/updated by it"""
        for o in list(self.pool):
            wf = oracle.wf_mps if o.kind == 'mps' else oracle.wf_mpo
            bad = wf(o.x)
            if not bad:
                continue
            kind_only = all(KIND_MSG in b for b in bad)
            if o in touched:
                if op == 'MPS.from_vector' and kind_only:
                    self.fails.append(dict(clause='wf', detail=f'MPS.from_vector(d={self.d}, nsites={self.L}, v, tol): ' + '; '.join(bad[:3]),
                                           signature='MPS.from_vector:wf:qD_kind'))
                    o.taint = True
                    continue
                if kind_only and any(p.taint for p in operands):
                    self.fail(op, 'wf', '; '.join(bad[:3]), operands)
                    o.taint = True
                    self.repair(o)
                    for p in operands:
                        if p.taint:
                            self.repair(p)
                    continue
                if o.taint and kind_only:
                    continue          # unchanged tainted object (already reported)
                self.fail('MPS_from_vector' if op == 'MPS.from_vector' else op, 'wf', '; '.join(bad[:4]))
                raise _Stop()
            else:
                if o.taint and kind_only:
                    continue
                self.fail(op, 'wf_other', f'object {o.origin} not touched by the step lost WF: ' + '; '.join(bad[:3]))
                raise _Stop()

    def add(self, o, replace=None):
        for p in self.pool:
            p.age += 1
        if replace is not None and replace in self.pool:
            self.pool[self.pool.index(replace)] = o
        else:
            self.pool.append(o)
            same = [p for p in self.pool if p.kind == o.kind]
            if len(same) > 4:
                self.pool.remove(max(same[:-1], key=lambda p: p.age))

    def nonzero(self, o):
        try:
            r = _mps_relnorm(o.x.A) if o.kind == 'mps' else _mpo_relnorm(o.x.A)
        except Exception:   # malformed tensors are reported by check()
            return False
        return bool(np.isfinite(r) and r > 1e-6)

    def pick(self, kind, pred=lambda o: True):
        cand = [o for o in self.pool if o.kind == kind and pred(o)]
        if not cand:
            return None
        w = np.array([1.0 / (1 + o.age) for o in cand])
        return cand[int(self.rng.choice(len(cand), p=w / w.sum()))]

    def touch(self, o):
        for p in self.pool:
            p.age += 1
        o.age = 0

    # ------------------------------------------------------------------ constructions
    def new_mps(self):
        rng = self.rng
        q0, q1 = self.sector
        if rng.random() < 0.12:
            # stand-alone object: all physical labels zero, bonds with several different labels (only equal labels are connected)
            qz = [0] * len(self.qd)
            qDz = [[0]] + [[int(t) for t in rng.integers(-1, 2, int(rng.integers(1, 4)))] for _ in range(self.L - 1)] + [[0]]
            fillz = ('random', 0.7, 1, -2.0)[int(rng.integers(4))]
            xz = self.call('MPS', (), ptn.MPS, qz, qDz, fill=fillz, rng=rng) if fillz == 'random' else self.call('MPS', (), ptn.MPS, qz, qDz, fill=fillz)
            badz = oracle.wf_mps(xz)
            if badz:
                self.fail('MPS', 'wf', f'MPS(qd={qz}, qD={qDz}, fill={fillz!r}): ' + '; '.join(badz[:3]), ())
        Dmax = int(rng.integers(1, 7))
        Ds = H.bond_dims(rng, self.L, Dmax, ('random', 'random', 'max', 'one')[int(rng.integers(4))])
        qD = H.sector_charges(rng, self.qd, Ds, q0, q1, False, ('random', 'sorted', 'reverse')[int(rng.integers(3))])
        r = rng.random()
        if r < 0.75:
            x = self.call('MPS', (), ptn.MPS, list(self.qd), qD, fill='random', rng=rng)
            if self.c['entries'] == 'real':
                for i in range(len(x.A)):
                    x.A[i] = x.A[i].real.copy()
        else:
            fill = (0.7, 1, 0.3 + 0.4j, -2.0)[int(rng.integers(4))]
            x = self.call('MPS', (), ptn.MPS, np.array(self.qd), [np.array(q) for q in qD], fill=fill)
        o = _Obj('mps', x, origin='MPS()')
        self.add(o)
        self.check('MPS', [o])
        return o

    def new_mpo(self):
        rng = self.rng
        if rng.random() < 0.1:
            # stand-alone object: an operator of charge +1 (sum_i c_i Z..Z a^dagger_i 1..1) from an automaton whose *start* terminal is charged
            from pytenet.autop import AutOp, AutOpNode, AutOpEdge
            from pytenet.opgraph import OpGraph
            Lz = max(1, self.L)
            cs = [float(x) for x in rng.uniform(0.5, 1.5, Lz)]
            aut = AutOp([AutOpNode(0, [], [], -1), AutOpNode(1, [], [], 0)], [], [0, 1])
            aut.add_connect_edge(AutOpEdge(0, [0, 0], [(1, 1.0)]))
            aut.add_connect_edge(AutOpEdge(1, [0, 1], lambda i, cs=cs: [(2, cs[i])]))
            aut.add_connect_edge(AutOpEdge(2, [1, 1], [(0, 1.0)]))
            opm = {0: np.identity(2), 1: np.diag([1.0, -1.0]), 2: np.array([[0.0, 0.0], [1.0, 0.0]])}
            gz = self.call('OpGraph.from_automaton', (), OpGraph.from_automaton, aut, Lz)
            xz = self.call('MPO.from_opgraph', (), ptn.MPO.from_opgraph, [0, 1], gz, opm)
            badz = oracle.wf_mpo(xz)
            if badz or [int(q) for q in xz.qD[0]] != [-1] or [int(q) for q in xz.qD[-1]] != [0]:
                self.fail('MPO.from_opgraph', 'wf', f'MPO of a charged automaton (start terminal charge -1, L={Lz}): leading labels {xz.qD[0]}, trailing {xz.qD[-1]}; ' + '; '.join(badz[:3]), ())
        r = rng.random()
        if self.model != 'u1' and r < 0.55:
            name, x = None, None
            self.trace.append('hamiltonian')
            try:
                name, x = H.model_hamiltonian(rng, self.model, self.L)
            except Exception as e:      # noqa: BLE001
                self.fail(f'hamiltonian[{self.model}]', 'returns', f'L={self.L}: raised {type(e).__name__}: {e}')
                raise _Stop()
            o = _Obj('mpo', x, herm=True, origin=name)
            self.add(o)
            self.check(name, [o])
            return o
        if self.model == 'fermion' and r < 0.7:
            coeff = rng.normal(size=self.L)
            x = self.call('linear_fermionic_mpo', (), ptn.linear_fermionic_mpo, coeff, ('c', 'a')[int(rng.integers(2))])
            o = _Obj('mpo', x, origin='linear_fermionic_mpo')
            self.add(o)
            self.check('linear_fermionic_mpo', [o])
            return o
        if r < 0.8:
            # MPO.from_opgraph on a random layered graph with charged nodes
            for _ in range(5):
                g, opmap, ok = H.rand_layered_graph(rng, self.qd, self.L, width=3, q0=0 if rng.random() < 0.7 else int(rng.integers(-1, 2)))
                if ok:
                    break
            if ok:
                x = self.call('MPO.from_opgraph', (), ptn.MPO.from_opgraph, list(self.qd), g, opmap)
                o = _Obj('mpo', x, origin='MPO.from_opgraph')
                self.add(o)
                self.check('MPO.from_opgraph', [o])
                return o
        if r < 0.88:
            x = self.call('MPO.identity', (), ptn.MPO.identity, list(self.qd), self.L, scale=float(rng.uniform(0.5, 1.5)),
                          dtype=(complex, float)[int(rng.integers(2))])
            o = _Obj('mpo', x, herm=True, origin='MPO.identity')
            self.add(o)
            self.check('MPO.identity', [o])
            return o
        if r < 0.94:
            x = H.hermitian_mpo(rng, self.qd, self.L, int(rng.integers(1, 4)), self.c['entries'])
            if oracle.wf_mpo(x):
                raise AssertionError('harness: hermitian_mpo not WF')
            o = _Obj('mpo', x, herm=True, origin='harness:op+op^H')
            self.trace.append('MPO(postpone)+tensors')
            self.add(o)
            return o
        q0, q1 = H.pick_sector(rng, self.qd, self.L, mpo=True, zero_total=bool(rng.random() < 0.6))
        Ds = H.bond_dims(rng, self.L, int(rng.integers(1, 5)))
        qD = H.sector_charges(rng, self.qd, Ds, q0, q1, True, ('random', 'sorted')[int(rng.integers(2))])
        if rng.random() < 0.3:
            # explicit scalar fill: the constructor has to mask it with the sparsity pattern
            fill = (0.7, 1, 0.3 + 0.4j, -2.0)[int(rng.integers(4))]
            x = self.call('MPO', (), ptn.MPO, np.array(self.qd), [np.array(q) for q in qD], fill=fill)
        else:
            x = self.call('MPO', (), ptn.MPO, list(self.qd), qD, fill='random', rng=rng)
            if self.c['entries'] == 'real':
                for i in range(len(x.A)):
                    x.A[i] = x.A[i].real.copy()
        o = _Obj('mpo', x, origin='MPO()')
        self.add(o)
        self.check('MPO', [o])
        return o

    # ------------------------------------------------------------------ operations
    def inplace(self, op, o, others, fn, *a, **k):
        """in-place algorithm on o: WF afterwards and boundary charges unchanged for a non-zero object"""
        nz = (not o.taint) and self.nonzero(o)
        b0 = o.bq()
        r = self.call(op, (o,) + tuple(others), fn, *a, **k)
        self.touch(o)
        self.nops += 1
        self.check(op, [o], (o,) + tuple(others))
        if r is None and self.fails and self.fails[-1]['signature'].startswith('MPS.from_vector:'):
            return None
        if nz and o in self.pool and o.bq() != b0:
            self.fail(op, 'boundary_charges', f'boundary bond charges of a non-zero object changed {b0} -> {o.bq()}')
            raise _Stop()
        return r

    def produced(self, op, x, kind, operands, herm=False, replace=None):
        """register a newly returned object"""
        self.nops += 1
        if x is None:
            return None
        o = _Obj(kind, x, herm=herm, origin=op)
        self.add(o, replace)
        self.check(op, [o], operands)
        if o in self.pool and not o.taint and not self.nonzero(o):
            self.pool.remove(o)       # (numerically) zero objects are checked for WF but not developed further
        return o

    def step(self):
        rng = self.rng
        ops = ['mps_orth', 'mps_compress', 'mps_add', 'mps_add', 'apply', 'split_merge', 'mpo_orth', 'mpo_add', 'mpo_mul',
               'new_mps', 'new_mpo', 'from_vector', 'tdvp1', 'tdvp2', 'dmrg1', 'dmrg2', 'zero_q', 'mps_compress', 'tdvp1', 'dmrg2',
               'tdvp2', 'tdvp2', 'mpo_add', 'mpo_add', 'dmrg1', 'apply']
        for _ in range(40):
            name = ops[int(rng.integers(len(ops)))]
            if getattr(self, 'op_' + name)():
                return True
        return False

    def op_new_mps(self):
        self.new_mps(); self.nops += 1
        return True

    def op_new_mpo(self):
        self.new_mpo(); self.nops += 1
        return True

    def op_mps_orth(self):
        o = self.pick('mps')
        if o is None:
            return False
        mode = ('left', 'right')[int(self.rng.integers(2))]
        self.inplace('MPS.orthonormalize', o, (), o.x.orthonormalize, mode=mode)
        return True

    def op_mpo_orth(self):
        o = self.pick('mpo')
        if o is None:
            return False
        mode = ('left', 'right')[int(self.rng.integers(2))]
        self.inplace('MPO.orthonormalize', o, (), o.x.orthonormalize, mode=mode)
        return True

    def op_mps_compress(self):
        o = self.pick('mps', lambda p: p.taint or self.nonzero(p))
        if o is None:
            return False
        tol = (0.0, 1e-14, 1e-10, 1e-6, 1e-3, 0.05, 0.3, 0.7)[int(self.rng.integers(8))]
        mode = ('left', 'right')[int(self.rng.integers(2))]
        self.inplace('MPS.compress', o, (), o.x.compress, tol, mode=mode)
        return True

    def op_mps_add(self):
        a = self.pick('mps')
        if a is None:
            return False
        if self.rng.random() < 0.15 and self.L >= 2:
            # operands from different sectors (same trailing, different leading bond label): the sum does not exist; the call has to
            # refuse it, or whatever it returns has to be a well-formed object
            qDp = [np.array(q) for q in a.x.qD]
            qDp = [qDp[0] + 1] + [np.concatenate([q, q + 1]) for q in qDp[1:-1]] + [qDp[-1]]
            try:
                pz = ptn.MPS(np.array(a.x.qd), qDp, fill='random', rng=self.rng)
                self.trace.append('add_mps[different sectors]')
                xs = a.x + pz if self.rng.random() < 0.5 else a.x - pz
            except Exception:      # noqa: BLE001 - refusing is the expected outcome
                return True
            bads = oracle.wf_mps(xs)
            if bads:
                self.fail('add_mps', 'wf', 'operands with different leading bond labels were accepted and the result is not well formed: ' + '; '.join(bads[:3]), (a,))
            return True
        b = self.pick('mps', lambda p: p is not a and p.tag == a.tag and p.bq() == a.bq() and p.maxD() + a.maxD() <= self.capS)
        if b is None:
            return False
        r = self.rng.random()
        if r < 0.4:
            x = self.call('add_mps', (a, b), lambda: a.x + b.x)
        elif r < 0.7:
            x = self.call('add_mps', (a, b), lambda: a.x - b.x)
        else:
            alpha = (2.5, -0.5 + 1j, 1e-3, -1)[int(self.rng.integers(4))]
            x = self.call('add_mps', (a, b), ptn.mps.add_mps, a.x, b.x, alpha)
        self.produced('add_mps', x, 'mps', (a, b), replace=a if self.rng.random() < 0.5 else None)
        return True

    def op_mpo_add(self):
        a = self.pick('mpo')
        if a is None:
            return False
        b = self.pick('mpo', lambda p: p is not a and p.tag == a.tag and p.bq() == a.bq() and p.maxD() + a.maxD() <= self.capO)
        if b is None:
            return False
        sub = self.rng.random() < 0.5
        x = self.call('add_mpo', (a, b), (lambda: a.x - b.x) if sub else (lambda: a.x + b.x))
        self.produced('add_mpo', x, 'mpo', (a, b), herm=a.herm and b.herm, replace=a if self.rng.random() < 0.5 else None)
        return True

    def op_mpo_mul(self):
        a = self.pick('mpo')
        if a is None:
            return False
        b = self.pick('mpo', lambda p: p.tag == a.tag and p.maxD() * a.maxD() <= self.capO)
        if b is None:
            return False
        x = self.call('multiply_mpo', (a, b), lambda: a.x @ b.x)
        self.produced('multiply_mpo', x, 'mpo', (a, b), herm=False, replace=None)
        return True

    def op_apply(self):
        s = self.pick('mps')
        if s is None:
            return False
        w = self.pick('mpo', lambda p: p.tag == s.tag and p.maxD() * s.maxD() <= self.capS)
        if w is None:
            return False
        x = self.call('apply_operator', (w, s), ptn.apply_operator, w.x, s.x)
        self.produced('apply_operator', x, 'mps', (w, s), replace=s if self.rng.random() < 0.6 else None)
        return True

    def op_split_merge(self):
        s = self.pick('mps', lambda p: p.L >= 2 and not p.taint)
        if s is None:
            return False
        rng = self.rng
        i = int(rng.integers(s.L - 1))
        x = s.x
        if not self.nonzero(s):
            return False
        Am = self.call('merge_mps_tensor_pair', (s,), ptn.merge_mps_tensor_pair, x.A[i], x.A[i + 1])
        distr = ('left', 'right', 'sqrt')[int(rng.integers(3))]
        tol = (0.0, 0.0, 1e-12, 1e-4, 0.1)[int(rng.integers(5))]
        r = self.call('split_mps_tensor', (s,), ptn.split_mps_tensor, Am, x.qd, x.qd, [x.qD[i], x.qD[i + 2]], distr, tol)
        A0, A1, qb = r
        x.A[i], x.A[i + 1], x.qD[i + 1] = A0, A1, qb
        self.touch(s)
        self.nops += 1
        self.check('split_mps_tensor', [s], (s,))
        return True

    def op_from_vector(self):
        rng = self.rng
        if self.d ** self.L > 4096:
            return False
        n = self.d ** self.L
        r = rng.random()
        if r < 0.6:
            v = rng.normal(size=n) + 1j * rng.normal(size=n)
        elif r < 0.8:
            v = rng.normal(size=n)
        else:
            v = np.ones(1)
            for _ in range(self.L):     # product vector: rank-1 bonds
                v = np.kron(v, rng.normal(size=self.d))
        tol = (0, 0, 1e-12, 1e-6, 1e-2)[int(rng.integers(5))]
        x = self.call('MPS.from_vector', (), ptn.MPS.from_vector, self.d, self.L, v, tol)
        self.produced('MPS.from_vector', x, 'mps', ())
        return True

    def op_zero_q(self):
        if self.rng.random() < 0.7:      # keep it rare
            return False
        o = self.pick(('mps', 'mpo')[int(self.rng.integers(2))])
        if o is None:
            return False
        self.call('zero_qnumbers', (o,), o.x.zero_qnumbers)
        self.touch(o)
        self.nops += 1
        self.check('zero_qnumbers', [o], (o,))
        return True

    def _ham_state(self, Lmin):
        s = self.pick('mps', lambda p: p.L >= Lmin and p.maxD() <= 8 and (p.taint or self.nonzero(p)))
        if s is None:
            return None, None
        h = self.pick('mpo', lambda p: p.herm and p.tag == s.tag and p.bq() == ((0,), (0,)) and self.nonzero(p))
        return h, s

    def op_tdvp1(self):
        h, s = self._ham_state(1)
        if h is None:
            return False
        rng = self.rng
        dt = (0.05, 0.2, 0.1j, -0.05j, 0.02 + 0.05j)[int(rng.integers(5))]
        self.inplace('integrate_local_singlesite', s, (h,), ptn.integrate_local_singlesite, h.x, s.x, dt, int(rng.integers(1, 3)),
                     numiter_lanczos=int(rng.integers(2, 12)))
        return True

    def op_tdvp2(self):
        h, s = self._ham_state(2)
        if h is None:
            return False
        rng = self.rng
        dt = (0.05, 0.2, 0.1j, -0.05j)[int(rng.integers(4))]
        tol = (0, 0, 1e-10, 1e-4, 1e-2)[int(rng.integers(5))]
        self.inplace('integrate_local_twosite', s, (h,), ptn.integrate_local_twosite, h.x, s.x, dt, int(rng.integers(1, 3)),
                     numiter_lanczos=int(rng.integers(2, 12)), tol_split=tol)
        return True

    def op_dmrg1(self):
        h, s = self._ham_state(1)
        if h is None:
            return False
        rng = self.rng
        self.inplace('calculate_ground_state_local_singlesite', s, (h,), ptn.calculate_ground_state_local_singlesite, h.x, s.x,
                     int(rng.integers(1, 3)), numiter_lanczos=int(rng.integers(2, 12)))
        return True

    def op_dmrg2(self):
        h, s = self._ham_state(2)
        if h is None:
            return False
        rng = self.rng
        tol = (0, 0, 1e-10, 1e-4, 1e-2)[int(rng.integers(5))]
        self.inplace('calculate_ground_state_local_twosite', s, (h,), ptn.calculate_ground_state_local_twosite, h.x, s.x,
                     int(rng.integers(1, 3)), numiter_lanczos=int(rng.integers(2, 12)), tol_split=tol)
        return True

    # ------------------------------------------------------------------ driver
    def run(self):
        try:
            self.new_mps()
            self.new_mps()
            self.new_mpo()
            if self.rng.random() < 0.5:
                self.new_mpo()
            for _ in range(self.c['length']):
                if not self.step():
                    break
        except _Stop:
            pass


def _run_dead(c):
    from . import oracle
    from pytenet import bond_ops
    rng = np.random.default_rng(c['seed'])
    fails = []
    d = c['d']
    qd = [int(x) for x in rng.permutation(rng.integers(-1, 3, d))]
    D0, D2 = int(rng.integers(1, 4)), int(rng.integers(1, 4))
    qa = rng.integers(-2, 3, D0)
    qb = rng.integers(-2, 3, D2) + 20            # unreachable from qa by two physical charges
    qd = np.array(qd)
    def fail(fn, clause, detail):
        fails.append(dict(clause=clause, detail=f'dead bond, qd={qd.tolist()} qa={qa.tolist()} qb={qb.tolist()}: {detail}', signature=f'{fn}:{clause}:dead'))
    # two-site block
    for distr in ('left', 'right', 'sqrt'):
        for tol in (0.0, 0.1):
            Am = np.zeros((d * d, D0, D2), dtype=complex if rng.integers(2) else float)
            try:
                A0, A1, qbond = ptn.split_mps_tensor(Am, qd, qd, [qa, qb], distr, tol)
            except Exception as e:
                fail('split_mps_tensor', 'returns', f'{distr}, tol={tol}: raised {type(e).__name__}: {e}')
                continue
            qbond = np.asarray(qbond)
            if not (A0.ndim == 3 and A1.ndim == 3 and A0.shape[2] == A1.shape[1] == len(qbond) and A0.shape[:2] == (d, D0) and A1.shape[0] == d and A1.shape[2] == D2):
                fail('split_mps_tensor', 'wf', f'{distr}: shapes {A0.shape}, {A1.shape}, {len(qbond)} bond charges')
                continue
            if not oracle.qsparse(A0, [qd, qa, -qbond]):
                fail('split_mps_tensor', 'sparsity', f'{distr}, tol={tol}: first factor violates the sparsity rule under the returned bond charges {qbond.tolist()}')
            if not oracle.qsparse(A1, [qd, qbond, -qb]):
                fail('split_mps_tensor', 'sparsity', f'{distr}, tol={tol}: second factor violates the sparsity rule under the returned bond charges {qbond.tolist()}')
    # matrix level, rows and columns in arbitrary order
    m, n = int(rng.integers(1, 6)), int(rng.integers(1, 6))
    q0 = rng.permutation(rng.integers(-2, 3, m)); q1 = rng.permutation(rng.integers(-2, 3, n)) + 20
    A = np.zeros((m, n))
    for name, call in (('qr', lambda: bond_ops.qr(A, q0, q1)), ('split_matrix_svd', lambda: bond_ops.split_matrix_svd(A, q0, q1, 0.0))):
        try:
            out = call()
        except Exception as e:
            fail(name, 'returns', f'q0={q0.tolist()} q1={q1.tolist()}: raised {type(e).__name__}: {e}')
            continue
        left, right, qi = out[0], out[-2], np.asarray(out[-1])
        if not (oracle.qsparse(left, [q0, -qi]) and oracle.qsparse(right, [qi, -q1])):
            fail(name, 'sparsity', f'q0={q0.tolist()} q1={q1.tolist()}: factors violate the sparsity rule under {qi.tolist()}')
    # single-site local steps with a dead right / left bond
    try:
        Az = np.zeros((d, D0, D2))
        An = np.zeros((d, D2, 1))
        for fn in (ptn.mps.local_orthonormalize_left_qr, ptn.mps.local_orthonormalize_left_svd) if hasattr(ptn.mps, 'local_orthonormalize_left_svd') else (ptn.mps.local_orthonormalize_left_qr,):
            r = fn(Az, An, qd, [qa, qb]) if fn is ptn.mps.local_orthonormalize_left_qr else fn(Az, An, qd, [qa, qb], 0.0)
            Anew, qn = r[0], np.asarray(r[2])
            if not oracle.qsparse(Anew, [qd, qa, -qn]):
                fail(fn.__name__, 'sparsity', f'site tensor violates the sparsity rule under the new bond charges {qn.tolist()}')
    except Exception as e:
        fail('local_orthonormalize_left', 'returns', f'raised {type(e).__name__}: {e}')
    return dict(failures=fails, nontrivial=True, key=json.dumps(c, sort_keys=True))


def run_case(c):
    if c.get('kind') == 'dead':
        return _run_dead(c)
    h = _History(c)
    h.run()
    nt = h.nops >= 2 and H.nontrivial(*[o.x for o in h.pool if not o.taint]) if h.pool else False
    return dict(failures=h.fails, nontrivial=bool(nt or h.fails), key=json.dumps(c, sort_keys=True), trace=h.trace)
