"""C16 bounded stand-in: operator-graph rewrites preserve the denoted operator and graph consistency.

Oracle: free-algebra path polynomial computed by the harness' own traversal (h_graph.graph_poly), exact."""
import json
from . import h_graph as hg            # first: limits BLAS threads before numpy is loaded
import numpy as np
import pytenet as ptn
from pytenet.opgraph import OpGraph

RULE = ('start graphs: (tiny) complete enumeration of the smallest layered graphs (length 1; length 2 and 3 with interior width 1; '
        'length 2 width 2 on a 2-entry operator-sum menu), (rand) seeded random layered graphs built from OpGraphNode/OpGraphEdge '
        '(length<=3, width<=wmax, <=2 parallel edges, operator sums with 1-2 ids incl. cancelling coefficients, node charges {0,1}, '
        'every node on a terminal-to-terminal path), (fuse) sparse ones over a 1-2 entry menu with width<=wmax+1 (many fusable node pairs), (dang) the same with dangling nodes, (chains)/(trees) graphs returned by '
        'from_opchains / from_optrees; each start graph x rewrite kind {simplify, merge (every mergeable ordered pair, both '
        'directions, both branches), rename (every node and edge to fresh and arbitrary free ids), flip, add (id assignments of '
        'the second graph from a range colliding with the first: all injective node assignments if <=60 else sampled, plus '
        'special ones), seq (<=4 random rewrites)}; non-trivial = graph with >=2 edges; distinct = distinct (graph, kind, ids)')
BOUNDS = {'quick': 'length<=3, width<=2 (fuse class <=3), ~1560 start graphs x 6 rewrite kinds; tiny classes of length 3 / width 2 subsampled (150 / 250)',
          'thorough': 'length<=3, width<=3 (fuse class <=4), ~22800 start graphs x 6 rewrite kinds; tiny classes complete'}
EXHAUSTIVE = {'quick': False, 'thorough': False}

KINDS = ('simplify', 'merge', 'rename', 'flip', 'add', 'seq')
MENU4 = ([[1, 1.0]], [[2, 1.0]], [[1, -1.0]], [[1, 1.0], [2, -1.0]])
MENU3 = ([[1, 1.0]], [[1, -1.0]], [[1, 0.5], [2, 0.5]])
MENU2 = ([[1, 1.0]], [[1, -1.0]])


def start_graphs(tier, rng):
    """yield (source tag, source descriptor)"""
    quick = tier == 'quick'
    wmax = 2 if quick else 3
    # tiny, complete
    tiny = []
    tiny += list(hg.enum_tiny_graphs(1, 1, MENU4, 2))
    tiny += list(hg.enum_tiny_graphs(2, 1, MENU4, 2))
    t3 = list(hg.enum_tiny_graphs(3, 1, MENU3, 2))
    t22 = list(hg.enum_tiny_graphs(2, 2, MENU2, 2))
    if quick:
        t3 = [t3[i] for i in sorted(rng.choice(len(t3), size=150, replace=False))]
        t22 = [t22[i] for i in sorted(rng.choice(len(t22), size=250, replace=False))]
    for gd in tiny + t3 + t22:
        yield 'tiny', dict(graph=gd)
    for r in range(450 if quick else 9000):
        length = int(rng.integers(1, 4))
        yield 'rand', dict(graph=hg.rand_layered_graph(rng, length, wmax))
    for r in range(200 if quick else 3000):
        # sparse graphs over a 1-2 entry menu: many node pairs that satisfy the fusion preconditions of merge_edges
        yield 'fuse', dict(graph=hg.rand_layered_graph(rng, int(rng.integers(2, 4)), wmax + 1, menu_size=int(rng.integers(1, 3)),
                                                        charges=(0,) if r % 2 else (0, 1), pdens=0.2))
    for r in range(150 if quick else 2000):
        # nearly equal coefficients (relative difference 1e-9, absolute 1e-12): equality of operator sums must be exact
        yield 'near', dict(graph=hg.rand_layered_graph(rng, int(rng.integers(2, 4)), wmax + 1, menu_size=int(rng.integers(2, 4)),
                                                        charges=(0,) if r % 2 else (0, 1), pdens=(0.2, 0.5)[r % 2], near=r))
    for r in range(60 if quick else 1000):
        yield 'dang', dict(graph=hg.rand_layered_graph(rng, int(rng.integers(2, 4)), wmax, dangling=True))
    for r in range(120 if quick else 2000):
        L = int(rng.integers(1, 5))
        chains = hg.rand_chain_list(rng, L, 6, zero_coeffs=False)
        yield 'chains', dict(chains=chains, L=L)
    shapes = [s for s in hg.tree_shapes(3) if s]
    for r in range(120 if quick else 2000):
        trees = []
        L = int(rng.integers(1, 5))
        for _ in range(1 + int(rng.random() < 0.4)):
            cand = [s for s in shapes if hg.shape_height(s) <= L]
            s = cand[int(rng.integers(len(cand)))]
            istart = int(rng.integers(0, L - hg.shape_height(s) + 1))
            trees.append([hg.label_tree(rng, s), istart])
        yield 'trees', dict(trees=trees, L=L)


def id_assignments(rng, gd1, other):
    """id assignments [node ids, edge ids] for the second graph from a range colliding with the first"""
    n1 = [n[0] for n in gd1['nodes']] if gd1 else [0, 1]
    e1 = [e[0] for e in gd1['edges']] if gd1 else [0]
    n2, m2 = len(other['nodes']), len(other['edges'])
    nrange = list(range(min(n1), min(n1) + max(len(n1), n2) + 1))
    erange = list(range(min(e1 + [0]), min(e1 + [0]) + max(len(e1), m2) + 1))
    out = []

    def rand_e():
        return [int(x) for x in rng.choice(erange, size=m2, replace=False)]

    import itertools, math
    if math.perm(len(nrange), n2) <= 60:
        for p in itertools.permutations(nrange, n2):
            out.append([list(p), rand_e()])
    else:
        for _ in range(20):
            out.append([[int(x) for x in rng.choice(nrange, size=n2, replace=False)], rand_e()])
    ident_n = nrange[:n2]
    out.append([ident_n, erange[:m2]])                                   # identical numbering
    out.append([ident_n[::-1], erange[:m2][::-1]])                       # reversed: terminals of `other` carry the ids of the opposite terminals
    if math.perm(len(erange), m2) <= 24:
        for p in itertools.permutations(erange, m2):
            out.append([ident_n, list(p)])
    else:
        for _ in range(6):
            out.append([ident_n, rand_e()])
    out.append([[x + 1000 for x in ident_n], [x + 1000 for x in erange[:m2]]])     # disjoint ids
    out.append([[-x - 1 for x in ident_n], [-x - 1 for x in erange[:m2]]])         # negative ids
    return out


def cases(tier, seed):
    rng = np.random.default_rng(seed)
    for tag, src in start_graphs(tier, rng):
        if 'graph' in src:
            gd = src['graph']
            length = _gd_length(gd)
            qt = {n[0]: n[1] for n in gd['nodes']}
            tq = [qt[gd['term'][0]], qt[gd['term'][1]]]
        else:
            gd, length, tq = None, src['L'], [0, 0]
        for kind in KINDS:
            c = dict(kind=kind, tag=tag, src=src, seed=int(rng.integers(1 << 31)))
            if kind in ('add', 'seq'):
                other = hg.rand_layered_graph(rng, length, 2)
                if gd is not None and rng.random() < 0.2:
                    # the other graph cancels some (or all) terms of this one: a copy with the coefficients of some edges negated
                    import copy as _copy
                    other = _copy.deepcopy(gd)
                    for e in other['edges']:
                        if rng.random() < 0.6:
                            e[3] = [[o, -cf] for o, cf in e[3]]
                for n in other['nodes']:
                    if n[0] == other['term'][0]:
                        n[1] = tq[0]
                    if n[0] == other['term'][1]:
                        n[1] = tq[1]
                c['other'] = other
                asg = id_assignments(rng, gd, other)
                c['ids'] = asg if kind == 'add' else [asg[int(rng.integers(len(asg)))]]
            yield c


def _gd_length(gd):
    out = {}
    for e in gd['edges']:
        out.setdefault(e[1], []).append(e[2])
    lev = {gd['term'][0]: 0}
    todo = [gd['term'][0]]
    while todo:
        n = todo.pop()
        for m in out.get(n, []):
            if m not in lev:
                lev[m] = lev[n] + 1
                todo.append(m)
    return lev[gd['term'][1]]


def build_source(src):
    """-> OpGraph or None if the constructor under test (not the subject here) raises"""
    if 'graph' in src:
        return hg.build_graph(src['graph'])
    try:
        if 'chains' in src:
            return OpGraph.from_opchains(hg.build_chains(src['chains']), src['L'], 0)
        return OpGraph.from_optrees([hg.build_tree(t) for t in src['trees']], src['L'], 0)
    except Exception:
        return None


def build_other(c, k):
    nids, eids = c['ids'][k]
    o = c['other']
    nmap = {n[0]: nids[i] for i, n in enumerate(o['nodes'])}
    emap = {e[0]: eids[i] for i, e in enumerate(o['edges'])}
    return hg.build_graph(hg.gd_relabel(o, nmap, emap))


class Checker:
    def __init__(self, c):
        self.fails = []
        self.qual = ':dangling' if c['tag'] == 'dang' else ''
        self.extra = ''

    def fail(self, fn, clause, detail):
        self.fails.append(dict(clause=clause, detail=detail, signature=f'OpGraph.{fn}:{clause}{self.extra}{self.qual}'))

    def call(self, fn, f):
        """run a rewrite; exception -> failure"""
        try:
            f()
            return True
        except Exception as e:
            name, line, where = hg.exc_info(e)
            self.fail(fn, 'returns', f'{fn} raised {name} at {where} ({line.strip()}): {e}')
            self.fails[-1]['signature'] = f'OpGraph.{fn}:returns:{name}{self.extra}{self.qual}'
            return False

    def after(self, fn, g, expected, what='', expected_q=None):
        """polynomial and consistency after a rewrite; returns False if the graph cannot be used any further.
        expected_q: charge-refined polynomial (operator together with the node quantum numbers along every path); only
        examined when the plain polynomial is as expected (clause 'charges': nodes of different charge were fused)"""
        try:
            p = hg.graph_poly(g)
        except hg.Malformed as e:
            self.fail(fn, 'wellformed', f'after {fn}{what}: {e}')
            return False
        if not hg.p_eq(p, expected):
            self.fail(fn, 'polynomial', f'after {fn}{what}: [[graph]] - expected = {hg.p_diff(p, expected)}')
        elif expected_q is not None and not hg.p_eq(hg.graph_poly(g, charges=True), expected_q):
            self.fail(fn, 'charges', f'after {fn}{what}: the operator is preserved but the node quantum numbers along some path changed')
        try:
            ok = g.is_consistent()
        except Exception as e:
            self.fail(fn, 'consistent', f'after {fn}{what}: is_consistent() raised {type(e).__name__}: {e}')
            return False
        if not ok:
            self.fail(fn, 'consistent', f'after {fn}{what}: is_consistent() is False')
            return False
        # the library's own dense meaning of the rewritten graph agrees with its symbolic meaning (small graphs only)
        try:
            L_ = g.length
            if 1 <= L_ <= 3 and all(len(w) == L_ for w in p) and not self.qual:       # as_matrix asserts that there are no dangling nodes
                ids = sorted({o for w in p for o in w} | {o for e in g.edges.values() for o, _ in e.opics} | {0})
                r_ = np.random.default_rng(len(p) + 7 * L_)
                opmap = {o: (np.identity(2) if o == 0 else (r_.standard_normal((2, 2)) + 1j * r_.standard_normal((2, 2)) if o % 2 else r_.standard_normal((2, 2)))) for o in ids}
                ref = hg.poly_dense(p, opmap, L_, 2)
                for direction in (1, 0):
                    m = np.asarray(g.as_matrix(opmap, direction))
                    if m.shape != ref.shape or not np.allclose(m, ref, atol=1e-9 * max(1.0, float(np.linalg.norm(ref)))):
                        self.fail(fn, 'dense', f'after {fn}{what}: OpGraph.as_matrix(direction={direction}) has shape {m.shape} / deviates from the symbolic meaning')
                        break
        except Exception as e:
            self.fail(fn, 'dense', f'after {fn}{what}: OpGraph.as_matrix raised {type(e).__name__}: {e}')
        return True


def free_id(rng, used, style):
    used = set(used)
    if style == 'fresh':
        return max(used) + 1
    if style == 'neg':
        return min(min(used), 0) - 1 - int(rng.integers(0, 3))
    if style == 'big':
        return max(used) + 1000003
    cand = [x for x in range(min(used) - 2, min(used) + len(used) + 4) if x not in used]
    return cand[int(rng.integers(len(cand)))]


def run_case(c):
    rng = np.random.default_rng(c['seed'])
    ck = Checker(c)
    src = c['src']
    kind = c['kind']
    key = json.dumps([c['kind'], c['src'], c.get('other'), c.get('ids')])
    g = build_source(src)
    if g is None:
        return dict(failures=[], nontrivial=False, key=key)
    nontrivial = len(g.edges) >= 2
    try:
        p0 = hg.graph_poly(g)
        q0 = hg.graph_poly(g, charges=True)
    except hg.Malformed:
        if 'graph' in src:
            raise                # a hand-built start graph must be well-formed: generator error
        return dict(failures=[], nontrivial=False, key=key)      # defect of from_opchains / from_optrees: reported by C05 / C17

    if kind == 'simplify':
        nn, ne = len(g.nodes), len(g.edges)
        if ck.call('simplify', g.simplify):
            ck.after('simplify', g, p0, '', q0)
            if len(g.nodes) > nn or len(g.edges) > ne:
                ck.fail('simplify', 'no_growth', f'nodes {nn}->{len(g.nodes)}, edges {ne}->{len(g.edges)}')

    elif kind == 'merge':
        pairs = hg.mergeable_pairs(g)
        if len(pairs) > 40:
            pairs = [pairs[i] for i in sorted(rng.choice(len(pairs), size=40, replace=False))]
        nontrivial = nontrivial and bool(pairs)
        for e1, e2, direction, branch in pairs:
            h = build_source(src)
            ck.extra = f':{branch}'
            if ck.call('merge_edges', lambda: h.merge_edges(e1, e2, direction)):
                ck.after('merge_edges', h, p0, f'({e1},{e2},{direction}) [{branch}]', q0)
            if ck.fails:
                break

    elif kind == 'rename':
        for nid in sorted(g.nodes):
            for style in ('fresh', 'neg', 'any', 'big'):
                if nid not in g.nodes:
                    break
                new = free_id(rng, g.nodes.keys(), style)
                if not ck.call('rename_node_id', lambda: g.rename_node_id(nid, new)):
                    return dict(failures=ck.fails, nontrivial=nontrivial, key=key)
                if not ck.after('rename_node_id', g, p0, f'({nid}->{new})') or ck.fails:
                    return dict(failures=ck.fails, nontrivial=nontrivial, key=key)
                if new not in g.nodes or nid in g.nodes or g.nodes[new].nid != new:
                    ck.fail('rename_node_id', 'renamed', f'{nid}->{new}: node keys {sorted(g.nodes)}')
                    return dict(failures=ck.fails, nontrivial=nontrivial, key=key)
                nid = new
        for eid in sorted(g.edges):
            for style in ('fresh', 'neg', 'any', 'big'):
                new = free_id(rng, g.edges.keys(), style)
                if not ck.call('rename_edge_id', lambda: g.rename_edge_id(eid, new)):
                    return dict(failures=ck.fails, nontrivial=nontrivial, key=key)
                if not ck.after('rename_edge_id', g, p0, f'({eid}->{new})') or ck.fails:
                    return dict(failures=ck.fails, nontrivial=nontrivial, key=key)
                if new not in g.edges or eid in g.edges or g.edges[new].eid != new:
                    ck.fail('rename_edge_id', 'renamed', f'{eid}->{new}: edge keys {sorted(g.edges)}')
                    return dict(failures=ck.fails, nontrivial=nontrivial, key=key)
                eid = new

    elif kind == 'flip':
        t = list(g.nid_terminal)
        if ck.call('flip', g.flip):
            ck.after('flip', g, hg.p_flip(p0), '', hg.pq_flip(q0))
            if list(g.nid_terminal) != t[::-1]:
                ck.fail('flip', 'terminals', f'terminals {t} -> {g.nid_terminal}')
            if ck.call('flip', g.flip):
                ck.after('flip', g, p0, ' twice', q0)

    elif kind == 'add':
        qn = {n[0]: n[1] for n in c['other']['nodes']}
        same_tq = [qn[t] for t in c['other']['term']] == [g.nodes[t].qnum for t in g.nid_terminal]
        for k in range(len(c['ids'])):
            h = build_source(src)
            o = build_other(c, k)
            po = hg.graph_poly(o)
            qo = hg.graph_poly(o, charges=True)
            dump = hg.graph_dump(o)
            if ck.call('add', lambda: h.add(o)):
                ck.after('add', h, hg.p_add(p0, po), f' ids={c["ids"][k]}', hg.p_add(q0, qo) if same_tq else None)
            if hg.graph_dump(o) != dump:
                ck.fail('add', 'other_untouched', f'the added graph was modified, ids={c["ids"][k]}')
            if ck.fails:
                break

    elif kind == 'seq':
        expected = p0
        eq = q0
        qn = {n[0]: n[1] for n in c['other']['nodes']}
        steps = []
        for step in range(int(rng.integers(2, 5))):
            op = str(rng.choice(['simplify', 'merge', 'rename_node', 'rename_edge', 'flip', 'add']))
            if op == 'merge':
                pairs = hg.mergeable_pairs(g)
                if not pairs:
                    op = 'flip'
                else:
                    e1, e2, direction, branch = pairs[int(rng.integers(len(pairs)))]
            steps.append(op)
            what = ' in sequence ' + '>'.join(steps)
            if op == 'simplify':
                nn, ne = len(g.nodes), len(g.edges)
                if not ck.call('simplify', g.simplify) or not ck.after('simplify', g, expected, what, eq):
                    break
                if len(g.nodes) > nn or len(g.edges) > ne:
                    ck.fail('simplify', 'no_growth', f'nodes {nn}->{len(g.nodes)}, edges {ne}->{len(g.edges)}{what}')
            elif op == 'merge':
                if not ck.call('merge_edges', lambda: g.merge_edges(e1, e2, direction)) or not ck.after('merge_edges', g, expected, what, eq):
                    break
            elif op == 'rename_node':
                nid = sorted(g.nodes)[int(rng.integers(len(g.nodes)))]
                new = free_id(rng, g.nodes.keys(), str(rng.choice(['fresh', 'neg', 'any'])))
                if not ck.call('rename_node_id', lambda: g.rename_node_id(nid, new)) or not ck.after('rename_node_id', g, expected, what, eq):
                    break
            elif op == 'rename_edge':
                eid = sorted(g.edges)[int(rng.integers(len(g.edges)))]
                new = free_id(rng, g.edges.keys(), str(rng.choice(['fresh', 'neg', 'any'])))
                if not ck.call('rename_edge_id', lambda: g.rename_edge_id(eid, new)) or not ck.after('rename_edge_id', g, expected, what, eq):
                    break
            elif op == 'flip':
                expected = hg.p_flip(expected)
                eq = hg.pq_flip(eq) if eq is not None else None
                if not ck.call('flip', g.flip) or not ck.after('flip', g, expected, what, eq):
                    break
            elif op == 'add':
                o = build_other(c, 0)
                po = hg.graph_poly(o)
                dump = hg.graph_dump(o)
                expected = hg.p_add(expected, po)
                if eq is not None and [qn[t] for t in c['other']['term']] == [g.nodes[t].qnum for t in g.nid_terminal]:
                    eq = hg.p_add(eq, hg.graph_poly(o, charges=True))
                else:
                    eq = None       # terminal charges of the two graphs differ (after a flip): charge paths of the sum are not defined
                if not ck.call('add', lambda: g.add(o)) or not ck.after('add', g, expected, what, eq):
                    break
                if hg.graph_dump(o) != dump:
                    ck.fail('add', 'other_untouched', f'the added graph was modified{what}')
            if ck.fails:
                break
    return dict(failures=ck.fails, nontrivial=nontrivial, key=key)
