"""C18 bounded stand-in: Hopcroft-Karp matching is maximum, the derived vertex cover is minimum (Koenig)."""
import json
import numpy as np
from pytenet import bipartite_graph as bg

RULE = ('kind=enum: every edge set of the nu x nv partition given by the bit masks lo..hi (step stride), each once in canonical '
        'edge order and once shuffled with duplicated edges, against a brute-force maximum matching; kind=rand: seeded '
        'random graphs up to 60x60 of all densities plus structured graphs (paths, complete, stars, perfect matching + noise, '
        'crowns) against the duality certificate and an independent augmenting-path matching; a graph is distinct by '
        '(nu, nv, edge list); non-trivial unless 1x1')
BOUNDS = {'quick': 'exhaustive: all edge sets for nu,nv<=4 except 4x4, of which every 4th mask (offset seed%4); 900 random graphs <=60x60',
          'thorough': 'exhaustive: all edge sets for nu,nv<=4; every 8th mask of 5x5 (offset seed%8) and all of 4x5/5x4; 9000 random graphs <=60x60'}
EXHAUSTIVE = {'quick': True, 'thorough': True}      # the stated "exhaustive" part of the bounds is enumerated completely

CHUNK = 256
DENS = (0.0, 0.01, 0.02, 0.05, 0.1, 0.2, 0.35, 0.5, 0.75, 0.9, 1.0)
STRUCT = ('path', 'complete', 'star_u', 'star_v', 'perfect_noise', 'crown', 'two_level', 'single')


LATTICE_LIMIT = 5         # seconds; the unchanged routine needs milliseconds for these graphs (<= 60 x 60 vertices)


def lattice_graph(k, w, nr):
    """layered graph with a lattice of dead ends (k layers of w vertices, completely connected between consecutive layers) below nr
    free vertices; the only augmenting path starts at the last vertex.  A depth-first search that does not remember dead ends needs
    about nr * w**k steps here, Hopcroft-Karp a few hundred."""
    l = lambda i, j: (i - 1) * w + j
    c = lambda i: k * w + i - 1
    roots = [k * w + k + t for t in range(nr)]
    r0 = k * w + k + nr
    vfree = k * w + k
    edges = []
    for i in range(1, k + 1):
        edges += [(l(i, j), l(i, j)) for j in range(w)] + [(c(i), c(i))]
    for i in range(1, k):
        edges += [(l(i, j), l(i + 1, t)) for j in range(w) for t in range(w)]
        edges += [(c(i), c(i + 1))]
    edges += [(c(k), vfree)]
    edges += [(r, l(1, j)) for r in roots for j in range(w)]
    edges += [(r0, c(1))]
    return k * w + k + nr + 1, k * w + k + 1, edges


def path_union(m):
    """disjoint union of the paths u0 - v0 - u1 - v1 - ... - uk - vk, k = 1..m, in which the end vertex u0 carries the largest index of
    its path: the first phase of Hopcroft-Karp matches u_{i+1} - v_i everywhere and every later phase can only repair the shortest
    path that is left, so the number of phases grows with m (a perfect matching exists)"""
    edges = []; off = 0
    for k in range(1, m + 1):
        for i in range(1, k + 1):
            edges.append((off + i - 1, off + i - 1)); edges.append((off + i - 1, off + i))
        edges.append((off + k, off))
        off += k + 1
    return off, off, edges


def cases(tier, seed):
    for (k, w, nr) in ((3, 2, 1), (8, 3, 2), (14, 3, 3), (16, 3, 3), (11, 4, 2)):
        yield dict(kind='lattice', k=k, w=w, nr=nr, seed=seed)
    for m in (1, 2, 3, 4, 6, 9) + ((12, 15) if tier != 'quick' else ()):
        yield dict(kind='paths', m=m, seed=seed)
    _r = np.random.default_rng(seed + 77)
    for _k in range(30 if tier == 'quick' else 200):
        yield dict(kind='reuse', count=25, seed=int(_r.integers(1 << 31)))
    rng = np.random.default_rng(seed)
    N = 4 if tier == 'quick' else 5
    for nu in range(1, N + 1):
        for nv in range(1, N + 1):
            if max(nu, nv) == 5 and min(nu, nv) < 4:
                pass
            total = 1 << (nu * nv)
            stride, off = 1, 0
            if tier == 'quick' and (nu, nv) == (4, 4):
                stride, off = 4, seed % 4
            if (nu, nv) == (5, 5):
                stride, off = 8, seed % 8
            size = CHUNK * stride * (8 if total > (1 << 22) else 1)
            lo = 0
            while lo < total:
                yield dict(kind='enum', nu=nu, nv=nv, lo=lo + off, hi=min(total, lo + size), stride=stride,
                           seed=int(rng.integers(1 << 31)))
                lo += size
    reps = 1 if tier == 'quick' else 10
    for r in range(reps):
        for p in DENS:
            for sz in ('small', 'medium', 'large', 'skew'):
                yield dict(kind='rand', style='density', p=p, size=sz, count=15, seed=int(rng.integers(1 << 31)))
        for st in STRUCT:
            for sz in ('small', 'medium', 'large'):
                yield dict(kind='rand', style=st, p=0.0, size=sz, count=10, seed=int(rng.integers(1 << 31)))


# ---------------------------------------------------------------------------------------------------------------

def brute_max_matching(rows):
    """rows[u] = bit mask of neighbours; exhaustive search over all partial matchings (set of used-v masks)"""
    reach = {0}
    for r in rows:
        new = set(reach)
        for used in reach:
            free = r & ~used
            while free:
                b = free & -free
                new.add(used | b)
                free ^= b
        reach = new
    return max(bin(x).count('1') for x in reach)


def kuhn_max_matching(nu, nv, adj):
    """independent augmenting-path algorithm (Kuhn); returns the size of a maximum matching"""
    mv = [-1] * nv

    def try_u(u, seen):
        for v in adj[u]:
            if not seen[v]:
                seen[v] = True
                if mv[v] == -1 or try_u(mv[v], seen):
                    mv[v] = u
                    return True
        return False
    size = 0
    for u in range(nu):
        if try_u(u, [False] * nv):
            size += 1
    return size


def check_graph(nu, nv, edges, opt, fail, tag):
    """opt: independent maximum matching size (or None: use the duality certificate only)"""
    eset = set(edges)
    try:
        G = bg.BipartiteGraph(nu, nv, list(edges))
        matching = bg.HopcroftKarp(G)()
    except Exception as e:
        if type(e).__name__ == 'CaseTimeout':      # the runner's wall-clock alarm must reach the runner
            raise
        fail('returns', 'HopcroftKarp', f'{tag}: raised {type(e).__name__}: {e}')
        matching = None
    try:
        G2 = bg.BipartiteGraph(nu, nv, list(edges))
        cover = bg.minimum_vertex_cover(G2)
    except Exception as e:
        if type(e).__name__ == 'CaseTimeout':      # the runner's wall-clock alarm must reach the runner
            raise
        fail('returns', 'minimum_vertex_cover', f'{tag}: raised {type(e).__name__}: {e}')
        cover = None
    msize = None
    if matching is not None:
        ok = True
        try:
            pairs = [(int(u), int(v)) for (u, v) in matching]
        except Exception as e:
            if type(e).__name__ == 'CaseTimeout':      # the runner's wall-clock alarm must reach the runner
                raise
            pairs = None
        if pairs is None:
            fail('matching_type', 'HopcroftKarp', f'{tag}: matching {matching!r} is not a list of pairs'); ok = False
        else:
            if any(p not in eset for p in pairs):
                fail('matching_edges', 'HopcroftKarp', f'{tag}: matching {pairs} contains a non-edge'); ok = False
            if len({u for u, _ in pairs}) != len(pairs) or len({v for _, v in pairs}) != len(pairs):
                fail('matching_disjoint', 'HopcroftKarp', f'{tag}: matching {pairs} shares a vertex'); ok = False
            msize = len(pairs)
            if opt is not None and ok and msize != opt:
                fail('matching_maximum', 'HopcroftKarp', f'{tag}: matching size {msize}, maximum is {opt}')
    if cover is not None:
        try:
            uc, vc = cover
            uc = [int(x) for x in uc]; vc = [int(x) for x in vc]
        except Exception as e:
            if type(e).__name__ == 'CaseTimeout':      # the runner's wall-clock alarm must reach the runner
                raise
            fail('cover_type', 'minimum_vertex_cover', f'{tag}: cover {cover!r} is not a pair of vertex lists')
            return
        ok = True
        if any(not 0 <= x < nu for x in uc) or any(not 0 <= x < nv for x in vc):
            fail('cover_range', 'minimum_vertex_cover', f'{tag}: cover {uc},{vc} out of range'); ok = False
        su, sv = set(uc), set(vc)
        missed = [e for e in eset if e[0] not in su and e[1] not in sv]
        if missed:
            fail('cover_touches', 'minimum_vertex_cover', f'{tag}: cover {uc},{vc} misses edges {missed[:4]}'); ok = False
        csize = len(uc) + len(vc)
        ref = opt if opt is not None else msize
        if ref is not None and csize != ref:
            fail('cover_size', 'minimum_vertex_cover', f'{tag}: cover size {csize}, maximum matching size {ref}')


def rand_graph(rng, style, p, size):
    hi = {'small': 8, 'medium': 25, 'large': 60, 'skew': 60}[size]
    nu, nv = int(rng.integers(1, hi + 1)), int(rng.integers(1, hi + 1))
    if size == 'skew':
        if rng.integers(2):
            nu = int(rng.integers(1, 6))
        else:
            nv = int(rng.integers(1, 6))
    if size == 'large':
        nu, nv = max(nu, 30), max(nv, 30)
    if style == 'density':
        M = rng.uniform(size=(nu, nv)) < p
        edges = [(int(u), int(v)) for u, v in zip(*np.nonzero(M))]
    elif style == 'path':          # one long path u0-v0-u1-v1-...: augmenting paths of maximal length
        k = min(nu, nv)
        pu, pv = rng.permutation(nu), rng.permutation(nv)
        edges = []
        for i in range(k):
            edges.append((int(pu[i]), int(pv[i])))
            if i + 1 < k:
                edges.append((int(pu[i + 1]), int(pv[i])))
    elif style == 'complete':
        edges = [(u, v) for u in range(nu) for v in range(nv)]
    elif style == 'star_u':
        u = int(rng.integers(nu)); edges = [(u, v) for v in range(nv)]
    elif style == 'star_v':
        v = int(rng.integers(nv)); edges = [(u, v) for u in range(nu)]
    elif style == 'perfect_noise':
        k = min(nu, nv)
        pu, pv = rng.permutation(nu), rng.permutation(nv)
        edges = [(int(pu[i]), int(pv[i])) for i in range(k)]
        M = rng.uniform(size=(nu, nv)) < 2.0 / max(nu, nv)
        edges += [(int(u), int(v)) for u, v in zip(*np.nonzero(M))]
    elif style == 'crown':         # complete bipartite minus a perfect matching
        edges = [(u, v) for u in range(nu) for v in range(nv) if u != v]
    elif style == 'two_level':     # many u's compete for few v's, the rest has private partners: forces re-matching
        k = max(1, min(nu, nv) // 3)
        edges = [(u, v) for u in range(nu) for v in range(k)]
        edges += [(u, k + u) for u in range(nu) if k + u < nv]
    elif style == 'single':
        edges = [(int(rng.integers(nu)), int(rng.integers(nv)))]
    else:
        raise ValueError(style)
    return nu, nv, edges


def messy(rng, edges):
    """shuffled edge list with duplicates"""
    if not edges:
        return []
    idx = rng.permutation(len(edges))
    out = [edges[i] for i in idx]
    dup = rng.integers(0, len(edges), max(1, len(edges) // 2))
    out += [edges[i] for i in dup]
    return [out[i] for i in rng.permutation(len(out))]


def check_reuse(rng, count, fail):
    """history clause: a solver object that is called again (after its graph was replaced or edited) still returns a
    maximum matching of the graph it now refers to -- every call starts from an empty matching"""
    for r in range(count):
        nu, nv = int(rng.integers(1, 6)), int(rng.integers(1, 6))
        def rnd():
            return [(u, v) for u in range(nu) for v in range(nv) if rng.random() < 0.45]
        e1, e2 = rnd(), rnd()
        G1 = bg.BipartiteGraph(nu, nv, e1)
        hk = bg.HopcroftKarp(G1)
        try:
            hk()
            if r % 2 == 0:
                hk.graph = bg.BipartiteGraph(nu, nv, e2)
                edges = e2
            else:
                # remove an edge from the adjacency lists of the graph in place
                edges = list(e1)
                if edges:
                    u, v = edges.pop(int(rng.integers(len(edges))))
                    G1.adj_u[u].remove(v); G1.adj_v[v].remove(u)
            m = hk()
        except Exception as e:
            if type(e).__name__ == 'CaseTimeout':
                raise
            fail('returns', 'HopcroftKarp.reuse', f'second call raised {type(e).__name__}: {e}')
            continue
        adj = [[] for _ in range(nu)]
        for (u, v) in dict.fromkeys(edges):
            adj[u].append(v)
        opt = kuhn_max_matching(nu, nv, adj)
        pairs = [(int(u), int(v)) for (u, v) in m]
        if any(p not in set(edges) for p in pairs):
            fail('matching_edges', 'HopcroftKarp.reuse', f'{nu}x{nv}: second call on a changed graph returned the non-edge(s) {[p for p in pairs if p not in set(edges)]}; first graph {e1}, now {edges}')
        elif len({u for u, _ in pairs}) != len(pairs) or len({v for _, v in pairs}) != len(pairs):
            fail('matching_disjoint', 'HopcroftKarp.reuse', f'{nu}x{nv}: matching {pairs} shares a vertex')
        elif len(pairs) != opt:
            fail('matching_maximum', 'HopcroftKarp.reuse', f'{nu}x{nv}: second call returned size {len(pairs)}, maximum is {opt}; first graph {e1}, now {edges}')


def run_case(c):
    rng = np.random.default_rng(c['seed'])
    fails = []

    def fail(clause, fn, detail):
        if len(fails) < 6:
            fails.append(dict(clause=clause, detail=detail, signature=f'{fn}:{clause}'))
    if c['kind'] == 'lattice':
        import signal
        nu, nv, edges = lattice_graph(c['k'], c['w'], c['nr'])
        adj = [[] for _ in range(nu)]
        for (u, v) in edges:
            adj[u].append(v)
        opt = kuhn_max_matching(nu, nv, adj)
        signal.alarm(LATTICE_LIMIT)          # tighter than the runner's per-case limit: exceeding it is reported as `terminates`
        try:
            check_graph(nu, nv, edges, opt, fail, f'lattice k={c["k"]} w={c["w"]} roots={c["nr"]} ({nu}x{nv})')
        finally:
            signal.alarm(0)
        return dict(failures=fails, nontrivial=True, key=json.dumps(c, sort_keys=True))
    if c['kind'] == 'paths':
        nu, nv, edges = path_union(c['m'])
        check_graph(nu, nv, edges, nu, fail, f'union of paths of lengths 3..{2 * c["m"] + 1} ({nu}x{nv})')
        # the same graph with NumPy integers as vertex indices (edge lists taken from np.argwhere / np.nonzero are common)
        e2 = [(np.int64(u), np.int64(v)) for (u, v) in edges]
        check_graph(nu, nv, e2, nu, fail, f'union of paths of lengths 3..{2 * c["m"] + 1} ({nu}x{nv}), NumPy integer indices')
        return dict(failures=fails, nontrivial=True, key=json.dumps(c, sort_keys=True))
    if c['kind'] == 'reuse':
        check_reuse(rng, c['count'], fail)
        return dict(failures=fails, nontrivial=True, key=json.dumps(c, sort_keys=True))
    if c['kind'] == 'enum':
        nu, nv = c['nu'], c['nv']
        allp = [(u, v) for u in range(nu) for v in range(nv)]
        for mask in range(c['lo'], c['hi'], c['stride']):
            edges = [allp[i] for i in range(nu * nv) if mask >> i & 1]
            rows = [(mask >> (u * nv)) & ((1 << nv) - 1) for u in range(nu)]
            opt = brute_max_matching(rows)
            check_graph(nu, nv, edges, opt, fail, f'{nu}x{nv} edges={edges}')
            if edges:
                e2 = messy(rng, edges)
                check_graph(nu, nv, e2, opt, fail, f'{nu}x{nv} edges(with duplicates)={e2}')
        nontrivial = (nu, nv) != (1, 1)
    else:
        for r in range(c['count']):
            nu, nv, edges = rand_graph(rng, c['style'], c['p'], c['size'])
            if rng.integers(2):
                edges = messy(rng, edges)
            adj = [[] for _ in range(nu)]
            for (u, v) in dict.fromkeys(edges):
                adj[u].append(v)
            opt = kuhn_max_matching(nu, nv, adj)
            tag = f'r={r} {nu}x{nv} {c["style"]} p={c["p"]} |E|={len(set(edges))}' + (f' edges={edges}' if len(edges) <= 40 else '')
            check_graph(nu, nv, edges, opt, fail, tag)
        nontrivial = True
    return dict(failures=fails, nontrivial=nontrivial, key=json.dumps(c, sort_keys=True))
