"""C11 bounded stand-in: bond_ops.qr is an exact, isometric, charge-respecting factorization."""
import json
import os
for _v in ('OMP_NUM_THREADS', 'OPENBLAS_NUM_THREADS', 'MKL_NUM_THREADS'):     # tiny matrices, 14 worker processes:
    os.environ.setdefault(_v, '1')                                            # threaded BLAS only causes contention
import numpy as np
from pytenet import bond_ops
from . import oracle
from . import h_C11 as h

RULE = ('kind=enum: every charge-vector pair over {-1,0,1}^m x {-1,0,1}^n (index range [lo,hi) step stride of the base-3 '
        'code; this enumerates every sparsity pattern) x entry kind (real, complex, int, rank-deficient blocks) x '
        'affine relabelling q -> 100003*q-7; kind=rand: seeded shapes up to 24x24 with 9 charge styles; every evaluated '
        '(shape, q0, q1, entries) instance is distinct; non-trivial unless the matrix is 1x1')
BOUNDS = {'quick': 'exhaustive: all charge vectors for m,n<=3; additionally a 1/7 subsample for shapes with a side of 4; random shapes <=24x24',
          'thorough': 'all charge vectors for m,n<=5; random shapes <=24x24'}
EXHAUSTIVE = {'quick': True, 'thorough': True}     # quick: the space m,n<=3 is enumerated completely

ENTRIES = ('real', 'complex', 'int', 'rankdef', 'rankdef_real')
MAXFAIL = 5


def cases(tier, seed):
    rng = np.random.default_rng(seed)
    N = 4 if tier == 'quick' else 5
    for m in range(1, N + 1):
        for n in range(1, N + 1):
            total = 3 ** (m + n)
            stride, off = 1, 0
            if tier == 'quick' and max(m, n) == 4:
                stride, off = 7, seed % 7
            for ent in ENTRIES:
                for rel in (False, True):
                    if rel and ent in ('int', 'rankdef_real'):
                        continue
                    for lo, hi in h.chunks(total, 2187 * stride):
                        yield dict(kind='enum', m=m, n=n, lo=lo + off, hi=hi, stride=stride, entries=ent, relabel=rel,
                                   seed=int(rng.integers(1 << 31)))
    nrand = 40 if tier == 'quick' else 400
    for style in h.QSTYLES:
        for ent in ENTRIES:
            for r in range(nrand // 10):
                yield dict(kind='rand', style=style, entries=ent, count=10, seed=int(rng.integers(1 << 31)))


def check_qr(A, q0, q1, fail, tag):
    """all clauses of C11 for one call"""
    m, n = A.shape
    snap = oracle.snapshot([A, q0, q1])
    try:
        Q, R, qi = bond_ops.qr(A, q0, q1)
    except Exception as e:
        if type(e).__name__ == 'CaseTimeout':      # the runner's wall-clock alarm must reach the runner
            raise
        fail('returns', f'{tag}: qr raised {type(e).__name__}: {e}')
        return
    if oracle.snapshot([A, q0, q1]) != snap:
        fail('args_unchanged', f'{tag}: an argument was modified')
    if not (isinstance(Q, np.ndarray) and isinstance(R, np.ndarray) and Q.ndim == 2 and R.ndim == 2
            and Q.shape[0] == m and R.shape[1] == n):
        fail('shapes', f'{tag}: Q {getattr(Q, "shape", None)}, R {getattr(R, "shape", None)} for A {A.shape}')
        return
    D = Q.shape[1]
    if not (len(qi) == D == R.shape[0]):
        fail('interm_len', f'{tag}: len(qinterm)={len(qi)}, Q.shape[1]={D}, R.shape[0]={R.shape[0]}')
        return
    nA = float(np.linalg.norm(A))
    if not oracle.close(Q @ R, A, scale=nA, tol=1e-9):            # relative to |A|: the factorization is scale invariant
        fail('product', f'{tag}: |QR-A| = {np.linalg.norm(Q @ R - A)}, |A| = {nA}')
    if not oracle.close(Q.conj().T @ Q, np.identity(D), scale=1.0, tol=1e-9):
        fail('isometry', f'{tag}: |Q^H Q - I| = {np.linalg.norm(Q.conj().T @ Q - np.identity(D))}')
    qi = np.asarray(qi)
    if qi.dtype.kind not in 'iu':
        fail('interm_integer', f'{tag}: qinterm dtype {qi.dtype}')
        return
    if not oracle.qsparse(Q, [q0, -qi]):
        fail('Q_sparse', f'{tag}: Q not block sparse under (q0, -qinterm), qinterm={qi.tolist()}')
    if not oracle.qsparse(R, [qi, -q1]):
        fail('R_sparse', f'{tag}: R not block sparse under (qinterm, -q1), qinterm={qi.tolist()}')
    shared = len(np.intersect1d(q0, q1)) > 0
    if shared:
        if D > min(m, n):
            fail('interm_bound', f'{tag}: intermediate dimension {D} > min{(m, n)}')
    else:
        if D != 1:
            fail('dummy_dim', f'{tag}: no shared charge but intermediate dimension {D} != 1')


def run_case(c):
    rng = np.random.default_rng(c['seed'])
    fails = []

    def fail(clause, detail):
        if len(fails) < MAXFAIL:
            fails.append(dict(clause=clause, detail=detail, signature=f'qr:{clause}:{c["entries"]}'))
    nontrivial = True
    if c['kind'] == 'enum':
        m, n = c['m'], c['n']
        nontrivial = (m, n) != (1, 1)
        for k in range(c['lo'], c['hi'], c['stride']):
            q0, q1 = h.decode_charges(k, m, n)
            if c['relabel']:
                q0, q1 = h.relabel(q0), h.relabel(q1)
            A = h.masked_matrix(rng, q0, q1, c['entries'])
            check_qr(A, q0, q1, fail, f'k={k} q0={q0.tolist()} q1={q1.tolist()}')
    else:
        for r in range(c['count']):
            m, n = int(rng.integers(1, 25)), int(rng.integers(1, 25))
            q0, q1 = h.rand_charges(rng, m, n, c['style'])
            if r % 7 == 3:
                # three labels -c, 0, +c in the cyclic order 0, +c, -c (every descent is a step of 2c, every ascent a step of c)
                o0, o1 = int(rng.integers(3)), int(rng.integers(3))
                q0 = np.array([(0, 1, -1)[(i + o0) % 3] for i in range(m)]); q1 = np.array([(0, 1, -1)[(i + o1) % 3] for i in range(n)])
                # labels of both signs close to the ends of the integer range (differences of neighbouring labels overflow), also as 32-bit arrays
                if (r // 7) % 2:
                    q0 = (np.asarray(q0, dtype=np.int64) * 5 * 10 ** 18).astype(np.int64); q1 = (np.asarray(q1, dtype=np.int64) * 5 * 10 ** 18).astype(np.int64)
                else:
                    q0 = (np.asarray(q0, dtype=np.int64) * 2 * 10 ** 9).astype(np.int32); q1 = (np.asarray(q1, dtype=np.int64) * 2 * 10 ** 9).astype(np.int32)
            if r % 7 == 5:
                # charges are 64-bit integers: labels beyond 2^53 (not representable as doubles) are as good as small ones
                off = (2 ** 53 + 1, -(2 ** 53) - 3, 2 ** 62 - 7)[r % 3]
                q0 = np.asarray(q0, dtype=np.int64) + np.int64(off); q1 = np.asarray(q1, dtype=np.int64) + np.int64(off)
            A = h.masked_matrix(rng, q0, q1, c['entries'])
            tag = f'r={r} shape={(m, n)} q0={q0.tolist()} q1={q1.tolist()}'
            if A.dtype.kind in 'iu':
                # integer matrices of every width (and booleans): the factors must be double precision
                dt = (np.int64, np.int32, np.int16, np.int8, np.bool_)[r % 5]
                A = (A != 0) if dt is np.bool_ else A.astype(dt)
                tag += f' dtype={np.dtype(dt).name}'
            if A.dtype.kind in 'fc' and r % 3 == 2:
                # "for every matrix": the same matrix at a very small / very large overall scale, or with one block scaled
                f = float(10.0 ** rng.choice([-18, -12, -6, 6, 12]))
                if r % 2 and m > 1:
                    A = A.copy(); A[q0 == q0[int(rng.integers(m))], :] *= f
                else:
                    A = A * f
                tag += f' scaled by {f:g}'
            check_qr(A, q0, q1, fail, tag)
    return dict(failures=fails, nontrivial=nontrivial, key=json.dumps(c, sort_keys=True))
