"""C03 bounded stand-in: MPS/MPO arithmetic agrees with dense linear algebra (independent einsum / Kronecker oracles)."""
import json
import numpy as np
import pytenet as ptn
from . import oracle
from . import h_C02 as H

RULE = ('enumerated (kind, variant, L, d, charge style, entry kind) x seeded random sector-consistent operands with independent '
        'bond profiles and matching (also non-zero) boundary charges; a case is non-trivial unless all charges are zero and all '
        'bonds are 1; distinct = distinct descriptor')
BOUNDS = {'quick': 'L<=4, d<=3, D<=4', 'thorough': 'L<=5, d<=3, D<=4 (products up to 16)'}
EXHAUSTIVE = {'quick': False, 'thorough': False}

KINDS = {
    'add_mps': ('+', '-', 'alpha_real', 'alpha_complex', 'alpha_zero'),
    'add_mpo': ('+', '-', 'alpha_complex'),
    'mul_mpo': ('@',),
    'apply': ('apply',),
    'identity': ('one', 'scale', 'complex_scale'),
    'sparse': ('random', 'product'),
    'dense': ('mps', 'mpo'),
    'from_vector': ('complex', 'real', 'lowrank', 'int', 'basis'),
    'split_merge': ('left', 'right', 'sqrt'),
    'chain': ('(A+B)@C psi', 'A@(B-C) psi', 'A(psi+chi)', 'A@B-B@A', '(A-B)(psi-chi)', 'A@B@C'),
}


def cases(tier, seed):
    rng = np.random.default_rng(seed)
    quick = tier == 'quick'
    Ls = (1, 2, 3, 4) if quick else (1, 2, 3, 4, 5)
    reps = 1 if quick else 4
    for kind, variants in KINDS.items():
        for var in variants:
            for L in Ls:
                for d in (1, 2, 3):
                    for qs in H.QDSTYLES:
                        if d == 1 and qs not in ('zero', 'u1'):
                            continue
                        if kind in ('identity',) and qs not in ('zero', 'u1', 'pair'):
                            continue
                        if kind == 'from_vector' and qs != 'zero':
                            continue
                        for entries in ('complex', 'real', 'mixed'):
                            if kind in ('identity', 'from_vector') and entries != 'complex':
                                continue
                            if quick and kind == 'chain' and (qs in ('boson', 'large') or d == 1):
                                continue
                            for r in range(reps * (4 if kind == 'from_vector' else 1)):
                                yield dict(kind=kind, var=var, L=L, d=d, qstyle=qs, entries=entries, Dmax=4,
                                           seed=int(rng.integers(1 << 31)))
    # degenerate input of the vector constructor: the zero vector (its own signature)
    for L in (1, 2, 3):
        for d in (2, 3):
            yield dict(kind='from_vector', var='zero', L=L, d=d, qstyle='zero', entries='complex', Dmax=4, seed=int(rng.integers(1 << 31)))


def _nrm(x):
    return float(np.linalg.norm(np.asarray(x).ravel()))


BSTYLES = ('random', 'random', 'random', 'random', 'random', 'max', 'max', 'one')


class _Case:
    def __init__(self, c):
        self.c = c
        self.rng = np.random.default_rng(c['seed'])
        self.fails = []
        self.qd = H.make_qd(self.rng, c['d'], c['qstyle'])
        self.L = c['L']

    def fail(self, fn, clause, detail, qual=''):
        self.fails.append(dict(clause=clause, detail=f'{self.c["kind"]}/{self.c["var"]} L={self.L} qd={self.qd}: {detail}',
                               signature=f'{fn}:{clause}' + (f':{qual}' if qual else '')))

    def call(self, fn_name, fn, *a, **k):
        try:
            return True, fn(*a, **k)
        except Exception as e:        # noqa: BLE001 - exception of the code under test
            self.fail(fn_name, 'returns', f'raised {type(e).__name__}: {e}')
            return False, None

    def _dmax(self, Dmax=None):
        # mostly bonds > 1 (bond dimension 1 everywhere hides index-order slips), sometimes the degenerate profile
        Dmax = Dmax or self.c['Dmax']
        return 1 if self.rng.random() < 0.1 else int(self.rng.integers(2, Dmax + 1))

    def _entries(self):
        # 'mixed': every operand gets its own entry kind (real first operand with complex second, integers, ...)
        e = self.c['entries']
        if e != 'mixed':
            return e
        self._nobj = getattr(self, '_nobj', 0) + 1
        return ('real', 'complex', 'int', 'sites', 'complex', 'real', 'sites')[(self.c['seed'] + self._nobj) % 7]

    def mps(self, q0, q1, order=None):
        rng = self.rng
        return H.rand_mps(rng, self.qd, self.L, self._dmax(), q0, q1, self._entries(),
                          bstyle=BSTYLES[int(rng.integers(len(BSTYLES)))],
                          order=order or ('random', 'sorted', 'reverse')[int(rng.integers(3))])

    def mpo(self, q0, q1, order=None, Dmax=None):
        rng = self.rng
        return H.rand_mpo(rng, self.qd, self.L, self._dmax(Dmax), q0, q1, self._entries(),
                          bstyle=BSTYLES[int(rng.integers(len(BSTYLES)))],
                          order=order or ('random', 'sorted', 'reverse')[int(rng.integers(3))])

    def sector(self, mpo=False):
        return H.pick_sector(self.rng, self.qd, self.L, mpo=mpo)

    def cmp(self, fn, clause, got, ref, scale, what, rel=False):
        if not oracle.close(got, ref, scale=(scale if rel and scale > 0 else max(1.0, scale)), tol=1e-9):
            got = np.asarray(got); ref = np.asarray(ref)
            dev = _nrm(got - ref) if got.shape == ref.shape else f'shape {got.shape} vs {ref.shape}'
            self.fail(fn, clause, f'{what}: deviation {dev} (scale {scale:.3g})')
            return False
        return True

    def vec_of(self, fn, x, ref, scale, what):
        """dense form of a result through the independent contraction and through as_vector()"""
        ok = self.cmp(fn, 'dense', oracle.mps_dense(x.A), ref, scale, what)
        good, v = self.call('MPS.as_vector', x.as_vector)
        if good and ok:
            self.cmp('MPS.as_vector', 'dense', v, ref, scale, what + ' via as_vector()')

    def mat_of(self, fn, x, ref, scale, what):
        ok = self.cmp(fn, 'dense', oracle.mpo_dense(x.A), ref, scale, what)
        good, m = self.call('MPO.as_matrix', x.as_matrix)
        if good and ok:
            self.cmp('MPO.as_matrix', 'dense', m, ref, scale, what + ' via as_matrix()')


def _scramble(r):
    """overwrite a *result* object in place (tensors and quantum numbers): the operands must not notice"""
    try:
        for T in r.A:
            T *= 0
        r.zero_qnumbers()
    except Exception:       # noqa: BLE001 - best effort, the result object may be malformed already
        pass


def _alpha(rng, var):
    if var == '+':
        return 1
    if var == '-':
        return -1
    if var == 'alpha_real':
        return float(rng.normal()) * 2
    if var == 'alpha_zero':
        return 0.0
    return complex(rng.normal(), rng.normal())


def run_case(c):
    k = _Case(c)
    rng, L, var = k.rng, k.L, c['var']
    objs = []
    kind = c['kind']
    if kind == 'add_mps':
        q0, q1 = k.sector()
        a, b = k.mps(q0, q1), k.mps(q0, q1)
        if c['seed'] % 6 == 0:
            b = a                      # the same object as both operands
        objs = [a, b]
        da, db = oracle.mps_dense(a.A), oracle.mps_dense(b.A)
        al = _alpha(rng, var)
        if var == '+':
            good, r = k.call('add_mps', lambda: a + b)
        elif var == '-':
            good, r = k.call('add_mps', lambda: a - b)
        else:
            good, r = k.call('add_mps', ptn.mps.add_mps, a, b, al)
        if good:
            k.vec_of('add_mps', r, da + al * db, _nrm(da) + abs(al) * _nrm(db), f'a + ({al})*b' + (' [L==1 branch]' if L == 1 else ''))
            # history: overwrite the result in place, then use the operands again
            _scramble(r)
            good, r = k.call('add_mps', ptn.mps.add_mps, b, a, al)
            if good:
                k.vec_of('add_mps', r, db + al * da, _nrm(db) + abs(al) * _nrm(da), f'b + ({al})*a after the first sum was overwritten in place')
    elif kind == 'add_mpo':
        q0, q1 = k.sector(True)
        a, b = k.mpo(q0, q1), k.mpo(q0, q1)
        if c['seed'] % 6 == 0:
            b = a                      # the same object as both operands
        objs = [a, b]
        da, db = oracle.mpo_dense(a.A), oracle.mpo_dense(b.A)
        al = _alpha(rng, var)
        if var == '+':
            good, r = k.call('add_mpo', lambda: a + b)
        elif var == '-':
            good, r = k.call('add_mpo', lambda: a - b)
        else:
            good, r = k.call('add_mpo', ptn.mpo.add_mpo, a, b, al)
        if good:
            k.mat_of('add_mpo', r, da + al * db, _nrm(da) + abs(al) * _nrm(db), f'A + ({al})*B')
            _scramble(r)
            good, r = k.call('add_mpo', ptn.mpo.add_mpo, b, a, al)
            if good:
                k.mat_of('add_mpo', r, db + al * da, _nrm(db) + abs(al) * _nrm(da), f'B + ({al})*A after the first sum was overwritten in place')
    elif kind == 'mul_mpo':
        a, b = k.mpo(*k.sector(True)), k.mpo(*k.sector(True))
        if c['seed'] % 6 == 0:
            q = k.sector(True)
            if q[0] == q[1]:
                a = k.mpo(*q); b = a   # A @ A with the same object (boundary charges must agree)
        objs = [a, b]
        da, db = oracle.mpo_dense(a.A), oracle.mpo_dense(b.A)
        good, r = k.call('multiply_mpo', lambda: a @ b)
        if good:
            k.mat_of('multiply_mpo', r, da @ db, _nrm(da) * _nrm(db), 'A @ B')
            _scramble(r)
            good, r = k.call('multiply_mpo', lambda: a @ b)
            if good:
                k.mat_of('multiply_mpo', r, da @ db, _nrm(da) * _nrm(db), 'A @ B after the first product was overwritten in place')
    elif kind == 'apply':
        a, s = k.mpo(*k.sector(True)), k.mps(*k.sector())
        objs = [a, s]
        da, ds = oracle.mpo_dense(a.A), oracle.mps_dense(s.A)
        good, r = k.call('apply_operator', ptn.apply_operator, a, s)
        if good:
            k.vec_of('apply_operator', r, da @ ds, _nrm(da) * _nrm(ds), 'A psi')
            _scramble(r)
            good, r = k.call('apply_operator', ptn.apply_operator, a, s)
            if good:
                k.vec_of('apply_operator', r, da @ ds, _nrm(da) * _nrm(ds), 'A psi after the first result was overwritten in place')
    elif kind == 'identity':
        scale = {'one': 1, 'scale': float(rng.uniform(0.3, 2.0)) * (-1 if rng.random() < 0.3 else 1),
                 'complex_scale': complex(rng.normal(), rng.normal())}[var]
        dtype = float if (var != 'complex_scale' and rng.random() < 0.5) else complex
        # every combination of the two options is admissible: a scale that does not fit the requested dtype promotes the tensors
        combo = int(rng.integers(6))
        if combo == 0:
            dtype = float                                   # complex or real scale, float dtype
        elif combo == 1:
            dtype = int                                     # (possibly fractional or complex) scale, integer dtype
        elif combo == 2 and var != 'complex_scale':
            dtype = int; scale = int(rng.integers(-3, 4)) or 2
        if var == 'one' and rng.random() < 0.5:
            scale = 1
            good, r = k.call('MPO.identity', ptn.MPO.identity, k.qd, L)
        else:
            good, r = k.call('MPO.identity', ptn.MPO.identity, k.qd, L, scale=scale, dtype=dtype)
        if good:
            objs = [r]
            n = c['d'] ** L
            k.mat_of('MPO.identity', r, scale ** L * np.identity(n), abs(scale) ** L * np.sqrt(n), f'identity(scale={scale}) vs scale^L * I')
            bad = oracle.wf_mpo(r)
            if bad:
                k.fail('MPO.identity', 'wf', '; '.join(bad))
    elif kind == 'sparse':
        if var == 'random':
            a = k.mpo(*k.sector(True))
        else:
            ok1, ab = k.call('multiply_mpo', lambda: k.mpo(*k.sector(True), Dmax=3) @ k.mpo(*k.sector(True), Dmax=3))
            if not ok1:
                return dict(failures=k.fails, nontrivial=True, key=json.dumps(c, sort_keys=True))
            a = ab
        if c['seed'] % 4 == 1 and all(np.issubdtype(T.dtype, np.inexact) for T in a.A) and len(a.A) >= 1:
            # the same operator with a badly balanced gauge (tiny first tensor, huge last one), or of tiny overall magnitude: partial
            # products far below machine epsilon are ordinary numbers, not noise
            if len(a.A) >= 2 and (c['seed'] // 4) % 2:
                a.A[0] = a.A[0] * 1e-25; a.A[-1] = a.A[-1] * 1e25
            else:
                a.A[0] = a.A[0] * 1e-30
        objs = [a]
        ref = oracle.mpo_dense(a.A)
        good, sp = k.call('MPO.as_matrix', a.as_matrix, sparse_format=True)
        good2, de = k.call('MPO.as_matrix', a.as_matrix)
        if good and good2:
            try:
                spd = sp.toarray()
            except AttributeError:
                spd = np.asarray(sp)
            k.cmp('MPO.as_matrix', 'sparse_equals_dense', spd, de, _nrm(ref), 'as_matrix(sparse_format=True) vs as_matrix()', rel=True)
            k.cmp('MPO.as_matrix', 'dense', de, ref, _nrm(ref), 'as_matrix() vs independent contraction', rel=True)
            k.cmp('MPO.as_matrix', 'sparse', spd, ref, _nrm(ref), 'as_matrix(sparse_format=True) vs independent contraction', rel=True)
        bad = oracle.wf_mpo(a)
        if bad:
            k.fail('MPO.as_matrix', 'args_unchanged', 'the MPO is malformed after the sparse / dense conversions: ' + '; '.join(bad))
    elif kind == 'dense':
        if var == 'mps':
            s = k.mps(*k.sector())
            objs = [s]
            ref = oracle.mps_dense(s.A)
            good, v = k.call('MPS.as_vector', s.as_vector)
            if good:
                k.cmp('MPS.as_vector', 'dense', v, ref, _nrm(ref), 'as_vector()')
                bad = oracle.wf_mps(s)
                if bad:
                    k.fail('MPS.as_vector', 'args_unchanged', 'the MPS is malformed after as_vector(): ' + '; '.join(bad))
        else:
            a = k.mpo(*k.sector(True))
            objs = [a]
            ref = oracle.mpo_dense(a.A)             # before the call: the call must not change its operand either
            good, m = k.call('MPO.as_matrix', a.as_matrix)
            if good:
                k.cmp('MPO.as_matrix', 'dense', m, ref, _nrm(ref), 'as_matrix()')
                bad = oracle.wf_mpo(a)
                if bad:
                    k.fail('MPO.as_matrix', 'args_unchanged', 'the MPO is malformed after as_matrix(): ' + '; '.join(bad))
                else:
                    good2, m2 = k.call('MPO.as_matrix', a.as_matrix)
                    if good2:
                        k.cmp('MPO.as_matrix', 'dense', m2, ref, _nrm(ref), 'second as_matrix() on the same object')
    elif kind == 'from_vector':
        d = c['d']
        n = d ** L
        if var == 'complex':
            v = rng.normal(size=n) + 1j * rng.normal(size=n)
        elif var == 'real':
            v = rng.normal(size=n)
        elif var == 'int':
            v = rng.integers(-3, 4, size=n)
            if not np.any(v):
                v[0] = 1
        elif var == 'zero':
            v = np.zeros(n)
        elif var == 'basis':
            v = np.zeros(n, dtype=complex if rng.random() < 0.5 else float)
            v[int(rng.integers(n))] = float(rng.choice([1.0, -2.0, 0.5]))
        else:
            v = np.ones(1)
            for _ in range(L):
                v = np.kron(v, rng.normal(size=d) + 1j * rng.normal(size=d))
            w = np.ones(1)
            for _ in range(L):
                w = np.kron(w, rng.normal(size=d))
            v = v + (w if rng.random() < 0.5 else 0)
        v0 = np.array(v, copy=True)
        if var == 'zero':
            try:
                r = ptn.MPS.from_vector(d, L, v, 0)
                got = oracle.mps_dense(r.A)
                if not oracle.close(got, v0):
                    k.fails.append(dict(clause='reproduces', detail=f'from_vector({d},{L},zeros,0) does not give the zero vector', signature='MPS.from_vector:reproduces:zero_vector'))
            except Exception as e:    # noqa: BLE001
                k.fails.append(dict(clause='returns', detail=f'MPS.from_vector({d}, {L}, np.zeros({n}), 0) raised {type(e).__name__}: {e}',
                                    signature='MPS.from_vector:returns:zero_vector'))
            return dict(failures=k.fails, nontrivial=True, key=json.dumps(c, sort_keys=True))
        good, r = k.call('MPS.from_vector', ptn.MPS.from_vector, d, L, v if rng.random() < 0.7 else v.tolist(), 0)
        if good:
            k.cmp('MPS.from_vector', 'reproduces', oracle.mps_dense(r.A), v0, _nrm(v0), 'dense(from_vector(d,n,v,0)) vs v')
            good2, w = k.call('MPS.as_vector', r.as_vector)
            if good2:
                k.cmp('MPS.from_vector', 'reproduces', w, v0, _nrm(v0), 'from_vector(d,n,v,0).as_vector() vs v')
            # the result is a well-formed MPS that the arithmetic accepts (rank-deficient vectors: product / basis states truncate bonds)
            bad = oracle.wf_mps(r)
            if bad:
                k.fail('MPS.from_vector', 'wf', '; '.join(bad))
            else:
                good3, s2 = k.call('add_mps', lambda: r + r)
                if good3:
                    k.vec_of('add_mps', s2, 2 * np.asarray(v0), 2 * _nrm(v0), 'from_vector(v) + from_vector(v)')
        return dict(failures=k.fails, nontrivial=bool(L > 1 or d > 1), key=json.dumps(c, sort_keys=True))
    elif kind == 'split_merge':
        # a two-site tensor with physical charges qd0 x qd1 and outer bond charges drawn around a common total
        d0 = c['d']
        d1 = int(rng.integers(1, 4))
        qd0 = k.qd
        qd1 = H.make_qd(rng, d1, c['qstyle'] if c['qstyle'] != 'pair' or d1 <= 4 else 'u1')
        D0, D2 = int(rng.integers(1, 5)), int(rng.integers(1, 5))
        base = int(rng.integers(-1, 2))
        qD0 = [base + int(rng.choice([0, 0, 1, -1])) * (1 if c['qstyle'] != 'large' else 100003) for _ in range(D0)]
        tot = [a + b + q for a in qd0 for b in qd1 for q in qD0]
        qD2 = [int(rng.choice(tot)) for _ in range(D2)] if c['qstyle'] != 'zero' else [0] * D2
        if c['qstyle'] == 'zero':
            qD0 = [0] * D0
        if rng.random() < 0.08:
            qD2 = [max(tot) + 5 + j for j in range(D2)]      # empty sector: zero tensor
        qm = np.add.outer(np.asarray(qd0), np.asarray(qd1)).reshape(-1)
        A = rng.normal(size=(d0 * d1, D0, D2)) + (1j * rng.normal(size=(d0 * d1, D0, D2)) if c['entries'] == 'complex' else 0)
        mask = qm[:, None, None] + np.asarray(qD0)[None, :, None] - np.asarray(qD2)[None, None, :]
        A = np.where(mask == 0, A, 0)
        if rng.random() < 0.4 and D0 > 1 and qD0[1] == qD0[0]:
            A[:, 1, :] = A[:, 0, :] * 0.5            # rank deficiency
        A0c = A.copy()
        good, r = k.call('split_mps_tensor', ptn.split_mps_tensor, A, np.array(qd0), np.array(qd1), [np.array(qD0), np.array(qD2)], var, 0)
        if good:
            B0, B1, qb = r
            good2, M = k.call('merge_mps_tensor_pair', ptn.merge_mps_tensor_pair, B0, B1)
            if good2:
                k.cmp('split_mps_tensor', 'merge_undoes_split', M, A0c, _nrm(A0c), f'merge(split(A, distr={var}, tol=0)) vs A, shape {A0c.shape}')
            if len(qb) != B0.shape[2] or B1.shape[1] != B0.shape[2]:
                k.fail('split_mps_tensor', 'bond_len', f'len(qbond)={len(qb)} vs bond dims {B0.shape[2]}, {B1.shape[1]}')
        nt = bool(np.any(A0c)) and (D0 > 1 or D2 > 1 or d0 * d1 > 1)
        return dict(failures=k.fails, nontrivial=nt, key=json.dumps(c, sort_keys=True))
    elif kind == 'chain':
        if var == '(A+B)@C psi':
            qa = k.sector(True)
            A, B, C, s = k.mpo(*qa, Dmax=3), k.mpo(*qa, Dmax=3), k.mpo(*k.sector(True), Dmax=3), k.mps(*k.sector())
            objs = [A, B, C, s]
            dA, dB, dC = (oracle.mpo_dense(x.A) for x in (A, B, C))
            ds = oracle.mps_dense(s.A)
            good, r = k.call('chain', lambda: ptn.apply_operator((A + B) @ C, s))
            if good:
                k.vec_of('chain', r, (dA + dB) @ dC @ ds, (_nrm(dA) + _nrm(dB)) * _nrm(dC) * _nrm(ds), var)
        elif var == 'A@(B-C) psi':
            qb = k.sector(True)
            A, B, C, s = k.mpo(*k.sector(True), Dmax=3), k.mpo(*qb, Dmax=3), k.mpo(*qb, Dmax=3), k.mps(*k.sector())
            objs = [A, B, C, s]
            dA, dB, dC = (oracle.mpo_dense(x.A) for x in (A, B, C))
            ds = oracle.mps_dense(s.A)
            good, r = k.call('chain', lambda: ptn.apply_operator(A @ (B - C), s))
            if good:
                k.vec_of('chain', r, dA @ (dB - dC) @ ds, _nrm(dA) * (_nrm(dB) + _nrm(dC)) * _nrm(ds), var)
        elif var == 'A(psi+chi)':
            qs = k.sector()
            A, s, t = k.mpo(*k.sector(True)), k.mps(*qs), k.mps(*qs)
            objs = [A, s, t]
            dA, ds, dt = oracle.mpo_dense(A.A), oracle.mps_dense(s.A), oracle.mps_dense(t.A)
            good, r = k.call('chain', lambda: ptn.apply_operator(A, s + t))
            if good:
                k.vec_of('chain', r, dA @ (ds + dt), _nrm(dA) * (_nrm(ds) + _nrm(dt)), var)
            good, r = k.call('chain', lambda: ptn.apply_operator(A, s) + ptn.apply_operator(A, t))
            if good:
                k.vec_of('chain', r, dA @ (ds + dt), _nrm(dA) * (_nrm(ds) + _nrm(dt)), 'A psi + A chi')
        elif var == 'A@B-B@A':
            A, B = k.mpo(*k.sector(True), Dmax=3), k.mpo(*k.sector(True), Dmax=3)
            objs = [A, B]
            dA, dB = oracle.mpo_dense(A.A), oracle.mpo_dense(B.A)
            good, r = k.call('chain', lambda: A @ B - B @ A)
            if good:
                k.mat_of('chain', r, dA @ dB - dB @ dA, 2 * _nrm(dA) * _nrm(dB), var)
        elif var == '(A-B)(psi-chi)':
            qa, qs = k.sector(True), k.sector()
            A, B, s, t = k.mpo(*qa, Dmax=3), k.mpo(*qa, Dmax=3), k.mps(*qs), k.mps(*qs)
            objs = [A, B, s, t]
            dA, dB, ds, dt = oracle.mpo_dense(A.A), oracle.mpo_dense(B.A), oracle.mps_dense(s.A), oracle.mps_dense(t.A)
            good, r = k.call('chain', lambda: ptn.apply_operator(A - B, s - t))
            if good:
                k.vec_of('chain', r, (dA - dB) @ (ds - dt), (_nrm(dA) + _nrm(dB)) * (_nrm(ds) + _nrm(dt)), var)
        else:
            A, B, C = k.mpo(*k.sector(True), Dmax=2), k.mpo(*k.sector(True), Dmax=3), k.mpo(*k.sector(True), Dmax=2)
            objs = [A, B, C]
            dA, dB, dC = (oracle.mpo_dense(x.A) for x in (A, B, C))
            good, r = k.call('chain', lambda: (A @ B) @ C)
            good2, r2 = k.call('chain', lambda: A @ (B @ C))
            if good:
                k.mat_of('chain', r, dA @ dB @ dC, _nrm(dA) * _nrm(dB) * _nrm(dC), '(A@B)@C')
            if good2:
                k.mat_of('chain', r2, dA @ dB @ dC, _nrm(dA) * _nrm(dB) * _nrm(dC), 'A@(B@C)')
    else:
        raise ValueError(kind)
    return dict(failures=k.fails, nontrivial=H.nontrivial(*objs) if objs else False, key=json.dumps(c, sort_keys=True))
