"""Contract-directed native search for an input on which a (deductively refuted) contract clause fires.
  python -m vt.runtime.fsearch <module.function> <clause name>     exit 1 + JSON line if found
Also the replay vehicle for such inputs (case kind 'fsearch')."""
import importlib, json, sys, traceback
import numpy as np

def _dims_of(contract):
    from .. import tensor as T
    from ..libt import QV
    env = contract.args()
    names = []
    def visit(v):
        if getattr(v, 'is_symtensor', False):
            for ax in v.axes:
                for i in ax:
                    d = T.tok_dim(i)
                    if isinstance(d, str) and d not in names:
                        names.append(d)
        elif isinstance(v, QV):
            for s, n, d in v.parts:
                if isinstance(d, str) and d not in names:
                    names.append(d)
        elif isinstance(v, (tuple, list)):
            for x in v:
                visit(x)
    for k, v in env.items():
        if not k.startswith('#'):
            visit(v)
    return env, names

def instance(contract, seed):
    """numeric arguments satisfying the contract's shape and block-sparsity preconditions"""
    from .. import tensor as T
    from ..libt import QV
    rng = np.random.default_rng(seed)
    env, names = _dims_of(contract)
    pool = [2, 3, 4, 5, 6, 7]
    rng.shuffle(pool)
    dimvals = {n: int(pool[k % len(pool)]) if seed % 3 else int(rng.integers(1, 5)) for k, n in enumerate(names)}
    charges = {}
    def qvec(q):
        out = np.zeros((), dtype=int)
        for s, n, d in q.parts:
            if n not in charges:
                charges[n] = rng.integers(-1, 2, dimvals[d] if isinstance(d, str) else d)
            out = np.add.outer(out, s * charges[n])
        return out.reshape(-1)
    support = env.get('#support', {})
    def conv(v):
        if getattr(v, 'is_symtensor', False):
            # atomic input tensor (possibly regrouped)
            t = v.terms[0]
            name, _, targs = t.atoms[0]
            toks = [i for ax in targs for i in ax]
            shp = [dimvals[T.tok_dim(i)] if isinstance(T.tok_dim(i), str) else T.tok_dim(i) for i in toks]
            arr = rng.standard_normal(shp) + 1j * rng.standard_normal(shp)
            if name in support:
                for eq in support[name]:
                    tot = np.zeros(shp, dtype=int)
                    for q, pos in eq:
                        qq = qvec(q)
                        sh = [1] * len(shp); sh[pos] = len(qq)
                        tot = tot + qq.reshape(sh)
                    arr = np.where(tot == 0, arr, 0)
            grp = [int(np.prod([dimvals[T.tok_dim(i)] if isinstance(T.tok_dim(i), str) else T.tok_dim(i) for i in ax], dtype=int)) for ax in v.axes]
            return arr.reshape(grp)
        if isinstance(v, QV):
            return qvec(v)
        if isinstance(v, (tuple, list)):
            return [conv(x) for x in v]
        if v == 'tol':
            return 0.0
        return v
    # charges first (so that tensors are masked consistently)
    args = {}
    for k, v in env.items():
        if not k.startswith('#') and (isinstance(v, QV) or (isinstance(v, (tuple, list)) and all(isinstance(x, QV) for x in v))):
            args[k] = conv(v)
    for k, v in env.items():
        if not k.startswith('#') and k not in args:
            args[k] = conv(v)
    return args, dimvals

def find_contract(fn, clause):
    from ..props.common import load_contracts
    from ..contract import REGISTRY
    load_contracts()
    for c in REGISTRY.get(fn, []):
        if clause in c.ensures:
            return c
    return None

def real_function(fn):
    mod, _, name = fn.partition('.')
    m = importlib.import_module('pytenet.' + mod)
    obj = m
    for part in name.split('.'):
        obj = getattr(obj, part)
    return obj

def run_case(desc):
    from . import numclause
    c = find_contract(desc['fn'], desc['clause'])
    if c is None:
        raise RuntimeError(f'no contract for {desc["fn"]}:{desc["clause"]}')
    args, dimvals = instance(c, desc['seed'])
    f = real_function(desc['fn'])
    fails = []
    try:
        import copy
        res = f(**copy.deepcopy(args))
    except Exception as e:
        fails.append(dict(clause=desc['clause'], detail=f'{desc["fn"]} raised {type(e).__name__}: {e} on inputs satisfying the precondition',
                          signature=f'{desc["fn"]}:{desc["clause"]}'))
        return dict(failures=fails, nontrivial=True, key=json.dumps(desc, sort_keys=True))
    cl = c.ensures[desc['clause']]
    ns = numclause.namespace(args, res, dimvals)
    if callable(cl):
        if hasattr(cl, 'numeric'):
            ok = cl.numeric(ns)
        else:
            return dict(failures=[], nontrivial=True, key=json.dumps(desc, sort_keys=True), skipped='clause has no numeric form')
    else:
        ok = bool(eval(cl, ns))
    if not ok:
        fails.append(dict(clause=desc['clause'], detail=f'clause {cl if isinstance(cl, str) else desc["clause"]!r} is false for the real function on a generated input '
                          f'(dims {dimvals})', signature=f'{desc["fn"]}:{desc["clause"]}'))
    return dict(failures=fails, nontrivial=True, key=json.dumps(desc, sort_keys=True))

def main():
    fn, clause = sys.argv[1], sys.argv[2]
    for seed in range(60):
        desc = dict(kind='fsearch', fn=fn, clause=clause, seed=seed)
        try:
            r = run_case(desc)
        except Exception as e:
            print(f'fsearch harness error: {type(e).__name__}: {e}', file=sys.stderr)
            sys.exit(3)
        if r.get('skipped'):
            sys.exit(0)
        if r['failures']:
            print(json.dumps(dict(case=desc, observed=r['failures'][0])))
            sys.exit(1)
    sys.exit(0)

if __name__ == '__main__':
    main()
