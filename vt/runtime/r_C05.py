"""C05 bounded stand-in: operator chains compile to an equivalent operator graph and MPO.

Oracle: free-algebra path polynomial (h_graph.py, exact rational arithmetic on dyadic coefficients) and dense
Kronecker evaluation under seeded random operator maps consistent with the bond charges."""
import json
from . import h_graph as hg            # first: limits BLAS threads before numpy is loaded
import numpy as np
import pytenet as ptn
from pytenet.opgraph import OpGraph
from . import oracle

RULE = ('strata over chain lists on lattices L<=Lmax with <=mmax chains, alphabet {identity 0, 1, 2}, every start site and '
        'chain length, interior bond charges from {0,+1,-1} (leading/trailing 0), coefficients from {1,-1,2,0.5}: '
        '(single) ALL single chains; (same) m copies of one shape with all coefficient tuples; (zeroq) lists of chains with '
        'zero charges; (free) lists of arbitrary chains; (zero) lists with some zero coefficients; strata larger than the '
        'cap are subsampled uniformly without replacement by the run seed; (random) seeded charge-typed lists up to L=8, '
        '12 chains with duplicates / cancelling repeats / shared sub-words / zero coefficients.  The MPO stage runs '
        'whenever every operator id occurs with a single charge (always for zeroq and random).  '
        'non-trivial = not a single all-identity chain; distinct = distinct (L, chain list)')
BOUNDS = {'quick': 'strata L<=3, <=3 chains (cap 1500 per stratum, singles and all L=1 strata complete); random L<=8, <=12 chains (4000); 2500 graphs for the MPO stage',
          'thorough': 'strata L<=4, <=4 chains (cap 10000 per stratum, singles and all L=1 strata complete); random L<=8, <=12 chains (60000); 60000 graphs for the MPO stage'}
EXHAUSTIVE = {'quick': False, 'thorough': False}

OID_ID = 0


def _sample_lists(rng, pool, m, cap):
    """all (ordered) m-lists over the pool, or `cap` of them drawn uniformly without replacement"""
    n = len(pool)
    total = n ** m
    if total <= cap:
        idx = range(total)
    else:
        idx = sorted(int(x) for x in rng.choice(total, size=cap, replace=False))
    for i in idx:
        digits = []
        for _ in range(m):
            digits.append(i % n)
            i //= n
        yield [pool[k] for k in digits]


def cases(tier, seed):
    rng = np.random.default_rng(seed)
    quick = tier == 'quick'
    Lmax, mmax = (3, 3) if quick else (4, 4)
    cap = 1500 if quick else 10000
    nrandom = 4000 if quick else 60000

    nmk = [0]
    def mk(kind, L, chains):
        # every seventh chain case uses an identity id other than 0 (the ids 0 and s are swapped throughout)
        nmk[0] += 1
        c = dict(kind=kind, L=L, chains=chains, seed=int(rng.integers(1 << 31)))
        if nmk[0] % 7 == 0:
            c['oid_identity'] = (5, 9, -1)[(nmk[0] // 7) % 3]
        elif nmk[0] % 11 == 0:
            # operator ids are arbitrary integers: negative ones, among them -1 and -2 (equal hash values in CPython)
            c['oid_relabel'] = [[1, -1], [2, -2]] if (nmk[0] // 11) % 2 else [[1, -2], [3, -1], [2, 2 ** 40]]
        return c

    for L in range(1, Lmax + 1):
        shapes = hg.chain_shapes(L)
        shapes0 = [s for s in shapes if not any(s[1])]
        allch = [[o, q, c, s] for (o, q, s) in shapes for c in hg.COEFFS]
        zeroq = [[o, q, c, s] for (o, q, s) in shapes0 for c in hg.COEFFS]
        # (single) every single chain
        for ch in allch:
            yield mk('single', L, [ch])
        for m in range(2, mmax + 1):
            # (same) m copies of the same shape, all coefficient tuples
            tuples = [(sh, cs) for sh in range(len(shapes)) for cs in range(len(hg.COEFFS) ** m)]
            if len(tuples) > cap:
                pick = sorted(int(x) for x in rng.choice(len(tuples), size=cap, replace=False))
                tuples = [tuples[i] for i in pick]
            for sh, cs in tuples:
                o, q, s = shapes[sh]
                chains = []
                for _ in range(m):
                    chains.append([o, q, hg.COEFFS[cs % len(hg.COEFFS)], s])
                    cs //= len(hg.COEFFS)
                yield mk('same', L, chains)
            for chains in _sample_lists(rng, zeroq, m, cap):
                yield mk('zeroq', L, chains)
            for chains in _sample_lists(rng, allch, m, cap):
                yield mk('free', L, chains)
            # (zero) some but not all coefficients zero
            for chains in _sample_lists(rng, zeroq, m, cap // 4):
                chains = [list(c) for c in chains]
                nz = int(rng.integers(1, m))
                for k in rng.choice(m, size=nz, replace=False):
                    chains[int(k)][2] = 0.0
                yield mk('zero', L, chains)
    for r in range(nrandom):
        L = int(rng.integers(1, 9))
        sub = np.random.default_rng(int(rng.integers(1 << 31)))
        chains = hg.rand_chain_list(sub, L, 12 if r % 3 else 4)
        yield mk('random', L, chains)
    # MPO stage on arbitrary consistent graphs (parallel edges, multi-operator edges, arbitrary ids, dangling nodes)
    for r in range(2500 if quick else 60000):
        length = int(rng.integers(1, 5))
        gd = hg.gd_typed(hg.rand_layered_graph(rng, length, 3, dangling=(r % 10 == 0)))
        nmap = {n[0]: int(x) for n, x in zip(gd['nodes'], rng.choice(range(-3, 3 * len(gd['nodes'])), size=len(gd['nodes']), replace=False))}
        emap = {e[0]: int(x) for e, x in zip(gd['edges'], rng.choice(range(-3, 3 * len(gd['edges'])), size=len(gd['edges']), replace=False))}
        yield dict(kind='graph', L=length, graph=hg.gd_relabel(gd, nmap, emap), dangling=(r % 10 == 0), seed=int(rng.integers(1 << 31)))


def check_mpo(fail, qual, graph, gp, L, charges, rng, oid_identity=OID_ID):
    """MPO stage of the property for a consistent graph with path polynomial gp"""
    if L <= 5:
        qd = [0, 1, 2]
    else:
        qd = [0, 1]
    d = len(qd)
    opmap = hg.rand_opmap(rng, qd, charges, oid_identity)
    try:
        mpo = ptn.MPO.from_opgraph(qd, graph, opmap, compute_nid_map=True)
    except Exception as e:
        name, line, where = hg.exc_info(e)
        fail('returns', f'MPO.from_opgraph raised {name} at {where}: {e}', f'MPO.from_opgraph:returns:{name}{qual}')
        return
    ref = hg.poly_dense(gp, opmap, L, d)
    if len(mpo.A) != L:
        fail('mpo_length', f'MPO has {len(mpo.A)} sites, graph length {L}', f'MPO.from_opgraph:mpo_length{qual}')
        return
    got = oracle.mpo_dense(mpo.A)
    if not oracle.close(got, ref, tol=1e-9):
        fail('dense', f'|MPO - [[graph]]| = {np.linalg.norm(got - ref)} (norm {np.linalg.norm(ref)})', f'MPO.from_opgraph:dense{qual}')
    lev = hg.graph_levels(graph)
    widths = {}
    for nid, l in lev.items():
        widths[l] = widths.get(l, 0) + 1
    if len(mpo.qD) != L + 1:
        fail('qD', f'len(qD) = {len(mpo.qD)} != L+1', f'MPO.from_opgraph:qD{qual}')
        return
    nid_map = getattr(mpo, 'nid_map', None)
    if nid_map is None:
        fail('nid_map', 'compute_nid_map=True but no nid_map attribute', f'MPO.from_opgraph:nid_map{qual}')
        return
    seen = set()
    for nid, node in graph.nodes.items():
        if nid not in lev:
            continue
        if nid not in nid_map:
            fail('nid_map', f'node {nid} missing from nid_map', f'MPO.from_opgraph:nid_map{qual}')
            return
        l, i = nid_map[nid]
        if l != lev[nid] or not (0 <= i < len(mpo.qD[l])) or (l, i) in seen:
            fail('nid_map', f'node {nid} mapped to {(l, i)}, level is {lev[nid]}, bond dim {len(mpo.qD[l]) if 0 <= l <= L else "?"}',
                 f'MPO.from_opgraph:nid_map{qual}')
            return
        seen.add((l, i))
        if int(mpo.qD[l][i]) != node.qnum:
            fail('qD', f'qD[{l}][{i}] = {mpo.qD[l][i]} but node {nid} has charge {node.qnum}', f'MPO.from_opgraph:qD{qual}')
            return
    for l in range(L + 1):
        if len(mpo.qD[l]) != widths.get(l, 0):
            fail('qD', f'bond {l} has dimension {len(mpo.qD[l])} but the layer has {widths.get(l, 0)} nodes', f'MPO.from_opgraph:qD{qual}')
            return
    # the node map locates every node at its bond index: the tensor block between two located nodes is the sum of the
    # operator sums of the edges between them
    blocks = {}
    for e in graph.edges.values():
        if e.nids[0] not in lev:
            continue        # edge leaving a node that is unreachable from terminal 0: not part of the MPO
        (l0, i), (l1, j) = nid_map[e.nids[0]], nid_map[e.nids[1]]
        blk = blocks.setdefault((l0, i, j), np.zeros((d, d), dtype=complex))
        for o, c in e.opics:
            blk += c * opmap[o]
    for l in range(L):
        A = mpo.A[l]
        E = np.zeros(A.shape, dtype=complex)
        for (l0, i, j), blk in blocks.items():
            if l0 == l:
                E[:, :, i, j] = blk
        if not oracle.close(A, E, tol=1e-9):
            i, j = np.unravel_index(np.argmax(np.abs(A - E).max(axis=(0, 1))), A.shape[2:])
            fail('nid_map', f'tensor block site {l} bond indices ({i},{j}) is not the operator sum of the edges between the nodes '
                 f'located there by nid_map', f'MPO.from_opgraph:nid_map_block{qual}')
            return


def run_case(c):
    rng = np.random.default_rng(c['seed'])
    L = c['L']
    fails = []

    def fail(clause, detail, signature):
        fails.append(dict(clause=clause, detail=detail, signature=signature))

    if c['kind'] == 'graph':
        gd = c['graph']
        key = json.dumps(['graph', gd])
        qual = ':dangling' if c.get('dangling') else ''
        graph = hg.build_graph(gd)
        ref = hg.gd_poly(gd)                      # polynomial of the descriptor (forward DP over the edge table)
        try:
            gp = hg.graph_poly(graph)             # polynomial of the constructed object (memoised backward traversal)
            ok = hg.p_eq(gp, ref) and graph.is_consistent()
        except hg.Malformed:
            ok = False
        if not ok:
            fail('construct', 'OpGraph built from OpGraphNode/OpGraphEdge/add_connect_edge does not denote its description or is inconsistent',
                 f'OpGraph.add_connect_edge:construct{qual}')
            return dict(failures=fails, nontrivial=True, key=key)
        check_mpo(fail, qual, graph, gp, L, hg.graph_charges(gd), rng, None)
        return dict(failures=fails, nontrivial=len(gd['edges']) >= 2, key=key)

    chains_d = c['chains']
    oid_id = c.get('oid_identity', OID_ID)
    if oid_id != OID_ID:
        sw = {OID_ID: oid_id, oid_id: OID_ID}
        chains_d = [[[sw.get(int(o), int(o)) for o in ch[0]]] + list(ch[1:]) for ch in chains_d]
    if c.get('oid_relabel'):
        rl = {int(a): int(b) for a, b in c['oid_relabel']}
        chains_d = [[[rl.get(int(o), int(o)) for o in ch[0]]] + list(ch[1:]) for ch in chains_d]
    key = json.dumps([L, chains_d, oid_id])
    nontrivial = not (len(chains_d) == 1 and all(o == oid_id for o in chains_d[0][0]))
    assert any(ch[2] != 0 for ch in chains_d)          # generator invariant: precondition of the property
    ref = hg.p_clean(hg.chains_poly(chains_d, L, oid_id))
    qual = '' if ref else ':cancelling'
    chains = hg.build_chains(chains_d)
    try:
        graph = OpGraph.from_opchains(chains, L, oid_id)
    except Exception as e:
        name, line, where = hg.exc_info(e)
        if hg.is_final_coeff_assert(e):
            sig = f'OpGraph.from_opchains:returns:AssertionError-final-coeff{qual}'
        else:
            sig = f'OpGraph.from_opchains:returns:{name}@{where.split(":")[0]}{qual}'
        fail('returns', f'from_opchains raised {name} at {where} ({line.strip()}): {e}; chains={chains_d}, L={L}', sig)
        return dict(failures=fails, nontrivial=nontrivial, key=key)
    try:
        gp = hg.graph_poly(graph)
    except hg.Malformed as e:
        fail('wellformed', f'graph is not a layered graph between its terminals: {e}', f'OpGraph.from_opchains:wellformed{qual}')
        return dict(failures=fails, nontrivial=nontrivial, key=key)
    ok = True
    try:
        if not graph.is_consistent():
            fail('consistent', 'is_consistent() is False', f'OpGraph.from_opchains:consistent{qual}')
            ok = False
        glen = graph.length
    except Exception as e:
        fail('consistent', f'is_consistent()/length raised {type(e).__name__}: {e}', f'OpGraph.from_opchains:consistent{qual}')
        return dict(failures=fails, nontrivial=nontrivial, key=key)
    if glen != L:
        fail('length', f'graph.length = {glen}, requested {L}', f'OpGraph.from_opchains:length{qual}')
        ok = False
    if not hg.p_eq(gp, ref):
        fail('polynomial', f'[[graph]] - [[chains]] = {hg.p_diff(gp, ref)}; chains={chains_d}', f'OpGraph.from_opchains:polynomial{qual}')
    if ok and all(len(w) == L for w in gp):
        charges = hg.chain_charges(chains_d, L, oid_id)
        if charges is not None:
            check_mpo(fail, qual, graph, gp, L, charges, rng, oid_id)
        # the library's own dense meaning of the graph (OpGraph.as_matrix), operators of mixed entry kinds
        if L <= 4:
            try:
                ids = sorted({o for w in gp for o in w} | {o for e in graph.edges.values() for o, _ in e.opics} | {oid_id})
                r_ = np.random.default_rng(c['seed'] % 1000 + 3)
                opm = {o: (np.identity(2) if o == oid_id else (r_.standard_normal((2, 2)) + 1j * r_.standard_normal((2, 2)) if (o + c['seed']) % 2 else r_.standard_normal((2, 2)))) for o in ids}
                refm = hg.poly_dense(gp, opm, L, 2)
                for direction in (1, 0):
                    mm = np.asarray(graph.as_matrix(opm, direction))
                    if mm.shape != refm.shape or not np.allclose(mm, refm, atol=1e-9 * max(1.0, float(np.linalg.norm(refm)))):
                        fail('dense', f'OpGraph.as_matrix(direction={direction}) has shape {mm.shape} / deviates from the symbolic meaning; chains={chains_d}', f'OpGraph.as_matrix:dense{qual}')
                        break
            except Exception as e:
                fail('dense', f'OpGraph.as_matrix raised {type(e).__name__}: {e}; chains={chains_d}', f'OpGraph.as_matrix:returns{qual}')
    if not fails and len(chains_d) >= 2 and c['seed'] % 4 == 0:
        # history: change coefficients on the *same* OpChain objects (switch one term off or on, rescale another) and compile again
        try:
            gp0 = hg.graph_poly(OpGraph.from_opchains(chains, L + 1, oid_id))      # same objects, longer lattice, nothing changed
            ref0 = hg.p_clean(hg.chains_poly(chains_d, L + 1, oid_id))
            if not hg.p_eq(gp0, ref0):
                fail('polynomial', f'same OpChain objects compiled for length {L + 1} after length {L}: [[graph]] - [[chains]] = {hg.p_diff(gp0, ref0)}; chains={chains_d}',
                     'OpGraph.from_opchains:polynomial:recompiled')
        except Exception as e:
            if not hg.is_final_coeff_assert(e):
                fail('returns', f'compilation of the same OpChain objects for length {L + 1} raised {type(e).__name__}: {e}', 'OpGraph.from_opchains:returns:recompiled')
        mod = [list(ch) for ch in chains_d]
        k0, k1 = [int(x) for x in rng.choice(len(mod), size=2, replace=False)]
        mod[k0][2] = 0.0 if mod[k0][2] != 0 else 2.0
        mod[k1][2] = 0.5 if mod[k1][2] != 0.5 else -1.0
        if any(ch[2] != 0 for ch in mod):
            for ch_obj, ch in zip(chains, mod):
                ch_obj.coeff = ch[2]
            ref2 = hg.p_clean(hg.chains_poly(mod, L, oid_id))
            try:
                gp2 = hg.graph_poly(OpGraph.from_opchains(chains, L, oid_id))
                if not hg.p_eq(gp2, ref2):
                    fail('polynomial', f'after changing coefficients on the same OpChain objects: [[graph]] - [[chains]] = {hg.p_diff(gp2, ref2)}; chains={mod}',
                         'OpGraph.from_opchains:polynomial:recompiled')
            except Exception as e:
                if not hg.is_final_coeff_assert(e):
                    fail('returns', f'second compilation of the same OpChain objects raised {type(e).__name__}: {e}; chains={mod}', 'OpGraph.from_opchains:returns:recompiled')
            # ... and once more for a longer lattice
            ref3 = hg.p_clean(hg.chains_poly(mod, L + 1, oid_id))
            try:
                gp3 = hg.graph_poly(OpGraph.from_opchains(chains, L + 1, oid_id))
                if not hg.p_eq(gp3, ref3):
                    fail('polynomial', f'same OpChain objects compiled for length {L + 1} after length {L}: [[graph]] - [[chains]] = {hg.p_diff(gp3, ref3)}; chains={mod}',
                         'OpGraph.from_opchains:polynomial:recompiled')
            except Exception as e:
                if not hg.is_final_coeff_assert(e):
                    fail('returns', f'compilation of the same OpChain objects for length {L + 1} raised {type(e).__name__}: {e}; chains={mod}', 'OpGraph.from_opchains:returns:recompiled')
            # ... and after shifting every chain one site to the right (translation of the same objects)
            shifted = [[ch[0], ch[1], ch[2], ch[3] + 1] for ch in mod]
            for ch_obj in chains:
                ch_obj.istart += 1
            ref4 = hg.p_clean(hg.chains_poly(shifted, L + 1, oid_id))
            try:
                gp4 = hg.graph_poly(OpGraph.from_opchains(chains, L + 1, oid_id))
                if not hg.p_eq(gp4, ref4):
                    fail('polynomial', f'same OpChain objects shifted by one site: [[graph]] - [[chains]] = {hg.p_diff(gp4, ref4)}; chains={shifted}',
                         'OpGraph.from_opchains:polynomial:recompiled')
            except Exception as e:
                if not hg.is_final_coeff_assert(e):
                    fail('returns', f'compilation of the shifted OpChain objects raised {type(e).__name__}: {e}; chains={shifted}', 'OpGraph.from_opchains:returns:recompiled')
    return dict(failures=fails, nontrivial=nontrivial, key=key)
