"""Seeded generators of block-sparse MPS / MPO instances (engine R).  Independent of the repository's
test helpers; objects are created through the public constructors of the working tree."""
import numpy as np
import pytenet as ptn

QSTYLES = ('zero', 'consistent', 'sorted', 'reverse', 'repeated', 'random', 'disjoint', 'large')


def rand_qd(rng, d, style):
    if style == 'zero':
        return [0] * d
    if style == 'large':
        return [int(x) for x in rng.integers(-3, 4, d) * 100003]
    if style in ('sorted',):
        return sorted(int(x) for x in rng.integers(-1, 2, d))
    if style == 'reverse':
        return sorted((int(x) for x in rng.integers(-1, 2, d)), reverse=True)
    return [int(x) for x in rng.integers(-1, 2, d)]


def bond_charges(rng, qd, Ds, style, qleft=0, mpo=False):
    """list of L+1 charge lists with len Ds[i]; 'consistent' draws from the reachable sectors"""
    L = len(Ds) - 1
    out = [[qleft] * Ds[0]]
    if mpo:
        shifts = sorted({a - b for a in qd for b in qd})
    else:
        shifts = sorted(set(qd))
    for i in range(1, L + 1):
        prev = out[-1]
        reach = sorted({p + s for p in prev for s in shifts})
        if style == 'zero':
            q = [0] * Ds[i]
        elif style == 'disjoint' and i == max(1, L // 2):
            q = [max(reach) + 7 + k for k in range(Ds[i])]
        elif style == 'random':
            q = [int(x) for x in rng.integers(-2, 3, Ds[i])]
        elif style == 'repeated':
            c = int(rng.choice(reach)); q = [c] * Ds[i]
        else:
            q = [int(rng.choice(reach)) for _ in range(Ds[i])]
            if style == 'sorted':
                q = sorted(q)
            elif style == 'reverse':
                q = sorted(q, reverse=True)
        out.append(q)
    return out


def rand_mps(rng, L, d, Ds, qstyle='consistent', entries='complex', qd=None):
    qd = rand_qd(rng, d, qstyle) if qd is None else list(qd)
    assert len(Ds) == L + 1 and Ds[0] == 1 and Ds[-1] == 1
    qD = bond_charges(rng, qd, Ds, qstyle)
    if qstyle not in ('zero', 'disjoint', 'random'):
        # make the trailing charge reachable from the last-but-one bond so that the state is generically non-zero
        pass
    psi = ptn.MPS(qd, qD, fill='random', rng=rng)
    kinds = [entries] * L if entries != 'mixed' else [('real', 'complex', 'int')[int(k)] for k in rng.choice(3, size=L, p=[0.45, 0.45, 0.1])]
    for i in range(L):
        entries = kinds[i]
        if entries == 'real':
            psi.A[i] = psi.A[i].real.copy()
        elif entries == 'int':
            psi.A[i] = np.round(4 * psi.A[i].real * np.sqrt(psi.A[i].size)).astype(int)
    return psi


def rand_mpo(rng, L, d, Ds, qstyle='consistent', entries='complex', qd=None, hermitian=False):
    qd = rand_qd(rng, d, qstyle) if qd is None else list(qd)
    assert len(Ds) == L + 1
    qD = bond_charges(rng, qd, Ds, qstyle, mpo=True)
    op = ptn.MPO(qd, qD, fill='random', rng=rng)
    kinds = [entries] * L if entries != 'mixed' else [('real', 'complex', 'int')[int(k)] for k in rng.choice(3, size=L, p=[0.45, 0.45, 0.1])]
    for i in range(L):
        entries = kinds[i]
        if entries == 'real':
            op.A[i] = op.A[i].real.copy()
        elif entries == 'int':
            op.A[i] = np.round(4 * op.A[i].real * np.sqrt(op.A[i].size)).astype(int)
    return op


def bond_profile(rng, L, d, Dmax, style='random'):
    """bond dimensions incl. over-complete and 1"""
    Ds = [1]
    for i in range(1, L):
        if style == 'one':
            Ds.append(1)
        elif style == 'max':
            Ds.append(Dmax)
        else:
            Ds.append(int(rng.integers(1, Dmax + 1)))
    Ds.append(1)
    return Ds if L > 0 else [1]


def complete_bonds(L, d, cap=None):
    Ds = [min(d ** i, d ** (L - i)) for i in range(L + 1)]
    if cap:
        Ds = [min(x, cap) for x in Ds]
    return Ds
