"""C04 bounded stand-in: inner products, expectation values and environment blocks against dense references."""
import json
import numpy as np
import pytenet as ptn
from pytenet import operation as pop
from . import oracle
from . import h_C02 as H

RULE = ('enumerated (kind, variant, L, d, charge style, entry kind) x seeded random sector-consistent MPS/MPO (bra and ket with '
        'independent bond profiles, MPO with charged bonds and boundary charges that connect the two sectors); the environment '
        'kinds visit every site / site pair / bond of the chain with seeded random block-sparse local tensors X, Y; a case is '
        'non-trivial unless all charges are zero and all bonds are 1; distinct = distinct descriptor')
BOUNDS = {'quick': 'L<=4, d<=3 (built-in models d<=4, L<=3), D<=4', 'thorough': 'L<=5, d<=3 (models d<=4, L<=4), D<=5'}
EXHAUSTIVE = {'quick': False, 'thorough': False}

KINDS = {
    'vdot': ('same_sector', 'self', 'diff_sector', 'left_fold', 'offset_sector'),
    'norm': ('norm',),
    'avg': ('zero_boundary', 'charged_boundary', 'left_fold'),
    'inner': ('connected', 'same_sector', 'offset_sector'),
    'density': ('connected', 'zero_boundary'),
    'env1': ('random', 'herm', 'model', 'braket'),
    'env2': ('random', 'herm', 'model'),
    'env0': ('random', 'herm', 'model'),
}
ENV_MODELS = ('ising', 'xxz', 'spin1', 'bose', 'fermion', 'hubbard')


def cases(tier, seed):
    rng = np.random.default_rng(seed)
    quick = tier == 'quick'
    Ls = (1, 2, 3, 4) if quick else (1, 2, 3, 4, 5)
    reps = 1 if quick else 3
    Dmax = 4 if quick else 5
    for kind, variants in KINDS.items():
        for var in variants:
            for L in Ls:
                if var == 'model':
                    for model in ENV_MODELS:
                        m = H.MODELS[model]
                        if L < m['Lmin'] or (m['d'] == 4 and L > (3 if quick else 4)) or (kind == 'env2' and L < 2):
                            continue
                        for entries in ('complex', 'real', 'mixed'):
                            for r in range(2 * reps):
                                yield dict(kind=kind, var=var, L=L, d=m['d'], model=model, qstyle='model', entries=entries, Dmax=Dmax,
                                           seed=int(rng.integers(1 << 31)))
                    continue
                for d in (1, 2, 3):
                    for qs in H.QDSTYLES:
                        if d == 1 and qs not in ('zero', 'u1'):
                            continue
                        if kind == 'env2' and L < 2:
                            continue
                        for entries in ('complex', 'real', 'mixed'):
                            for r in range(reps):
                                yield dict(kind=kind, var=var, L=L, d=d, qstyle=qs, entries=entries, Dmax=Dmax,
                                           seed=int(rng.integers(1 << 31)))


def _nrm(x):
    return float(np.linalg.norm(np.asarray(x).ravel()))


def _sparse_rand(rng, qlists, entries):
    """random tensor that vanishes exactly off the sector sum(qlists) == 0"""
    shape = tuple(len(q) for q in qlists)
    T = rng.normal(size=shape) + (1j * rng.normal(size=shape) if entries == 'complex' else 0)
    tot = np.zeros((), dtype=np.int64)
    for q in qlists:
        tot = np.add.outer(tot, np.asarray(q, dtype=np.int64))
    return np.where(tot == 0, T, 0)


BSTYLES = ('random', 'random', 'random', 'random', 'random', 'max', 'max', 'one')


class _Case:
    def __init__(self, c):
        self.c = c
        self.rng = np.random.default_rng(c['seed'])
        self.fails = []
        self.L = c['L']
        if c.get('model'):
            self.qd = list(H.MODELS[c['model']]['qd'])
        else:
            self.qd = H.make_qd(self.rng, c['d'], c['qstyle'])

    def fail(self, fn, clause, detail):
        self.fails.append(dict(clause=clause, detail=f'{self.c["kind"]}/{self.c["var"]} L={self.L} qd={self.qd}: {detail}',
                               signature=f'{fn}:{clause}'))

    def call(self, fn_name, fn, *a, **k):
        try:
            return True, fn(*a, **k)
        except Exception as e:        # noqa: BLE001 - exception of the code under test
            self.fail(fn_name, 'returns', f'raised {type(e).__name__}: {e}')
            return False, None

    def ent(self):
        """entry kind of the next object: 'mixed' cases draw it per object (real state with complex operator, ...)"""
        e = self.c['entries']
        if e != 'mixed':
            return e
        self._nmixed = getattr(self, '_nmixed', 0) + 1
        # the first object is real and the second complex (or the other way round), later ones are drawn at random
        first = ('real', 'complex') if self.c['seed'] % 2 else ('complex', 'real')
        return first[self._nmixed - 1] if self._nmixed <= 2 else ('real', 'complex')[int(self.rng.integers(2))]

    def _dmax(self, Dmax=None):
        # mostly bonds > 1 (bond dimension 1 everywhere hides index-order slips), sometimes the degenerate profile
        Dmax = Dmax or self.c['Dmax']
        return 1 if self.rng.random() < 0.1 else int(self.rng.integers(2, Dmax + 1))

    def mps(self, q0, q1):
        rng = self.rng
        return H.rand_mps(rng, self.qd, self.L, self._dmax(), q0, q1, self.ent(),
                          bstyle=BSTYLES[int(rng.integers(len(BSTYLES)))],
                          order=('random', 'sorted', 'reverse')[int(rng.integers(3))])

    def mpo(self, q0, q1, Dmax=None):
        rng = self.rng
        return H.rand_mpo(rng, self.qd, self.L, self._dmax(Dmax), q0, q1, self.ent(),
                          bstyle=BSTYLES[int(rng.integers(len(BSTYLES)))],
                          order=('random', 'sorted', 'reverse')[int(rng.integers(3))])

    def scalar(self, fn, clause, got, ref, scale, what, rel=False):
        got = complex(got); ref = complex(ref)
        if not (abs(got - ref) <= 1e-9 * (scale if rel and scale > 0 else max(1.0, scale))):
            self.fail(fn, clause, f'{what}: got {got}, dense reference {ref}, |diff| {abs(got - ref):.3e} (scale {scale:.3g})')
            return False
        return True

    def connected(self):
        """sectors of ket psi, bra chi and boundary charges of an MPO that connects them"""
        rng, qd, L = self.rng, self.qd, self.L
        sig = [int(rng.integers(len(qd))) for _ in range(L)]
        sigp = [int(rng.integers(len(qd))) for _ in range(L)]
        qLp = int(rng.integers(-1, 2)); qa = int(rng.integers(-1, 2))
        Qp = qLp + sum(qd[s] for s in sig)
        qb = qa + sum(qd[s] - qd[t] for s, t in zip(sigp, sig))
        qLc = qLp + qa
        Qc = qLc + sum(qd[s] for s in sigp)
        return (qLp, Qp), (qLc, Qc), (qa, qb)

    def operator(self):
        """(op, hermitian?) for the environment kinds: boundary charges 0 -> 0, charged inner bonds"""
        var = self.c['var']
        if var == 'model':
            ok, r = self.call('hamiltonian', H.model_hamiltonian, self.rng, self.c['model'], self.L)
            return r[1] if ok else None
        if var == 'herm':
            return H.hermitian_mpo(self.rng, self.qd, self.L, int(self.rng.integers(1, 3)), self.ent())
        return self.mpo(0, 0)


def _left_blocks(k, ket, bra, op):
    BL = [np.array([[[1]]], dtype=complex)]
    for i in range(k.L):
        ok, B = k.call('contraction_operator_step_left', pop.contraction_operator_step_left, ket.A[i], bra.A[i], op.A[i], BL[i])
        if not ok:
            return None
        BL.append(B)
    return BL


def _right_blocks_braket(k, ket, bra, op):
    L = k.L
    BR = [None] * L
    BR[L - 1] = np.array([[[1]]], dtype=complex)
    for i in reversed(range(L - 1)):
        ok, B = k.call('contraction_operator_step_right', pop.contraction_operator_step_right, ket.A[i + 1], bra.A[i + 1], op.A[i + 1], BR[i + 1])
        if not ok:
            return None
        BR[i] = B
    return BR


def run_case(c):
    k = _Case(c)
    rng, L, var, kind = k.rng, k.L, c['var'], c['kind']
    objs = []
    ent = 'complex' if c['entries'] == 'mixed' else c['entries']        # local probe tensors X, Y
    if kind in ('vdot', 'norm'):
        sp = H.pick_sector(rng, k.qd, L)
        psi = k.mps(*sp)
        if var == 'diff_sector':
            sc = H.pick_sector(rng, k.qd, L, q0=sp[0])
            chi = k.mps(*sc)
        elif var == 'self':
            chi = psi
        elif var == 'offset_sector':
            # the same physical sector with all bond charges shifted (non-zero leading charge): the overlap is generically non-zero
            sh = int(rng.choice([-2, -1, 1, 2]))
            chi = k.mps(sp[0] + sh, sp[1] + sh)
        else:
            chi = k.mps(*sp)
        objs = [psi, chi]
        dp, dc = oracle.mps_dense(psi.A), oracle.mps_dense(chi.A)
        ref = np.sum(dc.conj() * dp)
        sc_ = _nrm(dp) * _nrm(dc)
        if kind == 'norm':
            ok, got = k.call('norm', ptn.norm, psi)
            if ok:
                k.scalar('norm', 'dense', got, _nrm(dp), _nrm(dp), 'norm(psi)')
                if not (np.isreal(got) and got >= 0):
                    k.fail('norm', 'nonneg_real', f'norm returned {got!r}')
        elif var == 'left_fold':
            T = np.identity(1, dtype=complex)
            good = True
            for i in range(L):
                good, T = k.call('contraction_step_left', pop.contraction_step_left, psi.A[i], chi.A[i], T)
                if not good:
                    break
            if good:
                if T.shape != (1, 1):
                    k.fail('contraction_step_left', 'shape', f'final block shape {T.shape}')
                else:
                    k.scalar('contraction_step_left', 'dense', T[0, 0], ref, sc_, 'left fold of <chi|psi>')
        else:
            ok, got = k.call('vdot', ptn.vdot, chi, psi)
            if ok:
                k.scalar('vdot', 'dense', got, ref, sc_, 'vdot(chi, psi) vs sum conj(chi)*psi (first argument conjugated)')
            if var == 'same_sector':
                ok, got2 = k.call('vdot', ptn.vdot, psi, chi)
                if ok:
                    k.scalar('vdot', 'dense', got2, np.conj(ref), sc_, 'vdot(psi, chi)')
    elif kind == 'avg':
        sp = H.pick_sector(rng, k.qd, L)
        psi = k.mps(*sp)
        if var == 'charged_boundary':
            qo = H.pick_sector(rng, k.qd, L, mpo=True, zero_total=True)
            op = k.mpo(*qo)
        else:
            op = k.mpo(0, 0)
        small = c['seed'] % 4 == 2 and np.issubdtype(psi.A[0].dtype, np.inexact)
        if small:
            # a state of norm ~1e-8 (the expectation value of a general operator is then ~1e-16 and complex): comparisons are relative
            psi.A[0] = psi.A[0] * 1e-8
        objs = [psi, op]
        dp, M = oracle.mps_dense(psi.A), oracle.mpo_dense(op.A)
        ref = dp.conj() @ M @ dp
        sc_ = _nrm(dp) ** 2 * _nrm(M)
        if var == 'left_fold':
            BL = _left_blocks(k, psi, psi, op)
            if BL is not None:
                if BL[L].shape != (1, 1, 1):
                    k.fail('contraction_operator_step_left', 'shape', f'final block shape {BL[L].shape}')
                else:
                    k.scalar('contraction_operator_step_left', 'dense', BL[L][0, 0, 0], ref, sc_, 'left fold of <psi|op|psi>')
        else:
            ok, got = k.call('operator_average', ptn.operator_average, psi, op)
            if ok:
                k.scalar('operator_average', 'dense', got, ref, sc_, '<psi|op|psi>', rel=small)
    elif kind == 'inner':
        if var in ('connected', 'offset_sector'):
            sp, sc, so = k.connected()
            if var == 'offset_sector':
                # the same three sectors with the bond charges of every object shifted by its own constant (non-zero leading charges):
                # only the differences between trailing and leading charge matter, the matrix element is generically non-zero
                s1, s2, s3 = (int(x) for x in rng.choice([-2, -1, 1, 2, 3], 3))
                sp = (sp[0] + s1, sp[1] + s1); sc = (sc[0] + s2, sc[1] + s2); so = (so[0] + s3, so[1] + s3)
        else:
            sp = H.pick_sector(rng, k.qd, L); sc = sp; so = (0, 0)
        psi, chi, op = k.mps(*sp), k.mps(*sc), k.mpo(*so)
        objs = [psi, chi, op]
        dp, dc, M = oracle.mps_dense(psi.A), oracle.mps_dense(chi.A), oracle.mpo_dense(op.A)
        ok, got = k.call('operator_inner_product', ptn.operator_inner_product, chi, op, psi)
        if ok:
            k.scalar('operator_inner_product', 'dense', got, dc.conj() @ M @ dp, _nrm(dp) * _nrm(dc) * _nrm(M), '<chi|op|psi>')
    elif kind == 'density':
        if var == 'connected':
            pairs = [(int(rng.integers(len(k.qd))), int(rng.integers(len(k.qd)))) for _ in range(L)]
            ra = int(rng.integers(-1, 2)); oa = int(rng.integers(-1, 2))
            rb = ra + sum(k.qd[s] - k.qd[t] for s, t in pairs)
            ob = oa + ra - rb
            rho, op = k.mpo(ra, rb), k.mpo(oa, ob)
        else:
            rho, op = k.mpo(0, 0), k.mpo(0, 0)
        objs = [rho, op]
        Mr, Mo = oracle.mpo_dense(rho.A), oracle.mpo_dense(op.A)
        ok, got = k.call('operator_density_average', ptn.operator_density_average, rho, op)
        if ok:
            k.scalar('operator_density_average', 'dense', got, np.trace(Mo @ Mr), _nrm(Mr) * _nrm(Mo), 'tr[op rho]')
    elif kind in ('env1', 'env2', 'env0'):
        braket = var == 'braket'
        if braket:
            sp, sc, so = k.connected()
            psi, chi, op = k.mps(*sp), k.mps(*sc), k.mpo(*so)
        else:
            sp = H.pick_sector(rng, k.qd, L)
            psi = k.mps(*sp)
            chi = psi
            op = k.operator()
            if op is None:
                return dict(failures=k.fails, nontrivial=True, key=json.dumps(c, sort_keys=True))
        objs = [psi, chi, op]
        M = oracle.mpo_dense(op.A)
        nM = _nrm(M)
        herm = (not braket) and _nrm(M - M.conj().T) <= 1e-12 * max(1.0, nM)
        BL = _left_blocks(k, psi, chi, op)
        if braket:
            BR = _right_blocks_braket(k, psi, chi, op)
        else:
            ok, BR = k.call('compute_right_operator_blocks', ptn.compute_right_operator_blocks, psi, op)
            if not ok:
                BR = None
        if BL is None or BR is None:
            return dict(failures=k.fails, nontrivial=True, key=json.dumps(c, sort_keys=True))
        qd = np.asarray(k.qd)
        # full left fold is the expectation value (consistency of the block sequence)
        if kind == 'env1':
            for i in range(L):
                X = _sparse_rand(rng, [qd, psi.qD[i], -psi.qD[i + 1]], ent)
                Y = _sparse_rand(rng, [qd, chi.qD[i], -chi.qD[i + 1]], ent)
                ok, HX = k.call('apply_local_hamiltonian', ptn.apply_local_hamiltonian, BL[i], BR[i], op.A[i], X)
                if not ok:
                    break
                if HX.shape != Y.shape:
                    k.fail('apply_local_hamiltonian', 'shape', f'site {i}: result shape {HX.shape}, expected {Y.shape}')
                    break
                vX = oracle.mps_dense(psi.A[:i] + [X] + psi.A[i + 1:])
                vY = oracle.mps_dense(chi.A[:i] + [Y] + chi.A[i + 1:])
                sc_ = _nrm(vX) * _nrm(vY) * nM
                if not k.scalar('apply_local_hamiltonian', 'projection', np.sum(Y.conj() * HX), vY.conj() @ M @ vX, sc_,
                                f'one-site local operator at site {i}: <Y|H_eff X> vs dense(psi[Y])^H O dense(psi[X])'):
                    break
                if herm:
                    ok, HY = k.call('apply_local_hamiltonian', ptn.apply_local_hamiltonian, BL[i], BR[i], op.A[i], Y)
                    if ok and not k.scalar('apply_local_hamiltonian', 'hermitian', np.sum(Y.conj() * HX), np.conj(np.sum(X.conj() * HY)),
                                           sc_ + _nrm(vX) * _nrm(vY) * nM, f'site {i}: <Y|H X> vs conj(<X|H Y>) for a Hermitian MPO'):
                        break
        elif kind == 'env2':
            qdd = np.add.outer(qd, qd).reshape(-1)
            for i in range(L - 1):
                Dm = int(rng.integers(1, 4))
                # random pair of site tensors with an own middle bond, merged by the library
                qmid = [int(psi.qD[i][int(rng.integers(len(psi.qD[i])))] + qd[int(rng.integers(len(qd)))]) for _ in range(Dm)]
                Xa = _sparse_rand(rng, [qd, psi.qD[i], -np.asarray(qmid)], ent)
                Xb = _sparse_rand(rng, [qd, np.asarray(qmid), -psi.qD[i + 2]], ent)
                ok, X2 = k.call('merge_mps_tensor_pair', ptn.merge_mps_tensor_pair, Xa, Xb)
                ok2, W2 = k.call('merge_mpo_tensor_pair', ptn.merge_mpo_tensor_pair, op.A[i], op.A[i + 1])
                if not (ok and ok2):
                    break
                Y2 = _sparse_rand(rng, [qdd, chi.qD[i], -chi.qD[i + 2]], ent)
                ok, HX = k.call('apply_local_hamiltonian', ptn.apply_local_hamiltonian, BL[i], BR[i + 1], W2, X2)
                if not ok:
                    break
                if HX.shape != Y2.shape:
                    k.fail('apply_local_hamiltonian', 'shape', f'sites {i},{i+1}: result shape {HX.shape}, expected {Y2.shape}')
                    break
                vX = oracle.mps_dense(psi.A[:i] + [Xa, Xb] + psi.A[i + 2:])
                vY = oracle.mps_dense(chi.A[:i] + [Y2] + chi.A[i + 2:])
                sc_ = _nrm(vX) * _nrm(vY) * nM
                if not k.scalar('apply_local_hamiltonian', 'projection_twosite', np.sum(Y2.conj() * HX), vY.conj() @ M @ vX, sc_,
                                f'two-site local operator at sites {i},{i+1} (merged W and merged X)'):
                    break
                if herm:
                    ok, HY = k.call('apply_local_hamiltonian', ptn.apply_local_hamiltonian, BL[i], BR[i + 1], W2, Y2)
                    if ok and not k.scalar('apply_local_hamiltonian', 'hermitian_twosite', np.sum(Y2.conj() * HX), np.conj(np.sum(X2.conj() * HY)),
                                           2 * sc_, f'sites {i},{i+1}: <Y|H X> vs conj(<X|H Y>) for a Hermitian MPO'):
                        break
        else:
            for j in range(1, L + 1):
                # bond j between sites j-1 and j (j = L: trailing dummy bond)
                Cx = _sparse_rand(rng, [psi.qD[j], -psi.qD[j]], ent)
                Cy = _sparse_rand(rng, [chi.qD[j], -chi.qD[j]], ent)
                Rb = BR[j - 1]
                ok, KC = k.call('apply_local_bond_contraction', ptn.apply_local_bond_contraction, BL[j], Rb, Cx)
                if not ok:
                    break
                if KC.shape != Cy.shape:
                    k.fail('apply_local_bond_contraction', 'shape', f'bond {j}: result shape {KC.shape}, expected {Cy.shape}')
                    break
                # absorb the bond matrix into the tensor on its left
                AX = np.einsum('sab,bc->sac', psi.A[j - 1], Cx)
                AY = np.einsum('sab,bc->sac', chi.A[j - 1], Cy)
                vX = oracle.mps_dense(psi.A[:j - 1] + [AX] + psi.A[j:])
                vY = oracle.mps_dense(chi.A[:j - 1] + [AY] + chi.A[j:])
                sc_ = _nrm(vX) * _nrm(vY) * nM
                if not k.scalar('apply_local_bond_contraction', 'projection_bond', np.sum(Cy.conj() * KC), vY.conj() @ M @ vX, sc_,
                                f'zero-site bond operator at bond {j}'):
                    break
                if herm:
                    ok, KY = k.call('apply_local_bond_contraction', ptn.apply_local_bond_contraction, BL[j], Rb, Cy)
                    if ok and not k.scalar('apply_local_bond_contraction', 'hermitian_bond', np.sum(Cy.conj() * KC), np.conj(np.sum(Cx.conj() * KY)),
                                           2 * sc_, f'bond {j}: <Cy|K Cx> vs conj(<Cx|K Cy>) for a Hermitian MPO'):
                        break
    else:
        raise ValueError(kind)
    return dict(failures=k.fails, nontrivial=H.nontrivial(*objs) if objs else False, key=json.dumps(c, sort_keys=True))
