"""Engine Z at the predicate level, part 2: the site loops of the dense conversions and of the inner-product /
expectation-value functions compute exactly the folds that the lemmas (engine T + Lean) speak about.

For every function the loop of the real AST is verified against a recursive *spec fold* (defined by axioms that
unfold one site) with a sidecar invariant "running value == fold up to the current site".  The step functions
(merge_*_tensor_pair, contraction_*_step_*) appear as uninterpreted symbols: their meaning is the einsum
specification proved by engine T on their real bodies; the fold lemmas L-vdot, L-avg, L-tr, L-pair ... then give
the dense meaning for every number of sites."""
import ast, itertools, time
import z3
from . import loader
from .contract import Verdict
from .symexec import Exec, Unsupported, Refuted, State, Obj, SymRange
from .libz import is_z, zint, fresh_int, oblige
from .smt import Solver, check_unsat
from .zsweep import Ten, Vec, ArrT, ZSeq, dl, dr, dp, ONE, LIB_S, s_getitem, TenShape, TenEntry

I = z3.IntSort(); Rr = z3.RealSort()
mergeF = z3.Function('merge_mps_tensor_pair', Ten, Ten, Ten)
mergeO = z3.Function('merge_mpo_tensor_pair', Ten, Ten, Ten)
stepR = z3.Function('contraction_step_right', Ten, Ten, Ten, Ten)
stepOR = z3.Function('contraction_operator_step_right', Ten, Ten, Ten, Ten, Ten)
stepDR = z3.Function('contraction_operator_density_step_right', Ten, Ten, Ten, Ten)
identF = z3.Function('identity', I, Ten)
resh3 = z3.Function('reshape_D1D', Ten, Ten)
flat = z3.Function('flatten', Ten, Vec)
mat = z3.Function('as2d', Ten, Ten)
entry = z3.Function('entry0', Ten, Rr)          # T[0,0] / T[0,0,0] (a complex number; modelled as an opaque value)
sh = [z3.Function(f'shape{k}', Ten, I) for k in range(4)]
rank = z3.Function('rank', Ten, I)
PRE = z3.Function('PRE', ArrT, I, Ten)          # prefix fold of merge_mps_tensor_pair
PREO = z3.Function('PREO', ArrT, I, Ten)
RT = z3.Function('RT', ArrT, ArrT, I, I, Ten)   # right fold of contraction_step_right
RTO = z3.Function('RTO', ArrT, ArrT, ArrT, I, I, Ten)
RTO1 = z3.Function('RTO1', ArrT, ArrT, ArrT, I, I, Ten)     # same fold started from the 1x1x1 tensor
RTD = z3.Function('RTD', ArrT, ArrT, I, I, Ten)
ONE3c = z3.Const('ONE3c', Ten)
sqrtF = z3.Function('sqrt', Rr, Rr)

_c = itertools.count(1)


def axioms():
    A, B, W = z3.Consts('A B W', ArrT); k, L = z3.Ints('k L'); a, b, t, w = z3.Consts('a b t w', Ten)
    ax = [
        z3.ForAll([A], PRE(A, 1) == A[0]),
        z3.ForAll([A, k], z3.Implies(k >= 1, PRE(A, k + 1) == mergeF(PRE(A, k), A[k])), patterns=[PRE(A, k + 1)]),
        z3.ForAll([A], PREO(A, 1) == A[0]),
        z3.ForAll([A, k], z3.Implies(k >= 1, PREO(A, k + 1) == mergeO(PREO(A, k), A[k])), patterns=[PREO(A, k + 1)]),
        z3.ForAll([A, B, L], RT(A, B, L, L) == identF(dr(A[L - 1]))),
        z3.ForAll([A, B, k, L], z3.Implies(z3.And(0 <= k, k < L), RT(A, B, k, L) == stepR(A[k], B[k], RT(A, B, k + 1, L))), patterns=[RT(A, B, k, L)]),
        z3.ForAll([A, B, W, L], RTO(A, B, W, L, L) == resh3(identF(dr(A[L - 1])))),
        z3.ForAll([A, B, W, k, L], z3.Implies(z3.And(0 <= k, k < L), RTO(A, B, W, k, L) == stepOR(A[k], B[k], W[k], RTO(A, B, W, k + 1, L))), patterns=[RTO(A, B, W, k, L)]),
        z3.ForAll([A, B, W, L], RTO1(A, B, W, L, L) == ONE3c),
        z3.ForAll([A, B, W, k, L], z3.Implies(z3.And(0 <= k, k < L), RTO1(A, B, W, k, L) == stepOR(A[k], B[k], W[k], RTO1(A, B, W, k + 1, L))), patterns=[RTO1(A, B, W, k, L)]),
        z3.ForAll([A, W, L], RTD(A, W, L, L) == identF(1)),
        z3.ForAll([A, W, k, L], z3.Implies(z3.And(0 <= k, k < L), RTD(A, W, k, L) == stepDR(A[k], W[k], RTD(A, W, k + 1, L))), patterns=[RTD(A, W, k, L)]),
        # shapes of the step results (shape clauses of the T contracts)
        z3.ForAll([a, b], z3.And(rank(mergeF(a, b)) == 3, sh[1](mergeF(a, b)) == sh[1](a), sh[2](mergeF(a, b)) == sh[2](b)), patterns=[mergeF(a, b)]),
        z3.ForAll([a, b], z3.And(rank(mergeO(a, b)) == 4, sh[2](mergeO(a, b)) == sh[2](a), sh[3](mergeO(a, b)) == sh[3](b)), patterns=[mergeO(a, b)]),
        z3.ForAll([a, b, t], z3.And(rank(stepR(a, b, t)) == 2, sh[0](stepR(a, b, t)) == sh[1](a), sh[1](stepR(a, b, t)) == sh[1](b)), patterns=[stepR(a, b, t)]),
        z3.ForAll([a, b, w, t], z3.And(rank(stepOR(a, b, w, t)) == 3, sh[0](stepOR(a, b, w, t)) == sh[1](a), sh[1](stepOR(a, b, w, t)) == sh[2](w),
                                       sh[2](stepOR(a, b, w, t)) == sh[1](b)), patterns=[stepOR(a, b, w, t)]),
        z3.ForAll([a, w, t], z3.And(rank(stepDR(a, w, t)) == 2, sh[0](stepDR(a, w, t)) == sh[2](a), sh[1](stepDR(a, w, t)) == sh[2](w)), patterns=[stepDR(a, w, t)]),
        z3.ForAll([k], z3.And(rank(identF(k)) == 2, sh[0](identF(k)) == k, sh[1](identF(k)) == k)),
        z3.ForAll([t], z3.And(rank(resh3(t)) == 3, sh[0](resh3(t)) == sh[0](t), sh[1](resh3(t)) == 1, sh[2](resh3(t)) == sh[1](t)), patterns=[resh3(t)]),
        z3.And(rank(ONE3c) == 3, sh[0](ONE3c) == 1, sh[1](ONE3c) == 1, sh[2](ONE3c) == 1),
    ]
    return ax


# ---- library for this domain -------------------------------------------------------------------------

class Shape:
    def __init__(self, t): self.t = t

def g_shape(ex, st, node, base):
    if is_z(base) and base.sort() == Ten:
        return Shape(base)
    return NotImplemented

def g_ndim(ex, st, node, base):
    if is_z(base) and base.sort() == Ten:
        return rank(base)
    return NotImplemented

def g_dtype(ex, st, node, base):
    return 'dtype'

def g_real(ex, st, node, base):
    if is_z(base) and base.sort() == Rr:
        return base
    return NotImplemented

def f_getitem(ex, st, node, base, key):
    if isinstance(base, Shape):
        if isinstance(key, int) and 0 <= key < 4:
            return sh[key](base.t)
        raise Unsupported('shape index')
    if is_z(base) and base.sort() == Ten and isinstance(key, tuple) and all(k == 0 for k in key):
        oblige(ex, st, node, 'index', f'{ast.unparse(node)[:40]}: rank matches the number of indices', rank(base) == len(key))
        return entry(base)
    return s_getitem(ex, st, node, base, key)

def f_compare(ex, st, node, op, l, r):
    if isinstance(l, Shape) and isinstance(r, tuple) and isinstance(op, ast.Eq):
        return z3.And(rank(l.t) == len(r), *[sh[k](l.t) == zint(x) for k, x in enumerate(r)])
    return NotImplemented

def np_identity(ex, st, node, args, kw):
    return identF(zint(args[0]))

def m_reshape(ex, st, node, args, kw):
    t = args[0]
    shp = args[1] if len(args) == 2 else tuple(args[1:])
    if shp == -1 or shp == (-1,):
        return flat(t)
    if isinstance(shp, tuple) and len(shp) == 3 and shp[1] == 1:
        oblige(ex, st, node, 'shape', f'{ast.unparse(node)[:50]}: reshape (D, D) -> (D, 1, D)', z3.And(rank(t) == 2, zint(shp[0]) == sh[0](t), zint(shp[2]) == sh[1](t)))
        return resh3(t)
    if isinstance(shp, tuple) and len(shp) == 2:
        oblige(ex, st, node, 'shape', f'{ast.unparse(node)[:50]}: trailing bond dimensions are 1', z3.And(rank(t) == 4, sh[2](t) == 1, sh[3](t) == 1,
                                                                                                        zint(shp[0]) == sh[0](t), zint(shp[1]) == sh[1](t)))
        return mat(t)
    raise Unsupported('reshape')

def np_array(ex, st, node, args, kw):
    v = args[0]; d = 0
    while isinstance(v, tuple) and len(v) == 1:
        v = v[0]; d += 1
    if v == 1 and d == 3:
        return ONE3c
    raise Unsupported('np.array literal')

def np_sqrt(ex, st, node, args, kw):
    return sqrtF(args[0])

def listcomp(ex, st, node, it):
    if isinstance(it, SymRange) and isinstance(node.elt, ast.Constant) and node.elt.value is None:
        return ZSeq(z3.Const(f'lst{next(_c)}', ArrT), zint(it.hi))
    raise Unsupported('comprehension')

def call2(f):
    return lambda ex, st, node, args, kw: f(*args)

LIB_F = dict(LIB_S)
LIB_F.update({'getattr.shape': g_shape, 'getattr.ndim': g_ndim, 'getattr.dtype': g_dtype, 'getattr.real': g_real, 'getitem': f_getitem,
              'compare': f_compare, 'np.identity': np_identity, '.reshape': m_reshape, 'np.array': np_array, 'np.sqrt': np_sqrt, 'listcomp': listcomp})
CALLS = {'merge_mps_tensor_pair': call2(mergeF), 'merge_mpo_tensor_pair': call2(mergeO), 'contraction_step_right': call2(stepR),
         'contraction_operator_step_right': call2(stepOR), 'contraction_operator_density_step_right': call2(stepDR)}


def fold_loop_handler(invariants, stale):
    """general invariant-based loop rule: havoc every name assigned in the body and every list stored into"""
    def handler(ex, n, st):
        sig = loader.loop_signature(n)
        if sig not in invariants:
            stale.append(sig)
            raise Unsupported(f'no invariant for loop "{sig}" (contract stale)')
        inv = invariants[sig]
        it = ex.ev(n.iter, st)
        if not isinstance(it, SymRange) or not isinstance(n.target, ast.Name):
            raise Unsupported('loop shape')
        lo, hi = zint(it.lo), zint(it.hi)
        var = n.target.id
        at = (lambda c: lo + c) if not it.rev else (lambda c: hi - 1 - c)
        names = set(); stored = set()
        for s_ in n.body:
            for x in ast.walk(s_):
                if isinstance(x, ast.Name) and isinstance(x.ctx, ast.Store):
                    names.add(x.id)
                if isinstance(x, ast.Subscript) and isinstance(x.ctx, ast.Store) and isinstance(x.value, ast.Name):
                    stored.add(x.value.id)
        def havoc(s):
            for nm in names - {var}:
                cur = s.env.get(nm)
                if is_z(cur):
                    s.env[nm] = z3.Const(f'{nm}!{next(_c)}', cur.sort())
                elif cur is not None:
                    raise Unsupported(f'loop-carried variable {nm} of unsupported kind')
            for nm in stored:
                cur = s.env.get(nm)
                if isinstance(cur, ZSeq):
                    s.env[nm] = ZSeq(z3.Const(f'{nm}!{next(_c)}', cur.arr.sort()), cur.length)
                else:
                    raise Unsupported(f'store into {nm} inside loop')
        oblige(ex, st, n, 'invariant', f'{sig}: invariant holds on entry', inv(st.env, z3.IntVal(0), at(z3.IntVal(0))))
        head = st.fork(); havoc(head)
        c = fresh_int('iter')
        head.pc.append(z3.And(c >= 0, c < hi - lo))
        head.env[var] = at(c)
        head.pc.append(inv(head.env, c, at(c)))
        for s in ex.block(n.body, [head]):
            if s.done:
                raise Unsupported('return inside loop')
            oblige(ex, s, n, 'invariant', f'{sig}: invariant preserved', inv(s.env, c + 1, at(c + 1)))
        after = st.fork(); havoc(after)
        tot = z3.If(hi - lo > 0, hi - lo, 0)
        after.pc.append(inv(after.env, tot, at(tot)))
        return [after]
    return handler


# ---- contracts ------------------------------------------------------------------------------------------

def _mps(name, L, rank_=3):
    A = z3.Const(f'{name}A', ArrT)
    return Obj('MPS' if rank_ == 3 else 'MPO', dict(A=ZSeq(A, L), nsites=L)), A

def _wf(A, L, rank_):
    k = z3.Int('k')
    r = rank_
    return [z3.ForAll([k], z3.Implies(z3.And(0 <= k, k < L), rank(A[k]) == r)),
            z3.ForAll([k], z3.Implies(z3.And(0 <= k, k + 1 < L), sh[r - 1](A[k]) == sh[r - 2](A[k + 1]))),
            sh[r - 2](A[0]) == 1, sh[r - 1](A[L - 1]) == 1,
            z3.ForAll([k], z3.Implies(z3.And(0 <= k, k < L), dr(A[k]) == sh[r - 1](A[k])))]


def contracts():
    L = z3.Int('L'); k = z3.Int('k')
    out = []
    # MPS.as_vector
    slf, A = _mps('self', L)
    out.append(dict(fn='mps.MPS.as_vector', props=('C03', 'C01'), env={'self': slf}, pre=[L >= 1] + _wf(A, L, 3),
                    inv={'for i in range(1, len(self.A))': lambda env, c, i, A=A: z3.And(env['psi'] == PRE(A, 1 + c), rank(env['psi']) == 3, sh[1](env['psi']) == 1, sh[2](env['psi']) == sh[2](A[c]))},
                    post=lambda ret, env: [('result_is_prefix_fold', ret == flat(PRE(A, L)))],
                    canary=lambda ret, env: [('c', ret == flat(PRE(A, L - 1)))]))
    # MPO.as_matrix (dense branch)
    slf, A = _mps('self', L, 4)
    out.append(dict(fn='mpo.MPO.as_matrix', props=('C03', 'C01'), env={'self': slf, 'sparse_format': False}, pre=[L >= 1] + _wf(A, L, 4),
                    inv={'for i in range(1, len(self.A))': lambda env, c, i, A=A: z3.And(env['op'] == PREO(A, 1 + c), rank(env['op']) == 4, sh[2](env['op']) == 1, sh[3](env['op']) == sh[3](A[c]))},
                    post=lambda ret, env, A=A: [('result_is_prefix_fold', ret == mat(PREO(A, L)))],
                    canary=lambda ret, env, A=A: [('c', ret == mat(PREO(A, L - 1)))]))
    # vdot
    psi, Ap = _mps('psi', L); chi, Ac = _mps('chi', L)
    out.append(dict(fn='operation.vdot', props=('C04',), env={'chi': chi, 'psi': psi}, pre=[L >= 1] + _wf(Ap, L, 3) + _wf(Ac, L, 3),
                    inv={'for i in reversed(range(psi.nsites))': lambda env, c, i, Ap=Ap, Ac=Ac: env['T'] == RT(Ap, Ac, L - c, L)},
                    post=lambda ret, env, Ap=Ap, Ac=Ac: [('result_is_right_fold[first argument is the conjugated one]', ret == entry(RT(Ap, Ac, 0, L)))],
                    canary=lambda ret, env, Ap=Ap, Ac=Ac: [('c', ret == entry(RT(Ac, Ap, 0, L)))]))
    # operator_average
    psi, Ap = _mps('psi', L); op, Aw = _mps('op', L, 4)
    out.append(dict(fn='operation.operator_average', props=('C04',), env={'psi': psi, 'op': op}, pre=[L >= 1] + _wf(Ap, L, 3) + _wf(Aw, L, 4),
                    inv={'for i in reversed(range(psi.nsites))': lambda env, c, i, Ap=Ap, Aw=Aw: env['T'] == RTO(Ap, Ap, Aw, L - c, L)},
                    post=lambda ret, env, Ap=Ap, Aw=Aw: [('result_is_right_fold', ret == entry(RTO(Ap, Ap, Aw, 0, L)))],
                    canary=lambda ret, env, Ap=Ap, Aw=Aw: [('c', ret == entry(RTO(Ap, Ap, Aw, 1, L)))]))
    # operator_inner_product
    psi, Ap = _mps('psi', L); chi, Ac = _mps('chi', L); op, Aw = _mps('op', L, 4)
    out.append(dict(fn='operation.operator_inner_product', props=('C04',), env={'chi': chi, 'op': op, 'psi': psi},
                    pre=[L >= 1, sh[2](Ap[L - 1]) == sh[2](Ac[L - 1])] + _wf(Ap, L, 3) + _wf(Ac, L, 3) + _wf(Aw, L, 4),
                    inv={'for i in reversed(range(psi.nsites))': lambda env, c, i, Ap=Ap, Ac=Ac, Aw=Aw: env['T'] == RTO(Ap, Ac, Aw, L - c, L)},
                    post=lambda ret, env, Ap=Ap, Ac=Ac, Aw=Aw: [('result_is_right_fold[bra = chi]', ret == entry(RTO(Ap, Ac, Aw, 0, L)))],
                    canary=lambda ret, env, Ap=Ap, Ac=Ac, Aw=Aw: [('c', ret == entry(RTO(Ac, Ap, Aw, 0, L)))]))
    # operator_density_average
    rho, Ar = _mps('rho', L, 4); op, Aw = _mps('op', L, 4)
    out.append(dict(fn='operation.operator_density_average', props=('C04',), env={'rho': rho, 'op': op}, pre=[L >= 1] + _wf(Ar, L, 4) + _wf(Aw, L, 4),
                    inv={'for i in reversed(range(rho.nsites))': lambda env, c, i, Ar=Ar, Aw=Aw: env['T'] == RTD(Ar, Aw, L - c, L)},
                    post=lambda ret, env, Ar=Ar, Aw=Aw: [('result_is_right_fold', ret == entry(RTD(Ar, Aw, 0, L)))],
                    canary=lambda ret, env, Ar=Ar, Aw=Aw: [('c', ret == entry(RTD(Aw, Ar, 0, L)))]))
    # compute_right_operator_blocks
    psi, Ap = _mps('psi', L); op, Aw = _mps('op', L, 4)
    def inv_br(env, c, i, Ap=Ap, Aw=Aw):
        BR = env['BR'].arr
        return z3.ForAll([k], z3.Implies(z3.And(L - 2 - c < k, k <= L - 1), BR[k] == RTO1(Ap, Ap, Aw, k + 1, L)))
    out.append(dict(fn='operation.compute_right_operator_blocks', props=('C04', 'C08', 'C10'), env={'psi': psi, 'op': op},
                    pre=[L >= 1] + _wf(Ap, L, 3) + _wf(Aw, L, 4),
                    inv={'for i in reversed(range(L - 1))': inv_br},
                    post=lambda ret, env, Ap=Ap, Aw=Aw: [('every_block_is_the_right_fold', z3.And(ret.length == L, z3.ForAll([k], z3.Implies(z3.And(0 <= k, k < L), ret.arr[k] == RTO1(Ap, Ap, Aw, k + 1, L)))))],
                    canary=lambda ret, env, Ap=Ap, Aw=Aw: [('c', z3.ForAll([k], z3.Implies(z3.And(0 <= k, k < L), ret.arr[k] == RTO1(Ap, Ap, Aw, k, L))))]))
    return out


def verify_one(spec):
    from . import smt
    smt.EXTERNAL[0] = True
    fn = spec['fn']; out = []; t0 = time.time()
    fnode = loader.function(fn)
    ax = axioms()
    solver = Solver(ax)
    stale = []
    ex = Exec(lib=dict(LIB_F), calls=CALLS, mode='Z', solver=solver, loop_handler=fold_loop_handler(spec['inv'], stale), fname=fn)
    ex.assume_asserts = set(spec.get('assume_asserts', ()))
    st = State(dict(spec['env']), list(spec['pre']))
    try:
        if not solver.feasible(spec['pre']):
            return [Verdict('precondition_satisfiable', 'Z', 'refuted', 'contradictory requires', 0, fn, 'vacuity', 'z3')]
        states = ex.block(fnode.body, [st])
    except Refuted as e:
        return [Verdict('executes', 'Z', 'refuted', str(e) + ' (needs native confirmation)', time.time() - t0, fn, 'safety', 'z3')]
    except Unsupported as e:
        return [Verdict('executes', 'Z', 'undecided', f'outside fragment: {e}', time.time() - t0, fn, 'safety', 'z3')]
    key = fn.split('.')[-1]
    for ob in ex.obligations:
        status = 'discharged' if ob.holds is True else 'refuted' if ob.holds is False else 'undecided'
        v = Verdict(f'{ob.kind}@{ob.lineno}: {ob.text[:80]}', 'Z', status, ob.detail + (' (needs native confirmation: quantified counter-model)' if status == 'refuted' else ''),
                    0.0, fn, ob.kind, 'z3')
        v.confirm = [key]
        out.append(v)
    finals = [s for s in states if s.done and s.raised is None and solver.feasible(s.pc)]
    if not finals:
        out.append(Verdict('returns', 'Z', 'undecided', 'no returning path', 0, fn, 'ensures', 'z3'))
    agg = {}
    for s in finals:
        try:
            cl = spec['post'](s.ret, s.env)
        except Exception as e:
            agg.setdefault('postcondition', []).append(None); continue
        for name, f in cl:
            agg.setdefault(name, []).append(solver.implied([p for p in s.pc if is_z(p)], f, final=True))
    for name, rs in agg.items():
        status = 'discharged' if all(r is True for r in rs) else 'refuted' if any(r is False for r in rs) else 'undecided'
        v = Verdict(name, 'Z', status, f'{len(rs)} return paths' + (' (needs native confirmation: quantified counter-model)' if status == 'refuted' else ''), 0, fn, 'ensures', 'z3')
        v.confirm = [key]
        out.append(v)
    if spec.get('canary') and finals:
        bad = True
        for s in finals:
            try:
                for name, f in spec['canary'](s.ret, s.env):
                    r, _ = check_unsat(ax + [p for p in s.pc if is_z(p)] + [z3.Not(f)], timeout=2000, try_cvc5=False)
                    if r != 'unsat':
                        bad = False
            except Exception:
                bad = False
        out.append(Verdict('canary', 'Z', 'canary-verified' if bad else 'canary-ok', 'wrong variant of the fold must not be provable', 0, fn, 'canary', 'z3'))
    tot = time.time() - t0
    for v in out:
        v.seconds = tot / max(1, len(out))
    return out


def verify(prop, only=None):
    out = []
    for spec in contracts():
        if prop in spec['props'] and (only is None or spec['fn'] == only):
            try:
                out += verify_one(spec)
            except Exception as e:
                import traceback
                out.append(Verdict('fold_loop', 'Z', 'undecided', f'executor error: {type(e).__name__}: {e} {traceback.format_exc()[-400:]}', 0, spec['fn'], 'ensures', 'z3'))
    return out
