"""Engine Z, heap level (C18): `HopcroftKarp.__call__` returns a *matching* -- pairs that are edges of the graph, no vertex twice.

The two partner tables are z3 arrays PU, PV, the adjacency lists a predicate E(u, v) (v in adj_u[u], with u, v in range), `dist` an
array that nothing is claimed about.  The representation invariant is

    Valid(PU, PV):  PU[u] = -1  or  (0 <= PU[u] < nv, E(u, PU[u]), PV[PU[u]] = u)      for 0 <= u < nu, and symmetrically for PV.

The recursive method `__add_augmenting_path(u)` is verified against its own contract (the recursive call is replaced by the
contract: partial correctness, termination is not claimed):

    requires  Valid, u = -1 or 0 <= u < nu
    ensures   returns False  =>  PU, PV unchanged
              returns True, u = -1  =>  PU, PV unchanged
              returns True, u >= 0  =>  PU'[u] != -1 and Valid' holds everywhere except at the old partner v0 = PU[u] (if any), whose
                                        entry still says PV'[v0] = u although u has moved on: the caller re-assigns exactly this entry
              frame                 =>  partner entries of left vertices and distance labels change only at vertices whose label at
                                        entry is >= the label of u (the search descends one layer per call), hence never at the caller's vertex

The real AST of the three methods is executed by a small interpreter for their fragment (attributes of `self`, subscripts of the
two lists and of `dist`, ==, +, if, for over range(...) and over an adjacency list, return, calls of the two private methods);
anything else makes the obligation undecided.  The loop over the adjacency list gets the invariant "PU, PV as at loop entry"
(every iteration that changes them returns), the loops of `__call__` the invariant Valid.  `__connect_unmatched_vertices` is used
through its frame: a syntactic scan of its body shows that it stores only into `self.dist` and local names.
Assumed: adjacency lists contain in-range vertices and E is symmetric in the two lists (established by BipartiteGraph.__init__,
bounded in r_C18); Python lists as arrays; `self.dist` is a dict distinct from the lists (created in `__call__`)."""
import ast, itertools, time
import z3
from . import loader, smt
from .contract import Verdict

I = z3.IntSort()
_n = itertools.count(1)
E = z3.Function('adj', I, I, z3.BoolSort())
NU, NV = z3.Ints('num_u num_v')


class Undecided(Exception):
    pass


def valid(PU, PV, skip_v=None):
    u, v = z3.Ints('bound_u bound_v')          # names that no program variable can have (z3py quantifiers capture by name)
    cu = z3.ForAll([u], z3.Implies(z3.And(0 <= u, u < NU), z3.Or(PU[u] == -1, z3.And(0 <= PU[u], PU[u] < NV, E(u, PU[u]), PV[PU[u]] == u))))
    ok_v = z3.Or(PV[v] == -1, z3.And(0 <= PV[v], PV[v] < NU, E(PV[v], v), PU[PV[v]] == v))
    if skip_v is not None:
        ok_v = z3.Or(v == skip_v, ok_v)
    cv = z3.ForAll([v], z3.Implies(z3.And(0 <= v, v < NV), ok_v))
    return z3.And(cu, cv)


def after_true(PU0, PV0, PU1, PV1, u):
    """postcondition of __add_augmenting_path(u) returning True"""
    v0 = PU0[u]
    return z3.If(u == -1, z3.And(PU1 == PU0, PV1 == PV0),
                 z3.And(PU1[u] != -1, PU1[u] != v0, valid(PU1, PV1, skip_v=v0), z3.Implies(v0 != -1, PV1[v0] == u)))


def layered_frame(PU0, D0, PU1, D1, x):
    """what a call __add_augmenting_path(x) may touch: partner entries of left vertices and distance labels only at vertices whose
    label at entry is at least the label of x (the search only descends to vertices one layer further away)"""
    a = z3.Int('bound_a')
    return z3.If(x == -1, z3.And(PU1 == PU0, D1 == D0), z3.ForAll([a], z3.Implies(z3.Or(PU1[a] != PU0[a], D1[a] != D0[a]), D0[a] >= D0[x])))


class St:
    def __init__(self, env, pc):
        self.env = dict(env); self.pc = list(pc); self.ret = None; self.done = False
    def fork(self):
        s = St(self.env, self.pc); return s


class Interp:
    """symbolic execution of the fragment; heap = env['PU'], env['PV'], env['DIST'] (z3 arrays)"""
    def __init__(self, obligations):
        self.obl = obligations

    def prove(self, st, name, f, line):
        r, _ = smt.check_unsat(st.pc + [z3.Not(f)], timeout=30000)
        self.obl.append((name, line, True if r == 'unsat' else None))
        st.pc.append(f)

    def feasible(self, st):
        r, _ = smt.check_unsat(st.pc, timeout=3000, try_cvc5=False)
        return r != 'unsat'

    # ---- expressions
    def ev(self, e, st):
        if isinstance(e, ast.Constant) and isinstance(e.value, (int, bool)):
            return e.value if isinstance(e.value, bool) else z3.IntVal(e.value)
        if isinstance(e, ast.UnaryOp) and isinstance(e.op, ast.USub):
            return -self.ev(e.operand, st)
        if isinstance(e, ast.Name):
            if e.id in st.env:
                return st.env[e.id]
            raise Undecided(f'name {e.id}')
        if isinstance(e, ast.Attribute):
            path = ast.unparse(e)
            if path == 'self.graph.num_u': return NU
            if path == 'self.graph.num_v': return NV
            if path in ('self.matched_pairs_u', 'self.matched_pairs_v', 'self.dist', 'self.graph.adj_u'):
                return ('heap', path)
            raise Undecided(f'attribute {path}')
        if isinstance(e, ast.Subscript):
            base = self.ev(e.value, st); k = self.ev(e.slice, st)
            if base == ('heap', 'self.matched_pairs_u'):
                self.prove(st, f'index@{e.lineno}: {ast.unparse(e)[:50]} in range', z3.And(0 <= k, k < NU), e.lineno)
                return st.env['PU'][k]
            if base == ('heap', 'self.matched_pairs_v'):
                self.prove(st, f'index@{e.lineno}: {ast.unparse(e)[:50]} in range', z3.And(0 <= k, k < NV), e.lineno)
                return st.env['PV'][k]
            if base == ('heap', 'self.dist'):
                return st.env['DIST'][k]
            if base == ('heap', 'self.graph.adj_u'):
                self.prove(st, f'index@{e.lineno}: {ast.unparse(e)[:50]} in range', z3.And(0 <= k, k < NU), e.lineno)
                return ('adj', k)
            raise Undecided(f'subscript {ast.unparse(e)[:40]}')
        if isinstance(e, ast.BinOp) and isinstance(e.op, (ast.Add, ast.Sub, ast.Mult)):
            l, r = self.ev(e.left, st), self.ev(e.right, st)
            if isinstance(e.op, ast.Mult) and isinstance(r, tuple):
                raise Undecided('list repetition')
            return {ast.Add: lambda: l + r, ast.Sub: lambda: l - r, ast.Mult: lambda: l * r}[type(e.op)]()
        if isinstance(e, ast.Compare) and len(e.ops) == 1:
            l, r = self.ev(e.left, st), self.ev(e.comparators[0], st)
            op = e.ops[0]
            if isinstance(op, ast.Eq): return l == r
            if isinstance(op, ast.NotEq): return l != r
            if isinstance(op, ast.Lt): return l < r
            raise Undecided('comparison')
        if isinstance(e, ast.Call):
            return self.call(e, st)
        if isinstance(e, ast.Tuple):
            return tuple(self.ev(x, st) for x in e.elts)
        raise Undecided(f'expression {ast.unparse(e)[:40]}')

    def call(self, e, st):
        name = ast.unparse(e.func)
        if name == 'self.__add_augmenting_path' and len(e.args) == 1:
            u = self.ev(e.args[0], st)
            PU0, PV0 = st.env['PU'], st.env['PV']
            self.prove(st, f'callee-pre@{e.lineno}: __add_augmenting_path: representation invariant and -1 <= u < num_u',
                       z3.And(valid(PU0, PV0), z3.Or(u == -1, z3.And(0 <= u, u < NU))), e.lineno)
            k = next(_n)
            PU1, PV1 = z3.Const(f'PU!{k}', PU0.sort()), z3.Const(f'PV!{k}', PV0.sort()); r = z3.Bool(f'aug!{k}')
            D0c = st.env['DIST']; D1 = z3.Const(f'DIST!{k}', D0c.sort())
            st.pc.append(z3.If(r, after_true(PU0, PV0, PU1, PV1, u), z3.And(PU1 == PU0, PV1 == PV0)))
            st.pc.append(layered_frame(PU0, D0c, PU1, D1, u))
            st.env['PU'], st.env['PV'] = PU1, PV1
            st.env['DIST'] = D1
            return r
        if name == 'self.__connect_unmatched_vertices' and not e.args:
            if not connect_frame_ok():
                raise Undecided('__connect_unmatched_vertices stores into something else than self.dist')
            st.env['DIST'] = z3.Const(f'DIST!{next(_n)}', st.env['DIST'].sort())
            return z3.Bool(f'found!{next(_n)}')
        if name == 'range' and len(e.args) == 1:
            return ('range', self.ev(e.args[0], st))
        raise Undecided(f'call {name}')

    # ---- statements
    def block(self, stmts, states):
        for s in stmts:
            nxt = []
            for st in states:
                nxt += [st] if st.done else self.stmt(s, st)
            states = nxt
        return states

    def stmt(self, n, st):
        if isinstance(n, ast.Expr):
            if isinstance(n.value, ast.Constant):
                return [st]
            self.ev(n.value, st)
            return [st]
        if isinstance(n, ast.Assign) and len(n.targets) == 1:
            tg = n.targets[0]
            if isinstance(tg, ast.Name):
                if isinstance(n.value, ast.List) and not n.value.elts:
                    st.env[tg.id] = ('pairs', [])
                else:
                    st.env[tg.id] = self.ev(n.value, st)
                return [st]
            if isinstance(tg, ast.Subscript):
                base = self.ev(tg.value, st); k = self.ev(tg.slice, st); v = self.ev(n.value, st)
                if base == ('heap', 'self.matched_pairs_u'):
                    self.prove(st, f'index@{n.lineno}: {ast.unparse(tg)[:50]} in range', z3.And(0 <= k, k < NU), n.lineno)
                    st.env['PU'] = z3.Store(st.env['PU'], k, v); return [st]
                if base == ('heap', 'self.matched_pairs_v'):
                    self.prove(st, f'index@{n.lineno}: {ast.unparse(tg)[:50]} in range', z3.And(0 <= k, k < NV), n.lineno)
                    st.env['PV'] = z3.Store(st.env['PV'], k, v); return [st]
                if base == ('heap', 'self.dist'):
                    st.env['DIST'] = z3.Store(st.env['DIST'], k, v); return [st]
            if isinstance(tg, ast.Attribute):
                path = ast.unparse(tg); val = ast.unparse(n.value)
                if path == 'self.matched_pairs_u' and val == 'self.graph.num_u * [-1]':
                    st.env['PU'] = z3.K(I, z3.IntVal(-1)); return [st]
                if path == 'self.matched_pairs_v' and val == 'self.graph.num_v * [-1]':
                    st.env['PV'] = z3.K(I, z3.IntVal(-1)); return [st]
                if path == 'self.dist' and val == '{}':
                    st.env['DIST'] = z3.Const(f'DIST!{next(_n)}', st.env['DIST'].sort()); return [st]
            raise Undecided(f'assignment {ast.unparse(n)[:50]}')
        if isinstance(n, ast.Pass):
            return [st]
        if isinstance(n, ast.Return):
            st.ret = self.ev(n.value, st) if n.value is not None else None
            st.done = True
            return [st]
        if isinstance(n, ast.If):
            c = self.ev(n.test, st)
            out = []
            for cond, body in ((c, n.body), (z3.Not(c), n.orelse)):
                s2 = st.fork(); s2.pc.append(cond)
                if self.feasible(s2):
                    out += self.block(body, [s2])
            return out
        if isinstance(n, ast.For) and isinstance(n.target, ast.Name):
            return self.loop(n, st)
        if isinstance(n, ast.While):
            return self.loop(n, st)
        raise Undecided(f'statement {type(n).__name__} at line {n.lineno}')

    def loop(self, n, st):
        """invariant rule.  Invariant: the one stored in st.env['#inv'] (a function of the state), checked on entry and after every
        iteration that does not return; after the loop the heap is arbitrary up to the invariant"""
        inv = st.env.get('#inv')
        if inv is None:
            raise Undecided('loop without invariant')
        sig = loader.loop_signature(n)
        self.prove(st, f'invariant@{n.lineno}: {sig}: holds on entry', inv(st), n.lineno)
        def havoc(s):
            k = next(_n)
            for nm in ('PU', 'PV', 'DIST'):
                s.env[nm] = z3.Const(f'{nm}!{k}', s.env[nm].sort())
            for x in ast.walk(n):
                if isinstance(x, ast.Name) and isinstance(x.ctx, ast.Store) and x.id in s.env and not isinstance(s.env[x.id], tuple):
                    s.env[x.id] = z3.Int(f'{x.id}!{k}')
            s.pc.append(inv(s))
        head = st.fork(); havoc(head)
        if isinstance(n, ast.For):
            it = self.ev(n.iter, head)
            x = z3.Int(f'{n.target.id}!{next(_n)}')
            if isinstance(it, tuple) and it[0] == 'range':
                head.pc.append(z3.And(0 <= x, x < it[1]))
            elif isinstance(it, tuple) and it[0] == 'adj':
                head.pc.append(z3.And(E(it[1], x), 0 <= x, x < NV))        # an element of adj_u[u]: an edge, in range (assumed class invariant of the graph)
            else:
                raise Undecided('loop iterable')
            head.env[n.target.id] = x
            body = n.body
        else:
            c = self.ev(n.test, head)
            head.pc.append(c)
            body = n.body
        out = []
        for s in self.block(body, [head]):
            if s.done:
                out.append(s)
            else:
                self.prove(s, f'invariant@{n.lineno}: {sig}: preserved', inv(s), n.lineno)
        after = st.fork(); havoc(after)
        out.append(after)
        return out


def _parts(f):
    """conjuncts of a postcondition (And and If are split: a conjunction of several quantified clauses is proved clause by clause)"""
    if z3.is_and(f):
        return [p for ch in f.children() for p in _parts(ch)]
    if z3.is_app_of(f, z3.Z3_OP_ITE) and z3.is_bool(f):
        c, a, b = f.children()
        return [z3.Implies(c, p) for p in _parts(a)] + [z3.Implies(z3.Not(c), p) for p in _parts(b)]
    return [f]


_frame = {}

def connect_frame_ok():
    """syntactic frame of __connect_unmatched_vertices: every store goes to a local name or into self.dist[...]; no call of a
    method of self; calls only on the local queue"""
    if 'ok' in _frame:
        return _frame['ok']
    fn = loader.function('bipartite_graph.HopcroftKarp.__connect_unmatched_vertices')
    ok = True
    for x in ast.walk(fn):
        if isinstance(x, (ast.Subscript, ast.Attribute)) and isinstance(getattr(x, 'ctx', None), ast.Store):
            if not (isinstance(x, ast.Subscript) and ast.unparse(x.value) == 'self.dist'):
                ok = False
        if isinstance(x, ast.Call):
            f = ast.unparse(x.func)
            if f.startswith('self.') or f.split('.')[0] not in ('queue', 'Queue', 'range'):
                ok = False
        if isinstance(x, (ast.AugAssign, ast.Delete, ast.Global, ast.Nonlocal)):
            ok = False
    _frame['ok'] = ok
    return ok


def verify(prop='C18', tier='quick'):
    smt.EXTERNAL[0] = True
    out = []; t0 = time.time()
    ArrS = z3.ArraySort(I, I)
    base = [NU >= 1, NV >= 1]
    x, y = z3.Ints('bound_x bound_y')
    base.append(z3.ForAll([x, y], z3.Implies(E(x, y), z3.And(0 <= x, x < NU, 0 <= y, y < NV))))
    def V(name, status, detail, fn, kind='ensures'):
        v = Verdict(name, 'Z', status, detail, 0.0, fn, kind, 'z3'); v.confirm = ['HopcroftKarp', 'minimum_vertex_cover', 'matching']
        return v
    # ---- __add_augmenting_path against its contract
    fn = 'bipartite_graph.HopcroftKarp.__add_augmenting_path'
    try:
        fnode = loader.function(fn)
        obl = []
        ip = Interp(obl)
        PU0, PV0, D0 = z3.Const('PU0', ArrS), z3.Const('PV0', ArrS), z3.Const('DIST0', ArrS)
        u = z3.Int('u')
        st = St({'PU': PU0, 'PV': PV0, 'DIST': D0, 'u': u}, base + [valid(PU0, PV0), z3.Or(u == -1, z3.And(0 <= u, u < NU))])
        a_ = z3.Int('bound_a2')
        st.env['#inv'] = lambda s: z3.And(s.env['PU'] == PU0, s.env['PV'] == PV0,
                                          z3.ForAll([a_], z3.Implies(s.env['DIST'][a_] != D0[a_], D0[a_] > D0[u])))
        finals = ip.block(fnode.body, [st])
        for name, line, ok in obl:
            out.append(V(name, 'discharged' if ok else 'undecided', '' if ok else 'not provable', fn, 'invariant' if name.startswith('invariant') else 'safety'))
        res = []
        for s in finals:
            if not s.done or not ip.feasible(s):
                continue
            r = s.ret
            post = z3.If(r, after_true(PU0, PV0, s.env['PU'], s.env['PV'], u), z3.And(s.env['PU'] == PU0, s.env['PV'] == PV0)) if z3.is_expr(r) else \
                (after_true(PU0, PV0, s.env['PU'], s.env['PV'], u) if r is True else z3.And(s.env['PU'] == PU0, s.env['PV'] == PV0))
            post = z3.And(post, layered_frame(PU0, D0, s.env['PU'], s.env['DIST'], u))
            res.append(all(smt.check_unsat(s.pc + [z3.Not(part)], timeout=30000)[0] == 'unsat' for part in _parts(post)))
        out.append(V(f'augmenting_step_keeps_the_partner_tables_consistent [{len(res)} return paths]', 'discharged' if res and all(res) else 'undecided',
                     'contract of the recursive method (see module docstring); the recursive call is replaced by the contract' if res and all(res) else f'per path: {res}', fn))
        # vacuity: the path conditions are satisfiable at least up to the solver (a wrong postcondition must not be provable)
        can = []
        for s in finals:
            if s.done and z3.is_expr(s.ret) is False and s.ret is True:
                rr, _ = smt.check_unsat(s.pc + [z3.Not(z3.And(s.env['PU'] == PU0))], timeout=5000, try_cvc5=False)
                can.append(rr == 'unsat')
        out.append(V('canary', 'canary-verified' if can and all(can) else 'canary-ok', 'a successful augmentation does not leave the table unchanged', fn, 'canary'))
    except Undecided as e:
        out.append(V('executes_at_heap_level', 'undecided', f'outside fragment: {e}', fn, 'safety'))
    # ---- __call__: Valid is the invariant of both loops; the returned pairs form a matching
    fn = 'bipartite_graph.HopcroftKarp.__call__'
    try:
        fnode = loader.function(fn)
        obl = []
        ip = Interp(obl)
        PU0, PV0, D0 = z3.Const('PUc', ArrS), z3.Const('PVc', ArrS), z3.Const('DISTc', ArrS)
        st = St({'PU': PU0, 'PV': PV0, 'DIST': D0}, list(base))
        st.env['#inv'] = lambda s: valid(s.env['PU'], s.env['PV'])
        # the last loop builds the list of pairs: it is read off the final table instead of being executed (append of tuples)
        body = list(fnode.body)
        tail = body[-3:]
        shape_ok = (len(body) >= 4 and isinstance(tail[0], ast.Assign) and ast.unparse(tail[0]) == 'matching = []' and isinstance(tail[1], ast.For)
                    and ast.unparse(tail[1].iter) == 'range(self.graph.num_u)' and len(tail[1].body) == 1 and isinstance(tail[1].body[0], ast.If)
                    and ast.unparse(tail[1].body[0].test) == f'self.matched_pairs_u[{tail[1].target.id}] != -1'
                    and ast.unparse(tail[1].body[0].body[0]) == f'matching.append(({tail[1].target.id}, self.matched_pairs_u[{tail[1].target.id}]))'
                    and not tail[1].body[0].orelse and len(tail[1].body[0].body) == 1 and ast.unparse(tail[2]) == 'return matching')
        if not shape_ok:
            raise Undecided('the construction of the returned list changed')
        finals = ip.block(body[:-3], [st])
        for name, line, ok in obl:
            out.append(V(name, 'discharged' if ok else 'undecided', '' if ok else 'not provable', fn, 'invariant' if name.startswith('invariant') else 'safety'))
        res = []
        a, b = z3.Ints('bound_p bound_q')
        for s in finals:
            if s.done:
                res.append(False); continue
            PU, PV = s.env['PU'], s.env['PV']
            # matching = [(u, PU[u]) for u in range(nu) if PU[u] != -1]: pairs are edges, left vertices distinct by construction, right vertices distinct
            post = z3.And(z3.ForAll([a], z3.Implies(z3.And(0 <= a, a < NU, PU[a] != -1), z3.And(0 <= PU[a], PU[a] < NV, E(a, PU[a])))),
                          z3.ForAll([a, b], z3.Implies(z3.And(0 <= a, a < NU, 0 <= b, b < NU, a != b, PU[a] != -1, PU[b] != -1), PU[a] != PU[b])))
            rr, _ = smt.check_unsat(s.pc + [z3.Not(post)], timeout=60000)
            res.append(rr == 'unsat')
        out.append(V('returned_pairs_are_edges_and_no_vertex_occurs_twice', 'discharged' if res and all(res) else 'undecided',
                     'from the representation invariant of the two partner tables' if res and all(res) else f'per path: {res}', fn))
    except Undecided as e:
        out.append(V('executes_at_heap_level', 'undecided', f'outside fragment: {e}', fn, 'safety'))
    out.append(V('frame_of_connect_unmatched_vertices', 'discharged' if connect_frame_ok() else 'undecided',
                 'stores only into self.dist and local names (syntactic scan)', 'bipartite_graph.HopcroftKarp.__connect_unmatched_vertices', 'frame'))
    tot = time.time() - t0
    for v in out:
        v.seconds = tot / max(1, len(out))
    return out


if __name__ == '__main__':
    for v in verify():
        print(v.status, v.fn.split('.')[-1], v.name, '|', str(v.detail)[:120])
