/-
Sum rules used by vt/zqrv.py (engine Z, entry values of the block QR).  The generator treats

    dot Q R i j lo hi = ∑ c ∈ [lo, hi), Q i c * R c j

as an uninterpreted function and applies the rules below after z3 has proved their premises.
Indices are natural numbers here (all indices of the verification conditions are non-negative).
-/
import Mathlib

open Finset

namespace VT

variable {α : Type*} [CommRing α] {ι κ : Type*}

/-- the range sum that stands for one entry of a matrix product -/
def dot (Q : ι → ℕ → α) (R : ℕ → κ → α) (i : ι) (j : κ) (lo hi : ℕ) : α :=
  ∑ c ∈ Ico lo hi, Q i c * R c j

/-- (empty) -/
theorem dot_empty (Q : ι → ℕ → α) (R : ℕ → κ → α) (i : ι) (j : κ) (a : ℕ) : dot Q R i j a a = 0 := by
  simp [dot]

/-- (split) -/
theorem dot_split (Q : ι → ℕ → α) (R : ℕ → κ → α) (i : ι) (j : κ) {a b c : ℕ} (hab : a ≤ b) (hbc : b ≤ c) :
    dot Q R i j a c = dot Q R i j a b + dot Q R i j b c := by
  unfold dot
  exact (Finset.sum_Ico_consecutive (fun x => Q i x * R x j) hab hbc).symm

/-- (vanish) -/
theorem dot_vanish (Q : ι → ℕ → α) (R : ℕ → κ → α) (i : ι) (j : κ) {a b : ℕ}
    (h : ∀ c, a ≤ c → c < b → Q i c = 0 ∨ R c j = 0) : dot Q R i j a b = 0 := by
  unfold dot
  apply Finset.sum_eq_zero
  intro c hc
  rcases Finset.mem_Ico.mp hc with ⟨h1, h2⟩
  rcases h c h1 h2 with h0 | h0 <;> simp [h0]

/-- (congruence) both factors are re-indexed views of other matrices, with a common offset on the contracted axis -/
theorem dot_congr {ι' κ' : Type*} (Q' : ι' → ℕ → α) (R' : ℕ → κ' → α) (Q : ι → ℕ → α) (R : ℕ → κ → α)
    (i' : ι') (j' : κ') (i : ι) (j : κ) {a b : ℕ} (s : ℕ)
    (hQ : ∀ c, a ≤ c → c < b → Q' i' c = Q i (c + s)) (hR : ∀ c, a ≤ c → c < b → R' c j' = R (c + s) j) :
    dot Q' R' i' j' a b = dot Q R i j (a + s) (b + s) := by
  unfold dot
  rw [← Finset.sum_Ico_add' (fun x => Q i x * R x j) a b s]
  apply Finset.sum_congr rfl
  intro c hc
  rcases Finset.mem_Ico.mp hc with ⟨h1, h2⟩
  rw [hQ c h1 h2, hR c h1 h2]

/-- (K_qr through congruence) a stored block: the factors of `B = Qs * Rs` written at offsets `(i0, lo)` and `(lo, j0)` -/
theorem dot_block (Q : ℕ → ℕ → α) (R : ℕ → ℕ → α) (Qs : ℕ → ℕ → α) (Rs : ℕ → ℕ → α) (B : ℕ → ℕ → α)
    (i j i0 j0 lo k : ℕ)
    (hB : ∀ x y, dot Qs Rs x y 0 k = B x y)
    (hQ : ∀ c, lo ≤ c → c < lo + k → Q i c = Qs (i - i0) (c - lo))
    (hR : ∀ c, lo ≤ c → c < lo + k → R c j = Rs (c - lo) (j - j0)) :
    dot Q R i j lo (lo + k) = B (i - i0) (j - j0) := by
  rw [← hB]
  unfold dot
  have := Finset.sum_Ico_add' (fun x => Q i x * R x j) 0 k lo
  simp only [zero_add] at this
  rw [Nat.add_comm lo k, ← this]
  apply Finset.sum_congr rfl
  intro c hc
  rcases Finset.mem_Ico.mp hc with ⟨_, h2⟩
  have h3 : lo ≤ c + lo := Nat.le_add_left lo c
  have h4 : c + lo < lo + k := by omega
  rw [hQ (c + lo) h3 h4, hR (c + lo) h3 h4]
  simp

end VT
