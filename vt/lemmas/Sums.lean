/-
Sum rules used by vt/zqrv.py (engine Z, entry values of the block QR).  The generator treats

    dot Q R i j lo hi = ∑ c ∈ [lo, hi), Q i c * R c j

as an uninterpreted function and applies the rules below after z3 has proved their premises.  The Gram matrix of the
first factor is the same kind of range sum, `Gram c c' lo hi = dot (conjugate transpose of Q) Q c c' lo hi`.
Indices are natural numbers here (all indices of the verification conditions are non-negative).
-/
import Mathlib

open Finset

namespace VT

variable {α : Type*} [CommRing α] {ι κ : Type*}

/-- the range sum that stands for one entry of a matrix product -/
def dot (Q : ι → ℕ → α) (R : ℕ → κ → α) (i : ι) (j : κ) (lo hi : ℕ) : α :=
  ∑ c ∈ Ico lo hi, Q i c * R c j

/-- (empty) -/
theorem dot_empty (Q : ι → ℕ → α) (R : ℕ → κ → α) (i : ι) (j : κ) (a : ℕ) : dot Q R i j a a = 0 := by
  simp [dot]

/-- (split) -/
theorem dot_split (Q : ι → ℕ → α) (R : ℕ → κ → α) (i : ι) (j : κ) {a b c : ℕ} (hab : a ≤ b) (hbc : b ≤ c) :
    dot Q R i j a c = dot Q R i j a b + dot Q R i j b c := by
  unfold dot
  exact (Finset.sum_Ico_consecutive (fun x => Q i x * R x j) hab hbc).symm

/-- (vanish) -/
theorem dot_vanish (Q : ι → ℕ → α) (R : ℕ → κ → α) (i : ι) (j : κ) {a b : ℕ}
    (h : ∀ c, a ≤ c → c < b → Q i c = 0 ∨ R c j = 0) : dot Q R i j a b = 0 := by
  unfold dot
  apply Finset.sum_eq_zero
  intro c hc
  rcases Finset.mem_Ico.mp hc with ⟨h1, h2⟩
  rcases h c h1 h2 with h0 | h0 <;> simp [h0]

/-- (congruence) both factors are re-indexed views of other matrices, with a common offset on the contracted axis -/
theorem dot_congr {ι' κ' : Type*} (Q' : ι' → ℕ → α) (R' : ℕ → κ' → α) (Q : ι → ℕ → α) (R : ℕ → κ → α)
    (i' : ι') (j' : κ') (i : ι) (j : κ) {a b : ℕ} (s : ℕ)
    (hQ : ∀ c, a ≤ c → c < b → Q' i' c = Q i (c + s)) (hR : ∀ c, a ≤ c → c < b → R' c j' = R (c + s) j) :
    dot Q' R' i' j' a b = dot Q R i j (a + s) (b + s) := by
  unfold dot
  rw [← Finset.sum_Ico_add' (fun x => Q i x * R x j) a b s]
  apply Finset.sum_congr rfl
  intro c hc
  rcases Finset.mem_Ico.mp hc with ⟨h1, h2⟩
  rw [hQ c h1 h2, hR c h1 h2]

/-- (K_qr through congruence) a stored block: the factors of `B = Qs * Rs` written at offsets `(i0, lo)` and `(lo, j0)` -/
theorem dot_block (Q : ℕ → ℕ → α) (R : ℕ → ℕ → α) (Qs : ℕ → ℕ → α) (Rs : ℕ → ℕ → α) (B : ℕ → ℕ → α)
    (i j i0 j0 lo k : ℕ)
    (hB : ∀ x y, dot Qs Rs x y 0 k = B x y)
    (hQ : ∀ c, lo ≤ c → c < lo + k → Q i c = Qs (i - i0) (c - lo))
    (hR : ∀ c, lo ≤ c → c < lo + k → R c j = Rs (c - lo) (j - j0)) :
    dot Q R i j lo (lo + k) = B (i - i0) (j - j0) := by
  rw [← hB]
  unfold dot
  have := Finset.sum_Ico_add' (fun x => Q i x * R x j) 0 k lo
  simp only [zero_add] at this
  rw [Nat.add_comm lo k, ← this]
  apply Finset.sum_congr rfl
  intro c hc
  rcases Finset.mem_Ico.mp hc with ⟨_, h2⟩
  have h3 : lo ≤ c + lo := Nat.le_add_left lo c
  have h4 : c + lo < lo + k := by omega
  rw [hQ (c + lo) h3 h4, hR (c + lo) h3 h4]
  simp

/-- (single term) -/
theorem dot_single (Q : ι → ℕ → α) (R : ℕ → κ → α) (i : ι) (j : κ) (a : ℕ) : dot Q R i j a (a + 1) = Q i a * R a j := by
  simp [dot]

/-- (permutation) a sum over the full range `[0, m)` is invariant under a bijection `p` of the range (inverse `q`);
used for `Gram = dot (conjugate transpose of Q) Q` when the rows of `Q` are permuted -/
theorem dot_perm (Q : ι → ℕ → α) (R : ℕ → κ → α) (i : ι) (j : κ) (m : ℕ) (p q : ℕ → ℕ)
    (hp : ∀ x, x < m → p x < m) (hq : ∀ x, x < m → q x < m)
    (hpq : ∀ x, x < m → q (p x) = x) (hqp : ∀ x, x < m → p (q x) = x) :
    dot (fun i c => Q i (p c)) (fun c j => R (p c) j) i j 0 m = dot Q R i j 0 m := by
  unfold dot
  apply Finset.sum_bij (fun x _ => p x)
  · intro x hx
    rcases Finset.mem_Ico.mp hx with ⟨_, h2⟩
    exact Finset.mem_Ico.mpr ⟨Nat.zero_le _, hp x h2⟩
  · intro x hx y hy h
    rcases Finset.mem_Ico.mp hx with ⟨_, hx2⟩
    rcases Finset.mem_Ico.mp hy with ⟨_, hy2⟩
    have h' := congrArg q h
    simp only [hpq x hx2, hpq y hy2] at h'
    exact h'
  · intro y hy
    rcases Finset.mem_Ico.mp hy with ⟨_, hy2⟩
    exact ⟨q y, Finset.mem_Ico.mpr ⟨Nat.zero_le _, hq y hy2⟩, hqp y hy2⟩
  · intro x _
    rfl

/-- (subsequence) a strictly increasing index vector that enumerates exactly the kept indices of `[0, n)`: if the terms at the
indices that are not kept vanish, the sum over the kept ones is the full sum (truncated SVD at zero tolerance: only exact
zeros are discarded).  The range sum `Tri(i, j, lo, hi) = ∑ c, U i c * S c * V c j` of `vt/zqrv.py` is `dot` with the left
factor scaled by `S`, so the rules above apply to it unchanged. -/
theorem sum_subsequence (f : ℕ → α) (n cnt : ℕ) (idx : ℕ → ℕ) (kept : ℕ → Prop) [DecidablePred kept]
    (hinc : ∀ k l, k < l → l < cnt → idx k < idx l)
    (hrange : ∀ k, k < cnt → idx k < n ∧ kept (idx k))
    (hsurj : ∀ c, c < n → kept c → ∃ k, k < cnt ∧ idx k = c)
    (hzero : ∀ c, c < n → ¬ kept c → f c = 0) :
    ∑ k ∈ Finset.range cnt, f (idx k) = ∑ c ∈ Finset.range n, f c := by
  have h1 : ∑ c ∈ (Finset.range n).filter kept, f c = ∑ c ∈ Finset.range n, f c := by
    apply Finset.sum_filter_of_ne
    intro c hc hne
    by_contra hk
    exact hne (hzero c (Finset.mem_range.mp hc) hk)
  rw [← h1]
  apply Finset.sum_bij (fun k _ => idx k)
  · intro k hk
    have := hrange k (Finset.mem_range.mp hk)
    exact Finset.mem_filter.mpr ⟨Finset.mem_range.mpr this.1, this.2⟩
  · intro k hk l hl h
    have hk' := Finset.mem_range.mp hk
    have hl' := Finset.mem_range.mp hl
    rcases Nat.lt_trichotomy k l with h' | h' | h'
    · exact absurd h (Nat.ne_of_lt (hinc k l h' hl'))
    · exact h'
    · exact absurd h.symm (Nat.ne_of_lt (hinc l k h' hk'))
  · intro c hc
    rcases Finset.mem_filter.mp hc with ⟨hc1, hc2⟩
    rcases hsurj c (Finset.mem_range.mp hc1) hc2 with ⟨k, hk, hkc⟩
    exact ⟨k, Finset.mem_range.mpr hk, hkc⟩
  · intro k _
    rfl

end VT
