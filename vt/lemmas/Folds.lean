/-
Engine L: code-independent lemmas about left folds over lists of site tensors.
They carry the inductions over the number of sites L; the per-site tensor identities that appear as
hypotheses are discharged by engine T on the real code (vt/lemmas_t.py), and engine Z connects the
loops of the real functions to these folds.  No Mathlib needed (core List lemmas only).
-/

namespace VT

/-- L-pair: if two neighbouring sites are replaced by a pair with the same two-site action
    (same merged tensor), the fold over the whole chain is unchanged. -/
theorem foldl_pair {α β : Type} (step : β → α → β) (pre suf : List α) (a b a' b' : α) (u : β)
    (h : ∀ P, step (step P a') b' = step (step P a) b) :
    List.foldl step u (pre ++ [a', b'] ++ suf) = List.foldl step u (pre ++ [a, b] ++ suf) := by
  simp [List.foldl_append, h]

/-- replacing the last site by a scaled one scales the result (norm extraction at the end of a sweep) -/
theorem foldl_last_scale {α β : Type} (step : β → α → β) (smul : β → β) (pre : List α) (a a' : α) (u : β)
    (h : ∀ P, step P a = smul (step P a')) :
    List.foldl step u (pre ++ [a]) = smul (List.foldl step u (pre ++ [a'])) := by
  simp [List.foldl_append, h]

/-- replacing any single site by one whose action differs by a map that commutes with all later steps -/
theorem foldl_site_map {α β : Type} (step : β → α → β) (f : β → β) (pre suf : List α) (a a' : α) (u : β)
    (h : ∀ P, step P a = f (step P a'))
    (hc : ∀ P x, x ∈ suf → step (f P) x = f (step P x)) :
    List.foldl step u (pre ++ [a] ++ suf) = f (List.foldl step u (pre ++ [a'] ++ suf)) := by
  simp only [List.foldl_append, List.foldl_cons, List.foldl_nil, h]
  generalize step (List.foldl step u pre) a' = Q
  induction suf generalizing Q with
  | nil => simp
  | cons x xs ih =>
    simp only [List.foldl_cons]
    rw [hc Q x (by simp)]
    exact ih (fun P y hy => hc P y (by simp [hy])) (step Q x)

/-- L-iso: a predicate preserved by every step along the chain holds for the fold
    (e.g. "the Gram matrix of the prefix is the identity" along left-isometric sites). -/
theorem foldl_invariant {α β : Type} (step : β → α → β) (Good : β → Prop) (l : List α) (u : β)
    (h0 : Good u) (h : ∀ P a, a ∈ l → Good P → Good (step P a)) :
    Good (List.foldl step u l) := by
  induction l generalizing u with
  | nil => simpa using h0
  | cons x xs ih =>
    simp only [List.foldl_cons]
    exact ih (step u x) (h u x (by simp) h0) (fun P a ha hP => h P a (by simp [ha]) hP)

/-- lock-step folds over two chains of equal length related site by site
    (L-vdot, L-avg, L-tr, L-prod: e.g. "the running block equals the contraction of the two prefixes"). -/
theorem foldl_rel2 {α₁ α₂ β₁ β₂ : Type} (s₁ : β₁ → α₁ → β₁) (s₂ : β₂ → α₂ → β₂)
    (R : β₁ → β₂ → Prop) (S : α₁ → α₂ → Prop) (l : List (α₁ × α₂)) (u₁ : β₁) (u₂ : β₂)
    (hS : ∀ t, t ∈ l → S t.1 t.2) (h0 : R u₁ u₂)
    (h : ∀ P Q a b, S a b → R P Q → R (s₁ P a) (s₂ Q b)) :
    R (List.foldl s₁ u₁ (l.map (·.1))) (List.foldl s₂ u₂ (l.map (·.2))) := by
  induction l generalizing u₁ u₂ with
  | nil => simpa using h0
  | cons t ts ih =>
    simp only [List.map_cons, List.foldl_cons]
    exact ih _ _ (fun t' ht' => hS t' (by simp [ht'])) (h _ _ _ _ (hS t (by simp)) h0)

/-- lock-step folds over three chains (L-sum: prefix of the sum = concatenation of the prefixes;
    L-env / operator averages: bra, operator and ket chains). -/
theorem foldl_rel3 {α₁ α₂ α₃ β₁ β₂ β₃ : Type} (s₁ : β₁ → α₁ → β₁) (s₂ : β₂ → α₂ → β₂) (s₃ : β₃ → α₃ → β₃)
    (R : β₁ → β₂ → β₃ → Prop) (S : α₁ → α₂ → α₃ → Prop)
    (l : List (α₁ × α₂ × α₃)) (u₁ : β₁) (u₂ : β₂) (u₃ : β₃)
    (hS : ∀ t, t ∈ l → S t.1 t.2.1 t.2.2) (h0 : R u₁ u₂ u₃)
    (h : ∀ P Q T a b c, S a b c → R P Q T → R (s₁ P a) (s₂ Q b) (s₃ T c)) :
    R (List.foldl s₁ u₁ (l.map (·.1))) (List.foldl s₂ u₂ (l.map (·.2.1))) (List.foldl s₃ u₃ (l.map (·.2.2))) := by
  induction l generalizing u₁ u₂ u₃ with
  | nil => simpa using h0
  | cons t ts ih =>
    simp only [List.map_cons, List.foldl_cons]
    exact ih _ _ _ (fun t' ht' => hS t' (by simp [ht'])) (h _ _ _ _ _ _ (hS t (by simp)) h0)

/-- truncation bound used by C13: scheme for "a product of factors (1 - δ k) is at least 1 - Σ δ k":
    the pair (running product, running sum) satisfies `ok` after every step; the arithmetic step
    `0 ≤ d ≤ 1 → p ≥ 1 - s → 0 ≤ p ≤ 1 → p*(1-d) ≥ 1 - (s+d)` is discharged by engine Z (z3, nonlinear reals). -/
theorem prod_bound_scheme {γ : Type} (stepP stepS : γ → γ → γ) (ok : γ → γ → Prop) (one zero : γ) (l : List γ)
    (h0 : ok one zero)
    (h : ∀ p s d, d ∈ l → ok p s → ok (stepP p d) (stepS s d)) :
    ok (List.foldl stepP one l) (List.foldl stepS zero l) := by
  induction l generalizing one zero with
  | nil => simpa using h0
  | cons x xs ih =>
    simp only [List.foldl_cons]
    exact ih _ _ (h _ _ x (by simp) h0) (fun p s d hd hok => h p s d (by simp [hd]) hok)

end VT
