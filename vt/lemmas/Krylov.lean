/-
Facts about inner-product spaces used by vt/zkry.py (engine Z, Krylov relations of C14).  The generator treats vectors as
elements of an uninterpreted sort with the inner product `ip x y` (= np.vdot(x, y): conjugate-linear in x, linear in y) as the
only observation, and adds the facts below to a path condition -- the last three only after z3 has proved their premises.
Mathlib's `inner 𝕜 x y` has the same convention (conjugate-linear in the first argument).
-/
import Mathlib

open Finset

namespace VT

variable {E : Type*} [NormedAddCommGroup E] [InnerProductSpace ℂ E]

local notation "⟪" x ", " y "⟫" => @inner ℂ _ _ x y

/-- conjugate symmetry (vt/zkry.py: symmetry_facts) -/
theorem ip_conj_symm (x y : E) : ⟪x, y⟫ = (starRingEnd ℂ) ⟪y, x⟫ := (inner_conj_symm x y).symm

/-- linear combinations in the second argument (vt/zkry.py: materialize, ip) -/
theorem ip_lincomb_right {ι : Type*} (s : Finset ι) (c : ι → ℂ) (t : ι → E) (x : E) :
    ⟪x, ∑ k ∈ s, c k • t k⟫ = ∑ k ∈ s, c k * ⟪x, t k⟫ := by
  rw [inner_sum]
  exact sum_congr rfl (fun k _ => inner_smul_right _ _ _)

/-- linear combinations in the first argument: the coefficients are conjugated -/
theorem ip_lincomb_left {ι : Type*} (s : Finset ι) (c : ι → ℂ) (t : ι → E) (x : E) :
    ⟪∑ k ∈ s, c k • t k, x⟫ = ∑ k ∈ s, (starRingEnd ℂ) (c k) * ⟪t k, x⟫ := by
  rw [sum_inner]
  exact sum_congr rfl (fun k _ => inner_smul_left _ _ _)

/-- the norm (np.linalg.norm) and the inner product (vt/zkry.py: k_norm) -/
theorem ip_self_norm (u : E) : ⟪u, u⟫ = ((‖u‖ * ‖u‖ : ℝ) : ℂ) := by
  rw [inner_self_eq_norm_sq_to_K, sq]
  simp

/-- division by a real scalar (vt/zkry.py: k_binop, Div): `ip x (u / β) * β = ip x u` -/
theorem ip_div_right (x u : E) {β : ℝ} (h : β ≠ 0) : ⟪x, ((β : ℂ)⁻¹) • u⟫ * (β : ℂ) = ⟪x, u⟫ := by
  have hb : (β : ℂ) ≠ 0 := by exact_mod_cast h
  rw [inner_smul_right]; field_simp

theorem ip_div_left (x u : E) {β : ℝ} (h : β ≠ 0) : ⟪((β : ℂ)⁻¹) • u, x⟫ * (β : ℂ) = ⟪u, x⟫ := by
  have hb : (β : ℂ) ≠ 0 := by exact_mod_cast h
  rw [inner_smul_left]; simp; field_simp

/-- (normalized_has_norm_one) `u / ‖u‖` has inner product one with itself -/
theorem normalized_has_norm_one (u : E) (h : 0 < ‖u‖) : ⟪((‖u‖ : ℂ)⁻¹) • u, ((‖u‖ : ℂ)⁻¹) • u⟫ = 1 := by
  have hb : ((‖u‖ : ℝ) : ℂ) ≠ 0 := by exact_mod_cast h.ne'
  rw [inner_smul_left, inner_smul_right, ip_self_norm]
  simp
  field_simp

/-- (normalized_keeps_orthogonality) what is orthogonal to `u` is orthogonal to `u / β` -/
theorem normalized_keeps_orthogonality_right (x u : E) (c : ℂ) (h : ⟪x, u⟫ = 0) : ⟪x, c • u⟫ = 0 := by
  rw [inner_smul_right, h, mul_zero]

theorem normalized_keeps_orthogonality_left (x u : E) (c : ℂ) (h : ⟪u, x⟫ = 0) : ⟪c • u, x⟫ = 0 := by
  rw [inner_smul_left, h, mul_zero]

/-- (orthogonal_to_span) `p = ∑ i < r, c i • v i` (= `V[:r].T @ c`): a vector orthogonal to all `v i` is orthogonal to `p` -/
theorem orthogonal_to_span_right (v : ℕ → E) (c : ℕ → ℂ) (r : ℕ) (x : E) (h : ∀ i, i < r → ⟪x, v i⟫ = 0) :
    ⟪x, ∑ i ∈ range r, c i • v i⟫ = 0 := by
  rw [inner_sum]
  apply sum_eq_zero
  intro i hi
  rw [inner_smul_right, h i (mem_range.mp hi), mul_zero]

theorem orthogonal_to_span_left (v : ℕ → E) (c : ℕ → ℂ) (r : ℕ) (x : E) (h : ∀ i, i < r → ⟪v i, x⟫ = 0) :
    ⟪∑ i ∈ range r, c i • v i, x⟫ = 0 := by
  rw [sum_inner]
  apply sum_eq_zero
  intro i hi
  rw [inner_smul_left, h i (mem_range.mp hi), mul_zero]

/-- (coeff_of_orthonormal_sum) for orthonormal `v 0 .. v (r-1)` the inner product of `v i` with `∑ k < r, c k • v k` is `c i` -/
theorem coeff_of_orthonormal_sum (v : ℕ → E) (c : ℕ → ℂ) (r : ℕ)
    (horth : ∀ a b, a < r → b < r → ⟪v a, v b⟫ = if a = b then 1 else 0) (i : ℕ) (hi : i < r) :
    ⟪v i, ∑ k ∈ range r, c k • v k⟫ = c i := by
  rw [inner_sum]
  rw [sum_eq_single i]
  · rw [inner_smul_right, horth i i hi hi]; simp
  · intro b hb hne
    rw [inner_smul_right, horth i b hi (mem_range.mp hb)]
    simp [Ne.symm hne]
  · intro h; exact absurd (mem_range.mpr hi) h

theorem coeff_of_orthonormal_sum_left (v : ℕ → E) (c : ℕ → ℂ) (r : ℕ)
    (horth : ∀ a b, a < r → b < r → ⟪v a, v b⟫ = if a = b then 1 else 0) (i : ℕ) (hi : i < r) :
    ⟪∑ k ∈ range r, c k • v k, v i⟫ = (starRingEnd ℂ) (c i) := by
  rw [← inner_conj_symm, coeff_of_orthonormal_sum v c r horth i hi]

/-- the coefficients used by the code: `(V[:r].conj() @ w) i = ip (v i) w`; with them `w - p` is orthogonal to every `v i` -/
theorem projection_removes_components (v : ℕ → E) (w : E) (r : ℕ)
    (horth : ∀ a b, a < r → b < r → ⟪v a, v b⟫ = if a = b then 1 else 0) (i : ℕ) (hi : i < r) :
    ⟪v i, w - ∑ k ∈ range r, ⟪v k, w⟫ • v k⟫ = 0 := by
  rw [inner_sub_right, coeff_of_orthonormal_sum v (fun k => ⟪v k, w⟫) r horth i hi, sub_self]

/-- (isometry_of_orthonormal_columns) `x ↦ ∑ k < m, x k • v k` (= `V @ x` for the matrix with columns `v k`) preserves inner
products when the `v k` are orthonormal: this is how the clause `vectors_orthonormal` of `lanczos_iteration` is used by its callers -/
theorem isometry_of_orthonormal_columns (v : ℕ → E) (a b : ℕ → ℂ) (m : ℕ)
    (horth : ∀ p q, p < m → q < m → ⟪v p, v q⟫ = if p = q then 1 else 0) :
    ⟪∑ k ∈ range m, a k • v k, ∑ l ∈ range m, b l • v l⟫ = ∑ k ∈ range m, (starRingEnd ℂ) (a k) * b k := by
  rw [sum_inner]
  apply sum_congr rfl
  intro k hk
  rw [inner_smul_left, coeff_of_orthonormal_sum v b m horth k (mem_range.mp hk)]

/-- (projected_map_operator_form) for a linear map `A` with `H k l = ip (v k) (A (v l))`:
    `ip (V a) (A (V b)) = ∑ k l, conj (a k) * H k l * b l`, i.e. the inner product of `a` with `H b` -/
theorem projected_map_operator_form (A : E →ₗ[ℂ] E) (v : ℕ → E) (a b : ℕ → ℂ) (m : ℕ) :
    ⟪∑ k ∈ range m, a k • v k, A (∑ l ∈ range m, b l • v l)⟫
      = ∑ k ∈ range m, ∑ l ∈ range m, (starRingEnd ℂ) (a k) * (⟪v k, A (v l)⟫ * b l) := by
  rw [map_sum, sum_inner]
  apply sum_congr rfl
  intro k _
  rw [inner_smul_left, inner_sum, mul_sum]
  apply sum_congr rfl
  intro l _
  rw [map_smul, inner_smul_right]
  ring

/-- (hadamard_constant_modulus) entrywise product with coefficients of constant squared modulus `g` -/
theorem hadamard_constant_modulus (c x : ℕ → ℂ) (m : ℕ) (g : ℝ) (h : ∀ k, k < m → Complex.normSq (c k) = g) :
    ∑ k ∈ range m, Complex.normSq (c k * x k) = g * ∑ k ∈ range m, Complex.normSq (x k) := by
  rw [mul_sum]
  apply sum_congr rfl
  intro k hk
  rw [Complex.normSq_mul, h k (mem_range.mp hk)]

/-- squared modulus of a product and of the complex exponential (vt/zkry.py: _mod2_of, k_exp) -/
theorem normSq_smul (c z : ℂ) : Complex.normSq (c * z) = Complex.normSq c * Complex.normSq z := Complex.normSq_mul c z

theorem normSq_exp (z : ℂ) : Complex.normSq (Complex.exp z) = Real.exp (2 * z.re) := by
  rw [Complex.normSq_eq_norm_sq, Complex.norm_exp, sq, ← Real.exp_add]
  ring_nf

end VT
