import Mathlib.Data.Finset.Card
import Mathlib.Data.Finset.Prod
import Mathlib.Data.Finset.Sum
import Mathlib.Tactic

open Finset

/-- Weak duality between matchings and vertex covers in a bipartite graph given by an edge set. -/
theorem matching_le_cover {U V : Type} [DecidableEq U] [DecidableEq V]
    (E M : Finset (U × V)) (CU : Finset U) (CV : Finset V)
    (hME : M ⊆ E)
    (hinjU : ∀ e ∈ M, ∀ f ∈ M, e.1 = f.1 → e = f)
    (hinjV : ∀ e ∈ M, ∀ f ∈ M, e.2 = f.2 → e = f)
    (hcover : ∀ e ∈ E, e.1 ∈ CU ∨ e.2 ∈ CV) :
    M.card ≤ CU.card + CV.card := by
  classical
  have : M.card ≤ (CU.disjSum CV).card := by
    apply Finset.card_le_card_of_injOn (fun e => if e.1 ∈ CU then Sum.inl e.1 else Sum.inr e.2)
    · intro e he
      have hc := hcover e (hME he)
      by_cases h : e.1 ∈ CU
      · simp [h]
      · have h2 : e.2 ∈ CV := by tauto
        simp [h, h2]
    · intro e he f hf hef
      simp only at hef
      by_cases h1 : e.1 ∈ CU <;> by_cases h2 : f.1 ∈ CU <;> simp [h1, h2] at hef
      · exact hinjU e he f hf hef
      · exact hinjV e he f hf hef
  simpa [Finset.card_disjSum] using this

/-- Equal sizes certify optimality of both. -/
theorem optimal_of_card_eq {U V : Type} [DecidableEq U] [DecidableEq V]
    (E M : Finset (U × V)) (CU : Finset U) (CV : Finset V)
    (hME : M ⊆ E)
    (hinjU : ∀ e ∈ M, ∀ f ∈ M, e.1 = f.1 → e = f)
    (hinjV : ∀ e ∈ M, ∀ f ∈ M, e.2 = f.2 → e = f)
    (hcover : ∀ e ∈ E, e.1 ∈ CU ∨ e.2 ∈ CV)
    (heq : M.card = CU.card + CV.card) :
    (∀ M' : Finset (U × V), M' ⊆ E →
        (∀ e ∈ M', ∀ f ∈ M', e.1 = f.1 → e = f) → (∀ e ∈ M', ∀ f ∈ M', e.2 = f.2 → e = f) →
        M'.card ≤ M.card) ∧
    (∀ (CU' : Finset U) (CV' : Finset V), (∀ e ∈ E, e.1 ∈ CU' ∨ e.2 ∈ CV') →
        CU.card + CV.card ≤ CU'.card + CV'.card) := by
  constructor
  · intro M' h1 h2 h3
    rw [heq]
    exact matching_le_cover E M' CU CV h1 h2 h3 hcover
  · intro CU' CV' hc
    rw [← heq]
    exact matching_le_cover E M CU' CV' hME hinjU hinjV hc
