"""Engine T: a calculus of tensors with symbolic shapes.

A SymTensor has a list of axes; each axis is a *group* (tuple) of atomic index tokens, so that a
row-major `reshape` is a regrouping of the flattened token list.  Its value is a finite sum of
Terms; a Term is  coeff * sum over bound indices of  prod atoms * prod deltas,  where an atom is
(name, conj, args) with args a tuple of token groups (the axes of the named atomic tensor).

Dimensions are atoms (strings) or SumDim (disjoint union, produced by np.block / np.concatenate);
an index into a SumDim can be restricted to one summand with a Part token.

Everything here is exact algebra over a commutative ring with an involution (conj); nothing is
said about rounding.  Equality is decided by normalisation + term isomorphism and every positive
answer can be cross-checked numerically with `numeric_eval` on random instantiations.
"""
import itertools
from fractions import Fraction


class SumDim:
    """disjoint union of dimensions"""
    def __init__(self, parts):
        self.parts = tuple(parts)
    def __eq__(self, o):
        return isinstance(o, SumDim) and self.parts == o.parts
    def __hash__(self):
        return hash(('SumDim', self.parts))
    def __repr__(self):
        return '(' + '+'.join(map(str, self.parts)) + ')'
    def __lt__(self, o):
        return repr(self) < repr(o)


def _dimkey(d):
    return repr(d)


class Idx:
    _n = 0
    __slots__ = ('id', 'dim', 'name')
    def __init__(self, dim, name=None):
        Idx._n += 1
        self.id = Idx._n
        self.dim = dim
        self.name = name or f'k{self.id}'
    def __repr__(self):
        return f'{self.name}:{self.dim}'


class Part:
    """token: union index `idx` restricted to summand k (position = offset inside the summand)"""
    __slots__ = ('idx', 'k')
    def __init__(self, idx, k):
        assert isinstance(idx.dim, SumDim)
        self.idx = idx
        self.k = k
    @property
    def dim(self):
        return self.idx.dim.parts[self.k]
    def __repr__(self):
        return f'{self.idx.name}|{self.k}'


def tok_idx(t):
    return t.idx if isinstance(t, Part) else t

def tok_dim(t):
    return t.dim

def tok_map(t, m):
    """rename token by index map m (Idx -> token)"""
    if isinstance(t, Part):
        r = m.get(t.idx, t.idx)
        if isinstance(r, Part):
            raise ValueError('nested Part')
        return Part(r, t.k) if r is not t.idx else t
    return m.get(t, t)

def tok_key(t):
    return (t.idx.id, t.k) if isinstance(t, Part) else (t.id, -1)


class Term:
    __slots__ = ('coeff', 'bound', 'atoms', 'deltas')
    def __init__(self, coeff, bound, atoms, deltas=()):
        self.coeff = coeff
        self.bound = list(bound)          # Idx (never Part)
        self.atoms = list(atoms)          # (name, conj, args) ; args = tuple of tuples of tokens
        self.deltas = list(deltas)        # (token, token)
    def rename(self, m):
        return Term(self.coeff, [m.get(i, i) for i in self.bound],
                    [(n, c, tuple(tuple(tok_map(i, m) for i in ax) for ax in args)) for n, c, args in self.atoms],
                    [(tok_map(a, m), tok_map(b, m)) for a, b in self.deltas])
    def tokens(self):
        for n, c, args in self.atoms:
            for ax in args:
                yield from ax
        for a, b in self.deltas:
            yield a
            yield b
    def copy(self):
        return Term(self.coeff, self.bound, self.atoms, self.deltas)
    def __repr__(self):
        at = ' '.join(f"{n}{'*' if c else ''}[{','.join('('+' '.join(map(repr, ax))+')' for ax in args)}]" for n, c, args in self.atoms)
        dl = ' '.join(f'd({a!r},{b!r})' for a, b in self.deltas)
        return f'{self.coeff}*S{self.bound} {at} {dl}'


class SymTensor:
    is_symtensor = True
    def __init__(self, axes, terms, kind='complex'):
        self.axes = [tuple(a) for a in axes]
        self.terms = list(terms)
        self.kind = kind
    @property
    def ndim(self):
        return len(self.axes)
    @property
    def shape(self):
        return tuple(Dim(tuple(tok_dim(i) for i in ax)) for ax in self.axes)
    def rename(self, m):
        return SymTensor([tuple(tok_map(i, m) for i in ax) for ax in self.axes], [t.rename(m) for t in self.terms], self.kind)
    def clone(self):
        m = {}
        for ax in self.axes:
            for i in ax:
                i = tok_idx(i)
                if i not in m:
                    m[i] = Idx(i.dim)
        for t in self.terms:
            for i in t.bound:
                if i not in m:
                    m[i] = Idx(i.dim)
        return self.rename(m)
    def __repr__(self):
        return f'SymTensor(axes={self.axes}, terms={self.terms})'


class Dim:
    """a dimension = product (monomial) of atomic dimensions; ints multiply into `const`"""
    def __init__(self, atoms=(), const=1):
        at = []
        for a in atoms:
            if isinstance(a, int):
                const *= a
            else:
                at.append(a)
        self.atoms = tuple(sorted(at, key=_dimkey))
        self.const = const
        self.ordered = tuple(at)     # original order (needed for row-major regrouping)
    def __mul__(self, o):
        if isinstance(o, int):
            return Dim(self.ordered, self.const * o)
        return Dim(self.ordered + o.ordered, self.const * o.const)
    __rmul__ = __mul__
    def __eq__(self, o):
        if isinstance(o, int):
            return not self.atoms and self.const == o
        return isinstance(o, Dim) and self.atoms == o.atoms and self.const == o.const
    def __hash__(self):
        return hash((self.atoms, self.const))
    def __repr__(self):
        s = '*'.join(map(str, self.ordered)) or '1'
        return s if self.const == 1 else f'{self.const}*{s}'


ONE = Fraction(1)


def inp(name, dims, kind='complex'):
    """atomic input tensor with one atomic index per axis"""
    idx = [Idx(d) for d in dims]
    return SymTensor([(i,) for i in idx], [Term(ONE, [], [(name, False, tuple((i,) for i in idx))])], kind)

def scalar(name, kind='complex'):
    return SymTensor([], [Term(ONE, [], [(name, False, ())])], kind)

def const(c):
    return SymTensor([], [Term(Fraction(c), [], [])] if c != 0 else [], 'real')

def zeros(dims):
    idx = [Idx(d) for d in dims]
    return SymTensor([(i,) for i in idx], [], 'real')

def identity(dim):
    a, b = Idx(dim), Idx(dim)
    return SymTensor([(a,), (b,)], [Term(ONE, [], [], [(a, b)])], 'real')

def ones1(ndim):
    """np.array([[[1]]]) : all axes of dimension 1"""
    idx = [Idx(1) for _ in range(ndim)]
    return SymTensor([(i,) for i in idx], [Term(ONE, [], [])], 'real')


# ---------------------------------------------------------------------------------------------
# normalisation helpers

def _resolve(t):
    """eliminate deltas that involve a bound index; resolve bound union indices into their parts.
    returns a list of terms (possibly empty = zero, or several after splitting)."""
    t = t.copy()
    t.bound = list(t.bound); t.atoms = list(t.atoms); t.deltas = list(t.deltas)
    changed = True
    while changed:
        changed = False
        for (a, b) in list(t.deltas):
            if a is b or (isinstance(a, Part) and isinstance(b, Part) and a.idx is b.idx and a.k == b.k):
                t.deltas.remove((a, b)); changed = True; break
            if isinstance(a, Part) or isinstance(b, Part):
                continue
            tgt = None
            if b in t.bound:
                tgt = (b, a)
            elif a in t.bound:
                tgt = (a, b)
            if tgt:
                t.deltas.remove((a, b)); t.bound.remove(tgt[0])
                t2 = t.rename({tgt[0]: tgt[1]})
                t.bound, t.atoms, t.deltas = t2.bound, t2.atoms, t2.deltas
                changed = True; break
    # dimension-1 indices: delta between two dim-1 tokens is 1
    t.deltas = [(a, b) for a, b in t.deltas if not (tok_dim(a) == 1 and tok_dim(b) == 1)]
    # bound union indices
    for b in list(t.bound):
        if isinstance(b.dim, SumDim):
            ks = set()
            plain = False
            for tok in t.tokens():
                if isinstance(tok, Part) and tok.idx is b:
                    ks.add(tok.k)
                elif tok is b:
                    plain = True
            if len(ks) > 1:
                return []
            out = []
            for k in (ks if ks else range(len(b.dim.parts))):
                nb = Idx(b.dim.parts[k])
                def f(tok):
                    if isinstance(tok, Part) and tok.idx is b:
                        return nb
                    if tok is b:
                        return nb      # plain occurrence restricted to part k
                    return tok
                if plain:
                    # a plain occurrence of a union index next to a Part occurrence cannot be expressed
                    # with plain tokens of the summand; keep it only in deltas against other union idx
                    raise NotImplementedError('plain occurrence of bound union index')
                nt = Term(t.coeff, [x for x in t.bound if x is not b] + [nb],
                          [(n, c, tuple(tuple(f(i) for i in ax) for ax in args)) for n, c, args in t.atoms],
                          [(f(x), f(y)) for x, y in t.deltas])
                out += _resolve(nt)
            return out
    # unused bound indices of dimension 1 vanish; other unused bound indices give a factor (kept explicit)
    used = {id(tok_idx(tok)) for tok in t.tokens()}
    t.bound = [b for b in t.bound if id(b) in used or b.dim != 1]
    return [t]


def _signature(t, free_ids):
    """colour refinement for the bound indices of a term"""
    occ = {}
    for ai, (n, c, args) in enumerate(t.atoms):
        for p, ax in enumerate(args):
            for q, tok in enumerate(ax):
                i = tok_idx(tok)
                k = tok.k if isinstance(tok, Part) else -1
                occ.setdefault(id(i), []).append((n, c, p, q, k, len(ax)))
    for (a, b) in t.deltas:
        for tok in (a, b):
            occ.setdefault(id(tok_idx(tok)), []).append(('#delta',))
    return {id(b): (_dimkey(b.dim), tuple(sorted(occ.get(id(b), [])))) for b in t.bound}


def _term_key(t, m):
    def tk(tok):
        if tok_dim(tok) == 1:
            return (0, -2)
        i = tok_idx(tok)
        i2 = m.get(i, i)
        return (i2.id, tok.k if isinstance(tok, Part) else -1)
    atoms = sorted((n, c, tuple(tuple(tk(i) for i in ax) for ax in args)) for n, c, args in t.atoms)
    deltas = sorted(tuple(sorted((tk(a), tk(b)))) for a, b in t.deltas)
    return (atoms, deltas)


def term_iso(t1, t2, m0):
    """is t2 (after mapping its free indices by m0) equal to t1 up to renaming of bound indices
    (coefficients are not compared).  Returns the bijection or None."""
    if len(t1.bound) != len(t2.bound) or len(t1.atoms) != len(t2.atoms) or len(t1.deltas) != len(t2.deltas):
        return None
    if sorted((n, c, tuple(len(ax) for ax in args)) for n, c, args in t1.atoms) != \
       sorted((n, c, tuple(len(ax) for ax in args)) for n, c, args in t2.atoms):
        return None
    s1 = _signature(t1, None); s2 = _signature(t2, None)
    g1 = {}; g2 = {}
    for b in t1.bound:
        g1.setdefault(s1[id(b)], []).append(b)
    for b in t2.bound:
        g2.setdefault(s2[id(b)], []).append(b)
    if set(g1) != set(g2) or any(len(g1[k]) != len(g2[k]) for k in g1):
        return None
    target = _term_key(t1, {})
    keys = sorted(g1, key=repr)
    def rec(ki, m):
        if ki == len(keys):
            return dict(m) if _term_key(t2, m) == target else None
        k = keys[ki]
        for perm in itertools.permutations(g1[k]):
            m2 = dict(m); m2.update(zip(g2[k], perm))
            r = rec(ki + 1, m2)
            if r is not None:
                return r
        return None
    return rec(0, dict(m0))


def normalise(tensor):
    """resolve deltas/unions, merge isomorphic terms, drop zero coefficients"""
    terms = []
    for t in tensor.terms:
        terms += _resolve(t)
    out = []
    for t in terms:
        if t.coeff == 0:
            continue
        for u in out:
            if term_iso(u, t, {}) is not None:
                u.coeff = u.coeff + t.coeff
                break
        else:
            out.append(t.copy())
    out = [t for t in out if t.coeff != 0]
    return SymTensor(tensor.axes, out, tensor.kind)


def shapes_equal(a, b):
    return len(a.axes) == len(b.axes) and all(
        [_dimkey(tok_dim(i)) for i in ax] == [_dimkey(tok_dim(j)) for j in bx] or
        Dim(tuple(tok_dim(i) for i in ax)) == Dim(tuple(tok_dim(j) for j in bx)) and _regroupable(ax, bx)
        for ax, bx in zip(a.axes, b.axes))

def _regroupable(ax, bx):
    # dimension-1 tokens may be dropped when comparing groups
    return [_dimkey(tok_dim(i)) for i in ax if tok_dim(i) != 1] == [_dimkey(tok_dim(j)) for j in bx if tok_dim(j) != 1]


def equal(a, b, explain=None):
    """decide a == b entry-wise for all dimension values; `explain` (list) receives a certificate
    or a reason"""
    if len(a.axes) != len(b.axes):
        if explain is not None: explain.append(f'rank differs: {a.shape} vs {b.shape}')
        return False
    m0 = {}
    extra_deltas = []
    for ax, bx in zip(a.axes, b.axes):
        ax1 = [i for i in ax if tok_dim(i) != 1]; bx1 = [j for j in bx if tok_dim(j) != 1]
        if [_dimkey(tok_dim(i)) for i in ax1] != [_dimkey(tok_dim(j)) for j in bx1]:
            if explain is not None: explain.append(f'shape differs: {a.shape} vs {b.shape}')
            return False
        for i, j in zip(ax1, bx1):
            if isinstance(i, Part) != isinstance(j, Part):
                if explain is not None: explain.append('free union restriction differs')
                return False
            m0[tok_idx(j)] = tok_idx(i)
    a = normalise(a)
    b = normalise(b.rename(m0))
    rest = list(enumerate(b.terms))
    cert = []; raw = []
    for li, t in enumerate(a.terms):
        for k, (ri, u) in enumerate(rest):
            m = term_iso(t, u, {})
            if m is not None and t.coeff == u.coeff:
                cert.append({'lhs': repr(t), 'rhs': repr(u), 'bijection': {repr(x): repr(y) for x, y in m.items()}})
                raw.append((li, ri, {id(x): id(y) for x, y in m.items() if any(x is bb for bb in u.bound)}))
                rest.pop(k)
                break
        else:
            if explain is not None: explain.append(f'no partner for lhs term {t!r}; rhs terms left: {[u for _, u in rest]!r}')
            return False
    if rest:
        if explain is not None: explain.append(f'unmatched rhs terms {[u for _, u in rest]!r}')
        return False
    # independent re-check of the certificate
    from . import certcheck
    ok, why = certcheck.check(a.terms, b.terms, raw)
    if not ok:
        if explain is not None: explain.append(f'certificate rejected by the independent checker: {why}')
        raise NotImplementedError(f'certificate rejected by the independent checker: {why}')
    if explain is not None: explain.append({'certificate': cert, 'rechecked': why})
    return True


# ---------------------------------------------------------------------------------------------
# operations

def _mul_terms(ta, tb):
    return Term(ta.coeff * tb.coeff, ta.bound + tb.bound, ta.atoms + tb.atoms, ta.deltas + tb.deltas)

def _kind_join(a, b):
    order = {'int': 0, 'real': 1, 'complex': 2}
    return a if order[a] >= order[b] else b


def contract(a, b, pairs):
    """pair a.axes[p] with b.axes[q]; result axes = remaining of a then remaining of b"""
    a = a.clone(); b = b.clone(); m = {}; newbound = []
    for p, q in pairs:
        ga = [i for i in a.axes[p]]; gb = [i for i in b.axes[q]]
        ga1 = [i for i in ga if tok_dim(i) != 1]; gb1 = [i for i in gb if tok_dim(i) != 1]
        if [_dimkey(tok_dim(i)) for i in ga1] != [_dimkey(tok_dim(i)) for i in gb1]:
            raise ShapeError(f'axis mismatch {ga} vs {gb}')
        for i, j in zip(ga1, gb1):
            if isinstance(i, Part) or isinstance(j, Part):
                raise NotImplementedError('contraction over restricted token')
            m[j] = i; newbound.append(i)
    b = b.rename(m)
    pa = [p for p, _ in pairs]; pb = [q for _, q in pairs]
    axes = [g for k, g in enumerate(a.axes) if k not in pa] + [g for k, g in enumerate(b.axes) if k not in pb]
    terms = []
    for ta in a.terms:
        for tb in b.terms:
            t = _mul_terms(ta, tb); t.bound = t.bound + newbound
            terms += _resolve(t)
    return SymTensor(axes, terms, _kind_join(a.kind, b.kind))


class ShapeError(Exception):
    pass


def tensordot(a, b, axes=2):
    if isinstance(axes, int):
        pa = list(range(a.ndim - axes, a.ndim)); pb = list(range(axes))
    else:
        pa, pb = axes
        if isinstance(pa, int):
            pa, pb = [pa], [pb]
        pa = [p % a.ndim for p in pa]; pb = [q % b.ndim for q in pb]
    if len(pa) != len(pb):
        raise ShapeError('tensordot axes length mismatch')
    return contract(a, b, list(zip(pa, pb)))

def matmul(a, b):
    if a.ndim == 2 and b.ndim == 2:
        return contract(a, b, [(1, 0)])
    if a.ndim == 2 and b.ndim == 1:
        return contract(a, b, [(1, 0)])
    if a.ndim == 1 and b.ndim == 2:
        return contract(a, b, [(0, 0)])
    raise NotImplementedError('matmul ranks')

def transpose(a, perm=None):
    if perm is None:
        perm = tuple(reversed(range(a.ndim)))
    if sorted(perm) != list(range(a.ndim)):
        raise ShapeError(f'bad permutation {perm} for rank {a.ndim}')
    return SymTensor([a.axes[p] for p in perm], a.terms, a.kind)

def conj(a):
    def cj(c):
        return c.conjugate() if hasattr(c, 'conjugate') else c
    return SymTensor(a.axes, [Term(cj(t.coeff), t.bound, [(n, not c, args) for n, c, args in t.atoms], t.deltas)
                              for t in a.terms], a.kind)

def scale(a, c):
    return SymTensor(a.axes, [Term(t.coeff * Fraction(c), t.bound, t.atoms, t.deltas) for t in a.terms], a.kind)

def neg(a):
    return scale(a, -1)

def add(a, b):
    if a.ndim != b.ndim:
        raise ShapeError('add: rank mismatch')
    b = b.clone(); m = {}
    for ax, bx in zip(a.axes, b.axes):
        ax1 = [i for i in ax if tok_dim(i) != 1]; bx1 = [j for j in bx if tok_dim(j) != 1]
        if [_dimkey(tok_dim(i)) for i in ax1] != [_dimkey(tok_dim(j)) for j in bx1]:
            raise ShapeError(f'add: shape mismatch {a.shape} vs {b.shape}')
        for i, j in zip(ax1, bx1):
            m[tok_idx(j)] = tok_idx(i)
    b = b.rename(m)
    return SymTensor(a.axes, a.terms + b.terms, _kind_join(a.kind, b.kind))

def sub(a, b):
    return add(a, neg(b))

def mul_scalar(a, s):
    """product with a rank-0 SymTensor"""
    assert s.ndim == 0
    a = a.clone() if False else a
    terms = [_mul_terms(ta, ts.rename({})) for ta in a.terms for ts in s.clone().terms]
    return SymTensor(a.axes, terms, _kind_join(a.kind, s.kind))

def outer(a, b):
    return contract(a, b, [])

def broadcast_mul(a, v, axis):
    """a * v where the 1-D tensor v is broadcast along `axis` of a (entry-wise product)"""
    a = a.clone(); v = v.clone()
    assert v.ndim == 1
    ga = [i for i in a.axes[axis] if tok_dim(i) != 1]; gv = [i for i in v.axes[0] if tok_dim(i) != 1]
    if [_dimkey(tok_dim(i)) for i in ga] != [_dimkey(tok_dim(i)) for i in gv]:
        raise ShapeError(f'broadcast mismatch {ga} vs {gv}')
    v = v.rename({tok_idx(j): tok_idx(i) for i, j in zip(ga, gv)})
    terms = [_mul_terms(ta, tv) for ta in a.terms for tv in v.terms]
    return SymTensor(a.axes, terms, _kind_join(a.kind, v.kind))

def reshape(a, target):
    """target: tuple of Dim (or ints); must be a regrouping of the flattened token list (row-major)"""
    flat = [i for ax in a.axes for i in ax]
    axes = []; pos = 0
    target = [t if isinstance(t, Dim) else Dim((), t) for t in target]
    for k, mono in enumerate(target):
        grp = []
        need = mono
        while True:
            cur = Dim(tuple(tok_dim(i) for i in grp))
            if cur == need:
                # absorb trailing dimension-1 tokens greedily only if next target is not 1
                break
            if pos >= len(flat):
                raise ShapeError(f'reshape {a.shape} -> {target} is not a regrouping of atomic axes')
            grp.append(flat[pos]); pos += 1
        axes.append(tuple(grp))
    # left-over tokens must all have dimension 1
    rest = flat[pos:]
    if any(tok_dim(i) != 1 for i in rest):
        raise ShapeError(f'reshape {a.shape} -> {target} is not a regrouping of atomic axes')
    if rest:
        axes[-1] = axes[-1] + tuple(rest)
    return SymTensor(axes, a.terms, a.kind)

def flatten(a):
    return SymTensor([tuple(i for ax in a.axes for i in ax)], a.terms, a.kind)

def einsum_lists(*ops):
    """np.einsum(A, la, B, lb, ..., lout)"""
    *pairs, lout = ops
    tens = [t.clone() for t in pairs[0::2]]; labs = pairs[1::2]
    lab2ax = {}; m = {}
    for t, ls in zip(tens, labs):
        if len(ls) != t.ndim:
            raise ShapeError('einsum: label count != rank')
        for ax, l in zip(t.axes, ls):
            if l in lab2ax:
                g0 = [i for i in lab2ax[l] if tok_dim(i) != 1]; g1 = [i for i in ax if tok_dim(i) != 1]
                if [_dimkey(tok_dim(i)) for i in g0] != [_dimkey(tok_dim(i)) for i in g1]:
                    raise ShapeError(f'einsum: label {l} dims differ')
                for i, j in zip(g0, g1):
                    m[tok_idx(j)] = tok_idx(i)
            else:
                lab2ax[l] = ax
    tens = [t.rename(m) for t in tens]
    for l in lout:
        if l not in lab2ax:
            raise ShapeError('einsum: unknown output label')
    bound = [tok_idx(i) for l, ax in lab2ax.items() if l not in lout for i in ax]
    terms = [Term(ONE, [], [])]
    for t in tens:
        terms = [_mul_terms(x, y) for x in terms for y in t.terms]
    out = []
    for t in terms:
        t.bound = t.bound + bound
        out += _resolve(t)
    kind = 'int'
    for t in tens:
        kind = _kind_join(kind, t.kind)
    return SymTensor([lab2ax[l] for l in lout], out, kind)

def einsum_str(spec, *tens):
    """einsum('sab,bd,scd*->ac', A, R, B): a trailing * conjugates that operand"""
    ins, out = spec.replace(' ', '').split('->')
    parts = ins.split(',')
    if len(parts) != len(tens):
        raise ShapeError('einsum: operand count')
    ops = []
    for p, t in zip(parts, tens):
        if p.endswith('*'):
            t = conj(t); p = p[:-1]
        ops += [t, list(p)]
    return einsum_lists(*ops, list(out))

def block_concat(tensors, axis):
    """np.concatenate along `axis`: that axis becomes a disjoint-union axis"""
    if len(tensors) == 1:
        return tensors[0]
    n = tensors[0].ndim
    axis = axis % n
    tens = [t.clone() for t in tensors]
    dims = []
    for t in tens:
        g = [i for i in t.axes[axis]]
        if len(g) != 1 or isinstance(g[0], Part):
            raise NotImplementedError('concatenate along grouped/restricted axis')
        dims.append(g[0].dim)
    u = Idx(SumDim(dims))
    base = tens[0]
    terms = []
    for k, t in enumerate(tens):
        m = {}
        for p in range(n):
            if p == axis:
                continue
            g0 = [i for i in base.axes[p] if tok_dim(i) != 1]; g1 = [i for i in t.axes[p] if tok_dim(i) != 1]
            if [_dimkey(tok_dim(i)) for i in g0] != [_dimkey(tok_dim(i)) for i in g1]:
                raise ShapeError(f'concatenate: shape mismatch on axis {p}: {base.shape} vs {t.shape}')
            for i, j in zip(g0, g1):
                if isinstance(i, Part) != isinstance(j, Part) or (isinstance(i, Part) and i.k != j.k):
                    raise ShapeError('concatenate: union restriction mismatch')
                m[tok_idx(j)] = tok_idx(i)
        old = t.axes[axis][0]
        t2 = t.rename(m)
        pk = Part(u, k)
        for term in t2.terms:
            nt = Term(term.coeff, term.bound,
                      [(nm, c, tuple(tuple(pk if i is old else i for i in ax) for ax in args)) for nm, c, args in term.atoms],
                      [(pk if a is old else a, pk if b is old else b) for a, b in term.deltas])
            # a term of part k that does not mention the axis at all (constant along it) needs an explicit marker
            if not any(i is pk for i in nt.tokens()):
                nt.atoms.append(('#in', False, ((pk,),)))
            terms.append(nt)
    axes = [base.axes[p] if p != axis else (u,) for p in range(n)]
    kind = 'int'
    for t in tens:
        kind = _kind_join(kind, t.kind)
    return SymTensor(axes, terms, kind)

def restrict(a, axis, k):
    """sub-block of a union axis: a[..., part k, ...] as a tensor whose axis has the summand dimension"""
    a = a.clone()
    g = a.axes[axis]
    if len(g) != 1 or isinstance(g[0], Part) or not isinstance(g[0].dim, SumDim):
        raise NotImplementedError('restrict on non-union axis')
    u = g[0]
    nb = Idx(u.dim.parts[k])
    terms = []
    for t in a.terms:
        ks = {tok.k for tok in t.tokens() if isinstance(tok, Part) and tok.idx is u}
        if ks - {k}:
            continue
        def f(tok):
            if isinstance(tok, Part) and tok.idx is u:
                return nb
            return tok
        nt = Term(t.coeff, t.bound,
                  [(n, c, tuple(tuple(f(i) for i in ax) for ax in args)) for n, c, args in t.atoms if n != '#in' or f(args[0][0]) is not nb],
                  [(f(x), f(y)) for x, y in t.deltas])
        terms.append(nt)
    axes = [ax if p != axis else (nb,) for p, ax in enumerate(a.axes)]
    return SymTensor(axes, terms, a.kind)


# ---------------------------------------------------------------------------------------------
# hypothesis contraction: rewrite rules lhs == rhs (lhs a single-term tensor)

def apply_rule(t, rule_lhs, rule_rhs):
    lt = rule_lhs.terms[0]; k = len(lt.atoms)
    occ = {}
    for tok in t.tokens():
        occ[id(tok_idx(tok))] = occ.get(id(tok_idx(tok)), 0) + 1
    cand = [[ci for ci, at in enumerate(t.atoms) if at[0] == n and at[1] == c and len(at[2]) == len(args)]
            for (n, c, args) in lt.atoms]
    for combo in itertools.product(*cand):
        if len(set(combo)) != k:
            continue
        m = {}; ok = True
        for (n, c, args), ci in zip(lt.atoms, combo):
            n2, c2, args2 = t.atoms[ci]
            for ax, ax2 in zip(args, args2):
                ax = [i for i in ax if tok_dim(i) != 1]; ax2 = [i for i in ax2 if tok_dim(i) != 1]
                if len(ax) != len(ax2): ok = False; break
                for i, j in zip(ax, ax2):
                    if isinstance(i, Part) or isinstance(j, Part): ok = False; break
                    if _dimkey(i.dim) != _dimkey(j.dim) or m.setdefault(i, j) is not j: ok = False; break
                if not ok: break
            if not ok: break
        if not ok:
            continue
        good = True
        for b in lt.bound:
            if b not in m:
                good = False; break
            j = m[b]
            cnt_in = sum(1 for ci in combo for ax in t.atoms[ci][2] for i in ax if tok_idx(i) is j)
            if not any(j is x for x in t.bound) or occ.get(id(j), 0) != cnt_in:
                good = False; break
        if not good or len({id(m[b]) for b in lt.bound}) != len(lt.bound):
            continue
        rhs = rule_rhs.clone(); mm = {}
        for axl, axr in zip(rule_lhs.axes, rhs.axes):
            axl = [i for i in axl if tok_dim(i) != 1]; axr = [i for i in axr if tok_dim(i) != 1]
            for i, j in zip(axl, axr):
                mm[tok_idx(j)] = m[tok_idx(i)]
        rhs = rhs.rename(mm)
        rest_atoms = [a for ci, a in enumerate(t.atoms) if ci not in combo]
        used = [m[x] for x in lt.bound]
        rest_bound = [b for b in t.bound if all(b is not u for u in used)]
        out = []
        for rt in rhs.terms:
            nt = Term(t.coeff * rt.coeff, rest_bound + rt.bound, rest_atoms + rt.atoms, t.deltas + rt.deltas)
            out += _resolve(nt)
        return out
    return None

def rewrite(tensor, rules, limit=200):
    terms = list(tensor.terms); changed = True; n = 0
    while changed and n < limit:
        changed = False
        for ti, t in enumerate(terms):
            for lhs, rhs in rules:
                r = apply_rule(t, lhs, rhs)
                if r is not None:
                    terms[ti:ti + 1] = r; changed = True; n += 1
                    break
            if changed:
                break
    return SymTensor(tensor.axes, terms, tensor.kind)


# ---------------------------------------------------------------------------------------------
# numeric evaluation (cross-check of the calculus against NumPy)

def numeric_eval(tensor, dimvals, atomvals, np):
    """evaluate with concrete dimension values and concrete atomic arrays (atomic axes, one per token)"""
    def dval(d):
        if isinstance(d, int):
            return d
        if isinstance(d, SumDim):
            return sum(dval(p) for p in d.parts)
        return dimvals[d]
    def offset(tok):
        return sum(dval(p) for p in tok.idx.dim.parts[:tok.k])
    out_tokens = [i for ax in tensor.axes for i in ax]
    out_shape = [dval(tok_dim(i)) if not isinstance(i, Part) else dval(i.idx.dim) for i in out_tokens]
    # result indexed by one axis per *index* (union free axes have full union dimension)
    free = []
    for i in out_tokens:
        if not any(tok_idx(i) is f for f in free):
            free.append(tok_idx(i))
    res = np.zeros([dval(f.dim) for f in free], dtype=complex)
    for t in tensor.terms:
        idxs = list(free)
        for b in t.bound:
            idxs.append(b)
        for tok in t.tokens():
            if not any(tok_idx(tok) is x for x in idxs):
                idxs.append(tok_idx(tok))
        letters = {id(x): chr(ord('a') + k) if k < 26 else chr(ord('A') + k - 26) for k, x in enumerate(idxs)}
        ops = []; subs = []
        for n, c, args in t.atoms:
            toks = [i for ax in args for i in ax]
            if n == '#in':
                tok = toks[0]
                v = np.zeros(dval(tok.idx.dim)); v[offset(tok):offset(tok) + dval(tok.dim)] = 1
                ops.append(v); subs.append(letters[id(tok.idx)]); continue
            arr = atomvals[n]
            if c:
                arr = np.conj(arr)
            # embed restricted axes into the full union dimension
            for p, tok in enumerate(toks):
                if isinstance(tok, Part):
                    full = dval(tok.idx.dim)
                    sh = list(arr.shape); sh[p] = full
                    big = np.zeros(sh, dtype=arr.dtype)
                    sl = [slice(None)] * arr.ndim; sl[p] = slice(offset(tok), offset(tok) + dval(tok.dim))
                    big[tuple(sl)] = arr
                    arr = big
            ops.append(arr); subs.append(''.join(letters[id(tok_idx(i))] for i in toks))
        for a, b in t.deltas:
            da = dval(tok_idx(a).dim); db = dval(tok_idx(b).dim)
            e = np.zeros((da, db))
            oa = offset(a) if isinstance(a, Part) else 0; ob = offset(b) if isinstance(b, Part) else 0
            for r in range(dval(tok_dim(a))):
                e[oa + r, ob + r] = 1
            ops.append(e); subs.append(letters[id(tok_idx(a))] + letters[id(tok_idx(b))])
        # indices that appear nowhere (free or bound) are summed/broadcast via explicit ones vectors
        present = set(''.join(subs))
        for x in idxs:
            if letters[id(x)] not in present:
                ops.append(np.ones(dval(x.dim))); subs.append(letters[id(x)])
        outs = ''.join(letters[id(f)] for f in free)
        val = np.einsum(','.join(subs) + '->' + outs, *ops) if ops else np.ones(())
        c = t.coeff
        res = res + complex(c) * val if not isinstance(c, Fraction) else res + float(c) * val
    # regroup to the tensor's axes: free index order == token order (each token a distinct index here)
    if len(free) != len(out_tokens):
        raise NotImplementedError('repeated free index')
    return res.reshape([int(np.prod([dval(tok_idx(i).dim) if isinstance(i, Part) else dval(tok_dim(i)) for i in ax], dtype=int)) for ax in tensor.axes])


def atoms_of(tensor):
    """atom name -> list of dimension atoms per atomic axis (from first occurrence)"""
    out = {}
    for t in tensor.terms:
        for n, c, args in t.atoms:
            if n == '#in':
                continue
            out.setdefault(n, [tok_dim(i) for ax in args for i in ax])
    return out
