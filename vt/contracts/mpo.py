"""Contracts for pytenet/mpo.py (engine T, callee contract K_qr, support VCs via z3)."""
from ..contract import TContract
from ..tensor import inp
from ..libt import qv
from .kcallee import K_qr
from .mps import _sparse

def _site_support(name, qd, q0, q1):
    # W[s,t,a,b] != 0  =>  qd[s] - qd[t] + qD0[a] - qD1[b] == 0
    return {name: [[(qd, 0), (-qd, 1), (q0, 2), (-q1, 3)]]}

def _args_left():
    qd = qv('qd', 'd'); q0 = qv('qD0', 'D0'); q1 = qv('qD1', 'D1')
    # the two physical legs have the same dimension d and the same charges qd; distinct index names keep them apart
    return {'A': inp('A', ('d', 'd', 'D0', 'D1')), 'Anext': inp('Anext', ('dn', 'en', 'D1', 'D2')), 'qd': qd, 'qD': (q0, q1),
            '#support': _site_support('A', qd, q0, q1)}

TContract(fn='mpo.local_orthonormalize_left_qr', args=_args_left, uses={'qr': K_qr},
          ensures={
              'pair_preserved': "einsum('stac,uvcb->stuvab', res[0], res[1]) == einsum('staj,uvjb->stuvab', A, Anext)",
              'left_isometry': "einsum('stac*,stad->cd', res[0], res[0]) == identity(shape(res[0])[3])",
              'shapes': "shape(res[0])[:3] == shape(A)[:3] and shape(res[0])[3] == shape(res[1])[2] and "
                        "shape(res[1])[:2] == shape(Anext)[:2] and shape(res[1])[3] == shape(Anext)[3] and res[2].dim == shape(res[0])[3]",
              'sparse_A': _sparse('res[0]', '[qd, -qd, qD[0], -res[2]]'),
          },
          canaries={'left_isometry': "einsum('stac*,stbc->ab', res[0], res[0]) == identity(shape(res[0])[2])",
                    'sparse_A': _sparse('res[0]', '[qd, -qd, qD[0], res[2]]')},
          props=('C01', 'C02'))

def _args_right():
    qd = qv('qd', 'd'); q0 = qv('qD0', 'D0'); q1 = qv('qD1', 'D1')
    return {'A': inp('A', ('d', 'd', 'D0', 'D1')), 'Aprev': inp('Aprev', ('dp', 'ep', 'Dm', 'D0')), 'qd': qd, 'qD': (q0, q1),
            '#support': _site_support('A', qd, q0, q1)}

TContract(fn='mpo.local_orthonormalize_right_qr', args=_args_right, uses={'qr': K_qr},
          ensures={
              'pair_preserved': "einsum('uvac,stcb->uvstab', res[1], res[0]) == einsum('uvaj,stjb->uvstab', Aprev, A)",
              'right_isometry': "einsum('stcb*,stdb->cd', res[0], res[0]) == identity(shape(res[0])[2])",
              'shapes': "shape(res[0])[:2] == shape(A)[:2] and shape(res[0])[3] == shape(A)[3] and shape(res[0])[2] == shape(res[1])[3] and "
                        "shape(res[1])[:3] == shape(Aprev)[:3] and res[2].dim == shape(res[0])[2]",
              'sparse_A': _sparse('res[0]', '[qd, -qd, res[2], -qD[1]]'),
          },
          canaries={'right_isometry': "einsum('stac*,stad->cd', res[0], res[0]) == identity(shape(res[0])[3])",
                    'sparse_A': _sparse('res[0]', '[qd, -qd, -res[2], -qD[1]]')},
          props=('C01', 'C02'))

TContract(fn='mpo.merge_mpo_tensor_pair',
          args=lambda: {'A0': inp('A0', ('d0', 'e0', 'D0', 'D1')), 'A1': inp('A1', ('d1', 'e1', 'D1', 'D2'))},
          ensures={'value': "res == reshape(einsum('stac,uvcb->sutvab', A0, A1), dim('d0','d1'), dim('e0','e1'), dim('D0'), dim('D2'))"},
          canaries={'value': "res == reshape(einsum('stac,uvcb->ustvab', A0, A1), dim('d1','d0'), dim('e0','e1'), dim('D0'), dim('D2'))"},
          props=('C03', 'C01', 'C08', 'C09', 'C10'))
