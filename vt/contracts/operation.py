"""Contracts for pytenet/operation.py (engine T).  Specifications are written from the diagrams in
the docstrings as einsum strings; a trailing * conjugates the operand."""
from ..contract import TContract
from ..tensor import inp

STEP_SPECS = {
    # function: (argument shapes, spec)
    'contraction_step_right': (dict(A=('d', 'Da0', 'Da1'), B=('d', 'Db0', 'Db1'), R=('Da1', 'Db1')),
                               "einsum('sab,bd,scd*->ac', A, R, B)",
                               "einsum('sab,bd,scd->ac', A, R, B)"),
    'contraction_step_left': (dict(A=('d', 'Da0', 'Da1'), B=('d', 'Db0', 'Db1'), L=('Da0', 'Db0')),
                              "einsum('sab,ac,scd*->bd', A, L, B)",
                              "einsum('sab,ac,scd*->db', A, L, B)"),
    'contraction_operator_step_right': (dict(A=('d', 'Da0', 'Da1'), B=('e', 'Db0', 'Db1'), W=('e', 'd', 'Dw0', 'Dw1'), R=('Da1', 'Dw1', 'Db1')),
                                        "einsum('sab,tswv,bvy,txy*->awx', A, W, R, B)",
                                        "einsum('sab,stwv,bvy,txy*->awx', A, W, R, B)"),
    'contraction_operator_step_left': (dict(A=('d', 'Da0', 'Da1'), B=('e', 'Db0', 'Db1'), W=('e', 'd', 'Dw0', 'Dw1'), L=('Da0', 'Dw0', 'Db0')),
                                       "einsum('sab,tswv,awx,txy*->bvy', A, W, L, B)",
                                       "einsum('sab,tswv,awx,txy->bvy', A, W, L, B)"),
    'contraction_operator_density_step_right': (dict(A=('d', 'e', 'Da0', 'Da1'), W=('e', 'd', 'Dw0', 'Dw1'), R=('Da1', 'Dw1')),
                                                "einsum('stab,tswv,bv->aw', A, W, R)",
                                                "einsum('stab,stwv,bv->aw', A, W, R)"),
    'apply_local_hamiltonian': (dict(L=('Da0', 'Dw0', 'Db0'), R=('Da1', 'Dw1', 'Db1'), W=('e', 'd', 'Dw0', 'Dw1'), A=('d', 'Da0', 'Da1')),
                                "einsum('awx,bvy,tswv,sab->txy', L, R, W, A)",
                                "einsum('awx,bvy,tswv,sab->tyx', L, R, W, A)"),
    'apply_local_bond_contraction': (dict(L=('Da0', 'Dw', 'Db0'), R=('Da1', 'Dw', 'Db1'), C=('Da0', 'Da1')),
                                     "einsum('awx,bwy,ab->xy', L, R, C)",
                                     "einsum('awx,bwy,ab->yx', L, R, C)"),
}

for _fn, (_shapes, _spec, _canary) in STEP_SPECS.items():
    TContract(fn='operation.' + _fn,
              args=(lambda shapes=_shapes: {k: inp(k, v) for k, v in shapes.items()}),
              ensures={'value': f'res == {_spec}'},
              canaries={'value': f'res == {_canary}'},
              props=('C04', 'C08', 'C09', 'C10'),
              numeric=dict(shapes=_shapes))
