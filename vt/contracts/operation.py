"""Contracts for pytenet/operation.py (engine T).  Specifications are written from the diagrams in
the docstrings as einsum strings; a trailing * conjugates the operand."""
from ..contract import TContract
from ..tensor import inp

STEP_SPECS = {
    # function: (argument shapes, spec)
    'contraction_step_right': (dict(A=('d', 'Da0', 'Da1'), B=('d', 'Db0', 'Db1'), R=('Da1', 'Db1')),
                               "einsum('sab,bd,scd*->ac', A, R, B)",
                               "einsum('sab,bd,scd->ac', A, R, B)"),
    'contraction_step_left': (dict(A=('d', 'Da0', 'Da1'), B=('d', 'Db0', 'Db1'), L=('Da0', 'Db0')),
                              "einsum('sab,ac,scd*->bd', A, L, B)",
                              "einsum('sab,ac,scd*->db', A, L, B)"),
    'contraction_operator_step_right': (dict(A=('d', 'Da0', 'Da1'), B=('e', 'Db0', 'Db1'), W=('e', 'd', 'Dw0', 'Dw1'), R=('Da1', 'Dw1', 'Db1')),
                                        "einsum('sab,tswv,bvy,txy*->awx', A, W, R, B)",
                                        "einsum('sab,stwv,bvy,txy*->awx', A, W, R, B)"),
    'contraction_operator_step_left': (dict(A=('d', 'Da0', 'Da1'), B=('e', 'Db0', 'Db1'), W=('e', 'd', 'Dw0', 'Dw1'), L=('Da0', 'Dw0', 'Db0')),
                                       "einsum('sab,tswv,awx,txy*->bvy', A, W, L, B)",
                                       "einsum('sab,tswv,awx,txy->bvy', A, W, L, B)"),
    'contraction_operator_density_step_right': (dict(A=('d', 'e', 'Da0', 'Da1'), W=('e', 'd', 'Dw0', 'Dw1'), R=('Da1', 'Dw1')),
                                                "einsum('stab,tswv,bv->aw', A, W, R)",
                                                "einsum('stab,stwv,bv->aw', A, W, R)"),
    'apply_local_hamiltonian': (dict(L=('Da0', 'Dw0', 'Db0'), R=('Da1', 'Dw1', 'Db1'), W=('e', 'd', 'Dw0', 'Dw1'), A=('d', 'Da0', 'Da1')),
                                "einsum('awx,bvy,tswv,sab->txy', L, R, W, A)",
                                "einsum('awx,bvy,tswv,sab->tyx', L, R, W, A)"),
    'apply_local_bond_contraction': (dict(L=('Da0', 'Dw', 'Db0'), R=('Da1', 'Dw', 'Db1'), C=('Da0', 'Da1')),
                                     "einsum('awx,bwy,ab->xy', L, R, C)",
                                     "einsum('awx,bwy,ab->yx', L, R, C)"),
}

for _fn, (_shapes, _spec, _canary) in STEP_SPECS.items():
    TContract(fn='operation.' + _fn,
              args=(lambda shapes=_shapes: {k: inp(k, v) for k, v in shapes.items()}),
              ensures={'value': f'res == {_spec}'},
              canaries={'value': f'res == {_canary}'},
              props=('C04', 'C08', 'C09', 'C10'),
              numeric=dict(shapes=_shapes))


# ---- block sparsity of the environment blocks and of the local maps (support VCs, engine T + z3) -------------------------
# hypothesis: A, B site tensors sparse under (qd, qa0, -qa1) resp. (qd, qb0, -qb1); W under (qd, -qd, qw0, -qw1);
# incoming block sparse under (qa1, qw1, -qb1) [right] resp. (qa0, qw0, -qb0) [left]
from ..libt import qv, support_holds, as_tensor

def _sup_env():
    qd = qv('qd', 'd'); qe = qv('qd', 'e')
    qa0, qa1 = qv('qa0', 'Da0'), qv('qa1', 'Da1'); qb0, qb1 = qv('qb0', 'Db0'), qv('qb1', 'Db1'); qw0, qw1 = qv('qw0', 'Dw0'), qv('qw1', 'Dw1')
    sup = {'A': [[(qd, 0), (qa0, 1), (-qa1, 2)]], 'B': [[(qe, 0), (qb0, 1), (-qb1, 2)]], 'W': [[(qe, 0), (-qd, 1), (qw0, 2), (-qw1, 3)]],
           'R': [[(qa1, 0), (qw1, 1), (-qb1, 2)]], 'L': [[(qa0, 0), (qw0, 1), (-qb0, 2)]]}
    return dict(qd=qd, qe=qe, qa0=qa0, qa1=qa1, qb0=qb0, qb1=qb1, qw0=qw0, qw1=qw1), sup

class _support_clause:
    def __init__(self, qs):
        self.qs = qs
    def __call__(self, env, res, rules, st):
        q = env['#q']
        return support_holds(as_tensor(res), [eval(x, dict(q)) for x in self.qs], st.env.get('#support', {}))

def _args_sup(shapes, which):
    def f():
        q, sup = _sup_env()
        env = {k: inp(k, v) for k, v in shapes.items()}
        env['#support'] = {k: v for k, v in sup.items() if k in shapes}
        env['#q'] = q
        return env
    return f

TContract(fn='operation.contraction_operator_step_right',
          args=_args_sup(dict(A=('d', 'Da0', 'Da1'), B=('e', 'Db0', 'Db1'), W=('e', 'd', 'Dw0', 'Dw1'), R=('Da1', 'Dw1', 'Db1')), 'R'),
          ensures={'block_sparsity_preserved': _support_clause(['qa0', 'qw0', '-qb0'])},
          canaries={'block_sparsity_preserved': _support_clause(['qa0', '-qw0', '-qb0'])},
          props=('C02', 'C04', 'C08', 'C10'))
TContract(fn='operation.contraction_operator_step_left',
          args=_args_sup(dict(A=('d', 'Da0', 'Da1'), B=('e', 'Db0', 'Db1'), W=('e', 'd', 'Dw0', 'Dw1'), L=('Da0', 'Dw0', 'Db0')), 'L'),
          ensures={'block_sparsity_preserved': _support_clause(['qa1', 'qw1', '-qb1'])},
          canaries={'block_sparsity_preserved': _support_clause(['qa1', 'qw1', 'qb1'])},
          props=('C02', 'C04', 'C08', 'C10'))

def _args_alh():
    q, sup = _sup_env()
    # apply_local_hamiltonian(L, R, W, A): here A is the ket-side tensor (d, Da0, Da1); result lives on the bra side (e, Db0, Db1)
    env = {'L': inp('L', ('Da0', 'Dw0', 'Db0')), 'R': inp('R', ('Da1', 'Dw1', 'Db1')), 'W': inp('W', ('e', 'd', 'Dw0', 'Dw1')), 'A': inp('A', ('d', 'Da0', 'Da1'))}
    env['#support'] = {k: sup[k] for k in ('L', 'R', 'W', 'A')}
    env['#q'] = q
    return env

TContract(fn='operation.apply_local_hamiltonian', args=_args_alh,
          ensures={'maps_sector_to_sector': _support_clause(['qe', 'qb0', '-qb1'])},
          canaries={'maps_sector_to_sector': _support_clause(['qe', 'qb1', '-qb0'])},
          props=('C02', 'C04', 'C08', 'C10'))
