"""Contracts for pytenet/mps.py (engine T, callee contracts K_qr / K_svd, support VCs via z3)."""
from ..contract import TContract
from ..tensor import inp, ones1
from ..libt import qv, QV, support_holds
from .kcallee import K_qr, K_svd

# support hypothesis of an MPS site tensor A[s,a,b]: qd[s] + qD0[a] - qD1[b] == 0
def _site_support(name, qd, q0, q1):
    return {name: [[(qd, 0), (q0, 1), (-q1, 2)]]}

def _sparse(t, qs):
    def f(env, res, rules, st):
        from ..contract import _wrap
        ten = eval(t, dict(res=res, **{k: v for k, v in env.items() if not k.startswith('#')}))
        qq = eval(qs, dict(res=res, **{k: v for k, v in env.items() if not k.startswith('#')}))
        return support_holds(ten, list(qq), st.env.get('#support', {}))
    return f

def _args_left():
    qd = qv('qd', 'd'); q0 = qv('qD0', 'D0'); q1 = qv('qD1', 'D1')
    return {'A': inp('A', ('d', 'D0', 'D1')), 'Anext': inp('Anext', ('dn', 'D1', 'D2')), 'qd': qd, 'qD': (q0, q1),
            '#support': _site_support('A', qd, q0, q1)}

TContract(fn='mps.local_orthonormalize_left_qr', args=_args_left, uses={'qr': K_qr},
          ensures={
              'pair_preserved': "einsum('sac,tcb->stab', res[0], res[1]) == einsum('saj,tjb->stab', A, Anext)",
              'left_isometry': "einsum('sac*,sad->cd', res[0], res[0]) == identity(shape(res[0])[2])",
              'shapes': "shape(res[0])[:2] == shape(A)[:2] and shape(res[0])[2] == shape(res[1])[1] and "
                        "shape(res[1])[0] == shape(Anext)[0] and shape(res[1])[2] == shape(Anext)[2] and len(res[2].parts) == 1 "
                        "and res[2].dim == shape(res[0])[2]",
              'sparse_A': _sparse('res[0]', '[qd, qD[0], -res[2]]'),
          },
          canaries={'left_isometry': "einsum('sac*,sbc->ab', res[0], res[0]) == identity(shape(res[0])[1])",
                    'pair_preserved': "einsum('sac,tcb->stab', res[0], res[1]) == einsum('saj,tjb->tsab', A, Anext)"},
          props=('C01', 'C02', 'C08', 'C10'))

def _args_right():
    qd = qv('qd', 'd'); q0 = qv('qD0', 'D0'); q1 = qv('qD1', 'D1')
    return {'A': inp('A', ('d', 'D0', 'D1')), 'Aprev': inp('Aprev', ('dp', 'Dm', 'D0')), 'qd': qd, 'qD': (q0, q1),
            '#support': _site_support('A', qd, q0, q1)}

TContract(fn='mps.local_orthonormalize_right_qr', args=_args_right, uses={'qr': K_qr},
          ensures={
              'pair_preserved': "einsum('tac,scb->tsab', res[1], res[0]) == einsum('taj,sjb->tsab', Aprev, A)",
              'right_isometry': "einsum('scb*,sdb->cd', res[0], res[0]) == identity(shape(res[0])[1])",
              'shapes': "shape(res[0])[0] == shape(A)[0] and shape(res[0])[2] == shape(A)[2] and shape(res[0])[1] == shape(res[1])[2] and "
                        "shape(res[1])[:2] == shape(Aprev)[:2] and res[2].dim == shape(res[0])[1]",
              'sparse_A': _sparse('res[0]', '[qd, res[2], -qD[1]]'),
          },
          canaries={'right_isometry': "einsum('sac*,sad->cd', res[0], res[0]) == identity(shape(res[0])[2])",
                    'sparse_A': _sparse('res[0]', '[qd, -res[2], -qD[1]]')},
          props=('C01', 'C02', 'C08', 'C10'))

TContract(fn='mps.merge_mps_tensor_pair',
          args=lambda: {'A0': inp('A0', ('d0', 'D0', 'D1')), 'A1': inp('A1', ('d1', 'D1', 'D2'))},
          ensures={'value': "res == reshape(einsum('sac,tcb->stab', A0, A1), dim('d0','d1'), dim('D0'), dim('D2'))"},
          canaries={'value': "res == reshape(einsum('sac,tcb->tsab', A0, A1), dim('d1','d0'), dim('D0'), dim('D2'))"},
          props=('C03', 'C01', 'C08', 'C09', 'C10'))
