"""Contracts for pytenet/mps.py (engine T, callee contracts K_qr / K_svd, support VCs via z3)."""
from ..contract import TContract
from ..tensor import inp, ones1
from ..libt import qv, QV, support_holds
from .kcallee import K_qr, K_svd

# support hypothesis of an MPS site tensor A[s,a,b]: qd[s] + qD0[a] - qD1[b] == 0
def _site_support(name, qd, q0, q1):
    return {name: [[(qd, 0), (q0, 1), (-q1, 2)]]}

class _sparse:
    """block-sparsity clause qsparse(t, qs): symbolic = support VC (z3), numeric = exact-zero test"""
    def __init__(self, t, qs):
        self.t = t; self.qs = qs
    def __call__(self, env, res, rules, st):
        ns = dict(res=res, **{k.lstrip('#'): v for k, v in env.items() if not k.startswith('#') or k in ('#qdn', '#q2', '#qdp', '#qm')})
        return support_holds(eval(self.t, ns), list(eval(self.qs, ns)), st.env.get('#support', {}))
    def numeric(self, ns):
        return ns['qsparse'](eval(self.t, ns), eval(self.qs, ns))

def _args_left():
    qd = qv('qd', 'd'); q0 = qv('qD0', 'D0'); q1 = qv('qD1', 'D1')
    qdn = qv('qdn', 'dn'); q2 = qv('qD2', 'D2')
    sup = _site_support('A', qd, q0, q1); sup.update(_site_support('Anext', qdn, q1, q2))
    return {'A': inp('A', ('d', 'D0', 'D1')), 'Anext': inp('Anext', ('dn', 'D1', 'D2')), 'qd': qd, 'qD': (q0, q1),
            '#support': sup, '#qdn': qdn, '#q2': q2}

TContract(fn='mps.local_orthonormalize_left_qr', args=_args_left, uses={'qr': K_qr},
          ensures={
              'pair_preserved': "einsum('sac,tcb->stab', res[0], res[1]) == einsum('saj,tjb->stab', A, Anext)",
              'left_isometry': "einsum('sac*,sad->cd', res[0], res[0]) == identity(shape(res[0])[2])",
              'shapes': "shape(res[0])[:2] == shape(A)[:2] and shape(res[0])[2] == shape(res[1])[1] and "
                        "shape(res[1])[0] == shape(Anext)[0] and shape(res[1])[2] == shape(Anext)[2]"
                        "and res[2].dim == shape(res[0])[2]",
              'sparse_A': _sparse('res[0]', '[qd, qD[0], -res[2]]'),
              'sparse_Anext': _sparse('res[1]', '[qdn, res[2], -q2]'),
          },
          canaries={'left_isometry': "einsum('sac*,sbc->ab', res[0], res[0]) == identity(shape(res[0])[1])",
                    'pair_preserved': "einsum('sac,tcb->stab', res[0], res[1]) == einsum('saj,tjb->tsab', A, Anext)"},
          props=('C01', 'C02', 'C08', 'C10'))

def _args_right():
    qd = qv('qd', 'd'); q0 = qv('qD0', 'D0'); q1 = qv('qD1', 'D1')
    qdp = qv('qdp', 'dp'); qm = qv('qDm', 'Dm')
    sup = _site_support('A', qd, q0, q1); sup.update(_site_support('Aprev', qdp, qm, q0))
    return {'A': inp('A', ('d', 'D0', 'D1')), 'Aprev': inp('Aprev', ('dp', 'Dm', 'D0')), 'qd': qd, 'qD': (q0, q1),
            '#support': sup, '#qdp': qdp, '#qm': qm}

TContract(fn='mps.local_orthonormalize_right_qr', args=_args_right, uses={'qr': K_qr},
          ensures={
              'pair_preserved': "einsum('tac,scb->tsab', res[1], res[0]) == einsum('taj,sjb->tsab', Aprev, A)",
              'right_isometry': "einsum('scb*,sdb->cd', res[0], res[0]) == identity(shape(res[0])[1])",
              'shapes': "shape(res[0])[0] == shape(A)[0] and shape(res[0])[2] == shape(A)[2] and shape(res[0])[1] == shape(res[1])[2] and "
                        "shape(res[1])[:2] == shape(Aprev)[:2] and res[2].dim == shape(res[0])[1]",
              'sparse_A': _sparse('res[0]', '[qd, res[2], -qD[1]]'),
              'sparse_Aprev': _sparse('res[1]', '[qdp, qm, -res[2]]'),
          },
          canaries={'right_isometry': "einsum('sac*,sad->cd', res[0], res[0]) == identity(shape(res[0])[2])",
                    'sparse_A': _sparse('res[0]', '[qd, -res[2], -qD[1]]')},
          props=('C01', 'C02', 'C08', 'C10'))

TContract(fn='mps.merge_mps_tensor_pair',
          args=lambda: {'A0': inp('A0', ('d0', 'D0', 'D1')), 'A1': inp('A1', ('d1', 'D1', 'D2'))},
          ensures={'value': "res == reshape(einsum('sac,tcb->stab', A0, A1), dim('d0','d1'), dim('D0'), dim('D2'))"},
          canaries={'value': "res == reshape(einsum('sac,tcb->tsab', A0, A1), dim('d1','d0'), dim('D0'), dim('D2'))"},
          props=('C03', 'C01', 'C08', 'C09', 'C10'))


# ---- SVD-based local steps and the two-site split (callee contract K_svd) -------------------------

def _svd_E(env, st):
    """the discarded part E of the last split_matrix_svd call as a tensor over (rows, cols)"""
    from .. import tensor as T
    rec = st.env['#svd_calls'][-1]
    rows = tuple(T.Idx(T.tok_dim(i)) for i in rec['rows'] if T.tok_dim(i) != 1)
    cols = tuple(T.Idx(T.tok_dim(i)) for i in rec['cols'] if T.tok_dim(i) != 1)
    return T.SymTensor([rows, cols], [T.Term(T.ONE, [], [(rec['E'], False, (rows, cols))])])

def _with_E(clause):
    def f(env, res, rules, st):
        from ..contract import sym_namespace, _wrap
        ns = sym_namespace(env, res, rules)
        ns['E'] = _wrap(_svd_E(env, st))
        return eval(clause, ns)
    return f

for _exact in (True, False):
    _tag = 'tol0' if _exact else 'anytol'
    TContract(fn='mps.local_orthonormalize_left_svd',
              args=lambda: dict(_args_left(), tol='tol'), uses={'split_matrix_svd': K_svd(_exact)},
              ensures={
                  f'pair_preserved[{_tag}]': ("einsum('sac,tcb->stab', res[0], res[1]) == einsum('saj,tjb->stab', A, Anext)" if _exact else
                      _with_E("einsum('sac,tcb->stab', res[0], res[1]) == add(einsum('saj,tjb->stab', A, Anext), scale(einsum('saj,tjb->stab', reshape(E, dim('d'), dim('D0'), dim('D1')), Anext), -1))")),
                  f'left_isometry[{_tag}]': "einsum('sac*,sad->cd', res[0], res[0]) == identity(shape(res[0])[2])",
                  f'shapes[{_tag}]': "shape(res[0])[:2] == shape(A)[:2] and shape(res[0])[2] == shape(res[1])[1] and "
                                     "shape(res[1])[0] == shape(Anext)[0] and shape(res[1])[2] == shape(Anext)[2] and res[2].dim == shape(res[0])[2]",
                  f'sparse_A[{_tag}]': _sparse('res[0]', '[qd, qD[0], -res[2]]'),
                  f'sparse_Anext[{_tag}]': _sparse('res[1]', '[qdn, res[2], -q2]'),
              },
              canaries={f'left_isometry[{_tag}]': "einsum('sac*,sbc->ab', res[0], res[0]) == identity(shape(res[0])[1])"},
              props=('C13', 'C02', 'C12'))
    TContract(fn='mps.local_orthonormalize_right_svd',
              args=lambda: dict(_args_right(), tol='tol'), uses={'split_matrix_svd': K_svd(_exact)},
              ensures={
                  f'pair_preserved[{_tag}]': ("einsum('tac,scb->tsab', res[1], res[0]) == einsum('taj,sjb->tsab', Aprev, A)" if _exact else
                      _with_E("einsum('tac,scb->tsab', res[1], res[0]) == add(einsum('taj,sjb->tsab', Aprev, A), scale(einsum('taj,jsb->tsab', Aprev, reshape(E, dim('D0'), dim('d'), dim('D1'))), -1))")),
                  f'right_isometry[{_tag}]': "einsum('scb*,sdb->cd', res[0], res[0]) == identity(shape(res[0])[1])",
                  f'shapes[{_tag}]': "shape(res[0])[0] == shape(A)[0] and shape(res[0])[2] == shape(A)[2] and shape(res[0])[1] == shape(res[1])[2] and "
                                     "shape(res[1])[:2] == shape(Aprev)[:2] and res[2].dim == shape(res[0])[1]",
                  f'sparse_A[{_tag}]': _sparse('res[0]', '[qd, res[2], -qD[1]]'),
                  f'sparse_Aprev[{_tag}]': _sparse('res[1]', '[qdp, qm, -res[2]]'),
              },
              canaries={f'right_isometry[{_tag}]': "einsum('sac*,sad->cd', res[0], res[0]) == identity(shape(res[0])[2])"},
              props=('C13', 'C02', 'C12'))

def _args_split(distr):
    def f():
        qd0 = qv('qd0', 'd0'); qd1 = qv('qd1', 'd1'); q0 = qv('qD0', 'D0'); q2 = qv('qD2', 'D2')
        from ..tensor import inp as _inp, reshape as _reshape, Dim
        A = _reshape(_inp('A', ('d0', 'd1', 'D0', 'D2')), (Dim(('d0', 'd1')), Dim(('D0',)), Dim(('D2',))))
        return {'A': A, 'qd0': qd0, 'qd1': qd1, 'qD': (q0, q2), 'svd_distr': distr, 'tol': 0,
                '#support': {'A': [[(qd0, 0), (qd1, 1), (q0, 2), (-q2, 3)]]}}
    return f

for _distr in ('left', 'right', 'sqrt'):
    TContract(fn='mps.split_mps_tensor', args=_args_split(_distr), uses={'split_matrix_svd': K_svd(True)},
              ensures={
                  f'merge_undoes_split[{_distr},tol0]': "reshape(einsum('sac,tcb->stab', res[0], res[1]), dim('d0','d1'), dim('D0'), dim('D2')) == A",
                  f'shapes[{_distr}]': "shape(res[0])[0] == dim('d0') and shape(res[0])[1] == dim('D0') and shape(res[1])[0] == dim('d1') and "
                                       "shape(res[1])[2] == dim('D2') and shape(res[0])[2] == shape(res[1])[1] and res[2].dim == shape(res[0])[2]",
                  f'sparse_A0[{_distr}]': _sparse('res[0]', '[qd0, qD[0], -res[2]]'),
                  f'sparse_A1[{_distr}]': _sparse('res[1]', '[qd1, res[2], -qD[1]]'),
              },
              canaries={f'merge_undoes_split[{_distr},tol0]': "reshape(einsum('sac,tcb->tsab', res[0], res[1]), dim('d1','d0'), dim('D0'), dim('D2')) == A"},
              props=('C03', 'C12', 'C02', 'C08', 'C10'))
