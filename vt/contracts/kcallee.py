"""Callee contracts used by engine T at call sites (the caller is checked against the contract,
not the body): K_qr for bond_ops.qr, K_svd for bond_ops.split_matrix_svd.

Each use records the callee's preconditions as obligations of the caller and introduces fresh
atomic tensors for the results together with hypothesis equations (rewrite rules) and support
(block-sparsity) facts."""
import itertools
from fractions import Fraction
from .. import tensor as T
from ..symexec import Obligation, Unsupported
from ..libt import QV, support_holds, as_tensor

_counter = itertools.count(1)


def _row_col(M):
    if M.ndim != 2:
        return None
    return M.axes[0], M.axes[1]


def _fresh_like(group):
    return tuple(T.Idx(T.tok_dim(i)) for i in group if T.tok_dim(i) != 1)


def _pre(ex, st, node, name, M, q0, q1):
    """preconditions of qr / split_matrix_svd at a call site"""
    ln = node.lineno
    ok = M.ndim == 2
    ex.obligations.append(Obligation('callee-pre', f'{name}: A.ndim == 2', ln, ok))
    if not ok:
        raise Unsupported('callee precondition ndim')
    for k, q in enumerate((q0, q1)):
        good = isinstance(q, QV) and q.dim == M.shape[k]
        ex.obligations.append(Obligation('callee-pre', f'{name}: len(q{k}) == A.shape[{k}]', ln, bool(good),
                                         '' if good else f'{getattr(q, "dim", q)!r} vs {M.shape[k]!r}'))
    if isinstance(q0, QV) and isinstance(q1, QV):
        sp, detail = support_holds(M, [q0, -q1], st.env.get('#support', {}))
        ex.obligations.append(Obligation('callee-pre', f'{name}: is_qsparse(A, [q0, -q1])', ln, sp, detail))


def K_qr(ex, st, node, args, kw):
    M, q0, q1 = args
    M = as_tensor(M)
    _pre(ex, st, node, 'qr', M, q0, q1)
    k = next(_counter)
    Dq = f'Dq{k}'; qn = f'Q{k}'; rn = f'R{k}'; qb = f'qbond{k}'
    rows, cols = M.axes
    r1 = _fresh_like(rows); c1 = T.Idx(Dq)
    Q = T.SymTensor([r1, (c1,)], [T.Term(T.ONE, [], [(qn, False, (r1, (c1,)))])])
    c2 = T.Idx(Dq); cl2 = _fresh_like(cols)
    R = T.SymTensor([(c2,), cl2], [T.Term(T.ONE, [], [(rn, False, ((c2,), cl2))])])
    rules = st.env.setdefault('#rules', [])
    # H1: sum_c Q[x,c] R[c,j] = M[x,j]
    x = _fresh_like(rows); cc = T.Idx(Dq); j = _fresh_like(cols)
    lhs = T.SymTensor([x, j], [T.Term(T.ONE, [cc], [(qn, False, (x, (cc,))), (rn, False, ((cc,), j))])])
    rhs = T.SymTensor([tuple(i for i in rows if T.tok_dim(i) != 1), tuple(i for i in cols if T.tok_dim(i) != 1)], M.terms, M.kind)
    rules.append((lhs, rhs))
    # H2: sum_x conj(Q[x,c]) Q[x,c'] = delta(c,c')
    x = _fresh_like(rows); a = T.Idx(Dq); b = T.Idx(Dq)
    lhs2 = T.SymTensor([(a,), (b,)], [T.Term(T.ONE, list(x), [(qn, True, (x, (a,))), (qn, False, (x, (b,)))])])
    d1 = T.Idx(Dq); d2 = T.Idx(Dq)
    rules.append((lhs2, T.SymTensor([(d1,), (d2,)], [T.Term(T.ONE, [], [], [(d1, d2)])])))
    x = _fresh_like(rows); a = T.Idx(Dq); b = T.Idx(Dq)
    lhs3 = T.SymTensor([(a,), (b,)], [T.Term(T.ONE, list(x), [(qn, False, (x, (a,))), (qn, True, (x, (b,)))])])
    d1 = T.Idx(Dq); d2 = T.Idx(Dq)
    rules.append((lhs3, T.SymTensor([(d1,), (d2,)], [T.Term(T.ONE, [], [], [(d1, d2)])])))
    qinterm = QV([(1, qb, Dq)])
    sup = st.env.setdefault('#support', {})
    if isinstance(q0, QV) and isinstance(q1, QV):
        sup[qn] = [[(q0, 0), (-qinterm, 1)]]
        sup[rn] = [[(qinterm, 0), (-q1, 1)]]
    st.env.setdefault('#qr_calls', []).append(dict(Q=qn, R=rn, D=Dq, q=qb, rows=rows, cols=cols))
    return (Q, R, qinterm)


def K_svd(exact=True):
    """split_matrix_svd(A, q0, q1, tol): with exact=True the hypotheses are those for tol == 0
    (u diag(s) v == A); otherwise u diag(s) v + E == A with u^H E == 0 and E v^H == 0."""
    def handler(ex, st, node, args, kw):
        M, q0, q1 = args[0], args[1], args[2]
        M = as_tensor(M)
        _pre(ex, st, node, 'split_matrix_svd', M, q0, q1)
        k = next(_counter)
        Dq = f'Ds{k}'; un = f'U{k}'; sn = f'S{k}'; vn = f'V{k}'; en = f'E{k}'; qb = f'qsvd{k}'
        rows, cols = M.axes
        r1 = _fresh_like(rows); c1 = T.Idx(Dq)
        U = T.SymTensor([r1, (c1,)], [T.Term(T.ONE, [], [(un, False, (r1, (c1,)))])])
        c0 = T.Idx(Dq)
        S = T.SymTensor([(c0,)], [T.Term(T.ONE, [], [(sn, False, ((c0,),))])], 'real')
        c2 = T.Idx(Dq); cl2 = _fresh_like(cols)
        V = T.SymTensor([(c2,), cl2], [T.Term(T.ONE, [], [(vn, False, ((c2,), cl2))])])
        rules = st.env.setdefault('#rules', [])
        x = _fresh_like(rows); cc = T.Idx(Dq); j = _fresh_like(cols)
        lhs = T.SymTensor([x, j], [T.Term(T.ONE, [cc], [(un, False, (x, (cc,))), (sn, False, ((cc,),)), (vn, False, ((cc,), j))])])
        Mrhs = T.SymTensor([tuple(i for i in rows if T.tok_dim(i) != 1), tuple(i for i in cols if T.tok_dim(i) != 1)], M.terms, M.kind)
        if exact:
            rules.append((lhs, Mrhs))
        else:
            xe = _fresh_like(rows); je = _fresh_like(cols)
            E = T.SymTensor([xe, je], [T.Term(T.ONE, [], [(en, False, (xe, je))])])
            rules.append((lhs, T.sub(Mrhs, E)))
            # u^H E = 0, E v^H = 0
            x = _fresh_like(rows); a = T.Idx(Dq); j = _fresh_like(cols)
            rules.append((T.SymTensor([(a,), j], [T.Term(T.ONE, list(x), [(un, True, (x, (a,))), (en, False, (x, j))])]),
                          T.SymTensor([(T.Idx(Dq),), _fresh_like(cols)], [])))
            x = _fresh_like(rows); a = T.Idx(Dq); j = _fresh_like(cols)
            rules.append((T.SymTensor([x, (a,)], [T.Term(T.ONE, list(j), [(en, False, (x, j)), (vn, True, ((a,), j))])]),
                          T.SymTensor([_fresh_like(rows), (T.Idx(Dq),)], [])))
        for cj1, cj2 in ((True, False), (False, True)):
            x = _fresh_like(rows); a = T.Idx(Dq); b = T.Idx(Dq)
            l2 = T.SymTensor([(a,), (b,)], [T.Term(T.ONE, list(x), [(un, cj1, (x, (a,))), (un, cj2, (x, (b,)))])])
            d1 = T.Idx(Dq); d2 = T.Idx(Dq)
            rules.append((l2, T.SymTensor([(d1,), (d2,)], [T.Term(T.ONE, [], [], [(d1, d2)])])))
            j = _fresh_like(cols); a = T.Idx(Dq); b = T.Idx(Dq)
            l3 = T.SymTensor([(a,), (b,)], [T.Term(T.ONE, list(j), [(vn, cj1, ((a,), j)), (vn, cj2, ((b,), j))])])
            d1 = T.Idx(Dq); d2 = T.Idx(Dq)
            rules.append((l3, T.SymTensor([(d1,), (d2,)], [T.Term(T.ONE, [], [], [(d1, d2)])])))
        # singular values are real: conj(S) = S
        ci = T.Idx(Dq)
        rules.append((T.SymTensor([(ci,)], [T.Term(T.ONE, [], [(sn, True, ((ci,),))])]),
                      T.SymTensor([(T.Idx(Dq),)], [T.Term(T.ONE, [], [(sn, False, ((T.Idx(Dq),),))])])))
        rules[-1] = _same_index_rule(sn, Dq)
        qinterm = QV([(1, qb, Dq)])
        sup = st.env.setdefault('#support', {})
        if isinstance(q0, QV) and isinstance(q1, QV):
            sup[un] = [[(q0, 0), (-qinterm, 1)]]
            sup[vn] = [[(qinterm, 0), (-q1, 1)]]
        st.env.setdefault('#svd_calls', []).append(dict(U=un, S=sn, V=vn, E=en, D=Dq, q=qb, rows=rows, cols=cols, exact=exact))
        return (U, S, V, qinterm)
    return handler


def _same_index_rule(sn, Dq):
    ci = T.Idx(Dq)
    lhs = T.SymTensor([(ci,)], [T.Term(T.ONE, [], [(sn, True, ((ci,),))])])
    rhs = T.SymTensor([(ci,)], [T.Term(T.ONE, [], [(sn, False, ((ci,),))])])
    return (lhs, rhs)
