"""Contracts for the site-wise arithmetic (engine T, generic site index): apply_operator, multiply_mpo,
add_mps, add_mpo, MPO.identity.  The per-site clauses are what lemmas L-sum / L-prod (vt/lemmas_t.py) lift to
the dense vector/matrix for every L."""
from ..contract import TContract
from .. import tensor as T
from ..symexec import SymIndex
from ..sites import sym_mps, sym_mpo, LazySupport, SITE_LIB, foreach
from ..libt import qv, QV, support_holds


def group(t, sizes):
    """regroup axes: consecutive runs of the given sizes are merged"""
    axes = []; p = 0
    for n in sizes:
        axes.append(tuple(i for ax in t.axes[p:p + n] for i in ax)); p += n
    assert p == len(t.axes)
    return T.SymTensor(axes, t.terms, t.kind)


def _ns(env, res, rules, st):
    from ..contract import sym_namespace
    ns = sym_namespace(env, res, rules)
    ns['group'] = lambda t, sizes: ns['rw'](group(t, sizes))
    return ns


class clause:
    def __init__(self, text):
        self.text = text
    def __call__(self, env, res, rules, st):
        return eval(self.text, _ns(env, res, rules, st))


class qclause:
    """charge-list clause: res.qD[key] equals the expected QV structure"""
    def __init__(self, f):
        self.f = f
    def __call__(self, env, res, rules, st):
        return self.f(env, res)


def _same_qv(a, b):
    return isinstance(a, QV) and isinstance(b, QV) and a.parts == b.parts


# ---- apply_operator -----------------------------------------------------------------------------
def _args_apply():
    qd = qv('qd', 'd')
    op = sym_mpo('op', qd=qd); psi = sym_mps('psi', qd=qd)
    return {'op': op, 'psi': psi, '#support': LazySupport([op, psi]), '#lb': {'L': 1}}

TContract(fn='operation.apply_operator', args=_args_apply, extra_lib=SITE_LIB, loop_handler=foreach,
          ensures={
              'site_tensor': clause("res.A['i'] == group(einsum('stwv,tab->swavb', op.A['i'], psi.A['i']), (1, 2, 2))"),
              'charges': qclause(lambda env, res: _same_qv(res.qD['i'], QV(list(env['op'].qD['i'].parts) + list(env['psi'].qD['i'].parts)))
                                 and res.qd is env['psi'].qd),
              'length': qclause(lambda env, res: res.A.length == SymIndex('L') and res.qD.length == SymIndex('L', 1)),
          },
          canaries={'site_tensor': clause("res.A['i'] == group(einsum('stwv,tab->sawbv', op.A['i'], psi.A['i']), (1, 2, 2))")},
          props=('C03', 'C02'))

# ---- multiply_mpo -------------------------------------------------------------------------------
def _args_mul():
    qd = qv('qd', 'd')
    a = sym_mpo('op0', qd=qd, bond='V', boundary_one=False); b = sym_mpo('op1', qd=qd, bond='W', boundary_one=False)
    return {'op0': a, 'op1': b, '#support': LazySupport([a, b]), '#lb': {'L': 1}}

TContract(fn='mpo.multiply_mpo', args=_args_mul, extra_lib=SITE_LIB, loop_handler=foreach,
          ensures={
              'site_tensor': clause("res.A['i'] == group(einsum('stab,tuvw->suavbw', op0.A['i'], op1.A['i']), (1, 1, 2, 2))"),
              'charges': qclause(lambda env, res: _same_qv(res.qD['i'], QV(list(env['op0'].qD['i'].parts) + list(env['op1'].qD['i'].parts)))),
          },
          canaries={'site_tensor': clause("res.A['i'] == group(einsum('stab,tuvw->suvawb', op0.A['i'], op1.A['i']), (1, 1, 2, 2))")},
          props=('C03', 'C02'))

# ---- MPO.identity -------------------------------------------------------------------------------
def _args_identity():
    return {'cls': SITE_LIB['MPO'], 'qd': qv('qd', 'd'), 'L': SymIndex('L'), 'scale': T.scalar('scale'), 'dtype': 'complex', '#lb': {'L': 1}}

def _np_identity_dtype(ex, st, node, args, kw):
    from ..libt import np_identity
    return np_identity(ex, st, node, args[:1], {})

def _cls_call(ex, st, node, args, kw):
    return SITE_LIB['MPO'](ex, st, node, args, kw)

TContract(fn='mpo.MPO.identity', args=_args_identity, extra_lib=dict(SITE_LIB, **{'np.identity': _np_identity_dtype}),
          loop_handler=foreach,
          ensures={'site_tensor': clause("res.A['i'] == mul(reshape(identity(dim('d')), dim('d'), dim('d'), 1, 1), scale)")},
          canaries={'site_tensor': clause("res.A['i'] == reshape(identity(dim('d')), dim('d'), dim('d'), 1, 1)")},
          props=('C03',))


# ---- add_mps / add_mpo --------------------------------------------------------------------------
def _z(shape_like_rows, shape_like_cols, lead):
    """zero block with the leading axes of `lead`, row axis of the first and column axis of the second tensor"""
    n = len(lead.axes)
    dims = [T.tok_dim(lead.axes[k][0]) for k in range(n - 2)] + [T.tok_dim(shape_like_rows.axes[-2][0]), T.tok_dim(shape_like_cols.axes[-1][0])]
    return T.zeros(dims)

def blockdiag(a, b):
    a = a if isinstance(a, T.SymTensor) else a; b = b
    top = T.block_concat([a, _z(a, b, a)], -1)
    bot = T.block_concat([_z(b, a, a), b], -1)
    return T.block_concat([top, bot], -2)

def _ns_add(env, res, rules, st):
    ns = _ns(env, res, rules, st)
    from ..contract import _wrap
    ns['blockdiag'] = lambda a, b: _wrap(blockdiag(a, b))
    ns['hcat'] = lambda a, b: _wrap(T.block_concat([a, b], -1))
    ns['vcat'] = lambda a, b: _wrap(T.block_concat([a, b], -2))
    return ns

class aclause(clause):
    def __call__(self, env, res, rules, st):
        return eval(self.text, _ns_add(env, res, rules, st))

def _qcat(res, env, key, n0, n1):
    from ..libt import QVCat
    q = res.qD[key]
    return isinstance(q, QVCat) and len(q.parts) == 2 and _same_qv(q.parts[0], env[n0].qD[key]) and _same_qv(q.parts[1], env[n1].qD[key])

def _args_add(cls, L):
    def f():
        qd = qv('qd', 'd')
        bq = (QV([(1, 'qleft', 1)]), QV([(1, 'qright', 1)]))
        mk = sym_mps if cls == 'mps' else sym_mpo
        n0, n1 = ('mps0', 'mps1') if cls == 'mps' else ('op0', 'op1')
        a = mk(n0, L=L, qd=qd, bond='P', boundary_q=bq); b = mk(n1, L=L, qd=qd, bond='Q', boundary_q=bq)
        return {n0: a, n1: b, 'alpha': T.scalar('alpha'), '#support': LazySupport([a, b]), '#lb': {'L': 2}}
    return f

for _cls, _fn, _n0, _n1 in (('mps', 'mps.add_mps', 'mps0', 'mps1'), ('mpo', 'mpo.add_mpo', 'op0', 'op1')):
    TContract(fn=_fn, args=_args_add(_cls, 1), extra_lib=SITE_LIB, loop_handler=foreach,
              ensures={'single_site[L=1]': aclause(f"res.A['0'] == add({_n0}.A['0'], mul({_n1}.A['0'], alpha))"),
                       'boundary_charges[L=1]': qclause(lambda env, res, n0=_n0: _same_qv(res.qD['0'], env[n0].qD['0']) and _same_qv(res.qD['1'], env[n0].qD['1']))},
              canaries={'single_site[L=1]': aclause(f"res.A['0'] == add({_n0}.A['0'], {_n1}.A['0'])")},
              props=('C03', 'C02'))
    TContract(fn=_fn, args=_args_add(_cls, SymIndex('L')), extra_lib=SITE_LIB, loop_handler=foreach,
              ensures={'first_site': aclause(f"res.A['0'] == hcat({_n0}.A['0'], mul({_n1}.A['0'], alpha))"),
                       'middle_site': aclause(f"res.A['i'] == blockdiag({_n0}.A['i'], {_n1}.A['i'])"),
                       'last_site': aclause(f"res.A['L-1'] == vcat({_n0}.A['L-1'], {_n1}.A['L-1'])"),
                       'bond_charges': qclause(lambda env, res, n0=_n0, n1=_n1: _qcat(res, env, 'i', n0, n1)),
                       'boundary_charges': qclause(lambda env, res, n0=_n0: _same_qv(res.qD['0'], env[n0].qD['0']) and _same_qv(res.qD['L'], env[n0].qD['L']))},
              canaries={'first_site': aclause(f"res.A['0'] == hcat({_n0}.A['0'], {_n1}.A['0'])"),
                        'middle_site': aclause(f"res.A['i'] == blockdiag({_n1}.A['i'], {_n0}.A['i'])")},
              props=('C03', 'C02'))
