"""Site-indexed symbolic objects for engine T: MPS / MPO records whose tensor and charge lists are
SymSeq values indexed by symbolic site expressions, 'foreach' loops (independent iterations executed
once for a generic site index), list comprehensions over symbolic ranges."""
import ast
from . import tensor as T
from .symexec import (Exec, Unsupported, Refuted, Obj, SymSeq, SymIndex, SymRange, Unknown, State)
from .libt import QV, QVCat, qv, is_t


def _lb(st, base):
    return st.env.get('#lb', {}).get(base)

def sym_value_bounds(x, st):
    """(min, max) of a SymIndex / int under the facts (None = unbounded)"""
    if isinstance(x, int):
        return x, x
    if isinstance(x, SymIndex):
        if not x.base:
            return x.off, x.off
        rng = st.env.get('#ranges', {}).get(x.base)
        if rng is not None:
            lo, hi = rng
            l0, _ = sym_value_bounds(lo, st); _, h1 = sym_value_bounds(hi, st)
            return (l0 + x.off if l0 is not None else None, h1 - 1 + x.off if h1 is not None else None)
        lb = _lb(st, x.base)
        return (lb + x.off if lb is not None else None, None)
    return None, None

def sym_compare(ex, st, node, op, l, r):
    if not (isinstance(l, (SymIndex, int)) and isinstance(r, (SymIndex, int))):
        return NotImplemented
    if isinstance(l, SymIndex) and isinstance(r, SymIndex) and l.base == r.base:
        d = l.off - r.off
    else:
        # difference bounds
        if isinstance(l, SymIndex) and isinstance(r, SymIndex) and l.base != r.base and l.base and r.base:
            # i versus L: use the range of i expressed in L
            rng = st.env.get('#ranges', {}).get(l.base)
            if rng is not None and all(isinstance(b, (int, SymIndex)) for b in rng):
                lo, hi = rng
                # l = i + off in [lo+off, hi-1+off]
                lo_v = (lo + l.off) if isinstance(lo, SymIndex) else lo + l.off
                hi_v = (hi + (l.off - 1)) if isinstance(hi, SymIndex) else hi + l.off - 1
                if isinstance(op, (ast.Lt, ast.LtE)):
                    # l <= hi_v: true if the upper endpoint satisfies it; false if even the lower endpoint fails
                    if sym_compare(ex, st, node, op, hi_v, r) is True: return True
                    if sym_compare(ex, st, node, op, lo_v, r) is False: return False
                elif isinstance(op, (ast.Gt, ast.GtE)):
                    if sym_compare(ex, st, node, op, lo_v, r) is True: return True
                    if sym_compare(ex, st, node, op, hi_v, r) is False: return False
                elif isinstance(op, ast.NotEq):
                    if sym_compare(ex, st, node, ast.Lt(), hi_v, r) is True or sym_compare(ex, st, node, ast.Gt(), lo_v, r) is True: return True
                elif isinstance(op, ast.Eq):
                    if sym_compare(ex, st, node, ast.Lt(), hi_v, r) is True or sym_compare(ex, st, node, ast.Gt(), lo_v, r) is True: return False
            return Unknown('symbolic index comparison')
        lmin, lmax = sym_value_bounds(l, st); rmin, rmax = sym_value_bounds(r, st)
        dmin = None if lmin is None or rmax is None else lmin - rmax
        dmax = None if lmax is None or rmin is None else lmax - rmin
        def dec(pred_all, pred_none):
            return True if pred_all else False if pred_none else Unknown('symbolic index comparison')
        if isinstance(op, ast.Eq): return dec(dmin == 0 and dmax == 0, (dmin is not None and dmin > 0) or (dmax is not None and dmax < 0))
        if isinstance(op, ast.NotEq): return dec((dmin is not None and dmin > 0) or (dmax is not None and dmax < 0), dmin == 0 and dmax == 0)
        if isinstance(op, ast.Gt): return dec(dmin is not None and dmin > 0, dmax is not None and dmax <= 0)
        if isinstance(op, ast.GtE): return dec(dmin is not None and dmin >= 0, dmax is not None and dmax < 0)
        if isinstance(op, ast.Lt): return dec(dmax is not None and dmax < 0, dmin is not None and dmin >= 0)
        if isinstance(op, ast.LtE): return dec(dmax is not None and dmax <= 0, dmin is not None and dmin > 0)
        return NotImplemented
    import operator
    ops = {ast.Eq: operator.eq, ast.NotEq: operator.ne, ast.Gt: operator.gt, ast.GtE: operator.ge, ast.Lt: operator.lt, ast.LtE: operator.le}
    return ops[type(op)](d, 0) if type(op) in ops else NotImplemented


def keyplus(key, k):
    """'i' -> 'i+1' etc. on canonical key strings"""
    s = parse_key(key) + k
    return s.key() if isinstance(s, SymIndex) else str(s)

def parse_key(key):
    key = str(key)
    try:
        return SymIndex('', int(key))
    except ValueError:
        pass
    for sep in ('+', '-'):
        p = key.rfind(sep)
        if p > 0:
            return SymIndex(key[:p], int(key[p:]))
    return SymIndex(key, 0)


class RangeSplit(Exception):
    """a read inside a generic loop body is covered only on part of the range: split at `point`"""
    def __init__(self, point):
        self.point = point


class RepList:
    """n * [elem] with symbolic n"""
    def __init__(self, elem, count):
        self.elem = elem; self.count = count


def sym_mps(name, L=None, qd=None, dname='d', bond='D', boundary_q=None):
    """symbolic MPS record: A[i] generic atomic tensor (d, D[i], D[i+1]) with D[0] = D[L] = 1;
    qD[i] generic charge vector; support hypothesis qd[s] + qD[i][a] - qD[i+1][b] == 0 for every site."""
    L = L or SymIndex('L')
    qd = qd or qv(f'{name}.qd', dname)
    Lk = L.key() if isinstance(L, SymIndex) else str(L)
    def bdim(key):
        if key == '0' or key == Lk:
            return 1
        return f'{bond}{name}[{key}]'
    def qget(key):
        if boundary_q is not None and (key == '0' or key == Lk):
            return boundary_q[0 if key == '0' else 1]
        return QV([(1, f'{name}.qD[{key}]', bdim(key))])
    def aget(key):
        return T.inp(f'{name}.A[{key}]', (dname, bdim(key), bdim(keyplus(key, 1))))
    A = SymSeq(f'{name}.A', aget, L)
    qD = SymSeq(f'{name}.qD', qget, L + 1 if isinstance(L, SymIndex) else L + 1)
    return Obj('MPS', dict(A=A, qD=qD, qd=qd, nsites=L, _name=name))

def sym_mpo(name, L=None, qd=None, dname='d', bond='W', boundary_q=None, boundary_one=True):
    L = L or SymIndex('L')
    qd = qd or qv(f'{name}.qd', dname)
    Lk = L.key() if isinstance(L, SymIndex) else str(L)
    def bdim(key):
        if boundary_one and (key == '0' or key == Lk):
            return 1
        return f'{bond}{name}[{key}]'
    def qget(key):
        if boundary_q is not None and (key == '0' or key == Lk):
            return boundary_q[0 if key == '0' else 1]
        return QV([(1, f'{name}.qD[{key}]', bdim(key))])
    def aget(key):
        return T.inp(f'{name}.A[{key}]', (dname, dname, bdim(key), bdim(keyplus(key, 1))))
    A = SymSeq(f'{name}.A', aget, L)
    qD = SymSeq(f'{name}.qD', qget, L + 1)
    return Obj('MPO', dict(A=A, qD=qD, qd=qd, nsites=L, _name=name))

def site_support(obj, key, st=None):
    """support hypothesis for the generic tensor of `obj` at site key"""
    name = obj.attrs['_name']
    qd = obj.attrs['qd']; q0 = obj.attrs['qD'].get(key); q1 = obj.attrs['qD'].get(keyplus(key, 1))
    if obj.cls == 'MPS':
        return {f'{name}.A[{key}]': [[(qd, 0), (q0, 1), (-q1, 2)]]}
    return {f'{name}.A[{key}]': [[(qd, 0), (-qd, 1), (q0, 2), (-q1, 3)]]}


class LazySupport(dict):
    """support table that knows the generic site tensors of the symbolic operands"""
    def __init__(self, objs):
        super().__init__()
        self.objs = list(objs)
    def get(self, name, default=None):
        if dict.__contains__(self, name):
            return dict.__getitem__(self, name)
        for o in self.objs:
            pre = o.attrs['_name'] + '.A['
            if name.startswith(pre) and name.endswith(']'):
                key = name[len(pre):-1]
                return site_support(o, key)[name]
        return default
    def __contains__(self, name):
        return dict.__contains__(self, name) or any(name.startswith(o.attrs['_name'] + '.A[') for o in self.objs)
    def __getitem__(self, name):
        r = self.get(name)
        if r is None:
            raise KeyError(name)
        return r


# ---- constructors -------------------------------------------------------------------------------

def _ctor(cls):
    def handler(ex, st, node, args, kw):
        qd, qD = args[0], args[1]
        fill = kw.get('fill', args[2] if len(args) > 2 else 0.0)
        if isinstance(qD, RepList):
            L = qD.count - 1
            elem = qD.elem
            if elem not in (((0,),), ([0],), [[0]]):
                raise Unsupported('repeated bond charges other than [0]')
            qDs = SymSeq('new.qD', lambda key: QV([(1, '#zero', 1)]), qD.count)
        elif isinstance(qD, SymSeq):
            if qD.length is None:
                raise Unsupported('charge list of unknown length')
            L = qD.length - 1
            qDs = qD
        elif isinstance(qD, (tuple, list)) and all(x in ((0,), [0]) for x in qD):
            L = len(qD) - 1
            qDs = SymSeq('new.qD', lambda key: QV([(1, '#zero', 1)]), len(qD))
        else:
            raise Unsupported(f'{cls} constructor with {type(qD).__name__} charges')
        if fill == 'postpone':
            A = SymSeq('new.A', lambda key: None, L)
        elif isinstance(fill, (int, float)) and fill == 0:
            def zget(key, qDs=qDs, cls=cls, qd=qd):
                d = qd.dim
                return None   # zero tensors of the dummy object are always overwritten; reading one is unsupported
            A = SymSeq('new.A', zget, L)
        else:
            raise Unsupported(f'{cls} constructor with fill={fill!r}')
        return Obj(cls, dict(A=A, qD=qDs, qd=qd, nsites=L, _name='new'))
    return handler


def listcomp(ex, st, node, it):
    """[expr for i in range(n)] with symbolic n -> SymSeq"""
    if not isinstance(it, SymRange) or it.rev or len(it.args) != 1:
        raise Unsupported('comprehension over this symbolic iterable')
    g = node.generators[0]
    if g.ifs or not isinstance(g.target, ast.Name):
        raise Unsupported('filtered comprehension')
    var = g.target.id
    env0 = dict(st.env)
    def getter(key):
        sub = State(env0, st.pc)
        sub.env[var] = parse_key(key) if not str(key).lstrip('-').isdigit() else int(key)
        return ex.ev(node.elt, sub)
    return SymSeq('comp', getter, it.args[0] if isinstance(it.args[0], SymIndex) else SymIndex('', it.args[0]))


def _assigned_names(stmts):
    out = set()
    for s in stmts:
        for n in ast.walk(s):
            if isinstance(n, ast.Name) and isinstance(n.ctx, ast.Store):
                out.add(n.id)
    return out


def _seqs_in(v, path, out):
    if isinstance(v, SymSeq):
        out[path] = v
    elif isinstance(v, Obj):
        for k, x in v.attrs.items():
            _seqs_in(x, path + '.' + k, out)


def _all_seqs(st):
    out = {}
    for k, x in st.env.items():
        _seqs_in(x, k, out)
    return out


def foreach(ex, n, st):
    """loop with independent iterations: execute the body once for a generic index"""
    if not isinstance(n, ast.For) or not isinstance(n.target, ast.Name) or n.orelse:
        raise Unsupported(f'loop at line {n.lineno} is not a simple for loop')
    it = ex.ev(n.iter, st)
    if not isinstance(it, SymRange):
        raise Unsupported(f'loop at line {n.lineno}: iterable is not a range')
    var = n.target.id
    # no loop-carried scalar state: every name assigned in the body is written before it is read
    assigned = _assigned_names(n.body) - {var}
    written = set()
    class V(ast.NodeVisitor):
        bad = None
        def visit_Assign(self, a):
            self.visit(a.value)
            for t in a.targets:
                self.visit(t)
        def visit_AugAssign(self, a):
            self.visit(a.value)
            if isinstance(a.target, ast.Name) and a.target.id in assigned and a.target.id not in written:
                self.bad = a.target.id
            self.visit(a.target)
        def visit_Name(self, x):
            if isinstance(x.ctx, ast.Store):
                written.add(x.id)
            elif x.id in assigned and x.id not in written:
                self.bad = x.id
    v = V()
    for s in n.body:
        v.visit(s)
    if v.bad:
        raise Unsupported(f'loop at line {n.lineno} carries state in variable {v.bad}')
    lo, hi = it.lo, it.hi
    ranges = dict(st.env.get('#ranges', {})); ranges[var] = (lo, hi)
    st.env['#ranges'] = ranges
    # empty range: skip
    emp = sym_compare(ex, st, n, ast.GtE(), lo if isinstance(lo, (int, SymIndex)) else 0, hi)
    before = {}
    for k, x in st.env.items():
        _seqs_in(x, k, before)
    st.env[var] = SymIndex(var)
    saved = st.fork()
    nobl = len(ex.obligations)
    try:
        outs = ex.block(n.body, [st])
    except RangeSplit as rs:
        # run the body for [lo, p) generically and for the remaining sites individually (at most 2 concrete sites)
        del ex.obligations[nobl:]
        p = rs.point
        rest = (hi - p) if isinstance(hi, SymIndex) and isinstance(p, SymIndex) else None
        if isinstance(hi, int) and isinstance(p, int):
            rest = hi - p
        if not isinstance(rest, int) or not 0 < rest <= 2:
            raise Unsupported(f'loop at line {n.lineno}: cannot split range at {p}')
        st = saved
        if sym_compare(ex, st, n, ast.Lt(), lo, p) is not False:
            ranges = dict(st.env.get('#ranges', {})); ranges[var] = (lo, p); st.env['#ranges'] = ranges
            st.env[var] = SymIndex(var)
            outs = ex.block(n.body, [st])
            if len(outs) != 1 or outs[0].done:
                raise Unsupported(f'loop at line {n.lineno}: body forks or returns')
            st = outs[0]
            for path, seq in list(_all_seqs(st).items()):
                old = before.get(path)
                if var in seq.stores and not (old is not None and var in old.stores and old.stores[var] is seq.stores[var]):
                    raise Unsupported(f'loop at line {n.lineno}: split loop with stores')
        for k in range(rest):
            site = p + k
            ranges = dict(st.env.get('#ranges', {})); ranges.pop(var, None); st.env['#ranges'] = ranges
            st.env[var] = site
            outs = ex.block(n.body, [st])
            if len(outs) != 1 or outs[0].done:
                raise Unsupported(f'loop at line {n.lineno}: body forks or returns')
            st = outs[0]
        return [st]
    if len(outs) != 1 or outs[0].done:
        raise Unsupported(f'loop at line {n.lineno}: body forks or returns')
    st = outs[0]
    after = {}
    for k, x in st.env.items():
        _seqs_in(x, k, after)
    for path, seq in after.items():
        old = before.get(path)
        oldkeys = set(old.stores) if old is not None else set()
        for key in seq.stores:
            if key in oldkeys and (old.stores[key] is seq.stores[key]):
                continue
            if key != var:
                raise Unsupported(f'loop at line {n.lineno}: store to {path}[{key}] is not at the loop index')
        if var in seq.stores and not (old is not None and var in old.stores and old.stores[var] is seq.stores[var]):
            # the generic store covers [lo, hi): concrete stores made before must lie outside
            for key in oldkeys:
                if key == var:
                    continue
                k = parse_key(key); kk = k if k.base else k.off
                below = sym_compare(ex, st, n, ast.Lt(), kk, lo)
                above = sym_compare(ex, st, n, ast.GtE(), kk, hi)
                if below is not True and above is not True:
                    raise Unsupported(f'loop at line {n.lineno}: generic store to {path} may overwrite site {key}')
            gen = dict(getattr(seq, 'generic', {})); gen[var] = (lo, hi)
            seq.generic = gen
    return [st]


def seq_store_check(ex, st, node, base, key):
    """a concrete store after a generic one must lie outside the generic range"""
    gen = getattr(base, 'generic', None)
    if not gen:
        return
    k = parse_key(key); kk = k if k.base else k.off
    for var, (lo, hi) in gen.items():
        if key == var:
            continue
        below = sym_compare(ex, st, node, ast.Lt(), kk, lo)
        above = sym_compare(ex, st, node, ast.GtE(), kk, hi)
        if below is not True and above is not True:
            raise Unsupported(f'store to site {key} may overlap the generic range of {var}')


import re

def shift_name(name, var, newkey):
    """rename every '[<expr in var>]' inside a name to the same expression with var := newkey"""
    def rep(m):
        k = parse_key(m.group(1))
        if k.base != var:
            return m.group(0)
        nk = parse_key(newkey) + k.off
        return '[' + (nk.key() if isinstance(nk, SymIndex) else str(nk)) + ']'
    return re.sub(r'\[([^\[\]]+)\]', rep, name) if isinstance(name, str) else name

def shift_value(v, var, newkey):
    """value stored for generic site `var`, re-instantiated at site `newkey`"""
    if isinstance(v, QV):
        return QV([(s, shift_name(n, var, newkey), shift_name(d, var, newkey)) for s, n, d in v.parts])
    if isinstance(v, QVCat):
        return QVCat([shift_value(p, var, newkey) for p in v.parts])
    if is_t(v):
        m = {}
        def fi(i):
            if i not in m:
                d = i.dim
                if isinstance(d, T.SumDim):
                    d = T.SumDim([shift_name(p, var, newkey) for p in d.parts])
                else:
                    d = shift_name(d, var, newkey)
                m[i] = T.Idx(d)
            return m[i]
        def ft(tok):
            if isinstance(tok, T.Part):
                return T.Part(fi(tok.idx), tok.k)
            return fi(tok)
        terms = [T.Term(t.coeff, [fi(b) for b in t.bound],
                        [(shift_name(n, var, newkey), c, tuple(tuple(ft(i) for i in ax) for ax in args)) for n, c, args in t.atoms],
                        [(ft(a), ft(b)) for a, b in t.deltas]) for t in v.terms]
        return T.SymTensor([tuple(ft(i) for i in ax) for ax in v.axes], terms, v.kind)
    if isinstance(v, (tuple, list)):
        return tuple(shift_value(x, var, newkey) for x in v)
    if v is None or isinstance(v, (int, float, str)):
        return v
    raise Unsupported(f'cannot re-instantiate generic value of type {type(v).__name__}')


def seq_get(ex, st, node, base, key):
    if key in base.stores and not getattr(base, 'generic', None):
        return base.stores[key]
    gen = getattr(base, 'generic', {}) or {}
    if key in base.stores and key not in gen:
        return base.stores[key]
    k = parse_key(key); kk = k if k.base else k.off
    for var, (lo, hi) in gen.items():
        # value range of the requested key under the current facts must lie inside [lo, hi)
        ge = sym_compare(ex, st, node, ast.GtE(), kk, lo)
        lt = sym_compare(ex, st, node, ast.Lt(), kk, hi)
        if ge is True and lt is True:
            return shift_value(base.stores[var], var, key)
        if not (ge is False or lt is False):
            if k.base and k.base in st.env.get('#ranges', {}):
                # split the current loop range at the end (or start) of the covered part
                pt = hi if ge is True else lo
                raise RangeSplit(pt - k.off if isinstance(pt, SymIndex) else pt - k.off)
            raise Unsupported(f'read of {base.name}[{key}] may or may not fall into the range written by the loop over {var}')
    return base.get(key)


def t_binop_rep(ex, st, node, op, l, r):
    if isinstance(op, ast.Mult):
        if isinstance(l, SymIndex) and isinstance(r, (tuple, list)):
            return RepList(tuple(r), l)
        if isinstance(r, SymIndex) and isinstance(l, (tuple, list)):
            return RepList(tuple(l), r)
    return NotImplemented


SITE_LIB = {'MPS': _ctor('MPS'), 'MPO': _ctor('MPO'), 'listcomp': listcomp, 'compare': sym_compare,
            'seq_get': seq_get, 'seq_store_check': seq_store_check, 'binop_rep': t_binop_rep}
