"""Contracts (sidecar, keyed by function name) and the engine-T verifier that checks them against the
real AST.  A clause is a Python expression string evaluated in a *symbolic* namespace here and in a
*numeric* namespace by the run-time monitor (vt/runtime/numclause.py): same text, two interpreters."""
import time, traceback
from fractions import Fraction
from . import tensor as T
from . import loader
from .symexec import Exec, Unsupported, Refuted, Obj, SymSeq, SymIndex, Unknown
from .libt import LIB_T, QV, qv, support_holds, as_tensor, is_t

REGISTRY = {}


class Verdict:
    def __init__(self, name, engine, status, detail='', seconds=0.0, fn='', kind='ensures', backend=''):
        self.name = name; self.engine = engine; self.status = status      # discharged | refuted | undecided
        self.detail = detail; self.seconds = seconds; self.fn = fn; self.kind = kind; self.backend = backend or engine
    def as_dict(self):
        return dict(obligation=self.name, function=self.fn, engine=self.engine, backend=self.backend, kind=self.kind,
                    status=self.status, seconds=round(self.seconds, 4), detail=str(self.detail)[:600])
    def __repr__(self):
        return f'[{self.status}] {self.fn}:{self.name} ({self.engine}) {str(self.detail)[:200]}'


class Claim:
    def __init__(self, kind, a, b=None):
        self.kind = kind; self.a = a; self.b = b
    def __and__(self, o):
        return Claim('and', self, o)


class TV(T.SymTensor):
    """SymTensor with operator sugar for clause strings"""
    def __eq__(self, o):
        return Claim('eq', self, o)
    __hash__ = object.__hash__


def _wrap(x):
    if isinstance(x, T.SymTensor) and not isinstance(x, TV):
        return TV(x.axes, x.terms, x.kind)
    if isinstance(x, tuple):
        return tuple(_wrap(y) for y in x)
    return x


def sym_namespace(env, res, rules):
    def einsum(spec, *ts):
        return _wrap(T.einsum_str(spec, *[as_tensor(t) for t in ts]))
    def identity(d):
        if isinstance(d, T.Dim):
            d = d.ordered[0]
        return _wrap(T.identity(d))
    def rw(t):
        return _wrap(T.rewrite(as_tensor(t), rules))
    def shape(t):
        return as_tensor(t).shape
    def scale(t, c):
        return _wrap(T.scale(as_tensor(t), Fraction(c)))
    def add(a, b):
        return _wrap(T.add(as_tensor(a), as_tensor(b)))
    def mul(a, s):
        return _wrap(T.mul_scalar(as_tensor(a), as_tensor(s)))
    def conj(t):
        return _wrap(T.conj(as_tensor(t)))
    def zeros_like(t):
        t = as_tensor(t)
        return _wrap(T.SymTensor(t.axes, [], 'real'))
    def reshape(t, *groups):
        return _wrap(T.reshape(as_tensor(t), groups))
    def block(parts, axis):
        return _wrap(T.block_concat([as_tensor(p) for p in parts], axis))
    def dim(*names):
        return T.Dim(tuple(names))
    ns = dict(einsum=einsum, identity=identity, rw=rw, shape=shape, scale=scale, add=add, mul=mul, conj=conj,
              zeros_like=zeros_like, reshape=reshape, block=block, dim=dim, Fraction=Fraction)
    for k, v in env.items():
        if not k.startswith('#'):
            ns[k] = _wrap(v)
    ns['res'] = _wrap(res)
    return ns


def decide_claim(c, rules):
    """-> (True/False/None, detail)"""
    if isinstance(c, bool):
        return c, 'constant'
    if isinstance(c, Claim):
        if c.kind == 'and':
            a, da = decide_claim(c.a, rules); b, db = decide_claim(c.b, rules)
            if a is False or b is False: return False, f'{da}; {db}'
            if a is None or b is None: return None, f'{da}; {db}'
            return True, f'{da}; {db}'
        if c.kind == 'eq':
            a = T.rewrite(as_tensor(c.a), rules); b = T.rewrite(as_tensor(c.b), rules)
            ex = []
            try:
                ok = T.equal(a, b, ex)
            except NotImplementedError as e:
                return None, f'normaliser: {e}'
            if ok:
                return True, ex[-1] if ex else ''
            # a sum-product normal form without guards is a complete invariant for generic tensors:
            # non-isomorphic normal forms differ for some input (cross-checked numerically by the caller)
            return False, ex[-1] if ex else 'normal forms differ'
    if isinstance(c, tuple) and len(c) == 2 and isinstance(c[0], (bool, type(None))):
        return c
    return None, f'clause evaluated to {type(c).__name__}'


class TContract:
    """contract checked by engine T (+ z3 for support obligations)"""
    def __init__(self, fn, args, ensures, canaries=None, uses=None, requires=None, support=None,
                 allow_raise=False, props=(), note='', numeric=None, extra_lib=None, loop_handler=None):
        self.fn = fn; self.args = args; self.ensures = ensures; self.canaries = canaries or {}
        self.uses = uses or {}; self.requires = requires or []; self.support = support or {}
        self.allow_raise = allow_raise; self.props = tuple(props); self.note = note
        self.numeric = numeric; self.extra_lib = extra_lib or {}; self.loop_handler = loop_handler
        REGISTRY.setdefault(fn, []).append(self)

    def execute(self):
        fnode = loader.function(self.fn)
        env = self.args()
        params = [a.arg for a in fnode.args.args]
        defaults = fnode.args.defaults
        argenv = {}
        for p in params:
            if p in env:
                argenv[p] = env[p]
        # defaults for trailing parameters
        for p, d in zip(params[len(params) - len(defaults):], defaults):
            if p not in argenv:
                argenv[p] = eval(compile(__import__('ast').Expression(d), '<default>', 'eval'))
        missing = [p for p in params if p not in argenv]
        if missing:
            raise Unsupported(f'contract for {self.fn} is stale: parameters {missing} have no symbolic value')
        hidden = {k: v for k, v in env.items() if k.startswith('#')}
        lib = dict(LIB_T); lib.update(self.extra_lib)
        ex = Exec(lib=lib, calls=self.uses, mode='T', fname=self.fn, loop_handler=self.loop_handler)
        st_env = dict(argenv); st_env.update(hidden)
        st_env.setdefault('#rules', []); st_env.setdefault('#support', dict(self.support))
        states = ex.run_function(fnode, st_env)
        return ex, states, env

    def verify(self):
        out = []
        t0 = time.time()
        try:
            ex, states, env = self.execute()
        except Refuted as e:
            for name in self.ensures:
                out.append(Verdict(name, 'T', 'refuted', f'execution fails for generic inputs: {e}', time.time() - t0, self.fn))
            return out
        except (Unsupported, NotImplementedError, KeyError, AttributeError, TypeError, IndexError) as e:
            if type(e).__name__ == 'RangeSplit':
                pass
            for name in self.ensures:
                out.append(Verdict(name, 'T', 'undecided', f'outside fragment: {type(e).__name__}: {e}', time.time() - t0, self.fn))
            return out
        except Exception as e:
            for name in self.ensures:
                out.append(Verdict(name, 'T', 'undecided', f'executor error: {type(e).__name__}: {e}', time.time() - t0, self.fn))
            return out
        texec = time.time() - t0
        finals = [s for s in states if s.done and s.raised is None]
        raised = [s for s in states if s.raised is not None]
        if raised and not self.allow_raise:
            out.append(Verdict('no_exception', 'T', 'refuted', f'path raises {raised[0].raised}', texec, self.fn, 'safety'))
        if not finals:
            for name in self.ensures:
                out.append(Verdict(name, 'T', 'undecided', 'no returning path', texec, self.fn))
            return out
        # repository asserts and callee preconditions recorded during execution
        for ob in ex.obligations:
            status = 'discharged' if ob.holds is True else 'refuted' if ob.holds is False else 'undecided'
            out.append(Verdict(f'{ob.kind}@{ob.lineno}: {ob.text[:70]}', 'T', status, ob.detail, 0.0, self.fn, ob.kind))
        for name, clause in self.ensures.items():
            out.append(self._clause(name, clause, finals, env, 'ensures'))
        for name, clause in self.canaries.items():
            v = self._clause(name, clause, finals, env, 'canary')
            # a canary must NOT be discharged
            if v.status == 'discharged':
                v.status = 'canary-verified'
            else:
                v.detail = f'canary correctly not provable ({v.status})'
                v.status = 'canary-ok'
            out.append(v)
        return out

    def _clause(self, name, clause, finals, env, kind):
        t0 = time.time()
        worst = True; details = []
        for s in finals:
            rules = s.env.get('#rules', [])
            e2 = dict(env); e2.update({k: v for k, v in s.env.items() if k.startswith('#')})
            try:
                if callable(clause):
                    c = clause(e2, s.ret, rules, s)
                else:
                    c = eval(clause, sym_namespace(e2, s.ret, rules))
                ok, detail = decide_claim(c, rules)
            except (T.ShapeError, Refuted) as e:
                ok, detail = False, f'shape: {e}'
            except (Unsupported, NotImplementedError) as e:
                ok, detail = None, f'outside fragment: {e}'
            except Exception as e:
                ok, detail = None, f'clause error: {type(e).__name__}: {e}'
            details.append(detail)
            if ok is False:
                worst = False; break
            if ok is None and worst is True:
                worst = None
        status = 'discharged' if worst is True else 'refuted' if worst is False else 'undecided'
        d = details[-1] if details else ''
        if isinstance(d, dict):
            d = f"certificate with {len(d.get('certificate', []))} matched terms"
        return Verdict(name, 'T', status, d, time.time() - t0, self.fn, kind)


def contracts_for(prop):
    return [c for cs in REGISTRY.values() for c in cs if prop in c.props]
