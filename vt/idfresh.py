"""Engine Z (abstract domain 'id freshness'): in the hand-written graph constructions every node / edge is
created with an explicit integer id taken from a running counter.  Obligation: at every creation site the
counter is *fresh* (greater than every id of that kind used so far); the candidate loop invariant "counter is
fresh at the loop head" is tried on every loop (a one-element Houdini set).  This is the precondition
`id not in graph` of OpGraph.add_node / add_edge / add_connect_edge, for every L."""
import ast, time
from . import loader
from .contract import Verdict

CTORS = {'OpGraphNode': 'node', 'OpGraphEdge': 'edge', 'AutOpNode': 'node', 'AutOpEdge': 'edge'}


def _ctor_uses(stmt):
    """[(counter variable name | int constant, kind, lineno)] for id arguments of node/edge constructors in a statement"""
    out = []
    for n in ast.walk(stmt):
        if isinstance(n, ast.Call) and isinstance(n.func, ast.Name) and n.func.id in CTORS and n.args:
            a = n.args[0]
            if isinstance(a, ast.Name):
                out.append((a.id, CTORS[n.func.id], n.lineno))
            elif isinstance(a, ast.Constant) and isinstance(a.value, int):
                out.append((a.value, CTORS[n.func.id], n.lineno))
            elif isinstance(a, ast.UnaryOp) and isinstance(a.op, ast.USub) and isinstance(a.operand, ast.Constant):
                out.append((-a.operand.value, CTORS[n.func.id], n.lineno))
    return out


class Analysis:
    def __init__(self, fname, fnode):
        self.fname = fname; self.fn = fnode
        self.obl = []           # (text, lineno, holds, detail)
        self.counters = set()
        for n in ast.walk(fnode):
            if isinstance(n, ast.AugAssign) and isinstance(n.target, ast.Name) and isinstance(n.op, ast.Add):
                self.counters.add(n.target.id)
        used = {u[0] for s in ast.walk(fnode) if isinstance(s, ast.stmt) for u in _ctor_uses(s) if isinstance(u[0], str)}
        self.counters &= used
        self.explicit = {}      # kind -> max explicit constant id seen so far (flow-insensitive upper bound)

    def run(self):
        state = {c: None for c in self.counters}       # None = not yet initialised, True = fresh, False = stale
        self.block(self.fn.body, state)
        return self.obl

    def block(self, stmts, st):
        for s in stmts:
            st = self.stmt(s, st)
            if st is None:
                return None
        return st

    def join(self, a, b):
        if a is None: return b
        if b is None: return a
        return {c: (a[c] if a[c] == b[c] else (False if (a[c] is False or b[c] is False) else a[c] if b[c] is None else b[c])) for c in a}

    def stmt(self, s, st):
        if isinstance(s, (ast.For, ast.While)):
            head = dict(st)
            for c in self.counters:
                if st[c] is False:
                    self.obl.append((f'{c} fresh when the loop at line {s.lineno} is entered', s.lineno, False, 'stale id at loop entry'))
            body = {c: (True if st[c] is not None else None) for c in self.counters}
            self.loop_stack = getattr(self, 'loop_stack', []) + [s]
            out = self.block(s.body, dict(body))
            self.loop_stack = self.loop_stack[:-1]
            uses_in_loop = {u[0] for x in ast.walk(s) if isinstance(x, ast.stmt) for u in _ctor_uses(x) if isinstance(u[0], str)}
            for c in self.counters:
                if c in uses_in_loop:
                    ok = out is None or out[c] is not False
                    self.obl.append((f'loop at line {s.lineno} re-establishes "every used {c} < {c}" (candidate invariant)', s.lineno, ok,
                                     '' if ok else f'an iteration creates an object with id {c} and reaches the next iteration without incrementing {c}'))
            # after the loop the invariant holds (if it was established and preserved)
            res = dict(st)
            if out is not None:
                for c in self.counters:
                    if out[c] is False:
                        res[c] = False
            return res
        if isinstance(s, ast.If):
            a = self.block(s.body, dict(st)); b = self.block(s.orelse, dict(st))
            return self.join(a, b)
        if isinstance(s, ast.Continue):
            for c in self.counters:
                if st[c] is False:
                    self.obl.append((f'{c} fresh at `continue` (line {s.lineno})', s.lineno, False, 'continue with a used id'))
            return None
        if isinstance(s, (ast.Return, ast.Raise, ast.Break)):
            return None if not isinstance(s, ast.Break) else st
        if isinstance(s, ast.AugAssign) and isinstance(s.target, ast.Name) and s.target.id in self.counters:
            if isinstance(s.op, ast.Add) and isinstance(s.value, ast.Constant) and isinstance(s.value.value, int) and s.value.value > 0:
                st = dict(st); st[s.target.id] = True
            else:
                st = dict(st); st[s.target.id] = False
            return st
        if isinstance(s, ast.Assign) and len(s.targets) == 1 and isinstance(s.targets[0], ast.Name) and s.targets[0].id in self.counters:
            c = s.targets[0].id
            v = s.value
            fresh = False
            if isinstance(v, ast.Constant) and isinstance(v.value, int):
                kind = 'node' if c.startswith('n') else 'edge'
                fresh = v.value > self.explicit.get(kind, v.value - 1)
            elif isinstance(v, ast.BinOp) and isinstance(v.op, ast.Add) and isinstance(v.right, ast.Constant) and v.right.value >= 1 \
                    and isinstance(v.left, ast.Call) and isinstance(v.left.func, ast.Name) and v.left.func.id == 'max':
                fresh = True
            st = dict(st); st[c] = fresh
            self.obl.append((f'{c} initialised above every id in use ({ast.unparse(v)[:40]})', s.lineno, fresh, ''))
            return st
        uses = _ctor_uses(s)
        st = dict(st)
        seen = set()
        for name, kind, ln in uses:
            if isinstance(name, int):
                self.explicit[kind] = max(self.explicit.get(kind, name), name)
                continue
            if name not in self.counters or name in seen:
                continue
            seen.add(name)
            ok = st[name] is True
            self.obl.append((f'{name} is fresh where the {kind} is created', ln, ok,
                             '' if ok else f'id {name} may already be in use: precondition "id not in graph" of add_{kind} not established'))
            st[name] = False
        return st


TARGETS = {
    'C07': ['hamiltonian.MolecularOpGraphNodes.__init__', 'hamiltonian.MolecularOpGraphNodes.generate_graph',
            'hamiltonian.SpinMolecularOpGraphNodes.__init__', 'hamiltonian.SpinMolecularOpGraphNodes.generate_graph'],
    'C06': ['hamiltonian.linear_fermionic_mpo', 'opgraph.OpGraph.from_automaton'],
    'C17': ['opgraph.OpGraph.from_automaton', 'opgraph.OpGraph._insert_opchain'],
    'C05': ['opgraph.OpGraph.from_opchains'],
}
CONFIRM = {'hamiltonian.SpinMolecularOpGraphNodes.generate_graph': ['spin_molecular_hamiltonian_mpo'],
           'hamiltonian.SpinMolecularOpGraphNodes.__init__': ['spin_molecular_hamiltonian_mpo'],
           'hamiltonian.MolecularOpGraphNodes.generate_graph': ['molecular_hamiltonian_mpo'],
           'hamiltonian.MolecularOpGraphNodes.__init__': ['molecular_hamiltonian_mpo'],
           'hamiltonian.linear_fermionic_mpo': ['linear_fermionic_mpo'],
           'opgraph.OpGraph.from_automaton': ['from_automaton', 'ising_mpo'], 'opgraph.OpGraph._insert_opchain': ['from_optrees'],
           'opgraph.OpGraph.from_opchains': ['from_opchains']}


def verify(prop):
    out = []
    for fn in TARGETS.get(prop, []):
        t0 = time.time()
        try:
            a = Analysis(fn, loader.function(fn))
            obl = a.run()
        except Exception as e:
            out.append(Verdict('id_freshness', 'Z', 'undecided', f'analysis error {type(e).__name__}: {e}', 0, fn, 'ensures', 'idfresh'))
            continue
        dt = (time.time() - t0) / max(1, len(obl))
        if not obl:
            out.append(Verdict('id_freshness', 'Z', 'undecided', 'no id counter found (contract stale)', 0, fn, 'ensures', 'idfresh'))
        for text, ln, ok, detail in obl:
            v = Verdict(f'idfresh@{ln}: {text[:90]}', 'Z', 'discharged' if ok else 'refuted',
                        detail + ('' if ok else ' (needs native confirmation: abstract domain)'), dt, fn, 'ensures', 'idfresh')
            v.confirm = CONFIRM.get(fn, [])
            out.append(v)
    return out
