"""Handling of independently produced property-breaking changes (/verif/seeded/<id>/).

  python3-vt -m vt.seedtest confirm <mutant dir> <property id>    # in a scratch worktree: tests pass, demo fails/passes
  python3-vt -m vt.seedtest detect <seeded id> [check ids...]     # apply to /repo, run the checks, undo
  python3-vt -m vt.seedtest table                                 # summary of meta.json files

Nothing is ever committed to /repo; every scratch worktree is removed when done."""
import json, os, shutil, subprocess, sys, tempfile, time

VERIF = os.path.dirname(os.path.dirname(os.path.abspath(__file__)))
SEEDED = os.path.join(VERIF, 'seeded')
PY = '/venv/bin/python'


def sh(cmd, cwd=None, env=None, timeout=3600):
    p = subprocess.run(cmd, cwd=cwd, env=env, shell=isinstance(cmd, str), capture_output=True, text=True, timeout=timeout)
    return p.returncode, p.stdout + p.stderr


def confirm(src, pid, name=None):
    """confirm a mutant in a fresh scratch worktree of /repo; copy it to /verif/seeded/<id>"""
    name = name or os.path.basename(src.rstrip('/'))
    wt = tempfile.mkdtemp(prefix='vtseed_', dir='/tmp')
    os.rmdir(wt)
    rc, out = sh(['git', '-C', '/repo', 'worktree', 'add', '-q', '--detach', wt, 'HEAD'])
    res = dict(id=name, property=pid, ran=[])
    try:
        env = dict(os.environ, PYTHONPATH=wt, OMP_NUM_THREADS='2', OPENBLAS_NUM_THREADS='2')
        demo = os.path.join(src, 'demo.py')
        rc0, o0 = sh([PY, demo], cwd=wt, env=env, timeout=1200)
        res['demo_passes_without_patch'] = rc0 == 0
        res['ran'].append(f'PYTHONPATH=<scratch worktree> {PY} demo.py (unpatched) -> exit {rc0}')
        rc, o = sh(['git', '-C', wt, 'apply', os.path.join(src, 'patch.diff')])
        rebased = None
        if rc != 0:
            # the patch was written against an earlier commit of /repo (a later `fix:` commit touched the same file): 3-way merge
            rc, o = sh(['git', '-C', wt, 'apply', '--3way', os.path.join(src, 'patch.diff')])
            if rc != 0:
                res['error'] = 'patch does not apply: ' + o[-300:]
                return res
            rc, rebased = sh(['git', '-C', wt, 'diff', 'HEAD'])
            sh(['git', '-C', wt, 'reset', '-q'])
            res['ran'].append('patch rebased onto the current HEAD of /repo with git apply --3way')
        rc1, o1 = sh([PY, demo], cwd=wt, env=env, timeout=1200)
        res['demo_fails_with_patch'] = rc1 != 0
        res['demo_output_tail'] = o1[-400:]
        res['ran'].append(f'git apply patch.diff; {PY} demo.py -> exit {rc1}')
        t0 = time.time()
        rct, ot = sh([PY, '-m', 'pytest', '-q', '-p', 'no:cacheprovider', '--timeout=900', '-x'], cwd=wt, env=env, timeout=3000)
        res['tests_pass_with_patch'] = rct == 0
        res['tests_tail'] = ot.strip().splitlines()[-1] if ot.strip() else ''
        res['ran'].append(f'{PY} -m pytest -q -p no:cacheprovider --timeout=900 -x (patched) -> exit {rct} in {time.time() - t0:.0f}s')
        ok = res['demo_passes_without_patch'] and res['demo_fails_with_patch'] and res['tests_pass_with_patch']
        res['confirmed'] = ok
        if ok:
            dst = os.path.join(SEEDED, name)
            os.makedirs(dst, exist_ok=True)
            if rebased:
                open(os.path.join(dst, 'patch.diff'), 'w').write(rebased)
            else:
                shutil.copy(os.path.join(src, 'patch.diff'), dst)
            shutil.copy(demo, dst)
            meta = {}
            mp = os.path.join(src, 'meta.json')
            if os.path.exists(mp):
                try:
                    meta = json.load(open(mp))
                except Exception:
                    meta = {}
            meta.update(property=pid, confirmed_by_me=True, what_i_ran=res['ran'], tests_tail=res['tests_tail'])
            json.dump(meta, open(os.path.join(dst, 'meta.json'), 'w'), indent=1)
        return res
    finally:
        sh(['git', '-C', '/repo', 'worktree', 'remove', '--force', wt])
        shutil.rmtree(wt, ignore_errors=True)


def detect(name, checks=None, tier='quick'):
    """apply the seeded change to /repo, run the registered quick checks, undo"""
    d = os.path.join(SEEDED, name)
    meta = json.load(open(os.path.join(d, 'meta.json')))
    checks = checks or [meta['property']]
    if os.environ.get('VT_DETECT_SCRATCH'):
        # parallel-safe variant: the change is applied to a scratch copy of pytenet (as in vt/selftest.py), /repo is only read
        from . import selftest
        import tempfile, subprocess
        base = tempfile.mkdtemp(prefix='vtdet_', dir=os.environ.get('TMPDIR', '/dev/shm'))
        out = {}
        try:
            selftest._copy_repo(base)
            r = subprocess.run(['patch', '-p1', '-s', '-d', base, '-i', os.path.join(d, 'patch.diff')], capture_output=True, text=True)
            if r.returncode != 0:
                raise SystemExit('patch does not apply: ' + (r.stdout + r.stderr)[-200:])
            for pid in checks:
                t0 = time.time()
                env = dict(os.environ, VT_NO_EVIDENCE='1', VT_REPO=base)
                rc, o = sh(['python3-vt', '-m', 'vt.cli', 'check', pid, '--tier', tier], cwd=VERIF, env=env, timeout=3600)
                viol = [l for l in o.splitlines() if l.startswith('VIOLATION')]
                out[pid] = dict(exit=rc, seconds=round(time.time() - t0, 1),
                                violations=[(' '.join(v.split()[3:]) or v.split('replay=')[1].split('/')[-1])[:160] for v in viol][:8],
                                undecided=[l.split('obligation=')[1].split(' (')[0][:90] for l in o.splitlines() if l.startswith('UNDECIDED')][:12],
                                n_violations=len(viol), broken=[l[:200] for l in o.splitlines() if l.startswith('CHECKER-BROKEN')][:2],
                                summary=[l for l in o.splitlines() if l.startswith(pid + ' [')][:1])
        finally:
            shutil.rmtree(base, ignore_errors=True)
        meta.setdefault('detection', {}).update(out)
        meta['detected'] = any(v['exit'] == 1 for v in meta['detection'].values())
        json.dump(meta, open(os.path.join(d, 'meta.json'), 'w'), indent=1)
        return out
    import fcntl
    lock = open('/tmp/vt_repo.lock', 'w')
    fcntl.flock(lock, fcntl.LOCK_EX)          # /repo is shared: one detection at a time
    rc, o = sh(['git', '-C', '/repo', 'status', '--porcelain', '--untracked-files=no'])
    if o.strip():
        raise SystemExit('/repo is not clean: ' + o)
    rc, o = sh(['git', '-C', '/repo', 'apply', os.path.join(d, 'patch.diff')])
    if rc != 0:
        raise SystemExit('patch does not apply to /repo: ' + o)
    out = {}
    try:
        for pid in checks:
            t0 = time.time()
            env = dict(os.environ, VT_NO_EVIDENCE='1')
            rc, o = sh(['python3-vt', '-m', 'vt.cli', 'check', pid, '--tier', tier], cwd=VERIF, env=env, timeout=3600)
            viol = [l for l in o.splitlines() if l.startswith('VIOLATION')]
            out[pid] = dict(exit=rc, seconds=round(time.time() - t0, 1),
                            violations=[(' '.join(v.split()[3:]) or v.split('replay=')[1].split('/')[-1])[:160] for v in viol][:8],
                            undecided=[l.split('obligation=')[1].split(' (')[0][:90] for l in o.splitlines() if l.startswith('UNDECIDED')][:12],
                            n_violations=len(viol), broken=[l[:200] for l in o.splitlines() if l.startswith('CHECKER-BROKEN')][:2],
                            summary=[l for l in o.splitlines() if l.startswith(pid + ' [')][:1])
    finally:
        sh(['git', '-C', '/repo', 'checkout', '--', '.'])
        shutil.rmtree(os.path.join(VERIF, 'replays', 'selftest'), ignore_errors=True)
    meta.setdefault('detection', {}).update(out)
    meta['detected'] = any(v['exit'] == 1 for v in meta['detection'].values())
    json.dump(meta, open(os.path.join(d, 'meta.json'), 'w'), indent=1)
    return out


def table():
    rows = []
    for name in sorted(os.listdir(SEEDED)):
        mp = os.path.join(SEEDED, name, 'meta.json')
        if not os.path.exists(mp):
            continue
        m = json.load(open(mp))
        det = m.get('detection', {})
        by = []
        for pid, r in det.items():
            if r['exit'] == 1:
                ded = [v for v in r['violations'] if 'obligation=' in v]
                by.append(f"{pid}: {'deductive+' if ded else ''}bounded" if any('clause=' in v for v in r['violations']) else f'{pid}: deductive')
            elif r['exit'] == 3:
                by.append(f'{pid}: CHECKER-BROKEN')
        rows.append((name, m.get('property'), 'caught' if m.get('detected') else ('MISSED' if det else 'not run'), '; '.join(by), (m.get('summary') or '')[:100]))
    for r in rows:
        print(' | '.join(str(x) for x in r))
    return rows


BASE_UNDECIDED = {}      # obligations that are undecided on the unchanged tree (filled by `baseline`)
try:
    BASE_UNDECIDED = json.load(open(os.path.join(SEEDED, 'baseline_undecided.json')))
except Exception:
    pass

NOTES = {
    'C05-r9-coeffs-collected-before-zero-filter': 'round 9. Caught by the polynomial clause of the stand-in (zero-coefficient chains followed by a different coefficient are generated); no deductive obligation reaches the compiler body.',
    'C17-r9-automaton-active-is-False': 'round 9. **Missed at first** (activity callables of the stand-in returned Python bools). Added: activity tables of odd edge ids are numpy bool masks (the callable returns numpy.bool_), and a new engine-F obligation `callback_result_used_by_truth_value` on `from_automaton`; both report it now.',
    'C16-r9-add-copy-only-on-id-overlap': 'round 9. Two agents (C16, C19) produced the same change independently; engine F refutes `modifies` / `no_capture[other->self]` of `OpGraph.add` for all inputs (definite write), the stand-in has disjoint-id graphs.',
    'C19-r9-add-copy-only-on-id-overlap': 'round 9. As above; C19 reports the named obligation with no-failing-input-found (its generators do not produce id-disjoint graphs), C16 supplies the replayed input.',
    'C18-r9-phase-cap-isqrt': 'round 9. Caught: the heap-level execution proof of `HopcroftKarp.__call__` is lost (loop shape changed) and the stand-in has graphs needing more phases than the cap (4 cases).',
    'C20-r9-zero-filter-abs-ge-tol': 'round 9. Caught by the chain-count bound of C20 (618 cases); C05 is rightly silent (the operator is unchanged).',

    'C03-identity-shared-tensor': 'deliberately not alarmed on (see meta.json: no listed property is violated; the demonstration edits a site tensor of the result in place)',
    'C03-identity-shared-site-tensor': 'deliberately not alarmed on (same change as C03-identity-shared-tensor, proposed again in round 3; see section 6: no public operation writes into a site tensor, the demonstration does)',
    'C03-add-mps-block-dtype': 'first run: MISSED. r_C03 now builds operands of mixed entry kinds (real + complex + integer)',
    'C18-stale-matching-state': 'first run: MISSED. Added solver-reuse history cases to r_C18 and the static obligation `state_independent_of_previous_calls` (engine F, definite initialisation of instance state)',
    'C08-lanczos-real-dtype': 'first run: MISSED by C08. Added the dtype lattice (`no narrowing store`) to engine Z for the Krylov iterations and real-valued states to r_C08/r_C09/r_C10',
    'C07-gauge-right-block-conj': 'would have been missed with gauge cases L<=6; r_C07 now has L=7 (thorough: 8) for every rotated pair',
    'C04-blocks-state-dtype': 'round 2, first run: MISSED (proof of the fold lost, no failing input). r_C04 now draws the entry kind per object (real state with complex operator); engine Z got shape+kind contracts for operation.py (`vt/zops.py`) that refute the narrowing store',
    'C04-vdot-sector-shortcut': 'round 2, first run: MISSED. r_C04 now has bra/ket pairs in the same physical sector with shifted bond charges (non-zero leading charge)',
    'C10-twosite-final-normalize': 'round 2, first run: MISSED (two-site DMRG was only run with tol_split = 0). r_C10 now has tol_split > 0 cases; this also surfaced finding F8',
    'C13-trunc-tie-ge': 'round 2, first run: MISSED by C13 (proof of the truncation rule lost, no failing input in r_C13). r_C13 now shares the exact dyadic tie / exact zero spectra of r_C12',
    'C16-edge-keeps-caller-nids': 'round 2, first run: MISSED. The harness builds parallel edges from one caller-owned [from, to] list; engine F has `no_capture` obligations for the edge/node constructors',
    'C16-simplify-isclose-coeffs': 'round 2, first run: MISSED. r_C16 now has operator sums that differ by 2^-30 relative / 2^-40 absolute (exactly representable)',
    'C03-mps-qd-aliased': 'round 2, first run: MISSED by C03. r_C03 now overwrites each result in place and repeats the operation on the operands',
    'C06-ftype-alias-missing-comma': "round 2, first run: MISSED. r_C06 and engine S now use the long spellings ('create', 'creation') accepted by the pinned source",
    'C11-tiny-block-skip': 'round 2, first run: MISSED (product tolerance was absolute for small matrices). r_C11 checks Q R = A relative to |A| and scales matrices / single blocks by 1e-18 ... 1e12',
    'C14-arnoldi-early-exit-axis': 'round 2, first run: CHECKER-BROKEN (a refuted obligation is assumed afterwards, which made the path condition contradictory and the canary provable). Canary policy corrected; now refuted `sizes_consistent` + bounded',
    'C14-lanczos-relative-breakdown': 'round 2, first run: MISSED. r_C14 has maps with exact exhaustion (zero map, integer diagonal with null start vector) and a `finite` clause',
    'C02-svd-nooverlap-after-sort': 'round 3, first run: MISSED (support clause of split_matrix_svd lost its proof, no failing input). r_C02 now splits identically vanishing blocks with disjoint, unsorted charges (dead bonds); the qr/svd block-loop contracts are part of the C02 check',
    'C05-padding-assumes-identity-id-zero': 'round 3, first run: MISSED. Every seventh chain case of r_C05 uses an identity id other than 0',
    'C14-lanczos-local-reorthogonalization': 'round 3, first run: MISSED. r_C14 has stiff spectra (cluster + outliers 1e2..1e3, n <= 40, 8-24 iterations)',
    'C20-stale-nonzero-flag': 'round 3, first run: MISSED. r_C20 / r_C05 recompile the same OpChain objects after coefficients were switched off / changed, for a longer lattice and after a translation',
    'C09-singlesite-ltr-reshape-old-shape': 'round 3, first run: MISSED by C09 (reverse kind only had bond profiles that cannot shrink). Over-complete profiles added (both calls must return)',
    'C15-breakdown-eps-from-vector-dtype': 'round 3, first run: MISSED. r_C15 has single-precision start vectors with operators of norm 1e-5..1e-3',
    'C15-expm-general-eigendecomposition': 'round 3, first run: MISSED. r_C15 / r_C14 have defective matrices (Jordan blocks in a unitary basis)',
    'C01-left-qr-next-tensor-cast': 'round 3, first run: MISSED. r_C01 has per-site mixed entry kinds (real, complex and integer site tensors in one object)',
    'C03-sparse-matrix-dtype-of-first-site': 'round 3, first run: MISSED. The generators of r_C03 can give every site tensor its own entry kind (real first site, complex later ones)',
    'C03-from-vector-bond-qnums-before-truncation': 'round 4, first run: MISSED by C03. from_vector cases check the class invariant of the result, use it in a sum, and include basis vectors',
    'C14-lanczos-shared-workspace': 'round 4, first run: MISSED. r_C14 calls each routine a second time with arguments of the same size and compares the first result; engine F has the obligation `no_state_kept_across_calls` (module-level mutable variables, globals, mutable defaults, caching decorators in the reachable pytenet functions)',
    'C15-eigh-krylov-select-range': 'round 4, first run: MISSED. r_C15 asks for more eigenpairs than the Krylov space has',
    'C13-from-vector-weights-left': 'round 4, first run: MISSED (the vectors of r_C13 were too short, n <= 5). Adversarial family added: a dominant weakly entangled branch plus a low-weight highly entangled one, n = 12, 13',
    'C17-automaton-start-qnum-zero': 'round 4, first run: MISSED (the statement of C17 does not mention node labels; the change breaks the later graph-to-MPO conversion). r_C17 now compares the quantum numbers of the terminal nodes of the unrolled graph with those of the automaton terminals',
    'C18-dfs-dead-end-not-marked': 'round 4, first run: MISSED (the matching stays correct, the running time becomes exponential on a lattice of dead ends). r_C18 has that family (up to 68 x 65 vertices) with a 5 s limit per graph; the unchanged routine needs milliseconds',
    'C18-edge-validation-hoisted': 'round 4, first run: CHECKER-BROKEN (the constructor raised at a place of the harness that had no handler, which was classified as a harness error). The runner now classifies an uncaught exception whose innermost frame is in pytenet as a failure of the clause `returns`',
    'C19-opgraph-terminal-ids-aliased': 'round 4, first run: MISSED by C19 (caught by the C16 stand-in after its graph builder passed the caller-owned list). r_C19 builds two graphs from the same argument lists and flips / renames one; engine F has a frame contract for OpGraph.__init__ (only the node and edge objects may be kept)',
    'C16-edge-add-drops-cancelled-operators': 'round 4, first run: MISSED (the stand-in compared path polynomials only; an edge with an empty operator list has the right polynomial but breaks OpGraph.as_matrix). r_C16 now compares the dense meaning given by the library with the symbolic one after every rewrite, and adds graphs that cancel terms of the first one',
    'C20-local-chains-fit-check-off-by-one': 'round 4, first run: MISSED by C20 (the Schmidt rank was taken from the dense form of the constructed MPO itself). r_C20 takes it from the documented operator (independent reference of the C06 stand-in)',
    'C11-small-int-promotion': 'round 5, first run: MISSED (integer matrices were always int64). r_C11 / r_C12 use every integer width and booleans',
    'C01-mps-canonical-form-cache': 'round 5, first run: MISSED. r_C01 rescales a site tensor of the canonical object in place (factors 2.5, 1 +- 3e-7, -1, 1e-3) and repeats the call',
    'C01-qr-isometry-shortcut': 'round 5, first run: MISSED. Same history (a factor 1 - 2e-7 is inside np.allclose tolerances)',
    'C01-qr-single-column-norm': 'round 5, first run: MISSED. r_C01 has objects whose norm is beyond 1e154 / below 1e-154 (the oracle uses an overflow-safe norm)',
    'C03-asmatrix-singlesite-inplace-shape': 'round 5, first run: CHECKER-BROKEN (the library reshaped an operand in place, after which the harness oracle raised on it). The stand-in takes its references before the call and checks the operand afterwards; clause failures are reported even if other cases ended in a harness exception',
    'C05-asmatrix-inplace-sum': 'round 5, first run: MISSED (OpGraph.as_matrix was only exercised by the C16/C17 stand-ins, with complex operators throughout). r_C05 compares OpGraph.as_matrix with the symbolic meaning; operator maps mix real and complex matrices (also in r_C16, r_C17)',
    'C05-asmatrix-skip-zero-coeff': 'round 5, first run: MISSED. Same addition (cancelling chain lists give edges whose coefficients are all zero)',
    'C14-arnoldi-classical-gram-schmidt': 'round 5, first run: MISSED. r_C14 has general matrices with singular values from 1 to 1e-12 (n = 40, 50, 20-25 iterations), orthonormality to 1e-7',
    'C02-mpo-numeric-fill-unmasked': 'round 5, first run: MISSED (r_C02 only built MPOs with fill="random"/"postpone"). r_C02 now also uses explicit scalar fills (real, complex, negative)',
    'C06-fermi-hubbard-memoized': 'round 5, first run: MISSED (every case called a constructor once). r_C06 overwrites the first result in place and calls the constructor again; engine F reports the caching decorator as no_state_kept_across_calls (refuted, confirmed natively)',
    'C19-opgraphnode-keeps-edge-lists': 'round 5, first run: MISSED (engine F refuted no_capture, but no bounded case confirmed it). The r_C19 constructor history builds node 0 of two graphs from the same caller-owned edge-id lists',
    'C08-qr-keeps-integer-dtype': 'round 5, first run: MISSED by the C08 check (the C11 check has integer matrices; no TDVP/DMRG case used integer-dtype tensors). r_C08, r_C09, r_C10 now also start from integer-dtype states',
    'C08-twosite-signature-order': 'round 5, first run: MISSED (every stand-in passed the optional parameters by keyword). r_C08 and r_C10 also use the positional form of the documented signatures',
    'C01-mpo-qphys-cache': 'round 6, first run: MISSED (10 proofs lost, no failing input). r_C01 zeroes the quantum numbers of the canonical object, perturbs every entry and orthonormalizes in the other direction',
    'C01-mps-inplace-next': 'round 6, first run: MISSED. r_C01 puts the same array object on several sites; engine F treats `out=` (and scipy `overwrite_*=True`) as a write into that argument: `modifies` of local_orthonormalize_left_qr is refuted as a definite write',
    'C14-arnoldi-inplace-normalize': 'round 6, first run: MISSED. r_C14 has integer-dtype start vectors; engine Z models np.array and has the obligation that an in-place operator keeps the kind of its array (refuted: real into an array of unknown kind)',
    'C14-lanczos-skip-normalization': 'round 6, first run: MISSED (the orthonormality proof was lost, no failing input). r_C14 has start vectors of norm 1 + 6e-9',
    'C03-identity-inplace-scale': 'round 6, first run: MISSED (MPO.identity was called with float or complex dtype and fitting scales only). r_C03 uses every combination of scale kind and dtype (float with complex scale, int with fractional scale)',
    'C08-twosite-physical-qnumbers-from-H': 'round 6, first run: MISSED (operator and state always carried the same physical labels). New family randqz in r_C08 / r_C09 / r_C10: a charge-conserving operator with neutral bonds whose labels were zeroed, acting on a state that keeps its labels',
    'C11-float-qinterm-buffer': 'round 6, first run: MISSED (charge labels were small). r_C11 / r_C12 shift the labels beyond 2^53 and up to 2^62 in every seventh case',
    'C19-edge-add-empty-alias': 'round 6, first run: MISSED. r_C19 uses an edge without operators as accumulator for two other edges and compares the added edges afterwards (engine F cannot separate keeping the immutable entries of a list from keeping the list, so there is no frame obligation for OpGraphEdge.add)',
    'C20-molecular-optimize-identity': 'round 6, first run: MISSED (the option was always the literal True). r_C20 passes True, 1 and np.True_',
    'C05-opchain-keeps-caller-lists': 'round 6, first run: MISSED (engine F refuted no_capture for OpChain.__init__, no failing input). The chain lists of all graph stand-ins are now built by a caller that reuses two scratch lists and overwrites them afterwards',
    'C09-bond-numiter-default': 'round 6, first run: MISSED (with |dt| ||H|| <= 2 a Krylov space of 25 vectors is exact to rounding). r_C09 has purely imaginary steps with |dt| ||H|| between 30 and 50 on local problems of more than 25 dimensions; the sweep contracts (engine Z, now also registered for C09) have the obligation that every local step receives the caller\'s numiter_lanczos',
    'C09-twosite-backstep-numiter': 'round 6, first run: MISSED. Same additions',
    'C17-stale-leaf-flag': 'round 7, first run: MISSED (trees were always built through the constructor). The tree builder of the stand-ins creates about half of the nodes empty and attaches the children with add_child',
    'C04-sector-shortcut': 'round 7, first run: MISSED (shifted bond charges existed for vdot only). r_C04 shifts the bond charges of bra, operator and ket by independent constants in the inner-product cases',
    'C18-phase-cap': 'round 7, first run: MISSED (random and small exhaustive graphs need few phases). r_C18 has unions of paths of lengths 3, 5, ..., 2m+1 with the end vertex indexed last (m up to 9 quick, 15 thorough), which need a number of phases growing with m',
    'C18-int-validation': 'round 7, first run: MISSED. The same graphs are also passed with NumPy integers as vertex indices',
    'C01-mpo-discard-small-R-rows': 'round 7, first run: MISSED (extreme scales were applied to whole tensors, so all rows of R were tiny or none). r_C01 scales one bond index by 1e-15 on the left and 1e+15 on the right tensor (object unchanged)',
    'C09-skip-scalar-bond-step': 'round 7, first run: MISSED (exactness cases needed a sector of dimension >= 2). r_C09 has the one-dimensional sectors of extreme total charge, where exactness is the factor exp(-dt n E)',
    'C19-autopnode-shared-lists': 'round 7, first run: MISSED (the shared-argument histories covered OpGraphNode / OpTreeNode / OpChain, not the automaton classes). r_C19 builds two automata from the same edge-id lists and connects an edge in one of them',
    'C19-spin-molecular-vint-inplace': 'round 7, first run: MISSED (the coefficient tensors of the stand-in were index-symmetric, for which the in-place symmetrization changes nothing). r_C19 also passes tensors without any index symmetry',
    'C02-add-mps-leading-charge-unchecked': 'round 7, first run: MISSED (operands always came from the same sector). r_C02 also tries sums of operands with different leading bond labels: the call has to refuse them, or what it returns has to be well formed',
    'C02-mps-init-mask-only-if-charged-sites': 'round 7, first run: MISSED. r_C02 constructs objects with all-zero physical labels and several different labels per bond',
    'C07-spin-explicit-isclose-hopping': 'round 7, first run: MISSED (coefficients were of order one and comparisons had an absolute floor). r_C07 rescales the coefficient tensors by 1e-9 or 1e7 in every fourth case and compares relative to the norm of the reference operator',
    'C05-halfchain-hash-key': 'round 7, first run: MISSED (operator ids were small non-negative integers). Every eleventh chain case of r_C05 relabels operator ids to negative and very large integers, among them -1 and -2, whose hash values coincide in CPython',
    'C11-bincount-sector-offsets': 'round 8, first run: CHECKER-BROKEN (the changed code allocates tables proportional to the range of the labels; cases ran into the per-case limit and the stand-in was killed by the check at the same moment as its own budget ended). The check now gives the runner a grace period after its budget, workers have an address-space limit (MemoryError instead of swap): reported as `terminates` failures',
    'C11-sortedness-by-diff': 'round 8, first run: MISSED. r_C11 / r_C12 use the three labels -c, 0, +c in cyclic order with c = 5e18 (int64) or 2e9 (int32 arrays): every descent overflows the difference of neighbouring labels',
    'C08-product-operator-right-block': 'round 8, first run: MISSED (every operator family had bond dimensions > 1 somewhere). New family prodh in r_C08 / r_C09: product operators with complex Hermitian site matrices (not in the DMRG stand-in: alternating local minimisation has genuine local minima for product operators, found by a multi-seed sweep of the unchanged tree)',
    'C03-sparse-matrix-noise-pruning': 'round 8, first run: MISSED. r_C03 converts operators with a badly balanced gauge (1e-25 / 1e+25) and of overall magnitude 1e-30, compared relative to the norm of the reference',
    'C14-lanczos-norm-before-reorth': 'round 8, first run: MISSED (the normalisation proof was lost, no failing input). r_C14 has start vectors in a two-dimensional invariant subspace up to 1e-15 .. 1e-12 of a Hermitian matrix of norm 1e4',
    'C02-automaton-start-node-qnum': 'round 8, first run: MISSED by the C02 check (the C17 check has the clause terminal_qnums). r_C02 converts an automaton with a charged start terminal into an MPO',
    'C17-opchain-matrix-inplace-coeff': 'round 8, first run: MISSED. r_C17 evaluates chains with a complex coefficient over real and integer local matrices',
    'C08-twosite-left-block-check': 'round 7, first run: MISSED (states always had leading bond label 0). r_C08 / r_C09 / r_C10 shift all bond labels of the start state by a constant in every sixth case',
    'C20-spin-molecular-default': 'round 7, first run: MISSED (the option was always passed explicitly). r_C20 also calls spin_molecular_hamiltonian_mpo with its documented default',
    'C04-average-real-if-close': 'round 8, first run: MISSED (expectation values were of order one and compared with an absolute floor). r_C04 scales the state to norm 1e-8 in every fourth average case and compares relative to the reference scale',
    'C17-optree-node-children-alias': 'round 5, first run: MISSED. r_C17 builds two tree nodes from one list and extends one; engine F distinguishes keeping the *elements* of a list (allowed for nodes) from keeping the list itself',
    'C06-zero-coeff-filter-tolerance': 'first run: MISSED. r_C06 now includes parameter points scaled by 1e-9 ... 1e+12 (every parameter value is legal)',
}


def markdown():
    rows = ['| id | property | needs, to manifest | caught by | remark |', '|---|---|---|---|---|']
    for name in sorted(os.listdir(SEEDED)):
        mp = os.path.join(SEEDED, name, 'meta.json')
        if not os.path.exists(mp):
            continue
        m = json.load(open(mp))
        det = m.get('detection', {})
        by = []
        for pid, r in det.items():
            if r['exit'] == 1:
                ded = sorted({v.split('obligation=')[1].split(' no-failing')[0][:70] for v in r['violations'] if 'obligation=' in v})
                bnd = sorted({v.split('clause=')[1].split()[0] for v in r['violations'] if 'clause=' in v})
                lost = [u for u in r.get('undecided', []) if u not in BASE_UNDECIDED.get(pid, ())]
                by.append(f"{pid}: " + '; '.join((['refuted: ' + ', '.join(f'`{d}`' for d in ded[:2])] if ded else []) + (['proof lost (undecided): ' + ', '.join(f'`{d}`' for d in lost[:2])] if lost else []) + (['bounded: ' + ', '.join(bnd[:4])] if bnd else [])))
            elif r['exit'] == 0:
                by.append(f'{pid}: **missed**')
            else:
                by.append(f'{pid}: checker broken')
        needs = (m.get('needs') or '').replace('|', '/').replace('\n', ' ')[:230]
        rows.append(f"| {name} | {m.get('property')} | {needs} | {' / '.join(by) or 'not run'} | {NOTES.get(name, '')} |")
    return '\n'.join(rows)


if __name__ == '__main__':
    cmd = sys.argv[1]
    if cmd == 'confirm':
        print(json.dumps(confirm(sys.argv[2], sys.argv[3]), indent=1))
    elif cmd == 'detect':
        print(json.dumps(detect(sys.argv[2], sys.argv[3:] or None), indent=1))
    elif cmd == 'table':
        table()
    elif cmd == 'markdown':
        print(markdown())
    elif cmd == 'baseline':
        base = {}
        for k in range(1, 21):
            pid = f'C{k:02d}'
            rc, o = sh(['python3-vt', '-m', 'vt.cli', 'check', pid, '--tier', 'quick'], cwd=VERIF, env=dict(os.environ, VT_NO_EVIDENCE='1'))
            base[pid] = [l.split('obligation=')[1].split(' (')[0][:90] for l in o.splitlines() if l.startswith('UNDECIDED')]
        json.dump(base, open(os.path.join(SEEDED, 'baseline_undecided.json'), 'w'), indent=1)
        print(base)
