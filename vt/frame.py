"""Engine F: allocation / alias / frame analysis over the real AST.

Abstract value = set of origins; an origin is ('P', param, certain) -- memory reachable from that
parameter -- or nothing (fresh / immutable).  `certain` is True while the value was derived from the
parameter by steps that are views for sure (attribute access, list indexing, basic slicing, transpose,
.real, np.asarray); it is False after steps that *may* return a view (reshape, unknown calls).

Per function a summary is computed (bottom-up over pytenet's own call graph):
  writes[p]   : (certain, line, how)  -- the function may write into memory reachable from parameter p
  ret         : origins of the returned value (deep: anything reachable from it)
  stores[p]   : parameters whose memory may become reachable from parameter p (p.attr = q ...)
Contract: modifies(set of params), fresh_result.  A *certain* violation is refuted; a *may* violation is
undecided (the run-time snapshot monitor of C19 decides); none at all is discharged.
"""
import ast
from . import loader

FRESH_CALLS = {
    'np.tensordot', 'np.einsum', 'np.array', 'np.zeros', 'np.ones', 'np.full', 'np.identity', 'np.eye', 'np.kron',
    'np.block', 'np.concatenate', 'np.where', 'np.argsort', 'np.cumsum', 'np.intersect1d', 'np.add.outer', 'np.sqrt',
    'np.abs', 'np.exp', 'np.arange', 'np.any', 'np.all', 'np.array_equal', 'np.linalg.norm', 'np.linalg.qr', 'np.linalg.svd',
    'np.vdot', 'np.dot', 'np.trace', 'np.diag', 'np.outer', 'np.conj', 'np.zeros_like', 'np.sum', 'np.prod', 'np.round',
    'np.finfo', 'np.issubdtype', 'np.result_type', 'np.isrealobj', 'np.iscomplexobj', 'np.allclose', 'np.random.default_rng',
    'eigh_tridiagonal', 'expm', 'sparse.csr_array', 'sparse.csc_array', 'sparse.hstack', 'copy.deepcopy',
    'len', 'range', 'reversed', 'min', 'max', 'abs', 'sum', 'sorted', 'isinstance', 'int', 'float', 'complex', 'bool', 'str',
    'print', 'enumerate', 'zip', 'set', 'dict', 'all', 'any', 'hash', 'type', 'warnings.warn', 'ValueError', 'RuntimeError',
    'combinations', 'itertools.product', 'itertools.combinations', 'itertools.permutations', 'Queue', 'crandn',
    'IntEnum', 'super',
}
# calls whose result is a view of (or the same object as) the first argument for sure
VIEW_CALLS = {'np.transpose', 'np.asarray', 'np.real', 'np.imag'}
MAYVIEW_CALLS = {'np.reshape', 'np.squeeze', 'np.ravel', 'np.atleast_2d', 'copy.copy'}
FRESH_METHODS = {'copy', 'conj', 'conjugate', 'astype', 'sum', 'dot', 'tolist', 'item', 'nonzero', 'max', 'min', 'index',
                 'keys', 'values', 'items', 'get', 'count', 'empty', 'tobytes', 'todense', 'toarray', 'real_if_close',
                 'isdisjoint', 'union', 'intersection', 'startswith', 'format', 'join', 'put', 'qsize'}
VIEW_METHODS = {'transpose', 'view', 'swapaxes'}
MAYVIEW_METHODS = {'reshape', 'ravel', 'squeeze', 'flatten_view'}
MUTATING_METHODS = {'fill', 'append', 'extend', 'insert', 'pop', 'remove', 'sort', 'reverse', 'update', 'clear', 'add',
                    'discard', 'difference_update', 'setdefault', 'popitem', 'resize', 'itemset', 'put_nowait'}
VIEW_ATTRS = {'real', 'imag', 'T', 'flat'}
IMMUTABLE_ATTRS = {'shape', 'ndim', 'dtype', 'size', 'nsites', 'length', 'bond_dims'}


class AV:
    """abstract value: d = parameters whose memory the value may *be* (or be a view of);
    r = parameters whose memory may be *reachable* through it (r includes d)"""
    __slots__ = ('d', 'r', 'leaf', 'elts')
    def __init__(self, d=(), r=(), leaf=False, elts=None):
        self.d = set(d); self.r = set(r) | set(d); self.leaf = leaf      # leaf: a list/tuple of immutable values
        self.elts = elts                                                 # per-position values of a tuple literal
    def __or__(self, o):
        e = None
        if self.elts is not None and o.elts is not None and len(self.elts) == len(o.elts):
            e = [a | b for a, b in zip(self.elts, o.elts)]
        elif self.elts is not None and not o.r and o.elts is None:
            e = self.elts
        elif o.elts is not None and not self.r and self.elts is None:
            e = o.elts
        return AV(self.d | o.d, self.r | o.r, self.leaf and o.leaf, e)
    def weak(self):
        return AV({(p, False) for p, c in self.d}, {(p, False) for p, c in self.r}, self.leaf)
    def deref(self):
        """value read out of this container/object: it may be anything reachable; certain only along direct"""
        if self.leaf:
            return AV()
        return AV(set(self.d) | {(p, False) for p, c in self.r}, self.r)
    def all(self):
        return self.r

EMPTY = AV()


class Summary:
    def __init__(self, name, params):
        self.name = name; self.params = params
        self.writes = {}        # param -> list of (certain, lineno, how)
        self.ret = EMPTY        # AV over the parameters
        self.stores = {}        # param -> {(param2, certain)}
        self.stores_direct = {} # param -> {(param2, certain)}: param2 *itself* (not only what it contains) becomes reachable from param
        self.external = []      # calls treated by assumption
        self.unsupported = []
    def as_dict(self):
        return dict(function=self.name,
                    writes={p: [(c, l, h) for c, l, h in w] for p, w in self.writes.items()},
                    result_may_alias=sorted({p for p, c in self.ret.r}), result_must_alias=sorted({p for p, c in self.ret.r if c}),
                    stores={p: sorted({q for q, c in s}) for p, s in self.stores.items() if s},
                    assumed_external=sorted(set(self.external))[:20])


_summaries = {}
_in_progress = set()


def _dotted(f):
    if isinstance(f, ast.Name):
        return f.id
    if isinstance(f, ast.Attribute):
        b = _dotted(f.value)
        return None if b is None else b + '.' + f.attr
    return None


def _len_stable(fnode, p):
    """the sequence bound to parameter p keeps its length and the name keeps its binding throughout fnode:
    p is never assigned/deleted, never the receiver of a mutating method, never the base of a subscript store/delete,
    and is passed on only as the argument of len() or directly (by name) to another function (which is then checked
    through that function's own write summary at the call)"""
    for n in ast.walk(fnode):
        if isinstance(n, ast.Name) and n.id == p and not isinstance(n.ctx, ast.Load):
            return False
        if isinstance(n, ast.Subscript) and isinstance(n.value, ast.Name) and n.value.id == p and not isinstance(n.ctx, ast.Load):
            return False
        if isinstance(n, ast.Call) and isinstance(n.func, ast.Attribute) and isinstance(n.func.value, ast.Name) \
                and n.func.value.id == p and n.func.attr in MUTATING_METHODS:
            return False
        if isinstance(n, ast.AugAssign) and isinstance(n.target, ast.Name) and n.target.id == p:
            return False
        if isinstance(n, (ast.FunctionDef, ast.Lambda)) and n is not fnode:
            return False
    return True


def _runs_at_least_once(loop, minlen):
    """`for i in range(len(P))` / `for i in range(a, len(P))` with a constant a < minlen[P], and no break/continue in
    the body: the body is executed completely at least once"""
    it = loop.iter
    if not (isinstance(it, ast.Call) and _dotted(it.func) == 'range' and not it.keywords and len(it.args) in (1, 2)):
        return False
    lo = 0
    if len(it.args) == 2:
        if not (isinstance(it.args[0], ast.Constant) and isinstance(it.args[0].value, int) and it.args[0].value >= 0):
            return False
        lo = it.args[0].value
    hi = it.args[-1]
    if not (isinstance(hi, ast.Call) and _dotted(hi.func) == 'len' and len(hi.args) == 1 and isinstance(hi.args[0], ast.Name)):
        return False
    n = minlen.get(hi.args[0].id)
    if n is None or n <= lo:
        return False
    for st in loop.body:
        for x in ast.walk(st):
            if isinstance(x, (ast.Break, ast.Continue)):
                return False
    return not loop.orelse


class Analyzer:
    def __init__(self, modname, qual, fnode, classname=None, minlen=None):
        self.modname = modname; self.qual = qual; self.fn = fnode; self.classname = classname
        # call-site precondition `len(p) >= n` for parameters bound to a list/tuple literal of n elements (only kept for
        # parameters whose length cannot change inside this function, see _len_stable)
        self.minlen = {p_: n_ for p_, n_ in (minlen or {}).items() if _len_stable(fnode, p_)}
        self.params = [a.arg for a in fnode.args.args] + [a.arg for a in fnode.args.kwonlyargs]
        self.sum = Summary(f'{modname}.{qual}', self.params)
        self.env = {}
        for a in list(fnode.args.args) + list(fnode.args.kwonlyargs):
            ann = ast.unparse(a.annotation) if a.annotation is not None else ''
            if ann in ('int', 'float', 'bool', 'str', 'complex'):
                self.env[a.arg] = AV()
            elif ann.replace('collections.abc.', '') in ('Sequence[int]', 'Sequence[float]', 'Sequence[tuple[int, float]]', 'Sequence[tuple[int, int]]',
                                                         'list[int]', 'tuple[int]', 'Sequence[tuple]'):
                self.env[a.arg] = AV({(a.arg, True)}, leaf=True)
            else:
                self.env[a.arg] = AV({(a.arg, True)})
        self.kind = {}
        self.fields = {}          # (root name, attr) -> AV   (field-sensitive view of objects held in local names)
        self.alias = {}           # name -> shared set of names that may denote the same object

    # -- effects
    def write(self, av, lineno, how, deep=False):
        tgt = av.deref().d if deep else av.d
        for p, c in tgt:
            self.sum.writes.setdefault(p, []).append((c, lineno, how))

    def store_into(self, target, value):
        for p, c in target.d:
            for q, d in value.r:
                if q != p:
                    self.sum.stores.setdefault(p, set()).add((q, c and d))
            for q, d in value.d:
                if q != p:
                    self.sum.stores_direct.setdefault(p, set()).add((q, c and d))

    def root_name(self, e):
        while isinstance(e, (ast.Subscript, ast.Attribute)):
            e = e.value
        return e.id if isinstance(e, ast.Name) else None

    def reach_more(self, e, value):
        n = self.root_name(e)
        for m in (self.alias.get(n, {n}) if n is not None else ()):
            if m in self.env:
                cur = self.env[m]
                if value.r - cur.r:
                    self.env[m] = AV(cur.d, cur.r | value.r)

    # -- expressions
    def ev(self, e):
        if e is None or isinstance(e, (ast.Constant, ast.JoinedStr, ast.Slice, ast.Lambda)):
            return EMPTY
        if isinstance(e, ast.Name):
            return self.env.get(e.id, EMPTY)
        if isinstance(e, (ast.Tuple, ast.List, ast.Set)):
            r = set(); parts = []
            for x in e.elts:
                v = self.ev(x.value if isinstance(x, ast.Starred) else x)
                parts.append(v); r |= v.r
            ok = isinstance(e, ast.Tuple) and not any(isinstance(x, ast.Starred) for x in e.elts)
            return AV((), r, elts=parts if ok else None)
        if isinstance(e, ast.Dict):
            r = set()
            for x in list(e.keys) + list(e.values):
                r |= self.ev(x).r
            return AV((), r)
        if isinstance(e, ast.Attribute):
            v = self.ev(e.value)
            if e.attr in IMMUTABLE_ATTRS:
                return EMPTY
            if e.attr in VIEW_ATTRS:
                return v
            if isinstance(e.value, ast.Name) and (e.value.id, e.attr) in self.fields:
                return self.fields[(e.value.id, e.attr)]
            return v.deref()
        if isinstance(e, ast.Subscript):
            v = self.ev(e.value)
            self.ev_index(e.slice)
            if v.elts is not None and isinstance(e.slice, ast.Constant) and isinstance(e.slice.value, int) and -len(v.elts) <= e.slice.value < len(v.elts):
                return v.elts[e.slice.value]
            if self.is_fancy(e.slice):
                return EMPTY
            if v.leaf:
                return EMPTY if not isinstance(e.slice, ast.Slice) else AV((), (), leaf=True)
            return v.deref()
        if isinstance(e, ast.BinOp):
            l = self.ev(e.left); r = self.ev(e.right)
            if isinstance(e.op, (ast.Mult, ast.Add)) and (isinstance(e.left, (ast.List, ast.Tuple)) or isinstance(e.right, (ast.List, ast.Tuple))):
                if (l.leaf or not l.r) and (r.leaf or not r.r):
                    return AV((), (), leaf=True)
                return AV((), l.r | r.r)            # list repetition / concatenation shares the elements
            return EMPTY                            # arithmetic allocates
        if isinstance(e, ast.UnaryOp):
            self.ev(e.operand)
            return EMPTY
        if isinstance(e, (ast.Compare, ast.BoolOp)):
            for x in ast.iter_child_nodes(e):
                if isinstance(x, ast.expr):
                    self.ev(x)
            return EMPTY
        if isinstance(e, ast.IfExp):
            self.ev(e.test)
            return self.ev(e.body) | self.ev(e.orelse)
        if isinstance(e, (ast.ListComp, ast.GeneratorExp, ast.SetComp, ast.DictComp)):
            saved = dict(self.env)
            for g in e.generators:
                self.bind(g.target, self.ev(g.iter).deref())
                for c in g.ifs:
                    self.ev(c)
            o = (self.ev(e.key) | self.ev(e.value)) if isinstance(e, ast.DictComp) else self.ev(e.elt)
            self.env = saved
            return AV((), o.r)
        if isinstance(e, ast.Call):
            return self.call(e)
        if isinstance(e, ast.Starred):
            return self.ev(e.value)
        self.sum.unsupported.append(f'expr {type(e).__name__}@{getattr(e, "lineno", 0)}')
        return EMPTY

    def ev_index(self, s):
        for x in ast.walk(s):
            if isinstance(x, ast.Call):
                self.ev(x)

    def is_fancy(self, s):
        """index expression that forces a copy (advanced indexing)"""
        elts = s.elts if isinstance(s, ast.Tuple) else [s]
        for x in elts:
            if isinstance(x, (ast.List, ast.ListComp)):
                return True
            if isinstance(x, ast.Name) and self.kind.get(x.id) == 'indexarray':
                return True
            if isinstance(x, ast.Call) and _dotted(x.func) in ('np.argsort', 'np.where', 'np.arange'):
                return True
        return False

    def call(self, e):
        d = _dotted(e.func)
        args = [self.ev(a.value if isinstance(a, ast.Starred) else a) for a in e.args]
        kws = {k.arg: self.ev(k.value) for k in e.keywords}
        allr = set()
        for a in list(args) + list(kws.values()):
            allr |= a.r
        argnodes = list(e.args)
        # library calls that write into one of their arguments: `out=` (ufuncs, np.matmul, np.dot ...) is a write into that
        # object; `overwrite_a=True` / `overwrite_b=True` / `overwrite_x=True` (scipy.linalg) allows the routine to destroy the
        # corresponding positional argument (whether it does depends on the memory layout: reported as a write)
        if 'out' in kws and kws['out'].d:
            self.write(kws['out'], e.lineno, '!out=')
        for k_ in e.keywords:
            if k_.arg and k_.arg.startswith('overwrite_') and not (isinstance(k_.value, ast.Constant) and k_.value.value is False) and args:
                self.write(args[0], e.lineno, f'!{k_.arg}')
        if isinstance(e.func, ast.Attribute):
            m = e.func.attr
            base = _dotted(e.func.value)
            libbase = base in ('np', 'np.linalg', 'np.add', 'np.random', 'sparse', 'copy', 'itertools', 'warnings', 'scipy.linalg')
            if not libbase and d not in (FRESH_CALLS | VIEW_CALLS | MAYVIEW_CALLS):
                recv = self.ev(e.func.value)
                if m in MUTATING_METHODS:
                    self.write(recv, e.lineno, f'!.{m}()')
                    val = AV((), allr)
                    if recv.leaf and recv.d and allr:
                        # the receiver is a parameter annotated as a sequence of immutable values (Sequence[int] ...): what is
                        # stored into it is immutable under that annotation, so no operand memory becomes reachable from it
                        val = EMPTY
                        self.sum.external.append(f'.{m}() on a parameter annotated as a sequence of immutable values '
                                                 '[annotation trusted: the stored element is immutable]')
                    self.store_into(recv, val)
                    self.reach_more(e.func.value, val)
                    b = e.func.value
                    if isinstance(b, ast.Attribute) and isinstance(b.value, ast.Name) and (b.value.id, b.attr) in self.fields:
                        cur = self.fields[(b.value.id, b.attr)]
                        self.fields[(b.value.id, b.attr)] = AV(cur.d, cur.r | val.r)
                    return recv.deref() if m in ('pop', 'setdefault', 'popitem') else EMPTY
                if m in VIEW_METHODS:
                    return recv
                if m in MAYVIEW_METHODS:
                    return recv.weak()
                if m in FRESH_METHODS:
                    return AV((), recv.weak().r) if m in ('get', 'values', 'items', 'keys') else EMPTY
                s = self.resolve_method(m)
                if s is not None:
                    return self.apply_summary(s, [recv] + args, kws, e, [e.func.value] + argnodes)
                self.sum.external.append(f'.{m}() [unknown method: assumed pure; result may alias receiver]')
                return recv.weak()
        if d in FRESH_CALLS:
            if d in ('sorted', 'reversed', 'zip', 'enumerate', 'set', 'dict'):
                return AV((), {(p, False) for p, c in allr})
            return EMPTY
        if d in ('list', 'tuple'):
            if args and args[0].leaf:
                return AV((), (), leaf=True)
            return AV((), args[0].deref().r if args else ())       # shallow copy keeps element references
        if d in VIEW_CALLS:
            return args[0] if args else EMPTY
        if d in MAYVIEW_CALLS:
            return args[0].weak() if args else EMPTY
        if d == 'cls' or (self.classname and d == self.classname):
            s = summary_of(self.modname, f'{self.classname}.__init__')
            if s is not None:
                return self.apply_summary(s, [EMPTY] + args, kws, e, [None] + argnodes, ctor=True)
            return EMPTY
        s = self.resolve_function(d)
        if s is not None:
            s = self.specialise(s, e)
            ctor = s.name.endswith('.__init__')
            return self.apply_summary(s, ([EMPTY] if ctor else []) + args, kws, e, ([None] if ctor else []) + argnodes, ctor=ctor)
        if d is not None and (d in self.env or d.split('.')[0] in self.env):
            # a caller-supplied function: assumed not to modify its arguments; its result is memory owned by the caller
            # (it may be a view of the argument or of the callback's own state) -- pseudo-parameter '<result of f()>'
            self.sum.external.append(f'{d}() [callable argument: assumed not to modify its arguments]')
            return AV({(f'<result of {d}()>', True)}) | AV({(p, False) for p, c in allr})
        self.sum.external.append(f'{d}() [unknown: assumed pure, result may alias arguments]')
        return AV({(p, False) for p, c in allr})

    def specialise(self, s, e):
        """callee summary under the call-site precondition len(param) >= n, for positional arguments that are list/tuple
        literals of n elements, or a parameter of this function for which such a bound is already known and which has not
        been written so far"""
        if s.name.endswith('.__init__') or not s.params or s.params[0] in ('self', 'cls'):
            return s
        ml = {}
        for k, a in enumerate(e.args):
            if k >= len(s.params) or isinstance(a, ast.Starred):
                break
            if isinstance(a, (ast.List, ast.Tuple)) and a.elts and not any(isinstance(x, ast.Starred) for x in a.elts):
                ml[s.params[k]] = len(a.elts)
            elif isinstance(a, ast.Name) and a.id in self.minlen and not self.sum.writes.get(a.id):
                ml[s.params[k]] = self.minlen[a.id]
        if not ml:
            return s
        mod, qual = s.name.split('.', 1)
        s2 = summary_of(mod, qual, minlen=ml)
        return s2 if s2 is not None else s

    def resolve_function(self, d):
        if d is None:
            return None
        parts = d.split('.')
        name = parts[-1]
        if len(parts) >= 2:
            for mod in ALL_MODULES:
                m = loader.module(mod)
                q = f'{parts[-2]}.{parts[-1]}'
                if q in m.functions:
                    return summary_of(mod, q)
        for mod in ALL_MODULES:
            m = loader.module(mod)
            if name in m.functions:
                return summary_of(mod, name)
            if name in m.classes:
                if f'{name}.__init__' in m.functions:
                    return summary_of(mod, f'{name}.__init__')
                return Summary(f'{mod}.{name}.__init__', ['self'])
        return None

    def resolve_method(self, m):
        cands = []
        for mod in ALL_MODULES:
            mm = loader.module(mod)
            for q in mm.functions:
                if '.' in q and q.split('.')[1] == m:
                    cands.append((mod, q))
        sums = [summary_of(mod, q) for mod, q in cands]
        sums = [s for s in sums if s is not None]
        if not sums:
            return None
        if len(sums) == 1:
            return sums[0]
        n = max(len(s.params) for s in sums)
        j = Summary('|'.join(s.name for s in sums), [f'#{k}' for k in range(n)])
        for s in sums:
            for k, p in enumerate(s.params):
                tgt = j.params[k]
                for w in s.writes.get(p, []):
                    j.writes.setdefault(tgt, []).append((False, w[1], f'{s.name}: {w[2]}'))
                for q, c in s.stores.get(p, set()):
                    if q in s.params:
                        j.stores.setdefault(tgt, set()).add((j.params[s.params.index(q)], False))
            for p, c in s.ret.d:
                if p in s.params:
                    j.ret = j.ret | AV({(j.params[s.params.index(p)], False)})
            for p, c in s.ret.r:
                if p in s.params:
                    j.ret = j.ret | AV((), {(j.params[s.params.index(p)], False)})
        # identical behaviour in all candidates keeps certainty
        return j

    def apply_summary(self, s, args, kws, node, argnodes, ctor=False):
        params = list(s.params)
        if params and params[0] == 'cls' and not ctor and len(args) < len(params):
            args = [EMPTY] + args; argnodes = [None] + argnodes
        bind = {}; nodes = {}
        for k, p in enumerate(params):
            if k < len(args):
                bind[p] = args[k]; nodes[p] = argnodes[k] if k < len(argnodes) else None
            elif p in kws:
                bind[p] = kws[p]; nodes[p] = None
            else:
                bind[p] = EMPTY; nodes[p] = None
        for p, ws in s.writes.items():
            tgt = bind.get(p, EMPTY).deref().d
            for c, ln, how in ws:
                for q, d in tgt:
                    self.sum.writes.setdefault(q, []).append((c and d, node.lineno, f'via {s.name} ({how}, line {ln})'))
        for p, st in s.stores.items():
            val = EMPTY
            for q, c in st:
                b = bind.get(q, EMPTY)
                val = val | AV((), {(r, c and d) for r, d in b.r})
            self.store_into(bind.get(p, EMPTY), val)
            if nodes.get(p) is not None:
                self.reach_more(nodes[p], val)
        def tr(av):
            o = EMPTY
            for p, c in av.d:
                b = bind.get(p, EMPTY).deref()
                o = o | AV({(q, c and d) for q, d in b.d}, {(q, c and d) for q, d in b.r})
            for p, c in av.r:
                b = bind.get(p, EMPTY)
                o = o | AV((), {(q, c and d) for q, d in b.r})
            if av.elts is not None:
                o = AV(o.d, o.r, elts=[tr(x) for x in av.elts])
            return o
        out = tr(s.ret)
        if ctor:
            for q, c in s.stores.get('self', set()):
                out = out | AV((), {(r, c and d) for r, d in bind.get(q, EMPTY).r})
        return out

    # -- statements
    def bind(self, tg, v, src=None):
        if isinstance(tg, ast.Name):
            self.env[tg.id] = v
            for k in [k for k in self.fields if k[0] == tg.id]:
                del self.fields[k]
            if tg.id in self.alias:
                self.alias[tg.id].discard(tg.id); del self.alias[tg.id]
            if isinstance(src, ast.Name):
                grp = self.alias.setdefault(src.id, {src.id})
                grp.add(tg.id); self.alias[tg.id] = grp
                for (n, a), fv in list(self.fields.items()):
                    if n == src.id:
                        self.fields[(tg.id, a)] = fv
        elif isinstance(tg, (ast.Tuple, ast.List)):
            if v.elts is not None and len(v.elts) == len(tg.elts) and not any(isinstance(t, ast.Starred) for t in tg.elts):
                for t, x in zip(tg.elts, v.elts):
                    self.bind(t, x)
            else:
                for t in tg.elts:
                    self.bind(t.value if isinstance(t, ast.Starred) else t, v.deref())
        elif isinstance(tg, (ast.Subscript, ast.Attribute)):
            base = self.ev(tg.value)
            how = '!' + ast.unparse(tg)[:50] + (' = ... (in-place reshape)' if isinstance(tg, ast.Attribute) and tg.attr == 'shape' else ' = ...')
            self.write(base, tg.lineno, how)
            self.store_into(base, v)
            self.reach_more(tg, v)
            if isinstance(tg, ast.Attribute) and isinstance(tg.value, ast.Name):
                # strong update of the field for every name that may denote the same object
                for n in self.alias.get(tg.value.id, {tg.value.id}):
                    self.fields[(n, tg.attr)] = v if n == tg.value.id else (self.fields.get((n, tg.attr), EMPTY) | v)
            elif isinstance(tg, ast.Subscript):
                # x.attr[i] = v : weak update of the field
                b = tg.value
                if isinstance(b, ast.Attribute) and isinstance(b.value, ast.Name) and (b.value.id, b.attr) in self.fields:
                    cur = self.fields[(b.value.id, b.attr)]
                    self.fields[(b.value.id, b.attr)] = AV(cur.d, cur.r | v.r)

    def block(self, stmts):
        for s in stmts:
            self.stmt(s)

    def stmt(self, s):
        if isinstance(s, ast.Assign):
            v = self.ev(s.value)
            self.note_kind(s)
            for t in s.targets:
                self.bind(t, v, s.value)
        elif isinstance(s, ast.AnnAssign):
            if s.value is not None:
                self.bind(s.target, self.ev(s.value))
        elif isinstance(s, ast.AugAssign):
            v = self.ev(s.value)
            if isinstance(s.target, ast.Name):
                cur = self.env.get(s.target.id, EMPTY)
                # in place for ndarrays and lists (pytenet never aug-assigns a numeric parameter)
                self.write(cur, s.lineno, f'{s.target.id} {_OPS.get(type(s.op), "?")}= ... (in place on an array/list)')
                if isinstance(s.op, ast.Add):
                    self.store_into(cur, v)
                    self.env[s.target.id] = AV(cur.d, cur.r | v.deref().r)
            else:
                self.bind(s.target, v)
        elif isinstance(s, ast.Expr):
            self.ev(s.value)
        elif isinstance(s, ast.Return):
            self.sum.ret = self.sum.ret | self.ev(s.value)
        elif isinstance(s, ast.If):
            self.ev(s.test)
            e0 = dict(self.env); f0 = dict(self.fields)
            self.block(s.body)
            e1 = self.env; f1 = self.fields
            self.env = dict(e0); self.fields = dict(f0)
            self.block(s.orelse)
            for k, v in e1.items():
                self.env[k] = (self.env[k] | v) if k in self.env else v
            self.fields = {k: (self.fields[k] | f1[k]) for k in self.fields if k in f1}
        elif isinstance(s, (ast.For, ast.While)):
            if isinstance(s, ast.For):
                self.bind(s.target, self.ev(s.iter).deref())
            else:
                self.ev(s.test)
            once = isinstance(s, ast.For) and bool(self.minlen) and _runs_at_least_once(s, self.minlen)
            for rnd in range(2):
                e0 = dict(self.env); f0 = dict(self.fields)
                self.block(s.body)
                if once and rnd == 0:
                    continue_join = False       # the state after exactly one complete iteration: no join with the entry state
                else:
                    continue_join = True
                if continue_join:
                    for k, v in e0.items():
                        self.env[k] = (self.env[k] | v) if k in self.env else v
                    self.fields = {k: (self.fields[k] | f0[k]) for k in self.fields if k in f0}
                if isinstance(s, ast.For):
                    self.bind(s.target, self.ev(s.iter).deref())
            self.block(s.orelse)
        elif isinstance(s, ast.Assert):
            self.ev(s.test)
        elif isinstance(s, (ast.Raise, ast.Pass, ast.Break, ast.Continue, ast.Import, ast.ImportFrom, ast.Global, ast.Nonlocal,
                            ast.FunctionDef, ast.ClassDef, ast.Delete)):
            pass
        elif isinstance(s, ast.With):
            for it in s.items:
                self.ev(it.context_expr)
            self.block(s.body)
        elif isinstance(s, ast.Try):
            self.block(s.body)
            for h in s.handlers:
                self.block(h.body)
            self.block(s.orelse); self.block(s.finalbody)
        else:
            self.sum.unsupported.append(f'stmt {type(s).__name__}@{s.lineno}')

    def note_kind(self, s):
        val = s.value
        idx = False
        if isinstance(val, ast.Call) and _dotted(val.func) in ('np.argsort', 'np.arange', 'retained_bond_indices'):
            idx = True
        if isinstance(val, ast.Subscript) and isinstance(val.value, ast.Call) and _dotted(val.value.func) == 'np.where':
            idx = True
        if idx:
            for t in s.targets:
                if isinstance(t, ast.Name):
                    self.kind[t.id] = 'indexarray'

    def run(self):
        self.block(self.fn.body)
        return self.sum


_OPS = {ast.Add: '+', ast.Sub: '-', ast.Mult: '*', ast.Div: '/', ast.FloorDiv: '//', ast.MatMult: '@', ast.Mod: '%', ast.Pow: '**'}


ALL_MODULES = ['qnumber', 'util', 'bond_ops', 'opchain', 'optree', 'autop', 'bipartite_graph', 'opgraph', 'mps', 'mpo',
               'operation', 'krylov', 'evolution', 'minimization', 'hamiltonian']


def summary_of(mod, qual, minlen=None):
    key = (loader.repo_root(), mod, qual) + ((tuple(sorted(minlen.items())),) if minlen else ())
    if key in _summaries:
        return _summaries[key]
    if key in _in_progress:
        return Summary(f'{mod}.{qual}', [])        # recursion: optimistic first iterate, refined by second pass below
    m = loader.module(mod)
    if qual not in m.functions:
        return None
    _in_progress.add(key)
    cls = qual.split('.')[0] if '.' in qual else None
    s = Analyzer(mod, qual, m.functions[qual], cls, minlen).run()
    _in_progress.discard(key)
    _summaries[key] = s
    # one refinement pass for (mutually) recursive functions
    s2 = Analyzer(mod, qual, m.functions[qual], cls, minlen).run()
    _summaries[key] = s2
    return s2


def check_frame(mod, qual, modifies=(), fresh_result=False, result_may_share=(), keep_elements_of=()):
    """-> list of (name, status, detail) obligations for one function"""
    s = summary_of(mod, qual)
    out = []
    if s is None:
        return [('frame', 'undecided', f'function {mod}.{qual} not found')], None
    if s.unsupported:
        out.append(('fragment', 'undecided', 'constructs outside the fragment: ' + ', '.join(s.unsupported[:5])))
    bad_c = []; bad_m = []
    for p, ws in s.writes.items():
        if p in modifies or p not in s.params:
            continue
        for c, ln, how in ws:
            (bad_c if c else bad_m).append(f'{p} written at line {ln}: {how}')
    if bad_c:
        definite = [b for b in bad_c if ': !' in b or '(!' in b]
        out.append(('modifies', 'refuted', ('definite-write: ' if definite else '') + '; '.join((definite or bad_c)[:4])))
    elif bad_m:
        out.append(('modifies', 'undecided', 'may-write: ' + '; '.join(bad_m[:4])))
    else:
        out.append(('modifies', 'discharged', f'no write reaches a parameter outside modifies({", ".join(modifies) or ""})'))
    # an operand must not become reachable from another operand that is documented as overwritten... (stores)
    for p, st in s.stores.items():
        if p in modifies:
            for q, c in st:
                if q not in modifies and q in s.params and q not in result_may_share and q not in keep_elements_of:
                    out.append((f'no_capture[{q}->{p}]', 'refuted' if c else 'undecided',
                                f'memory of parameter {q} becomes reachable from the overwritten parameter {p}'))
    # containers whose *elements* may be kept (a node keeps the edge objects it is given) but which must be copied themselves
    for p in modifies:
        for q, c in sorted(getattr(s, 'stores_direct', {}).get(p, ())):
            if q in keep_elements_of:
                out.append((f'no_capture[{q}->{p}]', 'refuted' if c else 'undecided',
                            f'the container passed as {q} itself (not a copy of it) becomes reachable from {p}'))
    cb = [(p, ws) for p, ws in s.writes.items() if p.startswith('<result of ')]
    if any(p.startswith('<result of ') for p in list(s.writes) + [q for p, c in s.ret.r for q in [p]]) or any('callable argument' in x for x in s.external):
        bad = [f'{p} written at line {ln}: {how}' for p, ws in cb for c, ln, how in ws if c]
        may = [f'{p} written at line {ln}: {how}' for p, ws in cb for c, ln, how in ws if not c]
        if bad:
            out.append(('callback_result_not_modified_in_place', 'refuted', 'definite-write: ' + '; '.join(bad[:3]) +
                        ' (the array returned by a caller-supplied function may be a view of its argument or of the caller\'s state)'))
        elif may:
            out.append(('callback_result_not_modified_in_place', 'undecided', 'may-write: ' + '; '.join(may[:3])))
        else:
            out.append(('callback_result_not_modified_in_place', 'discharged', 'no in-place update reaches an array returned by a caller-supplied function'))
    if qual.endswith('.__init__') and 'self' in modifies and not any(n.startswith('no_capture') for n, _, _ in out):
        out.append(('no_capture', 'discharged', 'no caller-owned list/array becomes reachable from the constructed object'))
    if fresh_result:
        al_c = sorted({p for p, c in s.ret.r if c and p not in result_may_share and p in s.params})
        al_m = sorted({p for p, c in s.ret.r if not c and p not in result_may_share and p in s.params} - set(al_c))
        if al_c:
            out.append(('fresh_result', 'refuted', f'the returned object shares memory with parameter(s) {al_c}'))
        elif al_m:
            out.append(('fresh_result', 'undecided', f'the returned object may share memory with parameter(s) {al_m}'))
        else:
            out.append(('fresh_result', 'discharged', 'every array/list reachable from the result is allocated in the call'))
    return out, s



# ---- values produced by caller-supplied callables are used by truth value ------------------------------------------

def check_truth_value_use(mod, qual, cls_mod='autop'):
    """Contract: a value obtained by calling a caller-supplied attribute (an attribute that some pytenet constructor
    documents as `Callable` / `Union[..., Callable[...]]`, e.g. AutOpEdge.active) is used as a condition by its truth value
    only; comparing it with `is` / `is not` / `==` / `!=` against True / False distinguishes bool from numpy.bool_ and int,
    which all satisfy the documented type.  Purely syntactic over the real AST; -> (status, detail)"""
    m = loader.module(mod)
    fn = m.functions[qual]
    callable_attrs = set()
    for mm in ALL_MODULES:
        for q, f in loader.module(mm).functions.items():
            if q.endswith('.__init__'):
                for a in f.args.args:
                    if a.annotation is not None and 'Callable' in ast.unparse(a.annotation):
                        callable_attrs.add(a.arg)
    def from_callback(e):
        return any(isinstance(x, ast.Call) and isinstance(x.func, ast.Attribute) and x.func.attr in callable_attrs for x in ast.walk(e))
    tainted = set()
    for _ in range(3):
        for n in ast.walk(fn):
            if isinstance(n, ast.Assign) and (from_callback(n.value) or any(isinstance(x, ast.Name) and x.id in tainted for x in ast.walk(n.value))):
                for t in n.targets:
                    if isinstance(t, ast.Name):
                        tainted.add(t.id)
    bad = []
    for n in ast.walk(fn):
        if isinstance(n, ast.Compare) and any(isinstance(o, (ast.Is, ast.IsNot, ast.Eq, ast.NotEq)) for o in n.ops):
            sides = [n.left] + list(n.comparators)
            if any(isinstance(x, ast.Constant) and isinstance(x.value, bool) for x in sides) and \
                    any((isinstance(x, ast.Name) and x.id in tainted) or from_callback(x) for x in sides):
                bad.append(f'line {n.lineno}: {ast.unparse(n)}')
    if not callable_attrs:
        return 'undecided', 'no constructor parameter documented as Callable was found'
    if bad:
        return 'refuted', 'the result of a caller-supplied callable is compared with a bool constant: ' + '; '.join(bad[:3])
    return 'discharged', (f'values obtained from caller-supplied callables ({", ".join(sorted(callable_attrs))}; {len(tainted)} local name(s)) '
                          'are used by truth value only')


# ---- definite initialisation of instance state ("the result does not depend on a previous call") ------------------

def _self_reads(cls_node, fnode, seen=None):
    """attributes of self that a method may read, transitively through calls of other methods of the class"""
    seen = seen or set()
    if fnode.name in seen:
        return set()
    seen.add(fnode.name)
    methods = {m.name: m for m in cls_node.body if isinstance(m, ast.FunctionDef)}
    reads = set()
    for n in ast.walk(fnode):
        if isinstance(n, ast.Attribute) and isinstance(n.value, ast.Name) and n.value.id == 'self':
            if n.attr in methods:
                reads |= _self_reads(cls_node, methods[n.attr], seen)
            elif isinstance(n.ctx, ast.Load):
                reads.add(n.attr)
    return reads


def check_reinit(mod, clsname, method, allowed=('graph',)):
    """every instance attribute that `method` (transitively) reads, other than `allowed`, is assigned at the top level of
    `method` before its first possible read"""
    m = loader.module(mod)
    cls = m.classes.get(clsname)
    if cls is None:
        return [('state_independent_of_previous_calls', 'undecided', f'class {clsname} not found')]
    methods = {x.name: x for x in cls.body if isinstance(x, ast.FunctionDef)}
    f = methods.get(method)
    if f is None:
        return [('state_independent_of_previous_calls', 'undecided', f'method {method} not found')]
    assigned = set(allowed)
    for s in f.body:
        # plain top-level assignment self.x = <expr that does not read unassigned state>
        if isinstance(s, ast.Assign) and all(isinstance(t, ast.Attribute) and isinstance(t.value, ast.Name) and t.value.id == 'self' for t in s.targets):
            need = {n.attr for n in ast.walk(s.value) if isinstance(n, ast.Attribute) and isinstance(n.value, ast.Name) and n.value.id == 'self' and isinstance(n.ctx, ast.Load)}
            need = {a for a in need if a not in methods}
            if need - assigned:
                return [('state_independent_of_previous_calls', 'refuted',
                         f'line {s.lineno}: initialisation reads self.{sorted(need - assigned)[0]} left over from a previous call')]
            for t in s.targets:
                assigned.add(t.attr)
            continue
        if isinstance(s, ast.Expr) and isinstance(s.value, ast.Constant):
            continue
        tmp = ast.FunctionDef(name='#stmt', args=f.args, body=[s], decorator_list=[])
        need = _self_reads(cls, tmp)
        if need - assigned:
            a = sorted(need - assigned)[0]
            return [('state_independent_of_previous_calls', 'refuted',
                     f'line {s.lineno}: self.{a} may be read before {method} has (re)initialised it: the result depends on the state left by a previous call')]
    return [('state_independent_of_previous_calls', 'discharged', f'{method} assigns {sorted(assigned - set(allowed))} before any use')]



# ---- no hidden state: the function (and what it calls inside pytenet) does not use module-level mutable variables ---------

PYTENET_MODULES = ('bond_ops', 'krylov', 'operation', 'mps', 'mpo', 'evolution', 'minimization', 'opgraph', 'opchain', 'optree', 'autop',
                   'hamiltonian', 'bipartite_graph', 'qnumber', 'fermi_sim', 'util')

def _mutable_globals(m):
    """module-level names bound to a mutable container (dict / list / set literal or constructor), except __all__"""
    out = {}
    for n in m.tree.body:
        if isinstance(n, (ast.Assign, ast.AnnAssign)):
            val = n.value
            tgts = n.targets if isinstance(n, ast.Assign) else [n.target]
            mutable = isinstance(val, (ast.Dict, ast.List, ast.Set, ast.ListComp, ast.DictComp, ast.SetComp)) or \
                (isinstance(val, ast.Call) and _dotted(val.func) in ('dict', 'list', 'set', 'defaultdict', 'collections.defaultdict', 'OrderedDict',
                                                                      'collections.OrderedDict', 'np.zeros', 'np.empty', 'np.array', 'weakref.WeakKeyDictionary',
                                                                      'weakref.WeakValueDictionary', 'functools.lru_cache'))
            for t in tgts:
                if isinstance(t, ast.Name) and t.id != '__all__' and mutable:
                    out[t.id] = n.lineno
    return out


def check_hidden_state(mod, qual, depth=4):
    """-> (status, detail): discharged iff neither the function nor any pytenet function reachable from it through direct calls reads
    or writes a module-level mutable variable, declares a global, uses a mutable default argument or a caching decorator"""
    try:
        loader.module(mod)
    except Exception:
        return 'undecided', f'module {mod} not found'
    seen = set(); found = []
    def visit(mname, fname, d):
        if (mname, fname) in seen or d < 0:
            return
        seen.add((mname, fname))
        try:
            m = loader.module(mname)
        except Exception:
            return
        fn = m.functions.get(fname)
        if fn is None:
            return
        mg = _mutable_globals(m)
        for dec in fn.decorator_list:
            dn = _dotted(dec.func if isinstance(dec, ast.Call) else dec) or ''
            if 'cache' in dn:
                found.append(f'{mname}.{fname}: caching decorator @{dn}')
        for dflt in list(fn.args.defaults) + [x for x in fn.args.kw_defaults if x is not None]:
            if isinstance(dflt, (ast.Dict, ast.List, ast.Set)) or (isinstance(dflt, ast.Call) and _dotted(dflt.func) in ('dict', 'list', 'set')):
                found.append(f'{mname}.{fname}: mutable default argument at line {dflt.lineno}')
        local = {a.arg for a in fn.args.args + fn.args.kwonlyargs} | {x.id for x in ast.walk(fn) if isinstance(x, ast.Name) and isinstance(x.ctx, ast.Store)}
        for x in ast.walk(fn):
            if isinstance(x, ast.Global):
                found.append(f'{mname}.{fname}: global {", ".join(x.names)} at line {x.lineno}')
            elif isinstance(x, ast.Name) and isinstance(x.ctx, ast.Load) and x.id in mg and x.id not in local:
                found.append(f'{mname}.{fname}: module-level mutable variable `{x.id}` (defined at line {mg[x.id]}) used at line {x.lineno}')
            elif isinstance(x, ast.Call):
                dn = _dotted(x.func)
                if dn is None:
                    continue
                base = dn.split('.')[-1]
                cls = fname.split('.')[0] if '.' in fname else None
                cands = []
                if dn in m.functions:
                    cands.append((mname, dn))
                if dn.startswith('self.') and cls and f'{cls}.{base}' in m.functions:
                    cands.append((mname, f'{cls}.{base}'))
                if base in m.classes and f'{base}.__init__' in m.functions:
                    cands.append((mname, f'{base}.__init__'))
                if not cands:
                    for om in PYTENET_MODULES:
                        try:
                            o = loader.module(om)
                        except Exception:
                            continue
                        if base in o.functions and '.' not in dn.replace(f'{om}.', ''):
                            cands.append((om, base))
                for c in cands[:3]:
                    visit(c[0], c[1], d - 1)
    visit(mod, qual, depth)
    if found:
        return 'refuted', '; '.join(sorted(set(found))[:4]) + ' (needs native confirmation: state kept across calls is not in itself a violation)'
    return 'discharged', f'no module-level mutable state, global declaration, mutable default or caching decorator in {len(seen)} reachable pytenet functions'
