from .common import verify_T
LEVEL = 'other'
EXPLANATION = 'Mixed deductive/bounded (see DESIGN.md section 5, C04).'
ASSUMPTIONS = []
def deductive(tier):
    return verify_T('C04')
