"""Per-property statement of what is assumed (never proved) and which clauses of the property are decided only by the
bounded stand-in.  Written into every evidence file."""

LIB = 'assumed NumPy/SciPy contracts (DESIGN 3.2): '
ASSUMED = {
    'C01': [LIB + 'np.linalg.qr(reduced): Q R = B, Q^H Q = I, k = min(p, r), real diagonal of R',
            'K_qr factorization clauses of bond_ops.qr (Q R = A, Q^H Q = I, supports of Q and R) are used as callee contract of the local steps; '
            'engine Z proves these clauses from the body of qr for all shapes and charge vectors (vt/zqr.py: sizes, bounds, supports; vt/zqrv.py: Q R = A and Q^H Q = I at entry level relative to the LAPACK contract of np.linalg.qr)',
            'modelling of Python lists as mathematical sequences (array stores = list updates) in the predicate-level sweeps',
            'T[0,0,0].real is the whole value of the trailing 1x1 factor (real diagonal of R)'],
    'C02': ['K_qr / K_svd callee contracts (see C01, C12)', 'closure under operation histories is the induction over the per-operation contracts; '
            'TDVP/DMRG steps, from_opgraph and the Hamiltonian constructors are covered by the bounded histories only'],
    'C03': ['K_svd at tolerance 0 (u diag(s) v = A, isometries) as callee contract of split_mps_tensor: no longer a bare assumption, it is discharged from the body of split_matrix_svd by vt/zqrv.py in the C12 check, relative to the contracts of np.linalg.svd and retained_bond_indices', 'Python lists as sequences',
            'qnumber_flatten may return a view of its argument for a single list (may-alias reported by engine F for multiply_mpo: decided by the snapshot monitor)'],
    'C04': ['Python lists as sequences; complex scalars T[0,0] are opaque values at the predicate level'],
    'C05': ['minimum_vertex_cover returns a vertex cover of minimum size (K_cover; weak duality proved in Lean, validity/maximality bounded in C18)'],
    'C06': [], 'C07': [],
    'C08': ['callable arguments of expm_krylov are assumed not to modify their arguments (engine F)',
            '_local_hamiltonian_step / _local_bond_step are verified against the contract of expm_krylov proved in C15 (norm of the result = norm of the input for hermitian=True and purely imaginary dt), itself modular over the contracts of lanczos_iteration (C14) and the assumed contracts of eigh_tridiagonal / np.exp; exact arithmetic'],
    'C09': [], 'C10': ['callable arguments of eigh_krylov are assumed not to modify their arguments (engine F)',
                       '_minimize_local_energy is verified against the contract of eigh_krylov proved in C15 (orthonormal Ritz vectors, Rayleigh quotients); the map handed to eigh_krylov is linear and Hermitian (hypothesis; Hermiticity of the effective local operator is a bounded clause of C04)'],
    'C11': [LIB + 'np.intersect1d (strictly increasing common values, complete), np.argsort (stable sorting permutation with inverse), np.where(mask)[0] '
            '(increasing, complete), np.arange, np.linalg.qr(B) = (Qs, Rs): shapes (p, k), (k, r) with k = min(p, r), Qs Rs = B, Qs^H Qs = I', 'is_qsparse(A, [q0, -q1]) (leading assert) is the precondition: A[i,j] != 0 => q0[i] == q1[j]',
            'entry values: the range-sum rules (empty, split, vanish, congruence, single term, permutation) are proved in Lean (vt/lemmas/Sums.lean); that the generator applies them as stated there (uninterpreted Dot/Gram symbols in z3 vs `VT.dot` in Lean) is by reading, not machine-checked; ring elements are modelled as reals with an uninterpreted conjugation'],
    'C12': [LIB + 'np.linalg.norm, elementwise division/square, np.argsort, gather/scatter through a permutation, np.cumsum, np.where; '
            'the sum of the normalised squares is 1 and is invariant under permutation (reindexing of a finite sum)',
            'K_svd (u diag(s) v + E = A, u^H E = 0, E v^H = 0, isometries, real s) at the call sites of split_matrix_svd',
            'least-number principle and induction over the rank are proof rules of the generator (base and step VCs are discharged by z3)'],
    'C13': ['K_svd as in C12; callee contract of MPS.orthonormalize as proved by the sweep contracts of C01',
            'compress of the zero state divides by |T| = 0: the property is stated for non-zero states (assumed precondition)'],
    'C14': ['Afunc maps a vector of length n to a vector of length n and does not modify its argument', 'loops are over-approximated by havoc with inferred shape invariants',
            'inner-product level (vt/zkry.py): np.vdot is an inner product (conjugate-linear in its first argument), +, -, scalar multiples and division by a real act '
            'linearly on it, norm^2 = vdot(x, x), (M.conj() @ w)[i] = vdot(M[i], w), M.T @ c = sum_i c[i] M[i] (conformance-tested on concrete inputs; '
            'the algebraic facts are proved in vt/lemmas/Krylov.lean; that the generator states them as in the Lean file is by reading, not machine-checked)',
            'Afunc is a function of its argument (the same vector gives the same result) and, for lanczos_iteration, Hermitian: vdot(x, A y) = vdot(A x, y) (hypothesis of the property)',
            'exact real/complex arithmetic instead of floating point'],
    'C15': ['contracts of lanczos_iteration / arnoldi_iteration as proved in C14 (sizes; for lanczos_iteration also orthonormal vectors and projected map = tridiagonal matrix, used in operator form through Krylov.lean), eigh_tridiagonal and expm return arrays of the documented shapes',
            'scipy.linalg.eigh_tridiagonal(d, e): real ascending eigenvalues, real orthogonal eigenvector matrix (orthonormal columns and rows), T U[:, a] = w[a] U[:, a]; np.exp: |exp(z)|^2 = exp(2 Re z); array * array is entrywise (conformance-tested)',
            'the map is linear (needed for the Rayleigh-quotient clause only) and a function of its argument; exact real/complex arithmetic instead of floating point'],
    'C16': [], 'C17': [], 'C18': ['the Lean lemma is about abstract finite sets of edges; its link to the Python data structures is not machine-checked',
                                   'heap level (vt/zhk.py): Python lists as z3 arrays; adjacency lists contain in-range vertices (class invariant of BipartiteGraph, established by its constructor: bounded); '
                                   'self.dist is a dict distinct from the partner lists; partial correctness (termination of the recursion and of the while loop is not claimed)'],
    'C19': ['callable arguments (Afunc, opics(i), active(i)) do not modify their arguments (their results are treated as caller-owned memory that may alias the arguments)', 'unknown methods are pure and may return a view of their receiver',
            'which values are immutable (ints, tuples) is unknown to the analysis: must-alias of results needs native confirmation'],
    'C20': [],
}

BOUNDED_ONLY = {
    'C01': ['floating-point residuals of every clause', 'trailing boundary charge unchanged for a non-zero state'],
    'C02': ['sparsity under TDVP / DMRG / from_opgraph / Hamiltonian constructors / from_vector', 'exact-zero patterns in floating point',
            'boundary charges unchanged under compress / TDVP / DMRG'],
    'C03': ['as_matrix(sparse_format=True) == as_matrix()', 'MPS.from_vector(d, n, v, 0).as_vector() == v', 'floating-point agreement with dense algebra'],
    'C04': ['floating-point agreement with dense results', 'Hermiticity of the effective local operator in floating point'],
    'C05': ['graph denotes the sum of the padded chains (path polynomial)', 'is_consistent, length', 'MPO.from_opgraph preserves the operator, qD from node charges, nid_map'],
    'C06': ['dense equality with the textbook formulas', 'Hermiticity', 'block sparsity of the constructed MPOs'],
    'C07': ['equality with the second-quantized operator', 'agreement of the optimized and explicit construction', 'gauge transform'],
    'C08': ['norm and energy conservation', 'returned value equals the input norm', 'single-site TDVP never increases a bond dimension'],
    'C09': ['exactness on a complete manifold', 'time reversibility'],
    'C10': ['variational bounds', 'monotonicity', 'last energy equals the energy of the returned state', 'exact ground state on a complete manifold'],
    'C11': ['floating-point residuals of Q R = A and Q^H Q = I (the deductive proof is in exact arithmetic)'],
    'C12': ['error identity ||A - u s v||^2 = sum of discarded s^2 for tol > 0', 'floating-point residuals of the isometry clauses and of the zero-tolerance product'],
    'C13': ['scale in [sqrt(1 - L tol), 1]', 'error identity for compress', 'first truncated bond keeps the prescribed Schmidt values', 'from_vector error bound'],
    'C14': ['floating-point residuals of orthonormality and of the projected-map identity (both are discharged in exact arithmetic)', 'behaviour with maps that return views of their argument, second calls (engine F obligations are discharged; the byte-level confirmation is bounded)'],
    'C15': ['Ritz value bounds', 'exactness once the Krylov space is exhausted', 'general (Arnoldi) branch of the exponential', 'floating-point residuals of the discharged clauses (norm preservation, orthonormal Ritz vectors, Rayleigh quotients)'],
    'C16': ['rewrites preserve the denoted operator', 'is_consistent after every rewrite', 'simplify never increases node/edge counts'],
    'C17': ['graph of trees denotes the padded sum', 'unrolled automaton denotes the sum over paths', 'dense meaning agrees with the symbolic meaning'],
    'C18': ['maximality of the matching', 'cover touches every edge and has the size of the matching', 'termination', 'duplicate edges / class invariant of BipartiteGraph'],
    'C19': ['may-alias results of engine F (6 obligations) and all byte-level snapshots'],
    'C20': ['bond dimension equals the operator Schmidt rank', 'chain-count bound', 'simplify never increases a bond dimension'],
}
