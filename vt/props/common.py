"""helpers shared by the property modules"""
import importlib, time
from ..contract import REGISTRY, Verdict

CONTRACT_MODULES = ['operation', 'mps', 'mpo', 'arith']

def load_contracts():
    for m in CONTRACT_MODULES:
        importlib.import_module(f'vt.contracts.{m}')

def verify_T(prop, only=None):
    load_contracts()
    out = []
    for fn, cs in REGISTRY.items():
        for c in cs:
            if prop in c.props and (only is None or fn in only):
                out += c.verify()
    return out
