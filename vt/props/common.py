"""helpers shared by the property modules"""
import importlib, time
from ..contract import REGISTRY, Verdict

CONTRACT_MODULES = ['operation', 'mps', 'mpo', 'arith']

def load_contracts():
    for m in CONTRACT_MODULES:
        importlib.import_module(f'vt.contracts.{m}')

def verify_T(prop, only=None):
    load_contracts()
    out = []
    for fn, cs in REGISTRY.items():
        for c in cs:
            if prop in c.props and (only is None or fn in only):
                out += c.verify()
    return out


def verify_F(prop):
    """engine F obligations for the frame contracts that mention the property"""
    from .. import frame
    from ..contracts.frames import FRAMES
    out = []
    for mod, qual, modifies, fresh, props in FRAMES:
        if prop not in props:
            continue
        t0 = time.time()
        try:
            obl, s = frame.check_frame(mod, qual, modifies, fresh)
        except Exception as e:
            out.append(Verdict('frame', 'F', 'undecided', f'analysis error: {type(e).__name__}: {e}', time.time() - t0, f'{mod}.{qual}', 'frame'))
            continue
        dt = (time.time() - t0) / max(1, len(obl))
        for name, status, detail in obl:
            out.append(Verdict(name, 'F', status, detail, dt, f'{mod}.{qual}', 'frame'))
    return out


def verify_Z(prop, tier='quick'):
    try:
        from .. import zobl
    except ImportError:
        return []
    return zobl.verify(prop, tier)


def verify_L(prop, tier='quick'):
    try:
        from .. import lemmas_t as lemmas
    except ImportError:
        return []
    return lemmas.verify(prop, tier)


def deductive_all(prop, tier='quick'):
    return verify_T(prop) + verify_Z(prop, tier) + verify_F(prop) + verify_L(prop, tier)
