"""helpers shared by the property modules"""
import importlib, os, time
from ..contract import REGISTRY, Verdict

CONTRACT_MODULES = ['operation', 'mps', 'mpo', 'arith']

def load_contracts():
    for m in CONTRACT_MODULES:
        importlib.import_module(f'vt.contracts.{m}')

def verify_T(prop, only=None):
    load_contracts()
    out = []
    for fn, cs in REGISTRY.items():
        for c in cs:
            if prop in c.props and (only is None or fn in only):
                out += c.verify()
    return out


def verify_F(prop):
    """engine F obligations for the frame contracts that mention the property"""
    from .. import frame
    from ..contracts.frames import FRAMES
    out = []
    for entry in FRAMES:
        mod, qual, modifies, fresh, props = entry[:5]
        may_share = entry[5] if len(entry) > 5 else ()
        keep_el = entry[6] if len(entry) > 6 else ()
        if prop not in props:
            continue
        t0 = time.time()
        try:
            obl, s = frame.check_frame(mod, qual, modifies, fresh, may_share, keep_el)
        except Exception as e:
            out.append(Verdict('frame', 'F', 'undecided', f'analysis error: {type(e).__name__}: {e}', time.time() - t0, f'{mod}.{qual}', 'frame'))
            continue
        dt = (time.time() - t0) / max(1, len(obl))
        for name, status, detail in obl:
            out.append(Verdict(name, 'F', status, detail, dt, f'{mod}.{qual}', 'frame'))
        try:
            hs, hd = frame.check_hidden_state(mod, qual)
            v = Verdict('no_state_kept_across_calls', 'F', hs, hd, 0.0, f'{mod}.{qual}', 'frame')
            v.confirm = [qual.split('.')[-1], 'history', 'repeated', 'second call', 'cache']
            out.append(v)
        except Exception as e:
            out.append(Verdict('no_state_kept_across_calls', 'F', 'undecided', f'analysis error: {type(e).__name__}: {e}', 0.0, f'{mod}.{qual}', 'frame'))
    if prop == 'C17':
        t0 = time.time()
        try:
            st, det = frame.check_truth_value_use('opgraph', 'OpGraph.from_automaton')
        except Exception as e:
            st, det = 'undecided', f'analysis error: {type(e).__name__}: {e}'
        v = Verdict('callback_result_used_by_truth_value', 'F', st, det, time.time() - t0, 'opgraph.OpGraph.from_automaton', 'frame')
        v.confirm = ['from_automaton']
        out.append(v)
    if prop in ('C18', 'C19'):
        for name, status, detail in frame.check_reinit('bipartite_graph', 'HopcroftKarp', '__call__'):
            v = Verdict(name, 'F', status, detail, 0.0, 'bipartite_graph.HopcroftKarp.__call__', 'frame')
            v.confirm = ['HopcroftKarp']
            out.append(v)
    return out


def verify_Z(prop, tier='quick'):
    try:
        from .. import zobl
    except ImportError:
        return []
    return zobl.verify(prop, tier)


def verify_L(prop, tier='quick'):
    try:
        from .. import lemmas_t as lemmas
    except ImportError:
        return []
    return lemmas.verify(prop, tier)


def _task(kind, prop, tier, arg=None):
    if kind == 'T':
        return verify_T(prop)
    if kind == 'F':
        return verify_F(prop)
    if kind == 'Z':
        return verify_Z(prop, tier)
    if kind == 'L':
        return verify_L(prop, tier)
    if kind == 'H':
        from .. import zshape
        return zshape.verify(prop, only=arg)
    if kind == 'D':
        from .. import zfold
        return zfold.verify(prop, only=arg)
    if kind == 'O':
        from .. import zops
        return zops.verify(prop)
    if kind == 'V':
        from .. import zqrv
        return zqrv.run('bond_ops.qr') if arg != 'svd' else zqrv.run_svd('bond_ops.split_matrix_svd')
    if kind == 'G':
        from .. import zhk
        return zhk.verify(prop, tier)
    if kind == 'K':
        from .. import zkry
        return zkry.verify(prop, tier)
    if kind == 'Q':
        from .. import zqr
        which, kind = arg
        return zqr.verify(which, kind)
    if kind == 'S':
        from .. import zsweep
        cls, mode = arg
        try:
            if cls == 'compress':
                return zsweep.verify_contract(zsweep.compress_contract(mode), (prop,))
            return zsweep.verify_contract(zsweep.orthonormalize_contract(cls, mode), (prop,))
        except Exception as e:
            return [Verdict(f'sweep[{mode}]', 'Z', 'undecided', f'executor error: {type(e).__name__}: {e}', 0, f'{cls}.orthonormalize', 'ensures', 'z3')]
    return []


QR = {'C02': [('C11', 'complex'), ('C12', 'complex')], 'C11': [('C11', 'int'), ('C11', 'complex')], 'C01': [('C11', 'int'), ('C11', 'complex')], 'C12': [('C12', 'int'), ('C12', 'complex')], 'C13': [('C12', 'complex')]}
SWEEPS = {'C01': [('MPS', 'left'), ('MPS', 'right'), ('MPO', 'left'), ('MPO', 'right')], 'C02': [('MPS', 'left'), ('MPS', 'right'), ('compress', 'left'), ('compress', 'right')],
          'C13': [('compress', 'left'), ('compress', 'right')]}


def _conditional(out):
    """a postcondition proved from a loop invariant is only as good as the invariant: where an invariant obligation of a function
    is not discharged on this tree, the engine-Z postconditions of that function are reported as undecided (never as violated)"""
    import re
    def tag_of(name):
        name = re.sub(r' \[conjunct \d+/\d+\]', '', name)
        return name.split(' [')[-1] if ' [' in name else ''
    bad = {(v.fn, tag_of(v.name)) for v in out if v.kind == 'invariant' and v.status != 'discharged'}
    if not bad:
        return out
    fns = {f for f, _ in bad}
    for v in out:
        if v.engine == 'Z' and v.kind == 'ensures' and v.status == 'discharged' and v.fn in fns:
            if (v.fn, tag_of(v.name)) in bad or (v.fn, '') in bad:
                v.status = 'undecided'; v.detail = 'follows from the loop invariant, which is not established on this tree'
    return out


def deductive_all(prop, tier='quick'):
    return _conditional(_deductive_all(prop, tier))


def _deductive_all(prop, tier='quick'):
    """all deductive obligations of a property; independent groups run in parallel processes"""
    import concurrent.futures as cf, multiprocessing as mp
    tasks = [('T', prop, tier, None), ('Z', prop, tier, None), ('F', prop, tier, None), ('L', prop, tier, None)]
    tasks += [('S', prop, tier, a) for a in SWEEPS.get(prop, [])]
    tasks += [('Q', prop, tier, a) for a in QR.get(prop, [])]
    from .. import zfold, zshape
    tasks += [('D', prop, tier, c['fn']) for c in zfold.contracts() if prop in c['props']]
    tasks += [('H', prop, tier, name) for name, (mk, props) in zshape.CONTRACTS.items() if prop in props]
    if prop in ('C04', 'C08', 'C09', 'C10'):
        tasks.append(('O', prop, tier, None))
    if prop == 'C18':
        tasks.insert(0, ('G', prop, tier, None))
    if prop in ('C14', 'C15', 'C08', 'C10'):
        tasks.insert(0, ('K', prop, tier, None))
    if prop == 'C11':
        tasks.insert(0, ('V', prop, tier, None))
    if prop == 'C12':
        tasks.insert(0, ('V', prop, tier, 'svd'))
    if len(tasks) <= 4 and prop not in ('C12', 'C13', 'C18'):
        out = []
        for t in tasks:
            out += _task(*t)
        return out
    # one forked worker per group with a hard wall-clock budget: a change of the code under verification must not be able to
    # hang the check (path explosion, solver); a group that exceeds the budget is *undecided*
    budget = float(os.environ.get('VT_DEDUCTIVE_BUDGET', '420' if tier == 'quick' else '1500'))
    ctx = mp.get_context('fork')
    def work(conn, t):
        try:
            conn.send(_task(*t))
        except Exception as e:
            conn.send([Verdict(f'group[{t[0]}{t[3] or ""}]', t[0] if t[0] in 'TZFL' else 'Z', 'undecided', f'worker failed: {type(e).__name__}: {e}', 0, '', 'ensures')])
        finally:
            conn.close()
    procs = []
    sem = min(10, len(tasks))
    pending = list(tasks); running = []
    out = []
    t_start = time.time()
    while pending or running:
        while pending and len(running) < sem:
            t = pending.pop(0)
            rcv, snd = ctx.Pipe(duplex=False)
            pr = ctx.Process(target=work, args=(snd, t), daemon=True)
            pr.start(); snd.close()
            running.append((pr, rcv, t, time.time()))
        for item in list(running):
            pr, rcv, t, t0 = item
            if rcv.poll(0.05):
                try:
                    out += rcv.recv()
                except EOFError:
                    out.append(Verdict(f'group[{t[0]}{t[3] or ""}]', 'Z', 'undecided', 'worker died', 0, '', 'ensures'))
                pr.join(1); running.remove(item)
            elif not pr.is_alive():
                out.append(Verdict(f'group[{t[0]}{t[3] or ""}]', 'Z', 'undecided', 'worker died without a result', 0, '', 'ensures'))
                running.remove(item)
            elif time.time() - t_start > budget:
                pr.terminate(); pr.join(2)
                out.append(Verdict(f'group[{t[0]}{t[3] or ""}]', 'Z', 'undecided', f'deductive group exceeded the wall-clock budget of {budget:.0f}s', 0, '', 'ensures'))
                running.remove(item)
    return out
