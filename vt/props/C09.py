"""C09: TDVP is exact on a complete manifold and exactly time-reversible"""
from .common import deductive_all

LEVEL = 'exploration'
EXPLANATION = ('Mixed level. Contract obligations generated from the real AST of the functions this property depends on are '
               'discharged deductively for all inputs in exact arithmetic (engines Z/T/F/L, see obligation_list); every clause of the '
               'property that those obligations do not reach, and all floating-point behaviour, is decided by the bounded run-time '
               'stand-in (engine R), which is labelled bounded and never counted as proved. See DESIGN.md section 5, C09.')
ASSUMPTIONS = []
NOT_PROVED = []

def deductive(tier):
    return deductive_all('C09', tier)
