from .common import verify_T

LEVEL = 'other'
EXPLANATION = ('Mixed: contract obligations on the real AST are discharged deductively for all inputs (exact arithmetic); '
               'the floating-point statement and the clauses listed under not_proved are decided by the bounded stand-in only.')
ASSUMPTIONS = ['np.linalg.qr contract (DESIGN 3.2)', 'K_qr factorization clauses (Q R = A, Q^H Q = I) are used as callee contract; '
               'C11 proves them only in part']
NOT_PROVED = []

def deductive(tier):
    return verify_T('C01')
