"""Engine Z, entry values of the block loop of bond_ops.qr:  Q R = A  for all shapes and all charge vectors.

The matrices of vt/zqr.py additionally carry a *value* function (i, j) -> ring element, updated functionally by slice
stores and composed by slices / gathers.  The matrix product is a range sum

      Dot[Q, R](i, j, lo, hi)  =  sum_{lo <= c < hi} Q[i, c] * R[c, j]

which z3 never unfolds: Dot is an uninterpreted function per pair of matrix versions, and the generator applies the
following *sum rules* (each is a fact about finite sums over an interval; Lean proofs in vt/lemmas/Sums.lean).  A rule is
applied only after z3 has proved its premise from the value functions; the conclusion then becomes a fact:

  (empty/split)  Dot(i, j, a, a) = 0,  a <= b <= c  =>  Dot(i, j, a, c) = Dot(i, j, a, b) + Dot(i, j, b, c)
  (vanish)       if for all c in [a, b): Q[i, c] = 0 or R[c, j] = 0   then  Dot(i, j, a, b) = 0
  (congruence)   if Q'[i, c] = Q[f i, c + s] and R'[c, j] = R[c + s, g j] on [a, b)  then  Dot'(i, j, a, b) = Dot(f i, g j, a + s, b + s)
  (K_qr)         np.linalg.qr(B) = (Qs, Rs) with k = min(p, r) columns:  sum_{c < k} Qs[a, c] Rs[c, b] = B[a, b]   (assumed
                 NumPy contract, DESIGN 3.2), used through the congruence rule at the place where the block is stored.

Ring elements are modelled as z3 reals; the VCs only add Dot terms and compare them (the products stay inside Dot), so
they are statements about a commutative ring and hold for complex entries as well.

The sidecar invariant of `for qn in qis` (k iterations done, D columns written) adds to the one of vt/zqr.py:
    for all i, j:  Dot(i, j, 0, D) = A[i, j] if q0[i] == q1[j] and that charge has been visited, else 0;
    Q[i, c] = 0 and R[c, j] = 0 for c >= D.
Postcondition on every return path:  for all i < m, j < n:  Dot[Q_ret, R_ret](i, j, 0, D_ret) = A_input[i, j]."""
import ast, itertools, time
import z3
from . import loader, zqr
from .contract import Verdict
from .symexec import Exec, Unsupported, Refuted, State, Obligation
from .libz import ZArr, is_z, zint, make_loop_handler, ElemOf
from .smt import Solver, check_unsat
from .zqr import IArr, SArr, rng, fi

_n = itertools.count(1)
I = z3.IntSort(); Rl = z3.RealSort()
DOTS = {}          # (id(Q), id(R)) -> (function, Q, R)


def prove(ex, st, node, text, premise, timeout=20000):
    r, _ = check_unsat([p for p in st.pc if is_z(p)] + [z3.Not(premise)], timeout=timeout, try_cvc5=False)
    ex.obligations.append(Obligation('rule-premise', text, getattr(node, 'lineno', 0), True if r == 'unsat' else None,
                                     '' if r == 'unsat' else 'premise of a sum rule not proved (only costs completeness)'))
    return r == 'unsat'


def generic_axioms(D):
    i, j, a, b, c = z3.Ints('i j a b c')
    return [z3.ForAll([i, j, a], D(i, j, a, a) == 0),
            z3.ForAll([i, j, a, b, c], z3.Implies(z3.And(a <= b, b <= c), D(i, j, a, c) == D(i, j, a, b) + D(i, j, b, c)))]


def unwind(X, contracted):
    """follow views down to a non-view root: X[i, c] = root[f(i), c + s] (contracted = 1) resp. X[c, j] = root[c + s, g(j)]"""
    free = lambda t: t
    shift = z3.IntVal(0)
    while X.origin and X.origin[0] == 'view':
        _, base, f0, f1, how = X.origin
        hc = how[contracted]; fc = (f0, f1)[contracted]; ff = (f0, f1)[1 - contracted]
        if hc[0] != 'shift':
            return None
        shift = shift + hc[1]
        free = lambda t, ff=ff, outer=free: ff(outer(t))
        X = base
    return X, free, shift


def dot_of(ex, st, node, Q, R):
    key = (id(Q), id(R))
    if key in DOTS:
        return DOTS[key][0]
    D = z3.Function(f'Dot{next(_n)}', I, I, I, I, Rl)
    DOTS[key] = (D, Q, R)
    st.pc += generic_axioms(D)
    i, j, c, a, b = z3.Ints('i j c a b')
    oq, orr = (Q.origin or ('?',))[0], (R.origin or ('?',))[0]
    if oq == 'zeros' or orr == 'zeros':
        # (vanish) one factor is identically zero
        st.pc.append(z3.ForAll([i, j, a, b], D(i, j, a, b) == 0))
        return D
    if oq == 'view' or orr == 'view':
        uq, ur = unwind(Q, 1), unwind(R, 0)
        if uq is None or ur is None:
            return D
        (Q0, f, s1), (R0, g, s2) = uq, ur
        if Q0 is Q and R0 is R:
            return D
        D0 = dot_of(ex, st, node, Q0, R0)
        # (congruence) premise: equal shifts and the composed value functions agree (syntactic by construction, still proved)
        prem = z3.And(s1 == s2, z3.ForAll([i, c], Q.val(i, c) == Q0.val(f(i), c + s1)), z3.ForAll([c, j], R.val(c, j) == R0.val(c + s2, g(j))))
        if prove(ex, st, node, 'congruence: views of both factors with the same offset on the contracted axis', prem):
            st.pc.append(z3.ForAll([i, j, a, b], D(i, j, a, b) == D0(f(i), g(j), a + s1, b + s1)))
        return D
    if oq == 'store' and orr == 'store':
        _, Qb, (qc0, qc1, qo0, qo1, qkey), qv = Q.origin
        _, Rb, (rc0, rc1, ro0, ro1, rkey), rv = R.origin
        Db = dot_of(ex, st, node, Qb, Rb)
        info = qv.origin[1] if getattr(qv, 'origin', None) and qv.origin[0] == 'lapack' else None
        if info is None or not (getattr(rv, 'origin', None) and rv.origin[0] == 'lapack' and rv.origin[1] is info):
            return D
        # intermediate range [lo, hi) written by both stores
        lo, hi = qo1, qo1 + zint(qv.shape[1])
        same = z3.And(ro0 == qo1, zint(rv.shape[0]) == zint(qv.shape[1]), lo >= 0)
        if not prove(ex, st, node, 'the two slice stores use the same range of intermediate indices', same):
            return D
        # (congruence, old part) columns below lo are untouched
        if prove(ex, st, node, 'congruence: entries left of the stored block are unchanged',
                 z3.And(z3.ForAll([i, c], z3.Implies(z3.And(c >= 0, c < lo), Q.val(i, c) == Qb.val(i, c))),
                        z3.ForAll([c, j], z3.Implies(z3.And(c >= 0, c < lo), R.val(c, j) == Rb.val(c, j))))):
            st.pc.append(z3.ForAll([i, j], D(i, j, 0, lo) == Db(i, j, 0, lo)))
        # (K_qr through congruence) inside the block the stored factors are the LAPACK factors of B = A[i0:i1, j0:j1]
        B = info['B']; i0, j0 = qo0, ro1
        inrow = lambda t: qc0(t); incol = lambda t: rc1(t)
        if prove(ex, st, node, 'congruence: the stored block holds the factors returned by np.linalg.qr',
                 z3.And(z3.ForAll([i, c], z3.Implies(z3.And(inrow(i), c >= lo, c < hi), Q.val(i, c) == qv.val(i - i0, c - lo))),
                        z3.ForAll([c, j], z3.Implies(z3.And(incol(j), c >= lo, c < hi), R.val(c, j) == rv.val(c - lo, j - j0))),
                        hi - lo == info['k'])):
            st.pc.append(z3.ForAll([i, j], z3.Implies(z3.And(inrow(i), incol(j)), D(i, j, lo, hi) == B.val(i - i0, j - j0))))
        # (vanish) rows / columns outside the block
        if prove(ex, st, node, 'vanish: the new columns of the left factor are zero outside the rows of the block',
                 z3.ForAll([i, c], z3.Implies(z3.And(z3.Not(inrow(i)), c >= lo, c < hi), Q.val(i, c) == 0))):
            st.pc.append(z3.ForAll([i, j], z3.Implies(z3.Not(inrow(i)), D(i, j, lo, hi) == 0)))
        if prove(ex, st, node, 'vanish: the new rows of the right factor are zero outside the columns of the block',
                 z3.ForAll([c, j], z3.Implies(z3.And(z3.Not(incol(j)), c >= lo, c < hi), R.val(c, j) == 0))):
            st.pc.append(z3.ForAll([i, j], z3.Implies(z3.Not(incol(j)), D(i, j, lo, hi) == 0)))
        return D
    if oq == 'store' and orr in ('zeros', 'havoc', 'input'):
        return D
    return D


TRANSPOSED = {}


def transposed(X):
    """the transpose of a matrix version, with the history (origin) mirrored, so that the Gram rules for columns also give
    the row Gram matrix  sum_j X[c, j] cj(X[d, j])  (the right factor of the SVD has orthonormal rows)"""
    if id(X) in TRANSPOSED:
        return TRANSPOSED[id(X)][0]
    o = X.origin or ('?',)
    if o[0] == 'view':
        _, base, f0, f1, how = o
        origin = ('view', transposed(base), f1, f0, [how[1], how[0]])
    elif o[0] == 'store':
        _, base, (c0, c1, o0, o1, key), v = o
        vt = transposed(v) if getattr(v, 'is_sarr', False) else v
        origin = ('store', transposed(base), (c1, c0, o1, o0, key), vt)
    elif o[0] == 'lapack':
        info = o[1]
        origin = ('lapack', dict(info, p=info['r'], r=info['p'], transposed=True))
    else:
        origin = o
    T = SArr((X.shape[1], X.shape[0]), X.kind, lambda i, j, X=X: X.nz(j, i), val=(lambda i, j, X=X: X.val(j, i)) if X.val is not None else None, origin=origin)
    TRANSPOSED[id(X)] = (T, X)
    return T


GRAMS = {}
CJ = z3.Function('cj', Rl, Rl)       # complex conjugation on ring elements: only cj(0) = 0 and cj(1) = 1 are used


def gram_of(ex, st, node, Q):
    """Gram(c, c', lo, hi) = sum_{lo <= i < hi} cj(Q[i, c]) * Q[i, c']  (the range-sum rules applied to Q^H and Q)"""
    if id(Q) in GRAMS:
        return GRAMS[id(Q)][0]
    G = z3.Function(f'Gram{next(_n)}', I, I, I, I, Rl)
    GRAMS[id(Q)] = (G, Q)
    st.pc += generic_axioms(G)
    i, c, d, a, b = z3.Ints('i c d a b')
    o = (Q.origin or ('?',))[0]
    if o == 'zeros':
        st.pc.append(z3.ForAll([c, d, a, b], G(c, d, a, b) == 0))
        return G
    if o == 'view':
        _, base, f0, f1, how = Q.origin
        Gb = gram_of(ex, st, node, base)
        if how[0][0] == 'shift':
            s0 = how[0][1]
            if prove(ex, st, node, 'congruence (Gram): view with an offset on the summed axis',
                     z3.ForAll([i, c], Q.val(i, c) == base.val(i + s0, f1(c)))):
                st.pc.append(z3.ForAll([c, d, a, b], G(c, d, a, b) == Gb(f1(c), f1(d), a + s0, b + s0)))
        elif how[0][0] == 'gather' and how[1][0] == 'shift':
            # (permutation) a sum over the full range [0, m) is invariant under a bijection of [0, m)
            p = how[0][1]; mrows = zint(base.shape[0]); inv = p.tags.get('inv'); s1 = how[1][1]
            if inv is not None and prove(ex, st, node, 'permutation (Gram): the row index array is a bijection of [0, m) and the columns are not re-indexed',
                                         z3.And(zint(p.n) == mrows, s1 == 0,
                                                z3.ForAll([i], z3.Implies(rng(i, mrows), z3.And(rng(p.a(i), mrows), inv(p.a(i)) == i, rng(inv(i), mrows), p.a(inv(i)) == i))),
                                                z3.ForAll([i, c], Q.val(i, c) == base.val(p.a(i), c)))):
                st.pc.append(z3.ForAll([c, d], G(c, d, 0, mrows) == Gb(c, d, 0, mrows)))
        return G
    if o == 'store':
        _, Qb, (c0, c1, o0, o1, key), v = Q.origin
        Gb = gram_of(ex, st, node, Qb)
        innew = lambda t: c1(t); inrow = lambda t: c0(t)
        if getattr(v, 'origin', None) and v.origin[0] == 'lapack':
            info = v.origin[1]
            lo = o1; i0 = o0; i1 = o0 + zint(v.shape[0])
            # (split) at the rows of the block
            mrows = zint(Q.shape[0])
            if prove(ex, st, node, 'split (Gram): the rows of the block lie inside the matrix', z3.And(0 <= i0, i0 <= i1, i1 <= mrows)):
                st.pc.append(z3.ForAll([c, d], G(c, d, 0, mrows) == G(c, d, 0, i0) + G(c, d, i0, i1) + G(c, d, i1, mrows)))
            # (congruence) columns outside the stored range
            if prove(ex, st, node, 'congruence (Gram): columns outside the stored block are unchanged',
                     z3.ForAll([i, c], z3.Implies(z3.Not(innew(c)), Q.val(i, c) == Qb.val(i, c)))):
                st.pc.append(z3.ForAll([c, d, a, b], z3.Implies(z3.And(z3.Not(innew(c)), z3.Not(innew(d))), G(c, d, a, b) == Gb(c, d, a, b))))
            # (vanish) a new column is zero outside the rows of the block
            if prove(ex, st, node, 'vanish (Gram): new columns are zero outside the rows of the block',
                     z3.ForAll([i, c], z3.Implies(z3.And(innew(c), z3.Not(inrow(i))), Q.val(i, c) == 0))):
                st.pc.append(z3.ForAll([c, d, a, b], z3.Implies(z3.And(z3.Or(innew(c), innew(d)), z3.Or(b <= i0, a >= i1)), G(c, d, a, b) == 0)))
            # (K_qr through congruence) both columns new, summed over the rows of the block: Qs^H Qs = I
            if prove(ex, st, node, 'congruence (Gram): the stored block holds the isometry returned by np.linalg.qr',
                     z3.And(z3.ForAll([i, c], z3.Implies(z3.And(inrow(i), innew(c)), Q.val(i, c) == v.val(i - i0, c - lo))),
                            i1 - i0 == info['p'], z3.ForAll([i], inrow(i) == z3.And(i >= i0, i < i1)))):
                st.pc.append(z3.ForAll([c, d], z3.Implies(z3.And(innew(c), innew(d)), G(c, d, i0, i1) == z3.If(c == d, 1, 0))))
            # (vanish) one column new, the other old: the old column is zero on the rows of the block
            if prove(ex, st, node, 'vanish (Gram): earlier columns are zero on the rows of the block',
                     z3.ForAll([i, c], z3.Implies(z3.And(inrow(i), z3.Not(innew(c)), c >= 0), Q.val(i, c) == 0)), timeout=40000):
                st.pc.append(z3.ForAll([c, d], z3.Implies(z3.And(z3.Xor(innew(c), innew(d)), c >= 0, d >= 0), G(c, d, i0, i1) == 0)))
            return G
        if isinstance(v, int) and Qb.origin and Qb.origin[0] == 'zeros':
            # unit column written into a zero matrix: Q[r, s] = v
            r0, s0 = o0, o1
            if prove(ex, st, node, 'single term (Gram): one entry of a zero matrix is set',
                     z3.ForAll([i, c], Q.val(i, c) == z3.If(z3.And(i == r0, c == s0), z3.RealVal(v), 0))):
                st.pc.append(z3.ForAll([c, d, a, b], z3.Implies(z3.Or(c != s0, d != s0, b <= r0, a > r0), G(c, d, a, b) == 0)))
                st.pc.append(G(s0, s0, r0, r0 + 1) == CJ(z3.RealVal(v)) * z3.RealVal(v))
            return G
    return G


def _conditional(out):
    """a postcondition derived from the loop invariant is only as good as the invariant: if an invariant obligation of this run
    is not discharged, the postconditions are reported as undecided"""
    if any(v.kind == 'invariant' and v.status != 'discharged' for v in out):
        for v in out:
            if v.kind == 'ensures' and v.status == 'discharged':
                v.status = 'undecided'; v.detail = 'follows from the loop invariant, which is not established on this tree'
    return out


def value_invariant(env, ex, st, node=None):
    k = env['#iter']
    Dn = zint(env['D']); q0 = env['q0']; q1 = env['q1']; qis = env['#qis']; A = env['A']
    Q, R = env.get('Q'), env.get('R')
    if not (getattr(Q, 'is_sarr', False) and getattr(R, 'is_sarr', False) and Q.val is not None and R.val is not None and getattr(A, 'val', None) is not None):
        return z3.BoolVal(True)
    m, n = zint(q0.n), zint(q1.n)
    D = dot_of(ex, st, node, Q, R)
    i, j, c = z3.Ints('i j c')
    visited = lambda q: z3.And(k > 0, q <= qis.a(k - 1))
    return z3.And(
        z3.ForAll([i, j], z3.Implies(z3.And(rng(i, m), rng(j, n)),
                                     D(i, j, 0, Dn) == z3.If(z3.And(q0.a(i) == q1.a(j), visited(q0.a(i))), A.val(i, j), 0))),
        z3.ForAll([i, c], z3.Implies(c >= Dn, Q.val(i, c) == 0)),
        z3.ForAll([c, j], z3.Implies(c >= Dn, R.val(c, j) == 0)),
        gram_invariant(env, ex, st, node, Q, k, Dn, m, qis))


def gram_invariant(env, ex, st, node, Q, k, Dn, m, qis):
    qi = env.get('qinterm')
    if not isinstance(qi, IArr):
        return z3.BoolVal(True)
    G = gram_of(ex, st, node, Q)
    i, c, d = z3.Ints('i c d')
    return z3.And(
        z3.ForAll([c, d], z3.Implies(z3.And(rng(c, Dn), rng(d, Dn)), G(c, d, 0, m) == z3.If(c == d, 1, 0))),
        z3.ForAll([i, c], z3.Implies(Q.val(i, c) != 0, Q.nz(i, c))),                       # values live on the support
        z3.ForAll([c], z3.Implies(rng(c, Dn), z3.And(k > 0, qi.a(c) <= qis.a(k - 1)))))     # charges written so far


def run(fn='bond_ops.qr', kind='complex'):
    from . import smt
    smt.EXTERNAL[0] = True
    zqr.TRACK_VALUES[0] = True
    DOTS.clear(); GRAMS.clear(); TRANSPOSED.clear()
    try:
        return _run(fn, kind)
    finally:
        zqr.TRACK_VALUES[0] = False
        DOTS.clear()


def _run(fn, kind):
    out = []; t0 = time.time()
    fnode = loader.function(fn)
    m, n = z3.Ints('m n')
    q0f, q1f = fi('q0_'), fi('q1_')
    Q0, Q1 = IArr(q0f, m), IArr(q1f, n)
    Aval = zqr.fresh_val('A')
    A0 = SArr((m, n), kind, zqr.NZ, name='A0', val=Aval, origin=('input',))
    i, j = z3.Ints('i j')
    x = z3.Real('x')
    requires = [CJ(z3.RealVal(0)) == 0, CJ(z3.RealVal(1)) == 1, m >= 1, n >= 1,
                z3.ForAll([i, j], z3.Implies(z3.And(rng(i, m), rng(j, n), zqr.NZ(i, j)), q0f(i) == q1f(j))),
                z3.ForAll([i, j], z3.Implies(z3.Not(zqr.NZ(i, j)), Aval(i, j) == 0))]
    solver = Solver()
    def inv(env, ex_, st_):
        return z3.And(zqr.block_invariant(dict(env), ex_, st_), value_invariant(env, ex_, st_))
    handler = make_loop_handler({'for qn in qis': inv})
    ex = Exec(lib=dict(zqr.LIB_Q), calls={}, mode='Z', solver=solver, loop_handler=None, fname=fn)
    def loop_handler(ex_, node, st_):
        if isinstance(node, ast.For) and isinstance(node.target, ast.Name):
            it = ex_.ev(node.iter, st_)
            if isinstance(it, IArr):
                st_.env['#qis'] = it
        return handler(ex_, node, st_)
    ex.loop_handler = loop_handler
    ex.assume_asserts = {'A.ndim == 2', 'len(q0) == A.shape[0]', 'len(q1) == A.shape[1]', 'is_qsparse(A, [q0, -q1])'}
    st = State({'A': A0, 'q0': Q0, 'q1': Q1, '#sparse_assumed': True}, requires)
    orig_name = ex.ev_Name
    def ev_Name(e, st_):
        v = orig_name(e, st_)
        return v.arr.a(v.idx) if isinstance(v, ElemOf) else v
    ex.ev_Name = ev_Name
    try:
        states = ex.block(fnode.body, [st])
    except Refuted as e:
        return [Verdict('values: executes', 'Z', 'undecided', str(e), time.time() - t0, fn, 'safety', 'z3')]
    except Unsupported as e:
        return [Verdict('values: executes', 'Z', 'undecided', f'outside fragment: {e}', time.time() - t0, fn, 'safety', 'z3')]
    # only the value-level obligations are reported here (shapes, indices, supports are reported by vt/zqr.py)
    for ob in ex.obligations:
        if ob.kind in ('invariant', 'rule-premise'):
            status = 'discharged' if ob.holds is True else 'refuted' if ob.holds is False else 'undecided'
            if status == 'refuted':
                status = 'undecided'; ob.detail = 'counter-model of a quantified query is not trusted: ' + ob.detail
            out.append(Verdict(f'values: {ob.kind}@{ob.lineno}: {ob.text[:90]}', 'Z', status, ob.detail, 0.0, fn, ob.kind, 'z3'))
    finals = [s for s in states if s.done and s.raised is None and solver.feasible(s.pc)]
    nob = len(ex.obligations)
    res = []; can = []; resg = []
    for s in finals:
        try:
            Qm, Rm, q = s.ret
            Dret = zint(Qm.shape[1])
            if not (getattr(Qm, 'val', None) is not None and getattr(Rm, 'val', None) is not None):
                res.append(None); continue
            class _N: lineno = 0
            D = dot_of(ex, s, _N, Qm, Rm)
            goal = z3.ForAll([i, j], z3.Implies(z3.And(rng(i, m), rng(j, n)), D(i, j, 0, Dret) == Aval(i, j)))
            res.append(solver.implied([p for p in s.pc if is_z(p)], goal, final=True))
            G = gram_of(ex, s, _N, Qm)
            c_, d_ = z3.Ints('c_ d_')
            goal2 = z3.ForAll([c_, d_], z3.Implies(z3.And(rng(c_, Dret), rng(d_, Dret)), G(c_, d_, 0, m) == z3.If(c_ == d_, 1, 0)))
            resg.append(solver.implied([p for p in s.pc if is_z(p)], goal2, final=True))
            # vacuity canary (general path only): the path condition with all derived facts must not be contradictory
            if s is finals[-1]:
                r_, _ = check_unsat([p for p in s.pc if is_z(p)], timeout=8000, try_cvc5=False)
                can.append(r_ == 'unsat')
        except Exception as e:
            res.append(None)
    for ob in ex.obligations[nob:]:
        if ob.kind == 'rule-premise':
            status = 'discharged' if ob.holds is True else 'undecided'
            out.append(Verdict(f'values: {ob.kind}@return: {ob.text[:90]}', 'Z', status, ob.detail, 0.0, fn, ob.kind, 'z3'))
    status = 'discharged' if res and all(r is True for r in res) else 'undecided'
    out.append(Verdict(f'product_of_the_factors_equals_the_matrix [Q R = A, entry level, {len(res)} return paths]', 'Z', status,
                       'sum rules: vt/lemmas/Sums.lean; K_qr of np.linalg.qr assumed' if status == 'discharged' else f'per path: {res}', 0, fn, 'ensures', 'z3'))
    statusg = 'discharged' if resg and all(r is True for r in resg) else 'undecided'
    out.append(Verdict(f'first_factor_has_orthonormal_columns [Q^H Q = I, entry level, {len(resg)} return paths]', 'Z', statusg,
                       'sum rules: vt/lemmas/Sums.lean; K_qr of np.linalg.qr assumed' if statusg == 'discharged' else f'per path: {resg}', 0, fn, 'ensures', 'z3'))
    out.append(Verdict('product_of_the_factors_equals_the_matrix', 'Z', 'canary-verified' if any(c is True for c in can) else 'canary-ok',
                       'the facts derived by the sum rules are not contradictory on any return path', 0, fn, 'canary', 'z3'))
    tot = time.time() - t0
    for v in out:
        v.seconds = tot / max(1, len(out))
        v.confirm = ['qr']
    return _conditional(out)



# ---------------------------------------------------------------------------------------------------------------
# split_matrix_svd: isometry of both factors (u^H u = I, v v^H = I) through the block loop, the truncation gather and the
# un-sorting permutations.  (The product / error identity of the truncated SVD stays with the bounded stand-in.)

TRIS = {}


def unwind1(S):
    """1-D analogue of unwind for the vector of singular values: S[c] = root[c + shift] along slices"""
    shift = z3.IntVal(0)
    while S.origin and S.origin[0] == 'view':
        _, base, how = S.origin
        if how[0] != 'shift':
            return None
        shift = shift + how[1]; S = base
    return S, shift


def tri_of(ex, st, node, U, S, V):
    """Tri(i, j, lo, hi) = sum_{lo <= c < hi} U[i, c] * S[c] * V[c, j]  -- the range sum of the (truncated) singular value
    decomposition; same rules as Dot, applied to the three arrays in lockstep"""
    key = (id(U), id(S), id(V))
    if key in TRIS:
        return TRIS[key][0]
    Tn = z3.Function(f'Tri{next(_n)}', I, I, I, I, Rl)
    TRIS[key] = (Tn, U, S, V)
    st.pc += generic_axioms(Tn)
    i, j, c, a, b = z3.Ints('i j c a b')
    ou, os_, ov = (U.origin or ('?',))[0], (S.origin or ('?',))[0], (V.origin or ('?',))[0]
    if 'zeros' in (ou, os_, ov):
        st.pc.append(z3.ForAll([i, j, a, b], Tn(i, j, a, b) == 0))
        return Tn
    if ou == 'store' and os_ == 'store' and ov == 'store':
        _, Ub, (uc0, uc1, uo0, uo1, _k1), uv = U.origin
        _, Sb, (slo, shi), sv = S.origin
        _, Vb, (vc0, vc1, vo0, vo1, _k2), vv = V.origin
        Tb = tri_of(ex, st, node, Ub, Sb, Vb)
        info = uv.origin[1] if getattr(uv, 'origin', None) and uv.origin[0] == 'lapack' else None
        if info is None or not all(getattr(x, 'origin', None) and x.origin[0] == 'lapack' and x.origin[1] is info for x in (sv, vv)):
            return Tn
        lo, hi = uo1, uo1 + zint(uv.shape[1])
        if not prove(ex, st, node, 'the three slice stores use the same range of intermediate indices',
                     z3.And(vo0 == lo, slo == lo, shi == hi, zint(vv.shape[0]) == hi - lo, lo >= 0)):
            return Tn
        if prove(ex, st, node, 'congruence (SVD): entries left of the stored block are unchanged',
                 z3.And(z3.ForAll([i, c], z3.Implies(z3.And(c >= 0, c < lo), U.val(i, c) == Ub.val(i, c))),
                        z3.ForAll([c], z3.Implies(z3.And(c >= 0, c < lo), S.a(c) == Sb.a(c))),
                        z3.ForAll([c, j], z3.Implies(z3.And(c >= 0, c < lo), V.val(c, j) == Vb.val(c, j))))):
            st.pc.append(z3.ForAll([i, j], Tn(i, j, 0, lo) == Tb(i, j, 0, lo)))
        B = info['B']; i0, j0 = uo0, vo1
        inrow = lambda t: uc0(t); incol = lambda t: vc1(t)
        if prove(ex, st, node, 'congruence (SVD): the stored block holds the factors returned by np.linalg.svd',
                 z3.And(z3.ForAll([i, c], z3.Implies(z3.And(inrow(i), c >= lo, c < hi), U.val(i, c) == uv.val(i - i0, c - lo))),
                        z3.ForAll([c], z3.Implies(z3.And(c >= lo, c < hi), S.a(c) == sv.a(c - lo))),
                        z3.ForAll([c, j], z3.Implies(z3.And(incol(j), c >= lo, c < hi), V.val(c, j) == vv.val(c - lo, j - j0))),
                        hi - lo == info['k'])):
            st.pc.append(z3.ForAll([i, j], z3.Implies(z3.And(inrow(i), incol(j)), Tn(i, j, lo, hi) == B.val(i - i0, j - j0))))
        if prove(ex, st, node, 'vanish (SVD): the new columns of the left factor are zero outside the rows of the block',
                 z3.ForAll([i, c], z3.Implies(z3.And(z3.Not(inrow(i)), c >= lo, c < hi), U.val(i, c) == 0))):
            st.pc.append(z3.ForAll([i, j], z3.Implies(z3.Not(inrow(i)), Tn(i, j, lo, hi) == 0)))
        if prove(ex, st, node, 'vanish (SVD): the new rows of the right factor are zero outside the columns of the block',
                 z3.ForAll([c, j], z3.Implies(z3.And(z3.Not(incol(j)), c >= lo, c < hi), V.val(c, j) == 0))):
            st.pc.append(z3.ForAll([i, j], z3.Implies(z3.Not(incol(j)), Tn(i, j, lo, hi) == 0)))
        return Tn
    if 'view' in (ou, os_, ov):
        def is_zero(x):
            x = z3.simplify(zint(x))
            return z3.is_int_value(x) and x.as_long() == 0
        def level(X, axis):
            if getattr(X, 'is_rv1', False):
                return (X.origin[1], X.origin[2], None) if X.origin and X.origin[0] == 'view' else (X, None, None)
            if X.origin and X.origin[0] == 'view':
                _, base, f0, f1, how = X.origin
                return base, how[axis], ((f0, f1)[1 - axis], how[1 - axis])
            return X, None, None
        Ub, hu, fu = level(U, 1); Sb, hs, _ = level(S, 0); Vb, hv, fv = level(V, 0)
        # a single array that is a view with offset 0 on the intermediate axis (a slice [:D], or a re-indexing of its free axis) is
        # peeled on its own: the terms of the sum are unchanged
        if hu is not None and hu[0] == 'shift' and is_zero(hu[1]):
            Tb = tri_of(ex, st, node, Ub, S, V); f = fu[0]
            if prove(ex, st, node, 'congruence (SVD): re-indexed rows / untouched columns of the left factor', z3.ForAll([i, c], U.val(i, c) == Ub.val(f(i), c))):
                st.pc.append(z3.ForAll([i, j, a, b], Tn(i, j, a, b) == Tb(f(i), j, a, b)))
            return Tn
        if hv is not None and hv[0] == 'shift' and is_zero(hv[1]):
            Tb = tri_of(ex, st, node, U, S, Vb); g = fv[0]
            if prove(ex, st, node, 'congruence (SVD): re-indexed columns / untouched rows of the right factor', z3.ForAll([c, j], V.val(c, j) == Vb.val(c, g(j)))):
                st.pc.append(z3.ForAll([i, j, a, b], Tn(i, j, a, b) == Tb(i, g(j), a, b)))
            return Tn
        if hs is not None and hs[0] == 'shift' and is_zero(hs[1]):
            Tb = tri_of(ex, st, node, U, Sb, V)
            if prove(ex, st, node, 'congruence (SVD): sliced vector of singular values', z3.ForAll([c], S.a(c) == Sb.a(c))):
                st.pc.append(z3.ForAll([i, j, a, b], Tn(i, j, a, b) == Tb(i, j, a, b)))
            return Tn
        if hu is None or hs is None or hv is None:
            return Tn
        Tb = tri_of(ex, st, node, Ub, Sb, Vb)
        f = fu[0]; g = fv[0]
        if hu[0] == hs[0] == hv[0] == 'gather' and hu[1] is hs[1] and hs[1] is hv[1]:
            # (subsequence) the three arrays are gathered with the same strictly increasing index vector that enumerates exactly the
            # kept indices, and every term at an index that is not kept vanishes: the sum over the kept ones is the full sum
            idx = hu[1]; kept = idx.tags.get('kept'); pos = idx.tags.get('pos'); nfull = zint(Sb.shape[0]); k2, l2 = z3.Ints('k2 l2')
            tol = idx.tags.get('tol')
            cond = (tol == 0) if tol is not None and is_z(tol) else z3.BoolVal(False)
            if kept is not None and prove(ex, st, node, 'subsequence (SVD, tol == 0): the index vector enumerates the kept indices increasingly and every discarded term vanishes',
                                          z3.Implies(cond, z3.And(z3.ForAll([k2, l2], z3.Implies(z3.And(0 <= k2, k2 < l2, l2 < zint(idx.n)), idx.a(k2) < idx.a(l2))),
                                                 z3.ForAll([k2], z3.Implies(rng(k2, zint(idx.n)), z3.And(rng(idx.a(k2), nfull), kept(idx.a(k2))))),
                                                 z3.ForAll([c], z3.Implies(z3.And(rng(c, nfull), kept(c)), z3.And(rng(pos(c), zint(idx.n)), idx.a(pos(c)) == c))),
                                                 z3.ForAll([c], z3.Implies(z3.And(rng(c, nfull), z3.Not(kept(c))), Sb.a(c) == 0)),
                                                 z3.ForAll([i, c], U.val(i, c) == Ub.val(f(i), idx.a(c))), z3.ForAll([c], S.a(c) == Sb.a(idx.a(c))),
                                                 z3.ForAll([c, j], V.val(c, j) == Vb.val(idx.a(c), g(j))))), timeout=40000):
                st.pc.append(z3.Implies(cond, z3.ForAll([i, j], Tn(i, j, 0, zint(idx.n)) == Tb(f(i), g(j), 0, nfull))))
            return Tn
    return Tn


def svd_invariant(env, ex, st, node=None):
    k = env['#iter']
    Dn = zint(env['D']); q0 = env['q0']; q1 = env['q1']; qis = env['#qis']
    u, v, qi = env.get('u'), env.get('v'), env.get('q')
    if not (getattr(u, 'is_sarr', False) and getattr(v, 'is_sarr', False) and u.val is not None and v.val is not None and isinstance(qi, IArr)):
        return z3.BoolVal(True)
    m, n = zint(q0.n), zint(q1.n)
    Gu = gram_of(ex, st, node, u)
    Gv = gram_of(ex, st, node, transposed(v))
    i, j, c, d = z3.Ints('i j c d')
    tri = z3.BoolVal(True)
    sv = env.get('s'); A = env.get('A')
    if getattr(sv, 'is_rv1', False) and getattr(A, 'val', None) is not None:
        Tn = tri_of(ex, st, node, u, sv, v)
        visited = lambda q: z3.And(k > 0, q <= qis.a(k - 1))
        tri = z3.ForAll([i, j], z3.Implies(z3.And(rng(i, m), rng(j, n)),
                                           Tn(i, j, 0, Dn) == z3.If(z3.And(q0.a(i) == q1.a(j), visited(q0.a(i))), A.val(i, j), 0)))
    return z3.And(tri,
        z3.ForAll([i, c], z3.Implies(c >= Dn, u.val(i, c) == 0)),
        z3.ForAll([c, j], z3.Implies(c >= Dn, v.val(c, j) == 0)),
        z3.ForAll([c, d], z3.Implies(z3.And(rng(c, Dn), rng(d, Dn)), Gu(c, d, 0, m) == z3.If(c == d, 1, 0))),
        z3.ForAll([c, d], z3.Implies(z3.And(rng(c, Dn), rng(d, Dn)), Gv(c, d, 0, n) == z3.If(c == d, 1, 0))),
        z3.ForAll([i, c], z3.Implies(u.val(i, c) != 0, u.nz(i, c))),
        z3.ForAll([c, j], z3.Implies(v.val(c, j) != 0, v.nz(c, j))),
        z3.ForAll([c], z3.Implies(rng(c, Dn), z3.And(k > 0, qi.a(c) <= qis.a(k - 1)))))


def run_svd(fn='bond_ops.split_matrix_svd', kind='complex'):
    from . import smt
    smt.EXTERNAL[0] = True
    zqr.TRACK_VALUES[0] = True
    DOTS.clear(); GRAMS.clear(); TRANSPOSED.clear(); TRIS.clear()
    try:
        return _run_svd(fn, kind)
    finally:
        zqr.TRACK_VALUES[0] = False
        DOTS.clear(); GRAMS.clear(); TRANSPOSED.clear(); TRIS.clear()


def _run_svd(fn, kind):
    out = []; t0 = time.time()
    fnode = loader.function(fn)
    m, n = z3.Ints('m n')
    q0f, q1f = fi('q0_'), fi('q1_')
    Q0, Q1 = IArr(q0f, m), IArr(q1f, n)
    Aval = zqr.fresh_val('A')
    A0 = SArr((m, n), kind, zqr.NZ, name='A0', val=Aval, origin=('input',))
    i, j = z3.Ints('i j')
    requires = [CJ(z3.RealVal(0)) == 0, CJ(z3.RealVal(1)) == 1, m >= 1, n >= 1,
                z3.ForAll([i, j], z3.Implies(z3.And(rng(i, m), rng(j, n), zqr.NZ(i, j)), q0f(i) == q1f(j))),
                z3.ForAll([i, j], z3.Implies(z3.Not(zqr.NZ(i, j)), Aval(i, j) == 0))]
    solver = Solver()
    def inv(env, ex_, st_):
        return z3.And(zqr.block_invariant(dict(env), ex_, st_), svd_invariant(env, ex_, st_))
    handler = make_loop_handler({'for qn in qis': inv})
    ex = Exec(lib=dict(zqr.LIB_Q), calls={'retained_bond_indices': zqr.K_retained}, mode='Z', solver=solver, loop_handler=None, fname=fn)
    def loop_handler(ex_, node, st_):
        if isinstance(node, ast.For) and isinstance(node.target, ast.Name):
            it = ex_.ev(node.iter, st_)
            if isinstance(it, IArr):
                st_.env['#qis'] = it
        return handler(ex_, node, st_)
    ex.loop_handler = loop_handler
    ex.assume_asserts = {'A.ndim == 2', 'len(q0) == A.shape[0]', 'len(q1) == A.shape[1]', 'is_qsparse(A, [q0, -q1])'}
    tolv = z3.Real('tol')
    st = State({'A': A0, 'q0': Q0, 'q1': Q1, 'tol': tolv, '#sparse_assumed': True}, requires)
    orig_name = ex.ev_Name
    def ev_Name(e, st_):
        v = orig_name(e, st_)
        return v.arr.a(v.idx) if isinstance(v, ElemOf) else v
    ex.ev_Name = ev_Name
    try:
        states = ex.block(fnode.body, [st])
    except Refuted as e:
        return [Verdict('values: executes', 'Z', 'undecided', str(e), time.time() - t0, fn, 'safety', 'z3')]
    except Unsupported as e:
        return [Verdict('values: executes', 'Z', 'undecided', f'outside fragment: {e}', time.time() - t0, fn, 'safety', 'z3')]
    def report(obs, where=''):
        for ob in obs:
            if ob.kind in ('invariant', 'rule-premise'):
                status = 'discharged' if ob.holds is True else 'undecided'
                detail = ob.detail if ob.holds is not False else 'counter-model of a quantified query is not trusted: ' + ob.detail
                out.append(Verdict(f'values: {ob.kind}@{where or ob.lineno}: {ob.text[:90]}', 'Z', status, detail, 0.0, fn, ob.kind, 'z3'))
    report(ex.obligations)
    finals = [s for s in states if s.done and s.raised is None and solver.feasible(s.pc)]
    nob = len(ex.obligations)
    resu = []; resv = []; can = []; resp = []
    class _N: lineno = 0
    for s in finals:
        try:
            um, sv, vm, q = s.ret
            if not (getattr(um, 'val', None) is not None and getattr(vm, 'val', None) is not None):
                resu.append(None); resv.append(None); continue
            if vm.origin and vm.origin[0] == 'zeros':
                continue        # no common charge: the matrix is zero and only a product equal to zero is required (property C12)
            Dret = zint(um.shape[1])
            c_, d_ = z3.Ints('c_ d_')
            Gu = gram_of(ex, s, _N, um)
            Gv = gram_of(ex, s, _N, transposed(vm))
            resu.append(solver.implied([p for p in s.pc if is_z(p)], z3.ForAll([c_, d_], z3.Implies(z3.And(rng(c_, Dret), rng(d_, Dret)), Gu(c_, d_, 0, m) == z3.If(c_ == d_, 1, 0))), final=True))
            resv.append(solver.implied([p for p in s.pc if is_z(p)], z3.ForAll([c_, d_], z3.Implies(z3.And(rng(c_, Dret), rng(d_, Dret)), Gv(c_, d_, 0, n) == z3.If(c_ == d_, 1, 0))), final=True))
            if getattr(sv, 'is_rv1', False):
                Tn = tri_of(ex, s, _N, um, sv, vm)
                i_, j_ = z3.Ints('i_ j_')
                resp.append(solver.implied([p for p in s.pc if is_z(p)], z3.Implies(tolv == 0, z3.ForAll([i_, j_], z3.Implies(z3.And(rng(i_, m), rng(j_, n)), Tn(i_, j_, 0, Dret) == Aval(i_, j_)))), final=True))
            else:
                resp.append(None)
            if s is finals[-1]:
                r_, _ = check_unsat([p for p in s.pc if is_z(p)], timeout=8000, try_cvc5=False)
                can.append(r_ == 'unsat')
        except Exception as e:
            resu.append(None); resv.append(None)
    report(ex.obligations[nob:], 'return')
    for nm, rs in (('left_factor_has_orthonormal_columns [u^H u = I', resu), ('right_factor_has_orthonormal_rows [v v^H = I', resv)):
        status = 'discharged' if rs and all(r is True for r in rs) else 'undecided'
        out.append(Verdict(f'{nm}, entry level, {len(rs)} return paths with a shared charge]', 'Z', status,
                           'sum rules: vt/lemmas/Sums.lean; contract of np.linalg.svd assumed' if status == 'discharged' else f'per path: {rs}', 0, fn, 'ensures', 'z3'))
    statusp = 'discharged' if resp and all(r is True for r in resp) else 'undecided'
    out.append(Verdict(f'zero_tolerance_reproduces_the_matrix [tol == 0 => u diag(s) v = A, entry level, {len(resp)} return paths with a shared charge]', 'Z', statusp,
                       'sum rules: vt/lemmas/Sums.lean; contracts of np.linalg.svd and retained_bond_indices (vt/ztrunc.py)' if statusp == 'discharged' else f'per path: {resp}', 0, fn, 'ensures', 'z3'))
    out.append(Verdict('factors_are_isometries', 'Z', 'canary-verified' if any(c is True for c in can) else 'canary-ok',
                       'the facts derived by the sum rules are not contradictory', 0, fn, 'canary', 'z3'))
    tot = time.time() - t0
    for v in out:
        v.seconds = tot / max(1, len(out))
        v.confirm = ['split_matrix_svd']
    return _conditional(out)
