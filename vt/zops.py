"""Engine Z, shape + entry-kind level, for pytenet/operation.py: the contraction steps and the functions that fold them
over the chain (vdot, operator_average, operator_inner_product, operator_density_average, compute_right_operator_blocks).

For every function the real body is executed on arrays with symbolic dimensions and an entry *kind* (int < real < complex):
  * requires: the ranks asserted by the function and the dimension equalities that make the contractions well defined
    (for the chain functions: the shape part of the MPS/MPO class invariant);
  * discharged for all dimensions / all chain lengths: no contraction can fail (every np.tensordot pairs equal dimensions,
    every index is in range, every repository assertion holds), the result has the documented shape, and its kind is the
    join of the kinds of the operands -- in particular *no store narrows*: a complex value is never written into an array
    allocated with a real or integer dtype (run for all four combinations real/complex state x real/complex operator);
  * the step contracts proved here are exactly the callee contracts K_step_* that the chain functions (below) and the sweep
    contracts of vt/zshape.py assume at their call sites.
Values of the entries are the business of vt/zfold.py (loops = folds) and of engine T (local steps)."""
import ast, itertools, time
import z3
from . import loader
from .contract import Verdict
from .symexec import Exec, Unsupported, Refuted, State, Obj, SymRange, Obligation
from .libz import (LIB_Z, ZArr, ZScal, is_z, zint, oblige, fresh_int, kind_join, kind_le, kind_of, shape_eq, Unbound, z_setitem)
from .smt import Solver
from . import zshape
from .zshape import SSeq, LSeq, QL, ArrI

_c = itertools.count(1)
KINDS = ('real', 'complex')


class KSeq(SSeq):
    """list of arrays of one rank with a common entry kind (None = nothing stored yet)"""
    def __init__(self, dims, length, kind):
        SSeq.__init__(self, dims, length); self.kind = kind
    @staticmethod
    def fresh(rank, length, kind, name='s'):
        n = next(_c)
        return KSeq([z3.Const(f'{name}{n}_{a}', ArrI) for a in range(rank)], length, kind)


def k_getitem(ex, st, node, base, key):
    if isinstance(base, KSeq):
        k = zshape._idx(base, key)
        oblige(ex, st, node, 'index', f'{ast.unparse(node)[:40]}: index in range', z3.And(k >= 0, k < base.length))
        if base.kind is None:
            raise Refuted(f'line {node.lineno}: element read before any store')
        return ZArr(tuple(d[k] for d in base.dims), base.kind)
    if getattr(base, 'is_zarr', False) and key is Ellipsis:
        return base
    return zshape.s_getitem(ex, st, node, base, key)


def k_setitem(ex, st, node, base, key, v):
    if isinstance(base, KSeq):
        k = zshape._idx(base, key)
        oblige(ex, st, node, 'index', f'{ast.unparse(node)[:40]}: index in range', z3.And(k >= 0, k < base.length))
        if not getattr(v, 'is_zarr', False) or v.ndim != len(base.dims):
            ex.obligations.append(Obligation('shape', f'{ast.unparse(node)[:40]}: rank of the stored tensor', node.lineno, False, 'rank mismatch'))
            raise Refuted('rank mismatch in store')
        kind = kind_of(v) if base.kind is None else kind_join(base.kind, kind_of(v))
        return KSeq([z3.Store(d, k, zint(x)) for d, x in zip(base.dims, v.shape)], base.length, kind)
    if getattr(base, 'is_zarr', False) and key is Ellipsis:
        # whole-array store: shapes must agree, and the value must fit the dtype of the target
        ok = kind_le(kind_of(v), kind_of(base))
        ex.obligations.append(Obligation('dtype', f'{ast.unparse(node)[:50]}: no narrowing store ({kind_of(v)} into {kind_of(base)})', node.lineno, ok,
                                         '' if ok else f'a value of kind {kind_of(v)} is stored into an array of kind {kind_of(base)}: the imaginary part is dropped'))
        if getattr(v, 'is_zarr', False):
            if v.ndim != base.ndim:
                raise Refuted('rank mismatch in whole-array store')
            oblige(ex, st, node, 'shape', f'{ast.unparse(node)[:50]}: value shape == target shape', shape_eq(base.shape, v.shape))
        return base
    return zshape.s_setitem(ex, st, node, base, key, v)


def kind_from_dtype(dt, default='real'):
    if dt is None:
        return default
    if isinstance(dt, tuple) and dt and dt[0] == 'dtype':
        return dt[1]
    if dt is complex:
        return 'complex'
    if dt is float:
        return 'real'
    if dt is int:
        return 'int'
    nm = str(getattr(dt, 'name', None) or getattr(dt, '__name__', None) or dt).split('.')[-1]
    return {'complex': 'complex', 'complex128': 'complex', 'float': 'real', 'float64': 'real', 'int': 'int', 'int64': 'int'}.get(nm, 'complex')


def _axes(ax, nd):
    if isinstance(ax, int):
        ax = (ax,)
    return [a + nd if a < 0 else a for a in ax]


def np_tensordot(ex, st, node, args, kw):
    a, b = args[0], args[1]
    axes = kw.get('axes', args[2] if len(args) > 2 else 2)
    if not (getattr(a, 'is_zarr', False) and getattr(b, 'is_zarr', False)):
        raise Unsupported('tensordot of non-arrays')
    if isinstance(axes, int):
        ax_a, ax_b = list(range(a.ndim - axes, a.ndim)), list(range(axes))
    else:
        ax_a, ax_b = _axes(axes[0], a.ndim), _axes(axes[1], b.ndim)
    if len(ax_a) != len(ax_b) or any(not 0 <= x < a.ndim for x in ax_a) or any(not 0 <= x < b.ndim for x in ax_b) \
            or len(set(ax_a)) != len(ax_a) or len(set(ax_b)) != len(ax_b):
        ex.obligations.append(Obligation('shape', f'{ast.unparse(node)[:60]}: axes exist', node.lineno, False, f'axes {axes} for ranks {a.ndim}, {b.ndim}'))
        raise Refuted(f'line {node.lineno}: tensordot axes {axes} do not exist for ranks {a.ndim}, {b.ndim}')
    for i, j in zip(ax_a, ax_b):
        oblige(ex, st, node, 'shape', f'{ast.unparse(node)[:60]}: contracted dimensions {i}/{j} agree', zint(a.shape[i]) == zint(b.shape[j]))
    shape = [a.shape[i] for i in range(a.ndim) if i not in ax_a] + [b.shape[j] for j in range(b.ndim) if j not in ax_b]
    kd = kind_join(kind_of(a), kind_of(b))
    return ZArr(shape, kd) if shape else ZScal(kd)


def m_transpose(ex, st, node, args, kw):
    a = args[0]
    perm = args[1] if len(args) == 2 else (tuple(args[1:]) if len(args) > 2 else tuple(reversed(range(a.ndim))))
    if sorted(perm) != list(range(a.ndim)):
        raise Refuted(f'line {node.lineno}: transpose axes {perm} for rank {a.ndim}')
    return ZArr(tuple(a.shape[p] for p in perm), kind_of(a))


def np_identity(ex, st, node, args, kw):
    n = args[0]
    oblige(ex, st, node, 'shape', f'{ast.unparse(node)[:40]}: dimension >= 0', zint(n) >= 0)
    return ZArr((n, n), kind_from_dtype(kw.get('dtype', args[1] if len(args) > 1 else None)))


def np_array(ex, st, node, args, kw):
    v = args[0]; d = 0
    while isinstance(v, (tuple, list)) and len(v) == 1:
        v = v[0]; d += 1
    if isinstance(v, int):
        return ZArr((1,) * d, kind_from_dtype(kw.get('dtype'), 'int'))
    raise Unsupported('array literal')


def np_alloc(ex, st, node, args, kw):
    shp = args[0] if isinstance(args[0], (tuple, list)) else (args[0],)
    for d in shp:
        oblige(ex, st, node, 'shape', f'{ast.unparse(node)[:40]}: dimension >= 0', zint(d) >= 0)
    return ZArr(tuple(shp), kind_from_dtype(kw.get('dtype', args[1] if len(args) > 1 else None)))


def m_reshape(ex, st, node, args, kw):
    a = args[0]
    shp = args[1] if len(args) == 2 and isinstance(args[1], (tuple, list)) else tuple(args[1:])
    if any(isinstance(x, int) and x < 0 for x in shp):
        raise Unsupported('reshape with -1')
    pa = z3.IntVal(1)
    for x in a.shape:
        pa = pa * zint(x)
    pb = z3.IntVal(1)
    for x in shp:
        pb = pb * zint(x)
    oblige(ex, st, node, 'shape', f'{ast.unparse(node)[:50]}: number of entries unchanged', pa == pb)
    return ZArr(tuple(shp), kind_of(a))


def listcomp(ex, st, node, it):
    if isinstance(it, SymRange) and isinstance(node.elt, ast.Constant) and node.elt.value is None:
        return KSeq.fresh(3, zint(it.hi), None, 'BR')
    raise Unsupported('comprehension')


def conj(ex, st, node, args, kw):
    return args[0]


LIB_O = dict(LIB_Z)
LIB_O.update({'getitem': k_getitem, 'setitem': k_setitem, 'len': zshape.s_len, 'np.tensordot': np_tensordot, '.transpose': m_transpose,
              'np.transpose': m_transpose, 'np.identity': np_identity, 'np.array': np_array, 'np.empty': np_alloc, 'np.zeros': np_alloc,
              'np.ones': np_alloc, '.reshape': m_reshape, 'listcomp': listcomp, '.conj': conj, 'np.conj': conj, 'is_qsparse': zshape.is_qsparse})


# ---------------------------------------------------------------------------------------------------------------
# step contracts (data): name -> (argument names with ranks, preconditions, result shape)

def _eq(a, b):
    return zint(a) == zint(b)

STEPS = {
    'contraction_step_right': (('A', 3), ('B', 3), ('R', 2)),
    'contraction_step_left': (('A', 3), ('B', 3), ('L', 2)),
    'contraction_operator_step_right': (('A', 3), ('B', 3), ('W', 4), ('R', 3)),
    'contraction_operator_step_left': (('A', 3), ('B', 3), ('W', 4), ('L', 3)),
    'contraction_operator_density_step_right': (('A', 4), ('W', 4), ('R', 2)),
    'apply_local_hamiltonian': (('L', 3), ('R', 3), ('W', 4), ('A', 3)),
    'apply_local_bond_contraction': (('L', 3), ('R', 3), ('C', 2)),
}

def step_pre(name, a):
    s = {k: v.shape for k, v in a.items()}
    if name == 'contraction_step_right':
        return [('A.shape[0] == B.shape[0]', _eq(s['A'][0], s['B'][0])), ('R.shape == (A.shape[2], B.shape[2])', z3.And(_eq(s['R'][0], s['A'][2]), _eq(s['R'][1], s['B'][2])))]
    if name == 'contraction_step_left':
        return [('A.shape[0] == B.shape[0]', _eq(s['A'][0], s['B'][0])), ('L.shape == (A.shape[1], B.shape[1])', z3.And(_eq(s['L'][0], s['A'][1]), _eq(s['L'][1], s['B'][1])))]
    if name == 'contraction_operator_step_right':
        return [('A.shape[0] == W.shape[1]', _eq(s['A'][0], s['W'][1])), ('B.shape[0] == W.shape[0]', _eq(s['B'][0], s['W'][0])),
                ('R.shape == (A.shape[2], W.shape[3], B.shape[2])', z3.And(_eq(s['R'][0], s['A'][2]), _eq(s['R'][1], s['W'][3]), _eq(s['R'][2], s['B'][2])))]
    if name == 'contraction_operator_step_left':
        return [('A.shape[0] == W.shape[1]', _eq(s['A'][0], s['W'][1])), ('B.shape[0] == W.shape[0]', _eq(s['B'][0], s['W'][0])),
                ('L.shape == (A.shape[1], W.shape[2], B.shape[1])', z3.And(_eq(s['L'][0], s['A'][1]), _eq(s['L'][1], s['W'][2]), _eq(s['L'][2], s['B'][1])))]
    if name == 'contraction_operator_density_step_right':
        return [('A.shape[1] == W.shape[0]', _eq(s['A'][1], s['W'][0])), ('A.shape[0] == W.shape[1]', _eq(s['A'][0], s['W'][1])),
                ('R.shape == (A.shape[3], W.shape[3])', z3.And(_eq(s['R'][0], s['A'][3]), _eq(s['R'][1], s['W'][3])))]
    if name == 'apply_local_hamiltonian':
        return [('A.shape[0] == W.shape[1]', _eq(s['A'][0], s['W'][1])), ('R.shape[0] == A.shape[2]', _eq(s['R'][0], s['A'][2])),
                ('R.shape[1] == W.shape[3]', _eq(s['R'][1], s['W'][3])), ('L.shape[0] == A.shape[1]', _eq(s['L'][0], s['A'][1])),
                ('L.shape[1] == W.shape[2]', _eq(s['L'][1], s['W'][2]))]
    if name == 'apply_local_bond_contraction':
        return [('L.shape[0] == C.shape[0]', _eq(s['L'][0], s['C'][0])), ('R.shape[0] == C.shape[1]', _eq(s['R'][0], s['C'][1])),
                ('L.shape[1] == R.shape[1]', _eq(s['L'][1], s['R'][1]))]
    raise KeyError(name)

def step_result(name, a):
    s = {k: v.shape for k, v in a.items()}
    return {'contraction_step_right': lambda: (s['A'][1], s['B'][1]),
            'contraction_step_left': lambda: (s['A'][2], s['B'][2]),
            'contraction_operator_step_right': lambda: (s['A'][1], s['W'][2], s['B'][1]),
            'contraction_operator_step_left': lambda: (s['A'][2], s['W'][3], s['B'][2]),
            'contraction_operator_density_step_right': lambda: (s['A'][2], s['W'][2]),
            'apply_local_hamiltonian': lambda: (s['W'][0], s['L'][2], s['R'][2]),
            'apply_local_bond_contraction': lambda: (s['L'][2], s['R'][2])}[name]()


def K_step(name):
    """callee contract of a step function (proved from its body by verify_step)"""
    def hook(ex, st, node, args, kw):
        spec = STEPS[name]
        if len(args) != len(spec):
            raise Refuted(f'{name}: argument count')
        a = {}
        for (nm, rank), v in zip(spec, args):
            if not getattr(v, 'is_zarr', False) or v.ndim != rank:
                ex.obligations.append(Obligation('callee-pre', f'{name}: {nm}.ndim == {rank}', node.lineno, False, 'rank'))
                raise Refuted(f'{name}: {nm}.ndim == {rank} violated at line {node.lineno}')
            a[nm] = v
        for txt, f in step_pre(name, a):
            oblige(ex, st, node, 'callee-pre', f'{name}: {txt}', f)
        kd = 'int'
        for v in a.values():
            kd = kind_join(kd, kind_of(v))
        return ZArr(step_result(name, a), kd)
    return hook


def verify_step(name, kinds):
    fn = f'operation.{name}'
    t0 = time.time(); out = []
    fnode = loader.function(fn)
    spec = STEPS[name]
    a = {}
    for (nm, rank), kd in zip(spec, kinds):
        a[nm] = ZArr(tuple(z3.Int(f'{nm}{i}') for i in range(rank)), kd)
    pre = [zint(x) >= 0 for v in a.values() for x in v.shape] + [f for _, f in step_pre(name, a)]
    solver = Solver()
    ex = Exec(lib=dict(LIB_O), calls={}, mode='Z', solver=solver, loop_handler=None, fname=fn)
    ex.check_dtypes = True
    ex.assume_asserts = {f'{nm}.ndim == {rank}' for nm, rank in spec}
    st = State(dict(a), pre)
    tag = ' [kinds: ' + ','.join(kinds) + ']'
    try:
        states = ex.block(fnode.body, [st])
    except Refuted as e:
        v = Verdict('executes' + tag, 'Z', 'refuted', str(e) + ' (needs native confirmation)', time.time() - t0, fn, 'safety', 'z3'); v.confirm = [name]
        return [v]
    except Unsupported as e:
        return [Verdict('executes' + tag, 'Z', 'undecided', f'outside fragment: {e}', time.time() - t0, fn, 'safety', 'z3')]
    out += _obligations(ex, fn, name, tag)
    finals = [s for s in states if s.done and s.raised is None]
    want = step_result(name, a)
    kd = 'int'
    for k in kinds:
        kd = kind_join(kd, k)
    res = []
    for s in finals:
        r = s.ret
        ok_rank = getattr(r, 'is_zarr', False) and r.ndim == len(want)
        res.append((solver.implied([p for p in s.pc if is_z(p)], shape_eq(r.shape, want), final=True) if ok_rank else False,
                    ok_rank and kind_le(kd, kind_of(r))))
    if not finals:
        out.append(Verdict('returns' + tag, 'Z', 'undecided', 'no returning path', 0, fn, 'ensures', 'z3'))
    else:
        for idx, nm in enumerate(('result_shape', 'result_kind_is_join_of_operand_kinds')):
            rs = [r[idx] for r in res]
            status = 'discharged' if all(r is True for r in rs) else 'refuted' if any(r is False for r in rs) else 'undecided'
            v = Verdict(nm + tag, 'Z', status, f'{len(rs)} return paths' + (' (needs native confirmation)' if status == 'refuted' else ''), 0, fn, 'ensures', 'z3')
            v.confirm = [name]
            out.append(v)
    tot = time.time() - t0
    for v in out:
        v.seconds = tot / max(1, len(out))
    return out


def _obligations(ex, fn, key, tag):
    out = []
    for ob in ex.obligations:
        status = 'discharged' if ob.holds is True else 'refuted' if ob.holds is False else 'undecided'
        v = Verdict(f'{ob.kind}@{ob.lineno}: {ob.text[:80]}{tag}', 'Z', status,
                    ob.detail + (' (needs native confirmation)' if status == 'refuted' else ''), 0.0, fn, ob.kind, 'z3')
        v.confirm = [key]
        out.append(v)
    return out


# ---------------------------------------------------------------------------------------------------------------
# chain functions

def kind_loop_handler(invariants, carried, stale):
    """invariant rule for `for i in [reversed](range(...))`; carried arrays get fresh dimensions at the loop head (the
    invariant relates them to the index); their kinds are found by fixpoint iteration in the three-point lattice"""
    def handler(ex, n, st):
        sig = loader.loop_signature(n)
        if sig not in invariants:
            stale.append(sig)
            raise Unsupported(f'no invariant for loop "{sig}" (contract stale)')
        inv = invariants[sig]
        it = ex.ev(n.iter, st)
        if not isinstance(it, SymRange) or not isinstance(n.target, ast.Name):
            raise Unsupported('loop shape')
        lo, hi = zint(it.lo), zint(it.hi)
        var = n.target.id
        at = (lambda c: lo + c) if not it.rev else (lambda c: hi - 1 - c)
        assigned = {x.id for s_ in n.body for x in ast.walk(s_) if isinstance(x, ast.Name) and isinstance(x.ctx, ast.Store)}
        kinds = {nm: getattr(st.env.get(nm), 'kind', None) for nm in carried}
        def havoc(s, kinds):
            for nm in carried:
                cur = s.env.get(nm)
                if isinstance(cur, KSeq):
                    s.env[nm] = KSeq.fresh(len(cur.dims), cur.length, kinds[nm], nm)
                elif getattr(cur, 'is_zarr', False):
                    s.env[nm] = ZArr(tuple(fresh_int(f'{nm}_d{a}') for a in range(cur.ndim)), kinds[nm])
            for nm in assigned - set(carried) - {var}:
                cur = s.env.get(nm)
                if cur is None or getattr(cur, 'is_zarr', False):
                    s.env[nm] = Unbound(nm)
                elif getattr(cur, 'is_zscal', False):
                    s.env[nm] = ZScal()
                elif is_z(cur) or isinstance(cur, int):
                    s.env[nm] = fresh_int(nm)
        oblige(ex, st, n, 'invariant', f'{sig}: invariant holds on entry', inv(st.env, z3.IntVal(0), at(z3.IntVal(0))))
        nob = len(ex.obligations)
        for _round in range(4):
            del ex.obligations[nob:]
            head = st.fork(); havoc(head, kinds)
            c = fresh_int('iter')
            head.pc.append(z3.And(c >= 0, c < hi - lo))
            head.env[var] = at(c)
            head.pc.append(inv(head.env, c, at(c)))
            ends = ex.block(n.body, [head])
            new = dict(kinds)
            for s in ends:
                if s.done:
                    raise Unsupported('return inside loop')
                for nm in carried:
                    k2 = getattr(s.env.get(nm), 'kind', None)
                    if k2 is not None:
                        new[nm] = k2 if new[nm] is None else kind_join(new[nm], k2)
            if new == kinds:
                break
            kinds = new
        for s in ends:
            oblige(ex, s, n, 'invariant', f'{sig}: invariant preserved', inv(s.env, c + 1, at(c + 1)))
        after = st.fork(); havoc(after, kinds)
        tot = z3.If(hi - lo > 0, hi - lo, 0)
        after.pc.append(inv(after.env, tot, at(tot)))
        after.env[var] = fresh_int(var)
        return [after]
    return handler


def _mps(name, L, d, kind):
    A = KSeq([z3.Const(f'{name}_{a}', ArrI) for a in range(3)], L, kind)
    return Obj('MPS', {'A': A, 'qD': LSeq(z3.Const(f'Q{name}', ArrI), L + 1), 'qd': QL(d), 'nsites': L, '#d': d})

def _mpo(name, L, d, kind):
    A = KSeq([z3.Const(f'{name}_{a}', ArrI) for a in range(4)], L, kind)
    return Obj('MPO', {'A': A, 'qD': LSeq(z3.Const(f'Q{name}', ArrI), L + 1), 'qd': QL(d), 'nsites': L, '#d': d})


def chain_contracts(kpsi, kop):
    L = z3.Int('L'); d = z3.Int('d'); k = z3.Int('k')
    psi = _mps('psi', L, d, kpsi); chi = _mps('chi', L, d, kpsi if kop == 'real' else 'complex'); op = _mpo('op', L, d, kop); rho = _mpo('rho', L, d, kpsi)
    wf = zshape.wf_shape; wfo = zshape.wf_shape_mpo
    Pl, Pr = psi.A.dims[1], psi.A.dims[2]; Cl, Cr = chi.A.dims[1], chi.A.dims[2]; Wl, Wr = op.A.dims[2], op.A.dims[3]; Rl = rho.A.dims[2]
    join = lambda *ks: [kk for kk in ('complex', 'real', 'int') if kk in ks][0]
    def T_is(env, i, dims):
        T = env['T']
        return z3.And(*[zint(x) == y for x, y in zip(T.shape, dims)]) if getattr(T, 'is_zarr', False) and T.ndim == len(dims) else z3.BoolVal(False)
    specs = []
    # after c iterations of `for i in reversed(range(n))` the next index is i = n-1-c and T carries the left bonds of site i+1,
    # i.e. the right bonds of site i  (for c = 0: the trailing bonds)
    def right_dims(i, *seqs):
        return [z3.If(i + 1 < L, s[i + 1], z3.IntVal(1)) for s in seqs]
    specs.append(dict(fn='operation.vdot', env={'chi': chi, 'psi': psi}, pre=[d >= 1, wf(psi, d), wf(chi, d)], carried=['T'],
                      inv={'for i in reversed(range(psi.nsites))': lambda e, c, i: T_is(e, i, right_dims(i, Pl, Cl))},
                      post=lambda ret, e: [('returns_a_scalar_of_the_joined_kind', z3.BoolVal(getattr(ret, 'is_zscal', False) and kind_le(join(kpsi, chi.A.kind), kind_of(ret))))]))
    specs.append(dict(fn='operation.operator_average', env={'psi': psi, 'op': op}, pre=[d >= 1, wf(psi, d), wfo(op, d)], carried=['T'],
                      inv={'for i in reversed(range(psi.nsites))': lambda e, c, i: T_is(e, i, right_dims(i, Pl, Wl, Pl))},
                      post=lambda ret, e: [('returns_a_scalar_of_the_joined_kind', z3.BoolVal(getattr(ret, 'is_zscal', False) and kind_le(join(kpsi, kop), kind_of(ret))))]))
    specs.append(dict(fn='operation.operator_inner_product', env={'chi': chi, 'op': op, 'psi': psi}, pre=[d >= 1, wf(psi, d), wf(chi, d), wfo(op, d)], carried=['T'],
                      inv={'for i in reversed(range(psi.nsites))': lambda e, c, i: T_is(e, i, right_dims(i, Pl, Wl, Cl))},
                      post=lambda ret, e: [('returns_a_scalar_of_the_joined_kind', z3.BoolVal(getattr(ret, 'is_zscal', False) and kind_le(join(kpsi, kop, chi.A.kind), kind_of(ret))))]))
    specs.append(dict(fn='operation.operator_density_average', env={'rho': rho, 'op': op}, pre=[d >= 1, wfo(rho, d), wfo(op, d)], carried=['T'],
                      inv={'for i in reversed(range(rho.nsites))': lambda e, c, i: T_is(e, i, right_dims(i, Rl, Wl))},
                      post=lambda ret, e: [('returns_a_scalar_of_the_joined_kind', z3.BoolVal(getattr(ret, 'is_zscal', False) and kind_le(join(kpsi, kop), kind_of(ret))))]))
    def br_inv(e, c, i):
        BR = e['BR']
        if not isinstance(BR, KSeq):
            return z3.BoolVal(False)
        return z3.And(BR.length == L, z3.ForAll([k], z3.Implies(z3.And(i < k, k < L), zshape.blk(BR, k, Pr[k], Wr[k]))))
    def br_post(ret, e):
        ok = isinstance(ret, KSeq)
        return [('block_shapes', z3.And(ret.length == L, z3.ForAll([k], z3.Implies(z3.And(0 <= k, k < L), zshape.blk(ret, k, Pr[k], Wr[k])))) if ok else z3.BoolVal(False)),
                ('blocks_hold_the_joined_kind', z3.BoolVal(ok and ret.kind is not None and kind_le(join(kpsi, kop), ret.kind)))]
    specs.append(dict(fn='operation.compute_right_operator_blocks', env={'psi': psi, 'op': op}, pre=[d >= 1, wf(psi, d), wfo(op, d)], carried=['BR'],
                      inv={'for i in reversed(range(L - 1))': br_inv}, post=br_post))
    return specs


CALLS_O = {nm: K_step(nm) for nm in STEPS}


def verify_chain(spec, tag):
    from . import smt
    smt.EXTERNAL[0] = True
    fn = spec['fn']; out = []; t0 = time.time()
    fnode = loader.function(fn)
    solver = Solver(); stale = []
    ex = Exec(lib=dict(LIB_O), calls=dict(CALLS_O), mode='Z', solver=solver, loop_handler=kind_loop_handler(spec['inv'], spec['carried'], stale), fname=fn)
    ex.check_dtypes = True
    st = State(dict(spec['env']), list(spec['pre']))
    key = fn.split('.')[-1]
    try:
        states = ex.block(fnode.body, [st])
    except Refuted as e:
        v = Verdict('executes' + tag, 'Z', 'refuted', str(e) + ' (needs native confirmation)', time.time() - t0, fn, 'safety', 'z3'); v.confirm = [key]
        return _obligations(ex, fn, key, tag) + [v]
    except Unsupported as e:
        return [Verdict('executes' + tag, 'Z', 'undecided', f'outside fragment: {e}', time.time() - t0, fn, 'safety', 'z3')]
    out += _obligations(ex, fn, key, tag)
    finals = [s for s in states if s.done and s.raised is None and solver.feasible(s.pc)]
    if not finals:
        out.append(Verdict('returns' + tag, 'Z', 'undecided', 'no returning path', 0, fn, 'ensures', 'z3'))
    agg = {}
    for s in finals:
        for name, f in spec['post'](s.ret, s.env):
            agg.setdefault(name, []).append(solver.implied([p for p in s.pc if is_z(p)], f, final=True))
    for name, rs in agg.items():
        status = 'discharged' if all(r is True for r in rs) else 'refuted' if any(r is False for r in rs) else 'undecided'
        v = Verdict(name + tag, 'Z', status, f'{len(rs)} return paths' + (' (needs native confirmation)' if status == 'refuted' else ''), 0, fn, 'ensures', 'z3')
        v.confirm = [key]
        out.append(v)
    tot = time.time() - t0
    for v in out:
        v.seconds = tot / max(1, len(out))
    return out


def verify(prop, only=None):
    """C04: everything; C08/C10 (sweeps) rely on the step contracts and compute_right_operator_blocks"""
    out = []
    steps = list(STEPS) if prop in ('C04', 'C19') else [s for s in STEPS if 'density' not in s and s not in ('contraction_step_right', 'contraction_step_left')]
    for name in steps:
        if only and only != name:
            continue
        n = len(STEPS[name])
        for kinds in (('real',) * n, ('complex',) * n, ('real',) * (n - 1) + ('complex',), ('complex',) + ('real',) * (n - 1)):
            try:
                out += verify_step(name, kinds)
            except Exception as e:
                import traceback
                out.append(Verdict('step_shapes', 'Z', 'undecided', f'executor error: {type(e).__name__}: {e} {traceback.format_exc()[-400:]}', 0, f'operation.{name}', 'ensures', 'z3'))
    for kpsi in KINDS:
        for kop in KINDS:
            for spec in chain_contracts(kpsi, kop):
                short = spec['fn'].split('.')[-1]
                if only and only != short:
                    continue
                if prop not in ('C04', 'C19') and short != 'compute_right_operator_blocks':
                    continue
                try:
                    out += verify_chain(spec, f' [state: {kpsi}, operator: {kop}]')
                except Exception as e:
                    import traceback
                    out.append(Verdict('chain_shapes', 'Z', 'undecided', f'executor error: {type(e).__name__}: {e} {traceback.format_exc()[-400:]}', 0, spec['fn'], 'ensures', 'z3'))
    return out
